"""C05 - a basis is a canonical, minimal, order-independent description of its class
(perm_sets/basis.py, perm_sets/permset.py Av.__new__/from_iterable/from_string/clear_cache)."""
import itertools

from core import fseq, fseqs, fcells, fbool, pseq, pcells, guarded
import c08
import past
import used

PROP = "C05"
RULE = ("a pattern list is one token (C08 pattern tokens joined by '+'); exhaustive: every sequence of <=3 perms of "
        "length <=3 (all orders, all repetitions), every sequence of <=2 perms of length <=4, every sequence of <=3 meshes "
        "of length <=1, every sequence of <=2 over meshes + bivincular/vincular/covincular objects of length <=1 + short perms; "
        "strings 0-/1-based; construction histories of Av; random: bases with planted containments up to length 6, meshes "
        "of length <=3 with planted sub-/super-shadings; non-trivial = at least two distinct patterns (lists), a non-empty "
        "digit string, or a history with >=2 constructions; distinct = distinct op lines"
        ' Hardening pass 2: stream `large` (bases around long permutations of length 9-12, 21-40, 64-70, ~200, ~401: near copies, copies with coinciding decimal rendering, planted sub-patterns near the ends, several long elements; mesh patterns of length 6-12 and 21-24 with their smallest containing patterns), `mesh-chains` / `exhaustive-mesh-short-long` (smallest containing mesh patterns, equal numbers of shaded boxes); input patterns are objects with a past (past.mkperm_u/mkmesh_u); the list handed to Av is changed afterwards; short-lived sibling objects are created and dropped between the two evaluations.')
ASSUMPTIONS = [
    "model/implementation agreement outside the enumerated and sampled inputs is assumed",
    "sorted() on the total order of permutations is modelled by List.mergeSort (any correct sort gives the same list); "
    "on mesh-type patterns by CPython's count_run + binary insertion (lists < 64 elements)",
    "avoidance classes are compared up to length 5 (classical) / 4 (mesh) in the props/mprops laws",
    "_CLASS_CACHE lookups with history-dependent hashes are realised with allocation churn between two constructions",
]
PARTIAL = []
TRUSTED = ["mesh-in-mesh containment in MeshBasis._pruner is the C06 model (Model.meshAvoidsAll / meshContainsItem), also "
           "exercised here by the meshin op; its soundness and completeness are C06's theorems, used by meshbasis_same_class"]

MESHK = "MBVC"


def worker_init():
    c08.worker_init()
    global Perm, MeshPatt, Basis, MeshBasis, Av
    from permuta import Perm, MeshPatt, Av
    from permuta.perm_sets.basis import Basis, MeshBasis


# ----------------------------------------------------------------------------- tokens
def toks(l):
    return [] if l == "-" else l.split("+")


def ftoks(ts):
    ts = list(ts)
    return "+".join(ts) if ts else "-"


def strip_tag(a):
    return [t for t in a if not t.startswith("#")]


def mval(tok):
    """(perm, frozenset cells) of a pattern token, classical patterns as unshaded meshes; None if malformed"""
    v = c08.value(tok)
    if v is None:
        return None
    if v[0] == "P":
        return (tuple(v[1]), frozenset())
    return (tuple(v[1]), v[2])


def fmesh(p, cells):
    return "%s/%s" % (fseq(p), fcells(cells))


def fmeshes(ms):
    ms = list(ms)
    return ";".join(fmesh(p, c) for p, c in ms) if ms else "-"


def tags(ts):
    """classification of a mesh input by what it contains (a function of the input alone; it marks the input families
    that exposed the defects repaired in ac444da / ae0427c / 0029024 and is kept so that the old replay lines stay valid):
    c: patterns of at least two different classes (a Perm counts as MeshPatt)
    s: two patterns on the same permutation, shading(p) a proper subset of shading(q), sorted(shading(q)) < sorted(shading(p))
    e: contains (eps,{(0,0)}), does not contain (eps,{}), and contains some other pattern"""
    out = ""
    cls = {("M" if t[0] == "P" else t[0]) for t in ts}
    if len(cls) >= 2:
        out += "c"
    vals = [mval(t) for t in ts]
    if any(v is None for v in vals):
        return ""
    vs = set(vals)
    if any(p[0] == q[0] and p[1] < q[1] and sorted(q[1]) < sorted(p[1]) for p in vs for q in vs):
        out += "s"
    e0 = ((), frozenset({(0, 0)}))
    if e0 in vs and ((), frozenset()) not in vs and len(vs) >= 2:
        out += "e"
    return out


def tagged(op, ts):
    t = tags(ts)
    return "%s %s%s" % (op, ftoks(ts), (" #" + t) if t else "")


# ----------------------------------------------------------------------------- brute force (property text)
def occs(p, s):
    n = len(p)
    for c in itertools.combinations(range(len(s)), n):
        vals = [s[i] for i in c]
        if all((p[x] < p[y]) == (vals[x] < vals[y]) for x in range(n) for y in range(n)):
            yield c


def _std(vals):
    srt = sorted(vals)
    rk = {v: i for i, v in enumerate(srt)}
    return tuple(rk[v] for v in vals)


def _ncomb(n, k):
    c = 1
    for i in range(k):
        c = c * (n - i) // (i + 1)
    return c


def contains_big(s, p):
    """containment for LONG inputs (the `large` stream): the definition is unchanged (some subsequence of s is
    order-isomorphic to p) but all-subsets-times-all-pairs is out of reach there, so: when there are few
    subsequences of the right length each one is standardised and compared; otherwise a depth-first search places
    the pattern's entries left to right, each new entry strictly between the values already chosen for the pattern
    entries just below and just above it.  Written for this oracle, shares nothing with the library's search."""
    k, n = len(p), len(s)
    if k > n:
        return False
    p = tuple(p)
    if _ncomb(n, k) <= 3000:
        return any(_std([s[i] for i in c]) == p for c in itertools.combinations(range(n), k))
    below = [max((i for i in range(j) if p[i] < p[j]), key=lambda i: p[i], default=None) for j in range(k)]
    above = [min((i for i in range(j) if p[i] > p[j]), key=lambda i: p[i], default=None) for j in range(k)]
    chosen = []

    def place(j, start):
        if j == k:
            return True
        a = s[chosen[below[j]]] if below[j] is not None else -1
        b = s[chosen[above[j]]] if above[j] is not None else n
        for i in range(start, n - (k - j) + 1):
            if a < s[i] < b:
                chosen.append(i)
                if place(j + 1, i + 1):
                    return True
                chosen.pop()
        return False
    return place(0, 0)


def contains(s, p):
    if len(s) > 9:
        return contains_big(s, p)
    return any(True for _ in occs(p, s))


def mesh_in_perm(m, s):
    """the mesh pattern m = (pi, R) occurs in the permutation s: an occurrence with no other point in a shaded cell"""
    p, R = m
    for c in occs(p, s):
        vals = sorted(s[i] for i in c)
        ok = True
        for i, v in enumerate(s):
            if i in c:
                continue
            x = sum(1 for j in c if j < i)
            y = sum(1 for w in vals if w < v)
            if (x, y) in R:
                ok = False
                break
        if ok:
            return True
    return False


def mesh_in_mesh(m, q):
    """(pi,R) is contained in (sigma,S): an occurrence of pi in sigma such that every shaded cell of R corresponds to a
    region of sigma's grid that is completely shaded in S and contains no point of sigma"""
    (p, R), (s, S) = m, q
    k, n = len(p), len(s)
    for c in occs(p, s):
        vals = sorted(s[i] for i in c)
        good = True
        for (x, y) in R:
            a_lo = c[x - 1] + 1 if x > 0 else 0
            a_hi = c[x] if x < k else n
            b_lo = vals[y - 1] + 1 if y > 0 else 0
            b_hi = vals[y] if y < k else n
            if any((a, b) not in S for a in range(a_lo, a_hi + 1) for b in range(b_lo, b_hi + 1)):
                good = False
                break
            if any(b_lo <= s[i] < b_hi for i in range(a_lo, a_hi)):
                good = False
                break
        if good:
            return True
    return False


def permkey(p):
    return (len(p), tuple(p))


def meshkey(m):
    return (len(m[0]), tuple(m[0]), sorted(m[1]))


def minimal_perms(ps):
    ps = set(map(tuple, ps))
    return sorted((q for q in ps if not any(p != q and contains(q, p) for p in ps)), key=permkey)


def minimal_meshes(ms):
    ms = set(ms)
    return sorted((q for q in ms if not any(p != q and mesh_in_mesh(p, q) for p in ms)), key=meshkey)


def all_perms_upto(n):
    return [p for k in range(n + 1) for p in itertools.permutations(range(k))]


def class_perms(ps, n):
    return [s for s in all_perms_upto(n) if not any(contains(s, p) for p in ps)]


def class_meshes(ms, n):
    return [s for s in all_perms_upto(n) if not any(mesh_in_perm(m, s) for m in ms)]


# ----------------------------------------------------------------------------- implementation
def _objs(l):
    """the input patterns of a line, as *used* objects (every second one is warmed up: hashed, compared,
    searched with - this fills whatever a pattern object memoises), built once per line (used.obj)"""
    return [used.obj((i, t), lambda t=t, i=i: _mk(t, i), c08.warm_value if i % 2 == 0 else None)
            for i, t in enumerate(toks(l))]


def _mk(t, salt):
    """the object a token denotes, as an object with a past (past.mkperm_u / mkmesh_u: fresh, used, or derived from
    a used object through another API route); other kinds and malformed tokens: the plain constructor"""
    if not _PAST[0]:
        if t[0] == "M":
            # the cells are handed over in an order that depends on the position of the token in the line (equal patterns
            # at different positions are equal objects built differently: CPython iterates a set in insertion order
            # when entries collide)
            p, c = t[1:].split("/")
            if used.is_perm(pseq(p)):
                from permuta import MeshPatt, Perm
                return MeshPatt(Perm(pseq(p)), past._shading(pcells(c), (tuple(pseq(p)), salt)))
        return c08.build(t)
    if t[0] == "P":
        v = pseq(t[1:])
        if used.is_perm(v):
            return past.mkperm_u(v, salt)
    elif t[0] == "M":
        p, c = t[1:].split("/")
        if used.is_perm(pseq(p)):
            return past.mkmesh_u(pseq(p), pcells(c), salt)
    return c08.build(t)


def _mv(o):
    return (tuple(o.pattern), frozenset(o.shading))


def impl_props(l):
    ps = _objs(l)
    tup = lambda b: tuple(tuple(p) for p in b)  # noqa: E731
    b = tup(Basis(*ps))
    if tup(Basis(*reversed(ps))) != b:
        return "order"
    if tup(Basis(*(ps + ps))) != b or tup(Basis(*(ps + ps[::-1] + ps))) != b:
        return "dedup"
    if tup(Basis(*[Perm(p) for p in b])) != b:
        return "fixed"
    if len(set(b)) != len(b) or any(p != q and contains(p, q) for p in b for q in b):
        return "antichain"
    if class_perms(b, 5) != class_perms([tuple(p) for p in ps], 5):
        return "class"
    return "ok"


def impl_mprops(l):
    def res(objs):
        try:
            return [_mv(m) for m in MeshBasis(*objs)]
        except TypeError:
            return None
    objs = _objs(l)
    try:
        bobj = MeshBasis(*objs)
    except TypeError:
        return "raises"
    b = [_mv(m) for m in bobj]
    if res(objs[::-1]) != b:
        return "order"
    if res(objs + objs) != b:
        return "dedup"
    if res(list(bobj)) != b:
        return "fixed"
    # the same patterns built again, every shading with its cells inserted in another order (equal objects): the same
    # basis - as a tuple, so with the same element order - and the same hash
    from permuta import MeshPatt as _MP
    for rot in (1, 2):
        again = []
        for o in objs:
            if isinstance(o, _MP) and type(o) is _MP and len(o.shading) > 1:
                cs = sorted(o.shading)
                cs = cs[rot % len(cs):] + cs[:rot % len(cs)]
                again.append(_MP(o.pattern, frozenset(cs[::-1] if rot == 2 else cs)))
            else:
                again.append(o)
        try:
            b2 = MeshBasis(*again)
        except TypeError:
            return "rebuilt-raises"
        if [_mv(m) for m in b2] != b or b2 != bobj or hash(b2) != hash(bobj):
            return "rebuilt"
    if len(set(b)) != len(b) or any(p != q and mesh_in_mesh(q, p) for p in b for q in b):
        return "antichain"
    inp = [(tuple(o), frozenset()) if isinstance(o, Perm) else _mv(o) for o in objs]
    if class_meshes(b, 4) != class_meshes(inp, 4):
        return "class"
    return "ok"


def impl_avhist(items):
    Av.clear_cache()
    seen, outs, keep = [], [], []
    try:
        for it in items:
            c08.churn(keep)
            if it == "X":
                Av.clear_cache()
                outs.append("-")
                continue

            def f():
                if it.startswith("F="):
                    return Av.from_string(it[2:])
                return Av(_objs(it[1:]))
            try:
                av = f()
            except (ValueError, TypeError, AssertionError) as e:
                outs.append("ERR:" + type(e).__name__)
                continue
            for i, o in enumerate(seen):
                if o is av:
                    outs.append(str(i))
                    break
            else:
                seen.append(av)
                outs.append(str(len(seen) - 1))
    finally:
        Av.clear_cache()
    return "|".join(outs)


_TWICE = ("basis", "mbasis", "meshin", "fromstr", "strshift", "avbasis")


def _neighbours(op, a):
    """warm-up with a DIFFERENT nearby argument: the same constructor on the input without its last pattern and
    on the reversed input (fresh objects; results discarded; class-level tables keep whatever they keep)"""
    if op not in ("basis", "mbasis", "avbasis") or not a:
        return
    ts = toks(a[0])
    for sub in (ts[:-1], ts[::-1][:2]):
        if not sub:
            continue
        try:
            objs = [c08.build(t) for t in sub]
            if op == "basis":
                Basis(*objs)
            elif op == "mbasis":
                MeshBasis(*objs)
            else:
                Av(objs).basis
        except Exception:  # pylint: disable=broad-except
            pass


_PAST = [True]


def impl(op, a):
    a = strip_tag(a)
    used.begin()
    # objects with a past on every line of the small streams' long lists and a deterministic third of the others
    _PAST[0] = used.sel(op, a, 3) or (bool(a) and len(a[0]) > 60)
    if op not in _TWICE:
        return _impl(op, a)
    try:
        _neighbours(op, a)
        r1 = _impl(op, a)
        if used.sel(op, a, 12):
            # many short-lived patterns of the same kinds and sizes are created, used and collected in between
            used.ghosts([o for _, o in used.T.objs][:4], 8)
        used.T.rewind()
        r2 = _impl(op, a)           # the same constructor call on the same, now used, pattern objects
    finally:
        if op == "avbasis":
            Av.clear_cache()
    return r1 if r1 == r2 else used.unstable(r1, r2)


def _impl(op, a):
    if op == "basis":
        if any(t[0] != "P" for t in toks(a[0])):
            return "unsupported"
        return guarded(lambda: fseqs(Basis(*_objs(a[0]))))
    if op == "props":
        if any(t[0] != "P" for t in toks(a[0])):
            return "unsupported"
        return guarded(lambda: impl_props(a[0]))
    if op == "fromstr":
        return guarded(lambda: fseqs(Basis.from_string(a[0][1:])))
    if op == "strshift":
        s = a[0][1:]
        t = "".join(chr(ord(ch) + 1) if ch in "012345678" else ch for ch in s)
        return guarded(lambda: fbool(tuple(Basis.from_string(s)) == tuple(Basis.from_string(t))))
    if op == "mbasis":
        # the order of the tuple is not constrained by the property (only that it is the same for every input
        # order - the `order` law of mprops compares the raw tuples): printed in a canonical order
        return guarded(lambda: fmeshes(sorted((_mv(m) for m in MeshBasis(*_objs(a[0]))), key=meshkey)))
    if op == "mprops":
        return guarded(lambda: impl_mprops(a[0]))
    if op == "meshin":
        return guarded(lambda: fbool(used.obj((1, a[1]), lambda: _mk(a[1], 1), c08.warm_value).contains(
            used.obj((0, a[0]), lambda: _mk(a[0], 0), c08.warm_value))))
    if op == "avbasis":
        def f():
            lst = _objs(a[0])
            av = Av(lst)                   # impl() clears the class table after the second evaluation
            lst.reverse()                  # the list that was passed in is changed afterwards: the class is not
            lst.extend(lst[:1])
            del lst[:2]
            b = av.basis
            if isinstance(b, Basis):
                return "S" + fseqs(b)
            return "T" + ("+".join("M" + fmesh(*m) for m in sorted((_mv(m) for m in b), key=meshkey)) if len(b) else "-")
        return guarded(f)
    if op == "avhist":
        return guarded(lambda: impl_avhist(a))
    raise ValueError("unknown op " + op)


# ----------------------------------------------------------------------------- oracle
def _runs(s):
    out, cur = [], ""
    for ch in s:
        if ch in "0123456789":
            cur += ch
        else:
            if cur:
                out.append(cur)
            cur = ""
    if cur:
        out.append(cur)
    return out


def _run_perm(r):
    d = [int(ch) for ch in r]
    if sorted(d) == list(range(len(d))):
        return tuple(d)
    if sorted(d) == list(range(1, len(d) + 1)):
        return tuple(x - 1 for x in d)
    return None


def oracle(op, a):
    a = strip_tag(a)
    if op in ("basis", "props"):
        ts = toks(a[0])
        if any(t[0] != "P" for t in ts):
            return "unsupported"
        if op == "props":
            return "ok"
        return fseqs(minimal_perms([pseq(t[1:]) for t in ts]))
    if op == "fromstr":
        ps = [_run_perm(r) for r in _runs(a[0][1:])]
        if any(p is None for p in ps):
            return None          # not a 0-/1-based permutation: the property says nothing
        return fseqs(minimal_perms(ps))
    if op == "strshift":
        return "T"
    if op in ("mbasis", "mprops"):
        vals = [mval(t) for t in toks(a[0])]
        if any(v is None for v in vals):
            return None
        if op == "mprops":
            return "ok"
        return fmeshes(minimal_meshes(vals))
    if op == "meshin":
        p, h = mval(a[0]), mval(a[1])
        if p is None or h is None:
            return None
        return fbool(mesh_in_mesh(p, h))
    if op == "avbasis":
        ts = toks(a[0])
        vals = [mval(t) for t in ts]
        if any(v is None for v in vals):
            return None
        if not ts:
            return "ERR:ValueError"
        if all(t[0] == "P" for t in ts):
            b = minimal_perms([v[0] for v in vals])
            return "ERR:ValueError" if b == [()] else "S" + fseqs(b)
        if any(len(v[0]) == 0 for v in vals):
            return None
        return "T" + "+".join("M" + fmesh(*m) for m in minimal_meshes(vals))
    if op == "avhist":
        # equal bases denote the same class object (since the last clear_cache)
        cache, outs, nxt = {}, [], 0
        for it in a:
            if it == "X":
                cache = {}
                outs.append("-")
                continue
            if it.startswith("F="):
                ps = [_run_perm(r) for r in _runs(it[2:])]
                if any(p is None for p in ps):
                    return None
                key = ("S", tuple(minimal_perms(ps)))
            else:
                ts = toks(it[1:])
                vals = [mval(t) for t in ts]
                if any(v is None for v in vals):
                    return None
                if all(t[0] == "P" for t in ts):
                    key = ("S", tuple(minimal_perms([v[0] for v in vals])))
                else:
                    if any(len(v[0]) == 0 for v in vals):
                        return None
                    key = ("T", tuple((m[0], tuple(sorted(m[1]))) for m in minimal_meshes(vals)))
            if key[1] == () or key == ("S", ((),)):
                outs.append("ERR:ValueError")
                continue
            if key not in cache:
                cache[key] = nxt
                nxt += 1
            outs.append(str(cache[key]))
        return "|".join(outs)
    return None


def nontrivial(op, a, out):
    a = strip_tag(a)
    if op in ("basis", "props", "mbasis", "mprops", "avbasis"):
        return len(set(toks(a[0]))) >= 2
    if op in ("fromstr", "strshift"):
        return len(_runs(a[0])) >= 1
    if op == "avhist":
        return sum(1 for it in a if it != "X") >= 2
    return True


# ----------------------------------------------------------------------------- generators
def perms(n):
    return itertools.permutations(range(n))


def ptok(p):
    return "P" + fseq(p)


def rand_perm(rng, n):
    l = list(range(n))
    rng.shuffle(l)
    return tuple(l)


def insert_point(rng, p):
    n = len(p)
    i, v = rng.randrange(n + 1), rng.randrange(n + 1)
    q = [x + 1 if x >= v else x for x in p]
    q.insert(i, v)
    return tuple(q)


def sym(rng, p):
    n = len(p)
    m = rng.randrange(4)
    if m == 0:
        return tuple(reversed(p))
    if m == 1:
        return tuple(n - 1 - x for x in p)
    if m == 2:
        inv = [0] * n
        for i, x in enumerate(p):
            inv[x] = i
        return tuple(inv)
    return p


def rand_basis_tokens(rng):
    k = rng.randrange(1, 6)
    ps = []
    for _ in range(k):
        r = rng.random()
        if ps and r < 0.35:
            q = rng.choice(ps)
            for _ in range(rng.randrange(1, 3)):
                if len(q) < 6:
                    q = insert_point(rng, q)
            ps.append(q)
        elif ps and r < 0.5:
            ps.append(sym(rng, rng.choice(ps)))
        elif ps and r < 0.6:
            ps.append(rng.choice(ps))
        else:
            ps.append(rand_perm(rng, rng.randrange(1, 6)))
    rng.shuffle(ps)
    return [ptok(p) for p in ps]


def rand_mesh_tokens(rng, one_class):
    k = rng.randrange(1, 5)
    out = []
    base = rand_perm(rng, rng.randrange(1, 4))
    for _ in range(k):
        r = rng.random()
        p = base if r < 0.6 else rand_perm(rng, rng.randrange(0, 4))
        n = len(p)
        if out and r < 0.4:
            # planted sub-/super-shading of an earlier pattern on the same permutation
            q, cells = mval(rng.choice(out))
            cells = set(cells)
            allc = [(x, y) for x in range(len(q) + 1) for y in range(len(q) + 1)]
            for _ in range(rng.randrange(1, 3)):
                c = rng.choice(allc)
                cells ^= {c}
            out.append(c08.mtok(q, cells))
            continue
        if out and rng.random() < 0.2:
            # planted redundant longer pattern with the smallest possible shading (super_mesh)
            q, cells = mval(rng.choice(out))
            sm = super_mesh(rng, q, cells, rng.choice((0.0, 0.0, 0.1))) if len(q) <= 3 else None
            if sm is not None:
                out.append(c08.mtok(*sm))
                continue
        if out and rng.random() < 0.25:
            # planted redundant longer pattern: a (possibly lexicographically smaller) container of an
            # earlier pattern's permutation, together with the unshaded/classical form of the latter
            q, _ = mval(rng.choice(out))
            q2 = q
            for _ in range(rng.randrange(1, 3)):
                if len(q2) < 4:
                    q2 = insert_point(rng, q2)
            if len(q2) > len(q):
                out.append(ptok(q) if not one_class else c08.mtok(q, []))
                m = len(q2)
                cells = [(x, y) for x in range(m + 1) for y in range(m + 1) if rng.random() < rng.choice((0.0, 0.1, 0.3))]
                out.append(c08.mtok(q2, cells))
                continue
        if one_class or rng.random() < 0.6:
            cells = [(x, y) for x in range(n + 1) for y in range(n + 1) if rng.random() < rng.choice((0.1, 0.3, 0.5))]
            out.append(c08.mtok(p, cells))
        elif rng.random() < 0.3:
            out.append(ptok(p))
        else:
            out.append(c08.rand_mesh_tok(rng, p))
    return out


def super_mesh(rng, p, cells, extra=0.0):
    """a mesh pattern one point longer that contains (p, cells): a new point is put into an unshaded box (x, y) and
    every shaded box of the short pattern becomes the block of boxes it is cut into (boxes in column x / row y are
    cut in two) - the SMALLEST shading with which the long pattern still contains the short one; `extra` adds
    further boxes.  When the shaded boxes avoid column x and row y the two patterns have equally many of them."""
    n = len(p)
    free = [(x, y) for x in range(n + 1) for y in range(n + 1) if (x, y) not in cells]
    if not free:
        return None
    # prefer a box whose row and column carry no shading (equal numbers of shaded boxes), when there is one
    clean = [(x, y) for x, y in free if not any(cx == x or cy == y for cx, cy in cells)]
    x, y = rng.choice(clean) if clean and rng.random() < 0.6 else rng.choice(free)
    q = [v + 1 if v >= y else v for v in p]
    q.insert(x, y)
    xs = lambda c: [c] if c < x else [c + 1] if c > x else [c, c + 1]  # noqa: E731
    ys = lambda r: [r] if r < y else [r + 1] if r > y else [r, r + 1]  # noqa: E731
    big = {(c2, r2) for c, r in cells for c2 in xs(c) for r2 in ys(r)}
    if extra:
        big |= {(c, r) for c in range(n + 2) for r in range(n + 2) if rng.random() < extra}
    return tuple(q), big


def std_sub(p, idx):
    sub = [p[i] for i in idx]
    srt = sorted(sub)
    return tuple(srt.index(v) for v in sub)


def long_family(rng, n, short_ok):
    """a pattern list around one long permutation of length n: the permutation, near copies that differ from it by
    one adjacent transposition / one entry moved by a few positions (at either end and in the middle), copies whose
    decimal rendering coincides (a value >= 10 next to its own digits, before or after them), sub-patterns with one
    or two points deleted near the ends (the long one is then redundant), other long permutations of the same and of
    neighbouring lengths, repetitions; `short_ok`: also short patterns (planted occurrences using the first / last
    entries, and random ones)"""
    a = list(rand_perm(rng, n))
    if n >= 11 and rng.random() < 0.5:
        # value v >= 10 placed next to its own decimal digits d1 d2
        v = rng.choice([w for w in range(10, min(n, 99)) if w // 10 != w % 10 and w % 10 < n])
        d1, d2 = v // 10, v % 10
        rest = [w for w in a if w not in (v, d1, d2)]
        i = rng.choice([0, len(rest), rng.randrange(len(rest) + 1)])
        a = rest[:i] + [v, d1, d2] + rest[i:]
        sib = rest[:i] + [d1, d2, v] + rest[i:]
        fam = [tuple(a), tuple(sib)]
        if rng.random() < 0.5:
            fam.append(tuple(rest[:i] + [d1, v, d2] + rest[i:]))
    else:
        fam = [tuple(a)]
    for _ in range(rng.randrange(0, 3)):
        b = list(a)
        i = rng.choice([0, n - 2, rng.randrange(n - 1)])
        if rng.random() < 0.5:
            b[i], b[i + 1] = b[i + 1], b[i]
        else:
            w = b.pop(i)
            b.insert(min(n - 1, i + rng.randrange(1, 4)), w)
        fam.append(tuple(b))
    r = rng.random()
    if r < 0.45:
        drop = set(rng.sample([0, 1, n - 2, n - 1, rng.randrange(n)], rng.randrange(1, 3)))
        fam.append(std_sub(a, [i for i in range(n) if i not in drop]))
    elif r < 0.6:
        fam.append(rand_perm(rng, rng.choice([n, n, n - 1, n + 1])))
    if short_ok:
        r = rng.random()
        if r < 0.35:
            k = rng.randrange(2, 6)
            ends = [0, 1, n - 2, n - 1]
            idx = sorted(set(rng.sample(ends, 2) + rng.sample(range(n), k - 2)))
            fam.append(std_sub(a, idx))
        elif r < 0.6:
            fam.append(rand_perm(rng, rng.randrange(3, 7)))
        elif r < 0.7:
            fam.append(rand_perm(rng, rng.randrange(9, 13)))
    if rng.random() < 0.3:
        fam.append(rng.choice(fam))
    rng.shuffle(fam)
    return fam


def run(ctx):
    rng = ctx.rng
    quick = ctx.tier == "quick"
    ctx.exhaustive = True
    ctx.exhaustive_bound = ("Basis: all sequences of <=3 perms of length <=3 and of <=2 perms of length <=4; MeshBasis: all "
                            "sequences of <=3 over the 18 meshes of length <=1, all sequences of <=2 over 18 meshes + 24 "
                            "bivincular/vincular/covincular objects of length <=1 + 4 perms; strings: every perm of length <=4 "
                            "0-based and 1-based")
    ctx.compare("corpus", [
        "basis P0,1+P1,0+P0,1", "basis P0,1,2+P0,1+P_", "basis -", "basis P_", "basis P1,0,2+P0,2,1+P0,1",
        "mbasis M0,1/1.1+M0,1/0.0,1.1 #s", "mprops M0,1/1.1+M0,1/0.0,1.1 #s", "mbasis M_/0.0+M0,1/_+P1,0 #e",
        "mprops M_/0.0+M0,1/_+P1,0 #e", "mbasis V0,1/1+C0,1/1 #c", "mprops V0,1/1+C0,1/1 #c", "mbasis M0,1/_+B0,1/1/_ #c",
        "mbasis B0,1/1/_+M0,1/_ #c", "mbasis -", "mbasis M_/_+M0/_", "fromstr =123_321", "fromstr =012_210", "fromstr =",
        "fromstr =1", "fromstr =0", "strshift =012_210", "avbasis P0,1", "avbasis -", "avbasis P_", "avbasis P0,1+P_",
        "avhist AP0,1 AP0,1+P0,1,2 F=12 X AP0,1", "avhist AM0,1/1.1 AM0,1/1.1 AP0,1", "avhist AV0,1/1 AV0,1/1",
        "meshin M0/0.0 M0/0.0,0.1", "meshin M0/0.0 M0,1/0.0,0.1,0.2", "meshin M0,1/1.1 M0,1/0.0,1.1",
    ])
    P3 = [ptok(p) for n in range(4) for p in perms(n)]
    P4 = [ptok(p) for n in range(5) for p in perms(n)]
    lines = []
    for k in range(0, 4):
        for t in itertools.product(P3, repeat=k):
            for op in ("basis", "props", "avbasis"):
                lines.append("%s %s" % (op, ftoks(t)))
    for t in itertools.product(P4, repeat=2):
        if any(len(x) > 6 for x in t):   # at least one of length 4
            lines.append("basis " + ftoks(t))
            lines.append("props " + ftoks(t))
    for _ in range(300 if quick else 3000):
        t = [rng.choice(P3) for _ in range(rng.randrange(4, 7))]
        lines.append("basis " + ftoks(t))
        lines.append("props " + ftoks(t))
    ctx.compare("exhaustive-basis", lines)
    # mesh
    M1 = [c08.mtok((), c) for c in c08.subsets([(0, 0)])]
    M1 += [c08.mtok((0,), c) for c in c08.subsets([(0, 0), (0, 1), (1, 0), (1, 1)])]
    BV = [c08.btok((), i, v) for i in c08.subsets([0]) for v in c08.subsets([0])]
    BV += [c08.btok((0,), i, v) for i in c08.subsets([0, 1]) for v in c08.subsets([0, 1])]
    BV = BV[:12] + [c08.vtok((), i) for i in c08.subsets([0])] + [c08.vtok((0,), i) for i in c08.subsets([0, 1])] \
        + [c08.ctok((), v) for v in c08.subsets([0])] + [c08.ctok((0,), v) for v in c08.subsets([0, 1])]
    lines = []
    for k in range(1, 4):
        for t in itertools.product(M1, repeat=k):
            lines.append(tagged("mbasis", t))
            lines.append(tagged("mprops", t))
    mixed = M1 + BV + [ptok(p) for p in [(), (0,), (0, 1), (1, 0)]]
    for k in range(1, 3):
        for t in itertools.product(mixed, repeat=k):
            lines.append(tagged("mbasis", t))
            lines.append(tagged("mprops", t))
            if k == 2 and rng.random() < 0.2:
                lines.append(tagged("avbasis", t))
    for _ in range(1500 if quick else 20000):
        t = [rng.choice(mixed) for _ in range(3)]
        lines.append(tagged("mbasis", t))
        lines.append(tagged("mprops", t))
    ctx.compare("exhaustive-meshbasis", lines)
    # every mesh of length <= 1 together with every mesh of length 2 that has at most two shaded boxes, both orders
    # (one shaded box: all of them; two: a sample)
    M2 = [c08.mtok(p, c) for p in perms(2) for k in range(3)
          for c in itertools.combinations([(x, y) for x in range(3) for y in range(3)], k)]
    lines = []
    for x in M1:
        for y in M2:
            if y.count(".") <= 1 or rng.random() < (0.12 if quick else 1.0):
                lines.append(tagged("mbasis", (x, y)))
                lines.append(tagged("mprops", (y, x)))
    ctx.compare("exhaustive-mesh-short-long", lines)
    # mesh-in-mesh (the pruner's test) on all pairs of short meshes and sampled length 2/3
    lines = ["meshin %s %s" % (x, y) for x in M1 for y in M1]
    lines += ["meshin M_/0.0 M0,1/0.0,0.1,0.2,1.0,1.1,1.2,2.0,2.1,2.2", "meshin M_/_ M0,1/1.1", "meshin M_/0.0 M_/0.0"]
    for _ in range(1500 if quick else 15000):
        h = c08.rand_mesh_tok(rng, rand_perm(rng, rng.randrange(1, 5)))
        hv = mval(h)
        if rng.random() < 0.6 and len(hv[0]) >= 1:
            # plant: delete a point of the host, keep a random subset of the induced shading
            idx = sorted(rng.sample(range(len(hv[0])), rng.randrange(1, len(hv[0]) + 1)))
            sub = [hv[0][i] for i in idx]
            pp = tuple(sorted(sub).index(v) for v in sub)
            cells = [(x, y) for x in range(len(pp) + 1) for y in range(len(pp) + 1) if rng.random() < 0.25]
            p = c08.mtok(pp, cells)
        else:
            p = c08.rand_mesh_tok(rng, rand_perm(rng, rng.randrange(1, 4)))
        lines.append("meshin M%s M%s" % (fmesh(*mval(p)), fmesh(*hv)))
    ctx.compare("meshin", lines)
    # strings
    lines = []
    seps = ["_", ",", ";", "|", "..", "/", "a", ")("]
    for n in range(1, 5):
        for p in perms(n):
            z, o = "".join(map(str, p)), "".join(str(x + 1) for x in p)
            lines += ["fromstr =" + z, "fromstr =" + o, "strshift =" + z]
    for _ in range(400 if quick else 4000):
        k = rng.randrange(1, 5)
        ps = [rand_perm(rng, rng.randrange(1, 6)) for _ in range(k)]
        base = rng.randrange(2)
        s = rng.choice(seps).join("".join(str(x + base) for x in p) for p in ps)
        if rng.random() < 0.3:
            s = rng.choice(seps) + s + rng.choice(seps)
        lines.append("fromstr =" + s)
        lines.append("strshift =" + "".join(str(x) for x in rand_perm(rng, rng.randrange(1, 8))) + rng.choice(seps)
                     + "".join(str(rng.randrange(9)) for _ in range(rng.randrange(1, 6))))
    ctx.compare("strings", lines)
    # Av construction histories
    lines = []
    small = P3[1:] + ["P0,1,2,3", "P3,2,1,0"]
    mstable = [c08.mtok((0, 1), []), c08.mtok((0, 1), [(1, 1)]), c08.mtok((1, 0), [(0, 0)]), c08.mtok((0,), [(0, 1)]),
               c08.mtok((0, 1, 2), [(0, 0), (3, 3)]), c08.mtok((1, 0), [(2, 2), (0, 0)])]
    vunst = [c08.vtok((0, 1), [1]), c08.vtok((1, 0), [0, 2]), c08.ctok((0, 1), [1]), c08.btok((0, 1), [1], [2])]
    for _ in range(500 if quick else 5000):
        items = []
        for _ in range(rng.randrange(2, 7)):
            r = rng.random()
            if r < 0.1:
                items.append("X")
            elif r < 0.25:
                ps = [rand_perm(rng, rng.randrange(1, 4)) for _ in range(rng.randrange(1, 3))]
                b = rng.randrange(2)
                items.append("F=" + "_".join("".join(str(x + b) for x in p) for p in ps))
            elif r < 0.75:
                items.append("A" + ftoks(rng.choice(small) for _ in range(rng.randrange(0, 4))))
            elif r < 0.92:
                t = [rng.choice(mstable) for _ in range(rng.randrange(1, 3))]
                if tags(t) == "":
                    items.append("A" + ftoks(t))
            else:
                items.append("A" + ftoks([rng.choice(vunst)]))
        if items:
            lines.append("avhist " + " ".join(items))
    # the same basis written once with a bivincular-type object and once with the EQUAL plain MeshPatt (whole columns /
    # rows shaded), alone or next to a classical pattern, in either order, with other classes in between: equal bases,
    # so one class object (an equal pattern of another class that hashes differently splits the class table; seed C05-10)
    def _as_mesh(p, I, V):
        k = len(p)
        return c08.mtok(p, sorted(set((i, y) for i in I for y in range(k + 1)) | set((x, v) for v in V for x in range(k + 1))))
    twins = []
    for p in [(0, 1), (1, 0), (0, 2, 1), (1, 0, 2), (0,)]:
        k = len(p)
        for _ in range(3):
            I = sorted(j for j in range(k + 1) if rng.random() < 0.4)
            V = sorted(j for j in range(k + 1) if rng.random() < 0.4)
            twins.append((c08.btok(p, I, V), _as_mesh(p, I, V)))
            if I:
                twins.append((c08.vtok(p, I), _as_mesh(p, I, [])))
            if V:
                twins.append((c08.ctok(p, V), _as_mesh(p, [], V)))
    twins += [(c08.btok((0, 2, 1), [1], [2]), _as_mesh((0, 2, 1), [1], [2])), (c08.vtok((1, 0), [1]), _as_mesh((1, 0), [1], []))]
    for bt, mt in twins:
        extra = rng.choice([[], ["P0,1,2,3"], ["P3,2,1,0"], ["P0,1,2,3", "P2,1,0,3"]])
        a1, a2 = [bt] + extra, extra[::-1] + [mt]
        if rng.random() < 0.5:
            a1, a2 = a2, a1
        mid = ["A" + ftoks([rng.choice(small)])] if rng.random() < 0.5 else []
        lines.append("avhist " + " ".join(["A" + ftoks(a1)] + mid + ["A" + ftoks(a2), "A" + ftoks(a1[::-1])]))
    ctx.compare("av-histories", lines)
    # random large
    lines = []
    for _ in range(1500 if quick else 20000):
        t = rand_basis_tokens(rng)
        lines.append("basis " + ftoks(t))
        if rng.random() < 0.5:
            lines.append("props " + ftoks(t))
        if rng.random() < 0.3:
            lines.append("avbasis " + ftoks(t))
    for _ in range(1200 if quick else 15000):
        t = rand_mesh_tokens(rng, one_class=rng.random() < 0.7)
        lines.append(tagged("mbasis", t))
        lines.append(tagged("mprops", t))
    ctx.compare("random-planted", lines)
    # chains of smallest containing patterns: m, super_mesh(m), super_mesh(super_mesh(m)), ... up to length 5
    lines = []
    for _ in range(250 if quick else 3000):
        p = rand_perm(rng, rng.randrange(0, 4))
        n = len(p)
        cells = {(x, y) for x in range(n + 1) for y in range(n + 1) if rng.random() < rng.choice((0.1, 0.2, 0.4))}
        chain = [(p, cells)]
        while len(chain[-1][0]) < 5 and rng.random() < 0.7:
            sm = super_mesh(rng, chain[-1][0], chain[-1][1], rng.choice((0.0, 0.0, 0.05)))
            if sm is None:
                break
            chain.append(sm)
        t = [c08.mtok(q, c) for q, c in chain]
        if rng.random() < 0.3:
            t.append(ptok(rand_perm(rng, rng.randrange(2, 4))))
        rng.shuffle(t)
        lines.append(tagged("mbasis", t))
        if max(len(q) for q, _ in chain) <= 4:
            lines.append(tagged("mprops", t))
        if len(chain) >= 2:
            lines.append("meshin %s %s" % (c08.mtok(*chain[0]), c08.mtok(*chain[-1])))
            lines.append("meshin %s %s" % (c08.mtok(*chain[-2]), c08.mtok(*chain[-1])))
    ctx.compare("mesh-chains", lines)
    # sizes the other streams never reach: bases around long permutations, at several scales.  An operation is used
    # at a scale only where implementation, oracle and model all need well under 0.2 s per line (measured: the model
    # needs 0.3 s for a pattern of length 5 in one of length 40 and 2-40 s in one of length 70): short patterns are
    # searched for in long ones up to length 40 (`props`, which builds five bases, up to length 12); from 64 on the
    # lists hold long elements only.  Top scale 401 (three lines, 0.3-1.3 s each on implementation and model); at
    # 700 the model needs 6 s a line and at 1000 the library's recursive search sits at the interpreter's recursion
    # limit (RecursionError under the harness' own stack frames, fine in a bare interpreter).
    lines = []
    scales = [(9, 12, 45, True), (21, 40, 24, True), (64, 70, 8, False), (199, 202, 3, False), (400, 403, 3, False)]
    for lo, hi, cnt, short_ok in scales:
        for _ in range(cnt if quick else cnt * 8):
            n = rng.randrange(lo, hi + 1)
            t = [ptok(p) for p in long_family(rng, n, short_ok)]
            lines.append("basis " + ftoks(t))
            if n <= 12 or (n <= 70 and all(len(pseq(x[1:])) >= 9 for x in t)):
                lines.append("props " + ftoks(t))
            if rng.random() < 0.4:
                lines.append("avbasis " + ftoks(t))
    for n in (11, 12, 33, 65):     # fixed members: monotone and near-monotone long patterns together
        ide, rev = tuple(range(n)), tuple(range(n - 1, -1, -1))
        near = (1, 0) + tuple(range(2, n))
        lines.append("basis " + ftoks(ptok(p) for p in (rev, near, ide, ide)))
        lines.append("props " + ftoks(ptok(p) for p in (near, ide, rev)))
        lines.append("basis " + ftoks(ptok(p) for p in (ide, tuple(range(n - 1)), rev, (2, 1, 0))))
    # mesh patterns of length 6-12 and 21-24 with their smallest containing patterns one and two points longer
    for lo, hi, cnt in ((6, 12, 24), (21, 24, 6)):
        for _ in range(cnt if quick else cnt * 8):
            n = rng.randrange(lo, hi + 1)
            p = rand_perm(rng, n)
            cells = {(x, y) for x in range(n + 1) for y in range(n + 1) if rng.random() < rng.choice((0.02, 0.1))}
            chain = [(p, cells)]
            for _ in range(rng.randrange(1, 3)):
                sm = super_mesh(rng, chain[-1][0], chain[-1][1], rng.choice((0.0, 0.0, 0.01)))
                if sm is not None:
                    chain.append(sm)
            t = [c08.mtok(q, c) for q, c in chain] + [c08.mtok(p, cells ^ {(0, n)})]
            rng.shuffle(t)
            lines.append(tagged("mbasis", t))
            lines.append(tagged("mprops", t))
            lines.append("meshin %s %s" % (c08.mtok(*chain[0]), c08.mtok(*chain[-1])))
            lines.append("meshin %s %s" % (c08.mtok(*chain[-1]), c08.mtok(*chain[0])))
    ctx.compare("large", lines)
    ctx.compare("malformed", ["basis M0/_", "props P0+M0/_", "mbasis M0/5.5", "mbasis V0/3", "avbasis M0/2.2",
                              "fromstr =abc", "fromstr =9", "fromstr =11", "fromstr =3,1",
                              "avbasis M_/_", "avbasis M_/0.0+P0,1 #e"])
