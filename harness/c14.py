"""C14 - pin words: decoding, enumeration, tables, translations, quadrant, containment in words
(permuta/permutils/pin_words.py 25-261, pinword_util.py)."""
import itertools
import re

from core import fseq, fseqs, fbool, pseq, guarded
import used
import past

PROP = "C14"
RULE = ("exhaustive: every word of the generator's language up to length N (decode, quadrant of every index, "
        "factorisation, strictness), the enumeration and the three tables for every length <= N, every "
        "numeral+directions word and every direction word up to length 7 (translations and round trips), the "
        "containment iff (pw_pcont / pw_pcontnt: one line = one word w against ALL permutations of one length k) "
        "for all strict w <= S and all w <= A, k <= 4; all ordered language pairs (|w|<=3,|u|<=2) for the raw "
        "occurrence lists; random: language words up to length 14, planted sub-words; large: words of length 9-12, 21-40, "
        "64-70, ~200, ~401 (~1000 for the linear helpers) with sub-words planted at the ends; a third of the words and "
        "table keys are equal objects obtained by another route, returned containers are emptied between the two "
        "evaluations of a line; malformed: foreign letters, "
        "direction first, same-axis repeats, out-of-range indices. non-trivial = the word has >= 2 letters (decode, "
        "quadrant, factor, translations), k >= 2 and |w| >= 2 (containment), n >= 2 (tables); distinct = distinct op lines")
ASSUMPTIONS = [
    "model/implementation agreement outside the enumerated and sampled inputs is assumed",
    "int arguments are modelled as Nat: negative lengths (RecursionError) and negative indices are outside the model",
    "Fraction arithmetic is modelled by Lean core Rat; sorted()/list.sort() by List.mergeSort; bisect_left on a sorted list by counting the smaller entries",
    "pre_perm is kept newest-first in the model (only [-1], [:-1], min/max, pop(0) and sort() are used by the code)",
]
PARTIAL = [
    "PROVED since the first build (nothing of Theorem 3.13 is only evaluated any more): pinword_contains_iff (Bassino-Bouvel-Pierrot-Rossin Thm 3.13: sigma <= perm(w) <-> some pin word u of sigma has pinword_contains(w,u)) in both directions for EVERY pin word w of the language and every permutation - Props/C14.lean A6 (pinword_contains_sound, pinword_contains_complete, pinword_contains_iff, pinword_contains_iff_table, containsTable_spec), with consequences A6' basisAccepts_iff_contains (= C15 accepts_iff_contains), A7 hasFinitePinperms_iff / hasFinitePinperms_class_only, A8 decode_act / hasFinitePinperms_act (= C16 pin_D8_invariant). The ops pw_pcont / pw_pcontnt are now a correspondence test of the real code against the proved model semantics; the driver evaluates the memoised variant Driver.C14.containsTableMemo, PROVED equal to containsTable for all arguments (Props/C14Ext.lean containsTableMemo_eq, containsTableMemo_spec); every other op of the C14 driver calls the Model.C14 function of the theorems directly",
]
TRUSTED = ["fractions.Fraction == exact rational arithmetic (Lean core Rat)"]

ALPHA = "1234UDLR"
QUADS = "1234"
DIRS = "ULDR"
_FORBIDDEN = re.compile(r"UU|UD|DU|DD|LL|LR|RL|RR")


def worker_init():
    global Perm, PW
    from permuta import Perm as P
    from permuta.permutils.pin_words import PinWords
    Perm, PW = P, PinWords


def W(s):
    """the word of a token; for a deterministic third of the tokens an EQUAL string obtained by another route (a
    slice of a longer string, a join of its letters, a replace that changes nothing) instead of the token itself"""
    if s == "_":
        return ""
    k = used.digest("W", [s]) % 9
    if k == 0:
        return ("1" + s + "U")[1:-1]
    if k == 1:
        return "".join(list(s))
    if k == 2:
        return (s + "").replace("x", "y")
    return s


def _mkp(seq, salt=0):
    """a Perm key with a past (past.mkperm) for a deterministic part of the look-ups"""
    seq = tuple(seq)
    if used.is_perm(seq) and used.digest("K", [fseq(seq)]) % 3 == 0:
        return past.mkperm(seq, salt)
    return Perm(seq)


def fw(s):
    return "_" if s == "" else s


def _collect(gen):
    """run a (lazy) generator; return yielded prefix and the exception that ended it, if any"""
    out, err = [], None
    try:
        for x in gen:
            out.append(x)
    except Exception as e:  # pylint: disable=broad-except
        err = "ERR:" + type(e).__name__
    return out, err


def _clear_caches():
    # best effort (only varies the call history): however the three tables are memoised, an lru_cache is emptied
    for nm in ("pinword_to_perm_mapping", "perm_to_pinword_mapping", "perm_to_strict_pinword_mapping"):
        try:
            f = PW.__dict__[nm]
            getattr(f, "__func__", f).cache_clear()
        except (KeyError, AttributeError):
            pass


def _fp2w(tbl):
    if not tbl:
        return "-"
    return ";".join(sorted(fseq(k) + ":" + ",".join(sorted(fw(x) for x in v)) for k, v in tbl.items()))


def _non_touching(w, factors, occ):
    ends = [o + len(f) for o, f in zip(occ, factors)]
    return all(not (s == e and w[s] in DIRS) for s, e in zip(occ[1:], ends))


def _pcont(w, k, filt):
    tbl = PW.perm_to_pinword_mapping(k)
    res = []
    for sigma in itertools.permutations(range(k)):
        us = tbl.get(_mkp(sigma), ())
        if filt:
            r = any(any(_non_touching(w, PW.factor_pinword(u), occ) for occ in PW.pinword_occurrences(w, u))
                    for u in us)
        else:
            r = any(PW.pinword_contains(w, u) for u in us)
        res.append("T" if r else "F")
    return "".join(res)


# ----------------------------------------------------------------------------- call histories
def _listing(make, fmt):
    """a lazily produced listing: one iterator is created, advanced by one item and abandoned; then the listing is
    produced completely while another iterator of the same call is only partially consumed; the pieces of that
    iterator must give the same listing"""
    used.sip(make)
    out, err = _collect(make())
    r = fmt(out) + ("!" + err if err else "")
    if err is None:
        g = make()
        head = list(itertools.islice(g, 1))
        mid, err2 = _collect(make())
        tail, err3 = _collect(g)
        r2 = fmt(head + tail) + ("!" + err3 if err3 else "")
        if err2 is not None or mid != out:
            return used.unstable(r, fmt(mid) + ("!" + err2 if err2 else ""))
        if r2 != r:
            return used.unstable(r, r2)
    return r


def _neighbours(op, a):
    """the function under test is first called with DIFFERENT nearby arguments (results and exceptions discarded);
    for the generators one iterator is created, advanced and abandoned"""
    q = used.quiet
    if op in ("pw_len", "pw_set", "pw_sset", "pw_w2ptab", "pw_p2wtab", "pw_p2swtab"):
        n = int(a[0])
        if not 0 <= n <= 7:
            return
        used.sip(lambda: PW.pinwords_of_length(n))
        used.sip(lambda: PW.pinwords_of_length(n + 1), 3)
        used.sip(lambda: PW.strict_pinwords_of_length(n), 2)
        used.sip(lambda: PW.pinwords_of_length(max(n - 1, 0)), 2)
        if op.endswith("tab") and n <= 5:
            for m in (n - 1, n + 1 if n < 4 else n - 2):
                if m >= 0:
                    q({"pw_w2ptab": PW.pinword_to_perm_mapping, "pw_p2wtab": PW.perm_to_pinword_mapping,
                       "pw_p2swtab": PW.perm_to_strict_pinword_mapping}[op], m)
            q(lambda: PW.pinwords_for_basis((Perm((0, 1)), Perm((1, 0, 2)))))
        return
    if op in ("pw_pcont", "pw_pcontnt", "pw_tblhist"):
        return
    w = W(a[0])
    if len(w) > 100:
        return
    f = {"pw_w2p": PW.pinword_to_perm, "pw_strict": PW.is_strict_pinword, "pw_factor": PW.factor_pinword,
         "pw_sp2m": PW.sp_to_m, "pw_m2sp": PW.m_to_sp}.get(op)
    if f is not None:
        for v in (w[:-1], w[1:], w + "U", w[::-1]):
            if v != w:
                q(f, v)
        return
    if op == "pw_quad":
        q(PW.quadrant, w, int(a[1]) + 1)
        q(PW.quadrant, w, 0)
        q(PW.quadrant, w[::-1], int(a[1]))
        return
    if op in ("pw_occsp", "pw_occ", "pw_contsp", "pw_cont", "pw_contnt"):
        u = W(a[1])
        g = {"pw_occsp": lambda x, y: list(itertools.islice(PW.pinword_occurrences_sp(x, y), 2)),
             "pw_occ": lambda x, y: list(itertools.islice(PW.pinword_occurrences(x, y), 2)),
             "pw_contsp": PW.pinword_contains_sp, "pw_cont": PW.pinword_contains,
             "pw_contnt": PW.pinword_contains}[op]
        for x, y in ((w, u[:-1]), (w[1:], u), (u, w), (w, w)):
            q(g, x, y)


def impl(op, a):
    if op == "pw_tblhist" or (op in ("pw_pcont", "pw_pcontnt") and not used.sel(op, a, 16)):
        return _impl(op, a)
    try:
        _neighbours(op, a)
    except Exception:  # pylint: disable=broad-except
        pass
    r1 = _impl(op, a)
    try:
        _spoil(op, a)
    except Exception:  # pylint: disable=broad-except
        pass
    r2 = _impl(op, a)
    return r1 if r1 == r2 else used.unstable(r1, r2)


def _spoil(op, a):
    """result aliasing: the containers the calls return are emptied by the caller (the memoised tables are left
    alone: they are documented to be shared)"""
    if op in ("pw_factor", "pw_occ", "pw_cont", "pw_contnt"):
        used.spoil(PW.factor_pinword(W(a[0])))
    if op in ("pw_occ", "pw_cont", "pw_contnt") and len(W(a[0])) <= 40:
        used.spoil(list(itertools.islice(PW.pinword_occurrences(W(a[0]), W(a[1])), 3)))
    if op == "pw_occsp" and len(W(a[0])) <= 40:
        used.spoil(list(itertools.islice(PW.pinword_occurrences_sp(W(a[0]), W(a[1]), int(a[2])), 3)))
    if op in ("pw_sp2m", "pw_rtsp"):
        used.spoil(list(PW.sp_to_m(W(a[0]))))


def _impl(op, a):
    if op == "pw_w2p":
        return guarded(lambda: fseq(PW.pinword_to_perm(W(a[0]))))
    if op == "pw_len":
        return guarded(lambda: ",".join(fw(x) for x in PW.pinwords_of_length(int(a[0]))))
    if op == "pw_set":
        return guarded(lambda: ",".join(sorted(fw(x) for x in PW.pinwords_of_length(int(a[0])))))
    if op == "pw_sset":
        return guarded(lambda: ",".join(sorted(fw(x) for x in PW.strict_pinwords_of_length(int(a[0])))))
    if op == "pw_w2ptab":
        return guarded(lambda: ";".join(sorted(fw(k) + ":" + fseq(v)
                                               for k, v in PW.pinword_to_perm_mapping(int(a[0])).items())))
    if op in ("pw_w2pdig", "pw_p2wdig"):
        # the same two tables at a length where the text is too long for the line protocol (81152 words at length 6):
        # size and digest of the canonical text, against the oracle's own decoding of its own listing of the language
        def dig():
            import hashlib
            n = int(a[0])
            if op == "pw_w2pdig":
                t = ";".join(sorted(fw(k) + ":" + fseq(v) for k, v in PW.pinword_to_perm_mapping(n).items()))
            else:
                t = _fp2w(PW.perm_to_pinword_mapping(n))
            return "len=%d,md5=%s" % (len(t), hashlib.md5(t.encode()).hexdigest())
        return guarded(dig)
    if op == "pw_p2wtab":
        return guarded(lambda: _fp2w(PW.perm_to_pinword_mapping(int(a[0]))))
    if op == "pw_p2swtab":
        return guarded(lambda: _fp2w(PW.perm_to_strict_pinword_mapping(int(a[0]))))
    if op == "pw_strict":
        return guarded(lambda: fbool(PW.is_strict_pinword(W(a[0]))))
    if op == "pw_factor":
        def f():
            fs = PW.factor_pinword(W(a[0]))
            return ",".join(fs) if fs else "-"
        return guarded(f)
    if op == "pw_sp2m":
        return guarded(lambda: ",".join(sorted(fw(x) for x in PW.sp_to_m(W(a[0])))))
    if op == "pw_m2sp":
        return guarded(lambda: fw(PW.m_to_sp(W(a[0]))))
    if op == "pw_rtsp":
        return guarded(lambda: fbool(all(PW.m_to_sp(m) == W(a[0]) for m in PW.sp_to_m(W(a[0])))))
    if op == "pw_rtm":
        return guarded(lambda: fbool(W(a[0]) in PW.sp_to_m(PW.m_to_sp(W(a[0])))))
    if op == "pw_quad":
        return guarded(lambda: PW.quadrant(W(a[0]), int(a[1])))
    if op == "pw_occsp":
        return _listing(lambda: PW.pinword_occurrences_sp(W(a[0]), W(a[1]), int(a[2])), fseq)
    if op == "pw_occ":
        return _listing(lambda: PW.pinword_occurrences(W(a[0]), W(a[1])), fseqs)
    if op == "pw_contsp":
        return guarded(lambda: fbool(PW.pinword_contains_sp(W(a[0]), W(a[1]))))
    if op == "pw_cont":
        return guarded(lambda: fbool(PW.pinword_contains(W(a[0]), W(a[1]))))
    if op == "pw_contnt":
        # independent re-check of pinword_contains: the real occurrence list filtered by the harness's own gap test
        def g():
            w, u = W(a[0]), W(a[1])
            fs = PW.factor_pinword(u)
            return fbool(any(_non_touching(w, fs, occ) for occ in PW.pinword_occurrences(w, u)))
        return guarded(g)
    if op == "pw_pcont":
        return guarded(lambda: _pcont(W(a[0]), int(a[1]), False))
    if op == "pw_pcontnt":
        return guarded(lambda: _pcont(W(a[0]), int(a[1]), True))
    if op == "pw_tblhist":
        _clear_caches()
        outs = []
        try:
            for o in a[0].split(";"):
                kind, rest = o[0], o[1:]
                if kind == "W":
                    outs.append(guarded(lambda: ";".join(sorted(
                        fw(k) + ":" + fseq(v) for k, v in PW.pinword_to_perm_mapping(int(rest)).items())) or "-"))
                elif kind == "P":
                    outs.append(guarded(lambda: _fp2w(PW.perm_to_pinword_mapping(int(rest)))))
                elif kind == "S":
                    outs.append(guarded(lambda: _fp2w(PW.perm_to_strict_pinword_mapping(int(rest)))))
                elif kind in "LG":
                    n, p = rest.split(":")
                    fn = PW.perm_to_pinword_mapping if kind == "L" else PW.perm_to_strict_pinword_mapping
                    outs.append(guarded(lambda: ",".join(sorted(fw(x) for x in fn(int(n))[_mkp(pseq(p), 1)])) or "-"))
                else:
                    raise ValueError("bad table op " + o)
        finally:
            _clear_caches()
        return "|".join(outs)
    raise ValueError("unknown op " + op)


# ----------------------------------------------------------------------------- translator self-check
def _interp_shape(shape, pre_perm):
    """evaluate the extracted statement shape of a letter method on a concrete point list"""
    from fractions import Fraction
    env = {"one": Fraction(1), "half": Fraction(1, 2)}
    fns = {"max_x": lambda l: max(p[0] for p in l), "min_x": lambda l: min(p[0] for p in l),
           "max_y": lambda l: max(p[1] for p in l), "min_y": lambda l: min(p[1] for p in l)}
    scope = {"all": pre_perm, "init": pre_perm[:-1]}

    def expr(e):
        t = e.split(".")
        if t[0] in fns:                                     # max_y.all.Add.one
            v = fns[t[0]](scope[t[1]])
            return v + env[t[3]] if t[2] == "Add" else v - env[t[3]]
        assert t[1] == "Mult" and t[3] == "Add"             # half.Mult.last_x.Add.max_x.init
        return env[t[0]] * (env[t[2]] + fns[t[4]](scope[t[5]]))

    def test(e):
        var, cmp_, fn, sc = e.split(".")
        rhs = fns[fn](scope[sc])
        return env[var] > rhs if cmp_ == "Gt" else env[var] < rhs

    i, active, done = 0, True, False
    while i < len(shape):
        k, v = shape[i].split("=", 1)
        if k == "bind":
            name, pos = v.split("@")
            env[name] = pre_perm[-1][int(pos)]
        elif k in ("if", "elif"):
            active = (not done) and test(v)
            done = done or active
        elif k == "else":
            if not done:
                raise AssertionError
        elif k == "ret":
            return tuple(env[n] for n in v.split(","))
        elif active:
            env[k] = expr(v)
        i += 1
    raise ValueError("shape without return")


def translator_selfcheck():
    """the extracted tables against the live objects / live behaviour"""
    import os
    import sys
    from fractions import Fraction
    import core
    sys.path.insert(0, os.path.join(core.VERIF, "tools"))
    import translate_c14
    try:
        data = translate_c14.c14_extract(core.REPO)
    except LookupError:
        return None          # reported as MISSING item by the translator (a broken obligation), not a fault
    from permuta.permutils import pin_words
    from permuta.permutils.pinword_util import PinWordUtil
    PWc = pin_words.PinWords
    if data["DIRS"][0] != pin_words.DIRS or data["QUADS"][0] != pin_words.QUADS:
        return "C14: DIRS/QUADS differ from the live module constants"
    pwu = PinWordUtil()
    live = [(k, v.__name__) for k, v in pwu.caller.items()]
    if live != data["caller"][0]:
        return "C14: PinWordUtil.caller differs: %r vs %r" % (live, data["caller"][0])
    for q, letters in data["spToM_letterDict"][0]:
        if PWc.sp_to_m(q) != (letters, letters[::-1]):
            return "C14: sp_to_m letter_dict entry %s does not show in sp_to_m(%r)" % (letters, q)
    for q, letters in data["mToSp_letterDict"][0]:
        if PWc.m_to_sp(letters) != q or PWc.m_to_sp(letters[::-1]) != q:
            return "C14: m_to_sp letter_dict entry %s does not show in m_to_sp" % letters
    samples = [
        [(Fraction(0), Fraction(0)), (Fraction(3), Fraction(5))],
        [(Fraction(0), Fraction(0)), (Fraction(-2), Fraction(-1))],
        [(Fraction(0), Fraction(0)), (Fraction(1), Fraction(1)), (Fraction(1, 2), Fraction(2))],
        [(Fraction(0), Fraction(0)), (Fraction(-1), Fraction(1)), (Fraction(-2), Fraction(1, 2)), (Fraction(4), Fraction(-3))],
    ]
    for meth, _ln, shape in data["charShapes"]:
        for pre in samples:
            try:
                want = getattr(pwu, meth)(list(pre))
            except AssertionError:
                want = "assert"
            try:
                got = _interp_shape(shape, list(pre))
            except AssertionError:
                got = "assert"
            if want != got:
                return "C14: shape of %s does not reproduce the method on %r: %r vs %r" % (meth, pre, got, want)
    return None


# ----------------------------------------------------------------------------- oracle (property text)
def in_language(w):
    """a pin word: letters of the alphabet, starts with a numeral, no two consecutive directions on one axis"""
    return all(c in ALPHA for c in w) and (w == "" or w[0] in QUADS) and not _FORBIDDEN.search(w)


def geo_points(w):
    """Pin sequence of the word, built from the property text with explicit *order lists* instead of
    coordinates: xs / ys hold the point ids (0 = origin p0) from left to right / bottom to top.
    A numeral places an independent pin beyond all earlier points in the named quadrant; a direction
    places a pin beyond everything on the named side which, on the other axis, lies strictly between
    the previous pin and all earlier points.  Returns None when the word does not describe this."""
    if not in_language(w):
        return None
    xs, ys = [0], [0]
    for i, c in enumerate(w, start=1):
        if c in QUADS:
            if c in "14":
                xs.append(i)
            else:
                xs.insert(0, i)
            if c in "12":
                ys.append(i)
            else:
                ys.insert(0, i)
            continue
        if i == 1:
            return None
        prev = i - 1
        if c in "UD":
            if c == "U":
                ys.append(i)
            else:
                ys.insert(0, i)
            order = xs
        else:
            if c == "R":
                xs.append(i)
            else:
                xs.insert(0, i)
            order = ys
        pos = order.index(prev)
        if pos == len(order) - 1:       # previous pin is the extreme one on the high side
            order.insert(pos, i)
        elif pos == 0:                  # … on the low side
            order.insert(1, i)
        else:
            return None                 # no line separates the previous pin from all earlier points
    return xs, ys


def geo_perm(w):
    g = geo_points(w)
    if g is None:
        return None
    xs, ys = g
    xs = [i for i in xs if i != 0]
    ys = [i for i in ys if i != 0]
    rank = {p: r for r, p in enumerate(ys)}
    return tuple(rank[p] for p in xs)


def geo_quadrant(w, ind):
    g = geo_points(w)
    if g is None or not 0 <= ind < len(w):
        return None
    xs, ys = g
    right = xs.index(ind + 1) > xs.index(0)
    up = ys.index(ind + 1) > ys.index(0)
    return {(True, True): "1", (False, True): "2", (False, False): "3", (True, False): "4"}[(right, up)]


def patt_contains(big, small):
    n = len(small)
    for c in itertools.combinations(range(len(big)), n):
        v = [big[i] for i in c]
        if all((small[x] < small[y]) == (v[x] < v[y]) for x in range(n) for y in range(x + 1, n)):
            return True
    return False


_LANG = {}


def language(n):
    """all pin words of length n, by filtering all 8^n strings"""
    if n not in _LANG:
        _LANG[n] = sorted(w for w in ("".join(t) for t in itertools.product(ALPHA, repeat=n)) if in_language(w))
    return _LANG[n]


_OTBL = {}


def oracle_table(n):
    if n not in _OTBL:
        t = {}
        for w in language(n):
            t.setdefault(geo_perm(w), []).append(w)
        _OTBL[n] = t
    return _OTBL[n]


def is_strict(w):
    return w != "" and w[0] in QUADS and all(c in DIRS for c in w[1:])


def in_m(m):
    """direction words without two consecutive letters on one axis"""
    return all(c in DIRS for c in m) and not _FORBIDDEN.search(m)


_QUAD_OF = {frozenset("RU"): "1", frozenset("LU"): "2", frozenset("LD"): "3", frozenset("RD"): "4"}


def oracle(op, a):
    if op == "pw_w2p":
        p = geo_perm(W(a[0]))
        return None if p is None else fseq(p)
    if op in ("pw_set", "pw_sset"):
        n = int(a[0])
        ws = language(n)
        if op == "pw_sset":
            ws = [w for w in ws if w == "" or is_strict(w)]
        return ",".join(fw(x) for x in ws)
    if op == "pw_len":
        return None         # yield order is not constrained by the property: model comparison only
    if op == "pw_w2ptab":
        return ";".join(sorted(fw(w) + ":" + fseq(geo_perm(w)) for w in language(int(a[0]))))
    if op in ("pw_w2pdig", "pw_p2wdig"):
        import hashlib
        n = int(a[0])
        if op == "pw_w2pdig":
            t = ";".join(sorted(fw(w) + ":" + fseq(geo_perm(w)) for w in language(n)))
        else:
            tb = oracle_table(n)
            t = ";".join(sorted(fseq(k) + ":" + ",".join(sorted(fw(x) for x in v)) for k, v in tb.items()))
        return "len=%d,md5=%s" % (len(t), hashlib.md5(t.encode()).hexdigest())
    if op in ("pw_p2wtab", "pw_p2swtab"):
        t = oracle_table(int(a[0]))
        if op == "pw_p2swtab":
            t = {k: [x for x in v if x == "" or is_strict(x)] for k, v in t.items()}
        return ";".join(sorted(fseq(k) + ":" + ",".join(sorted(fw(x) for x in v)) for k, v in t.items()))
    if op == "pw_strict":
        w = W(a[0])
        return None if w == "" else fbool(is_strict(w))
    if op == "pw_factor":
        w = W(a[0])
        if not in_language(w):
            return None
        fs = re.findall(r"[1234][ULDR]*", w)          # strong numeral-led factors
        return ",".join(fs) if fs else "-"
    if op == "pw_sp2m":
        w = W(a[0])
        if not (is_strict(w) and in_language(w)):
            return None
        # all words of M that spell the quadrant of the numeral with two letters and continue like w
        cands = [x + y + w[1:] for x in DIRS for y in DIRS if _QUAD_OF.get(frozenset(x + y)) == w[0]]
        return ",".join(sorted(m for m in cands if in_m(m)))
    if op == "pw_m2sp":
        m = W(a[0])
        if not (in_m(m) and len(m) >= 2):
            return None
        return _QUAD_OF[frozenset(m[:2])] + m[2:]
    if op == "pw_rtsp":
        return "T" if is_strict(W(a[0])) else None
    if op == "pw_rtm":
        m = W(a[0])
        return "T" if in_m(m) and len(m) >= 2 else None
    if op == "pw_quad":
        return geo_quadrant(W(a[0]), int(a[1]))
    if op in ("pw_pcont", "pw_pcontnt"):
        p = geo_perm(W(a[0]))
        if p is None:
            return None
        return "".join("T" if patt_contains(p, s) else "F" for s in itertools.permutations(range(int(a[1]))))
    return None


def nontrivial(op, a, out):
    if op in ("pw_len", "pw_set", "pw_sset", "pw_w2ptab", "pw_p2wtab", "pw_p2swtab", "pw_w2pdig", "pw_p2wdig"):
        return int(a[0]) >= 2
    if op == "pw_tblhist":
        return True
    if op in ("pw_pcont", "pw_pcontnt"):
        return len(W(a[0])) >= 2 and int(a[1]) >= 2
    if op in ("pw_occ", "pw_occsp", "pw_cont", "pw_contsp", "pw_contnt"):
        return len(W(a[0])) >= 2 and len(W(a[1])) >= 1
    return len(W(a[0])) >= 2


# ----------------------------------------------------------------------------- generators
def rand_word(rng, n, strict=False):
    """random word of the language"""
    w = rng.choice(QUADS)
    while len(w) < n:
        opts = []
        if not strict:
            opts += list(QUADS)
        if w[-1] not in "UD":
            opts += ["U", "D"] * (1 if not strict else 1)
        if w[-1] not in "LR":
            opts += ["L", "R"]
        if not strict and rng.random() < 0.5:
            opts = [o for o in opts if o in DIRS] or opts
        w += rng.choice(opts)
    return w


def planted_sub(rng, w):
    """a word built from pieces of w (factor starts re-spelt by quadrant numerals), likely to occur in w"""
    pieces = []
    i = 0
    while i < len(w) and len(pieces) < 3:
        i = rng.randrange(i, len(w))
        j = i + 1
        while j < len(w) and w[j] in DIRS and rng.random() < 0.7:
            j += 1
        q = geo_quadrant(w, i) or rng.choice(QUADS)
        pieces.append(q + w[i + 1:j])
        i = j + (0 if rng.random() < 0.5 else 1)
    return "".join(pieces)


def run(ctx):
    rng = ctx.rng
    quick = ctx.tier == "quick"
    N = 5 if quick else 6
    S, A = (5, 4) if quick else (7, 5)
    ctx.exhaustive = True
    ctx.exhaustive_bound = ("decode/quadrant/factor/strict: all language words |w|<=%d; enumeration and tables: all n<=%d; "
                            "translations: all numeral+directions words and all direction words of length <=7; "
                            "containment iff: all strict language w |w|<=%d and all language w |w|<=%d against all "
                            "sigma |sigma|<=4 (thorough: also |sigma|=5 for the strict words of length A+1); raw occurrences: all language pairs |w|<=3,|u|<=2" % (N, N, S, A))
    ctx.compare("corpus", [
        "pw_w2p 31", "pw_w2p 4R", "pw_w2p 3DL2UR", "pw_w2p 14L2UR", "pw_w2p _", "pw_factor 14L2UR", "pw_factor _",
        "pw_sp2m 1R", "pw_sp2m 2UL", "pw_sp2m 3", "pw_sp2m 4D", "pw_sp2m _", "pw_m2sp RUR", "pw_m2sp ULUL",
        "pw_m2sp DL", "pw_m2sp LD", "pw_m2sp DRD", "pw_quad 2RU4LULURD4L 2", "pw_quad 2RU4LULURD4L 3",
        "pw_quad 2RU4LULURD4L 6", "pw_occ 211R3 11", "pw_occ 1L1RUR 1L1U", "pw_occ 2232D2 2", "pw_occ 1U13RU 41",
        "pw_cont 2U 22", "pw_cont 2U1UR 3244L", "pw_cont 1D _", "pw_occ 1D _", "pw_occsp 3LU1DL 4L 0",
        "pw_contsp 34LDR 3D", "pw_pcont 2U 2", "pw_pcontnt 2U 2", "pw_pcont 1 0", "pw_pcont 12 2", "pw_strict _",
        "pw_tblhist P1;L1:0,1;P1;S1;G1:1,0;W1", "pw_tblhist S2;L2:0,1,2;P2;S2;G2:0,1,2",
        "pw_tblhist L2:1,0;L2:2,0,1;L2:2,0,1;P2", "pw_tblhist W0;P0;S0;L0:_;G0:0",
    ])
    # ---- exhaustive: every language word
    words = [w for n in range(N + 1) for w in language(n)]
    lines = []
    for w in words:
        lines.append("pw_w2p " + fw(w))
        lines.append("pw_factor " + fw(w))
        lines.append("pw_strict " + fw(w))
        for i in range(len(w)):
            lines.append("pw_quad %s %d" % (w, i))
    ctx.compare("exhaustive-words", lines)
    lines = []
    for n in range(N + 1):
        for op in ("pw_len", "pw_set", "pw_sset", "pw_w2ptab", "pw_p2wtab", "pw_p2swtab"):
            lines.append("%s %d" % (op, n))
    ctx.compare("exhaustive-tables", lines)
    # the next table lengths by size and digest only (oracle comparison; the text does not go through the driver)
    ctx.compare("table-digests", ["%s %d" % (op, n) for n in range(N + 1, 7) for op in ("pw_w2pdig", "pw_p2wdig")],
                use_model=False)
    # ---- translations: all numeral+directions words and all direction words up to length 7
    lines = []
    for n in range(0, 7):
        for t in itertools.product(DIRS, repeat=n):
            tail = "".join(t)
            for q in QUADS:
                lines.append("pw_rtsp " + q + tail)
                lines.append("pw_sp2m " + q + tail)
            if n >= 1 or True:
                m = tail
                lines.append("pw_m2sp " + fw(m))
                lines.append("pw_rtm " + fw(m))
    for t in itertools.product(DIRS, repeat=7):
        lines.append("pw_rtm " + "".join(t))
    ctx.compare("exhaustive-translations", lines)
    # ---- the containment iff, one word against all permutations of one length
    cw = [w for n in range(1, A + 1) for w in language(n)]
    cw += [w for n in range(A + 1, S + 1) for w in language(n) if is_strict(w)]
    lines = []
    sampled = 0
    for w in cw:
        kmax = 4 if (quick or len(w) != A + 1) else 5       # thorough: sigma of length 5 against the strict words of length A+1
        for k in range(0, kmax + 1):
            lines.append("pw_pcont %s %d" % (w, k))
            # the harness-filtered variant costs the same again: the (|w| = A, k = 4) block is sampled (30% quick, 50% thorough)
            if len(w) == A and k == 4 and not is_strict(w) and rng.random() > (0.3 if quick else 0.5):
                sampled += 1
                continue
            lines.append("pw_pcontnt %s %d" % (w, k))
    if sampled:
        ctx.notes.append("pw_pcontnt evaluated on a sample of the (|w|=%d, |sigma|=4) block "
                         "(%d lines skipped); pw_pcont is exhaustive" % (A, sampled))
    rng.shuffle(lines)          # load balance: the expensive (long w, k = 4) lines are otherwise clustered
    ctx.compare("exhaustive-containment-iff", lines)
    # ---- raw occurrence lists on all small pairs
    small_w = [w for n in range(0, 4) for w in language(n)]
    small_u = [w for n in range(0, 3) for w in language(n)]
    lines = []
    for w in small_w:
        for u in small_u:
            lines.append("pw_occ %s %s" % (fw(w), fw(u)))
            lines.append("pw_cont %s %s" % (fw(w), fw(u)))
            lines.append("pw_contnt %s %s" % (fw(w), fw(u)))
            if u == "" or is_strict(u):
                lines.append("pw_occsp %s %s %d" % (fw(w), fw(u), rng.randrange(0, len(w) + 2)))
                lines.append("pw_contsp %s %s" % (fw(w), fw(u)))
    ctx.compare("exhaustive-occurrences", lines)
    # ---- random large
    R = 2500 if quick else 30000
    lines = []
    for _ in range(R):
        n = rng.randrange(6, 15)
        w = rand_word(rng, n, strict=rng.random() < 0.3)
        r = rng.random()
        if r < 0.25:
            lines.append("pw_w2p " + w)
        elif r < 0.4:
            lines.append("pw_quad %s %d" % (w, rng.randrange(len(w))))
        elif r < 0.45:
            lines.append("pw_factor " + w)
        else:
            u = planted_sub(rng, w) if rng.random() < 0.8 else rand_word(rng, rng.randrange(1, 5))
            op = rng.choice(["pw_occ", "pw_occ", "pw_cont", "pw_contnt"])
            lines.append("%s %s %s" % (op, w, u))
            f = PWfactor(u)
            if f:
                lines.append("pw_occsp %s %s %d" % (w, rng.choice(f), rng.randrange(0, len(w))))
    ctx.compare("random-words", lines)
    # ---- sizes the streams above never reach: long words (9-12, 21-40, 64-70, ~200, ~401; the linear-time helpers
    #      also ~1000).  Sub-words planted at the very beginning / the very end, several long factors, a last factor that
    #      ends with the last letter, words that agree on their first 8 / 32 letters.  (pinword_occurrences lists ALL
    #      occurrences - polynomially many - and is kept to the first two scales; decoding is quadratic with exact
    #      fractions and stops at ~401.)
    def end_sub(w):
        """a sub-word built from the first letters and the last letters of w (numeral-led pieces)"""
        a_, b_ = rng.randrange(1, 4), rng.randrange(1, 4)
        head, tail = w[:a_], w[-b_:]
        q1 = geo_quadrant(w, 0) or "1"
        q2 = geo_quadrant(w, len(w) - b_) or "1"
        r = rng.random()
        if r < 0.4:
            return q2 + tail[1:]
        if r < 0.7:
            return q1 + head[1:] + q2 + tail[1:]
        return q1 + head[1:]
    lines = []
    f = 1 if quick else 8
    for lo, hi, cnt in ((9, 12, 400 * f), (21, 40, 260 * f), (64, 70, 120 * f), (190, 210, 40 * f), (395, 405, 8 * f), (995, 1005, 6 * f)):
        for _ in range(cnt):
            n = rng.randrange(lo, hi + 1)
            strict = rng.random() < 0.4
            w = rand_word(rng, n, strict=strict)
            r = rng.random()
            if hi <= 405 and r < 0.3:
                lines.append("pw_w2p " + w)
                if hi <= 210:
                    lines.append("pw_quad %s %d" % (w, rng.choice([0, n - 1, n - 2, rng.randrange(n)])))
                continue
            if r < 0.45:
                lines.append("pw_factor " + w)
                lines.append("pw_strict " + w)
                if strict:
                    lines.append("pw_sp2m " + w)
                    lines.append("pw_rtsp " + w)
                    m = "".join(rng.choice(("UD", "LR")[(i + (w[1:2] in "LR")) % 2]) for i in range(2)) + w[2:]
                    lines.append("pw_m2sp " + m)
                    lines.append("pw_rtm " + m)
                continue
            if hi > 405:
                lines.append("pw_factor " + w)
                continue
            u = end_sub(w) if rng.random() < 0.5 else planted_sub(rng, w)
            if rng.random() < 0.15:
                u = u[:-1] + rng.choice(DIRS + QUADS) if len(u) > 1 else u          # narrowly missing
            if not in_language(u):
                u = end_sub(w)
            if hi <= 40 and len(PWfactor(u)) <= 2:
                lines.append("pw_occ %s %s" % (w, u))
            if hi <= 210:
                lines.append("%s %s %s" % (rng.choice(["pw_cont", "pw_contnt"]), w, u))
                fs = PWfactor(u)
                if fs:
                    lines.append("pw_occsp %s %s %d" % (w, fs[-1], rng.choice([0, max(0, n - len(fs[-1]) - 1), rng.randrange(n)])))
                    lines.append("pw_contsp %s %s" % (w, fs[-1]))
            # two words that agree on a long prefix and differ only beyond it
            if hi <= 70 and rng.random() < 0.3:
                k = rng.choice([8, 10, 16, 32])
                if n > k + 1:
                    w2 = w[:k] + rand_word(rng, n - k + 1, strict=strict)[1:]
                    if in_language(w2):
                        lines.append("pw_w2p " + w2)
                        lines.append("pw_w2p " + w)
    rng.shuffle(lines)
    ctx.compare("large-words", lines)
    # decoding of VERY long words (beyond the interpreter's default recursion limit): the all-numeral word, strict and
    # general random words
    lines = ["pw_w2p " + "1" * 1200, "pw_w2p " + "3" * 1001]
    for _ in range(2 if quick else 12):
        lines.append("pw_w2p " + rand_word(rng, rng.randrange(1000, 1300), strict=True))
        lines.append("pw_w2p " + rand_word(rng, rng.randrange(990, 1300), strict=False))
    ctx.compare("very-long-decoding", lines)
    R2 = 150 if quick else 2500
    lines = []
    for _ in range(R2):
        w = rand_word(rng, rng.randrange(A + 1, A + 4), strict=rng.random() < 0.3)
        k = rng.randrange(2, 5)
        lines.append("pw_pcont %s %d" % (w, k))
        lines.append("pw_pcontnt %s %d" % (w, k))
    ctx.compare("random-containment-iff", lines)
    # ---- table histories (lru_cache + defaultdict mutation)
    lines = []
    for _ in range(40 if quick else 300):
        ops = []
        for _ in range(rng.randrange(2, 7)):
            n = rng.randrange(0, 4)
            kind = rng.choice("WPSLLG")
            if kind in "LG":
                m = n if rng.random() < 0.8 else rng.randrange(0, 4)
                p = list(range(m))
                rng.shuffle(p)
                ops.append("%s%d:%s" % (kind, n, fseq(p)))
            else:
                ops.append("%s%d" % (kind, n))
        lines.append("pw_tblhist " + ";".join(ops))
    ctx.compare("table-histories", lines)
    # ---- malformed
    lines = []
    bad_words = ["U", "D", "L", "R", "UL", "RD1", "1UU", "1UD", "2LL", "3RL", "4RLU", "12DU", "1X", "X", "X1", "1x",
                 "15", "0", "1UX", "1URR", "1ULDD", "13LRU", "1ULDRR", "1u", "UU", "11UUL", "L1", "DR"]
    for w in bad_words:
        lines.append("pw_w2p " + w)
        lines.append("pw_strict " + w)
        lines.append("pw_factor " + w)
        lines.append("pw_sp2m " + w)
        lines.append("pw_m2sp " + w)
        lines.append("pw_rtsp " + w)
        lines.append("pw_rtm " + w)
        for i in range(len(w) + 2):
            lines.append("pw_quad %s %d" % (w, i))
        for u in ["1", "_", "U", "1U", "2X", "X", "11", "UL", "3UU"]:
            lines.append("pw_occsp %s %s 0" % (w, u))
            lines.append("pw_occsp 1%s %s 1" % (w, u))
            lines.append("pw_contsp %s %s" % (w, u))
            lines.append("pw_occ %s %s" % (w, u))
            lines.append("pw_cont 1R%s %s" % (w, u))
            lines.append("pw_occ 12U %s" % w)
            lines.append("pw_cont 21L3 %s" % w)
    for w in ["1", "12", "1U", "3LD", "_"]:
        for i in range(len(W(w)), len(W(w)) + 3):
            lines.append("pw_quad %s %d" % (w, i))
        for u in ["_", "1", "U"]:
            for st in range(0, 5):
                lines.append("pw_occsp %s %s %d" % (w, u, st))
    for n in range(0, 4):
        for t in itertools.product(ALPHA, repeat=n):
            w = "".join(t)
            if not in_language(w):
                lines.append("pw_w2p " + fw(w))
                lines.append("pw_sp2m " + fw(w))
                if n <= 3:
                    lines.append("pw_m2sp " + fw(w))
    ctx.compare("malformed", lines)


def PWfactor(u):
    return re.findall(r"[1234][ULDR]*", u)
