"""Objects with a past: the value under test handed over as a fresh object, an object that has already
been used, or an object *derived* from a used object through another API route (symmetry and back,
shade, unrank, sub-pattern, edit and undo).  The choice is a deterministic function of (value, salt), so
a line always gets the same treatment.  Every route must yield an object equal to the requested value;
if a route fails or yields something else, the fresh object is returned (the route is then simply not
exercised - it never changes what a line means)."""
import zlib


def _pick(key, n):
    return zlib.crc32(repr(key).encode()) % n


def _quiet(f):
    try:
        return f()
    except Exception:
        return None


def use_perm(q):
    """a few searches / queries with the object (fills whatever it memoises)"""
    from permuta import Perm
    _quiet(lambda: list(q.occurrences_in(Perm((1, 0, 2)))))
    _quiet(lambda: Perm((0, 2, 1, 3)).contains(q))
    _quiet(lambda: list(q.occurrences_in(Perm((0, 1)), [0] * len(q), [0, 1])))
    _quiet(lambda: next(q.occurrences_in(Perm((2, 0, 3, 1, 4))), None))     # started and abandoned
    _quiet(lambda: (hash(q), str(q), q.rank() if len(q) < 12 else None, q.inverse(), q.is_simple()))
    return q


def mkperm(seq, salt=0):
    from permuta import Perm
    seq = tuple(seq)
    p = Perm(seq)
    k = _pick(("p", seq, salt), 9)
    if k == 0:
        return p
    if k == 1:
        return use_perm(p)
    routes = {
        2: lambda: use_perm(p.complement()).complement(),
        3: lambda: use_perm(p.reverse()).reverse(),
        4: lambda: use_perm(p.inverse()).inverse(),
        5: lambda: use_perm(p.rotate(1)).rotate(-1),
        6: lambda: use_perm(p.insert(0, 0)).remove(0),
        7: lambda: Perm.unrank(use_perm(p).rank()) if len(p) < 15 else use_perm(p),
        8: lambda: Perm.from_string(str(use_perm(p))) if len(p) <= 10 else Perm(tuple(use_perm(p))),
    }
    q = _quiet(routes[k])
    return q if q is not None and tuple(q) == seq and type(q) is Perm else p


def use_mesh(m):
    from permuta import Perm
    n = len(m)
    _quiet(lambda: (hash(m), repr(m), m.rank() if n <= 4 else None))
    _quiet(lambda: Perm(tuple(range(min(n + 1, 6)))).contains(m))
    _quiet(lambda: next(m.occurrences_in(Perm((1, 0, 2, 3))), None))
    _quiet(lambda: m.rotate(1))
    _quiet(lambda: m.is_shaded((0, 0)))
    _quiet(lambda: m.can_shade((n, n)))
    _quiet(lambda: m.add_point((0, 0), 0))
    _quiet(lambda: m.sub_mesh_pattern(range(n)))
    return m


def mkmesh(seq, cells, salt=0):
    from permuta import MeshPatt, Perm
    seq = tuple(seq)
    cells = frozenset(tuple(c) for c in cells)
    m = MeshPatt(Perm(seq), cells)
    k = _pick(("m", seq, tuple(sorted(cells)), salt), 9)
    if k == 0:
        return m
    if k == 1:
        return use_mesh(m)

    def by_shade():
        if not cells:
            return None
        c = sorted(cells)[_pick(("c", seq, salt), len(cells))]
        base = use_mesh(MeshPatt(Perm(seq), cells - {c}))
        return base.shade(c)

    routes = {
        2: lambda: use_mesh(m.complement()).complement(),
        3: lambda: use_mesh(m.reverse()).reverse(),
        4: lambda: use_mesh(m.inverse()).inverse(),
        5: lambda: use_mesh(m.rotate(1)).rotate(3),
        6: by_shade,
        7: lambda: MeshPatt.unrank(Perm(seq), use_mesh(m).rank()) if len(seq) <= 5 else None,
        8: lambda: use_mesh(m).sub_mesh_pattern(range(len(seq))),
    }
    q = _quiet(routes[k])
    ok = q is not None and type(q) is MeshPatt and tuple(q.pattern) == seq and frozenset(q.shading) == cells
    return q if ok else m
