"""Objects with a past: the value under test handed over as a fresh object, an object that has already
been used, or an object *derived* from a used object through another API route (symmetry and back,
shade, unrank, sub-pattern, edit and undo).  The choice is a deterministic function of (value, salt), so
a line always gets the same treatment.  Every route must yield an object equal to the requested value;
if a route fails or yields something else, the fresh object is returned (the route is then simply not
exercised - it never changes what a line means)."""
import zlib


def _pick(key, n):
    return zlib.crc32(repr(key).encode()) % n


def _quiet(f):
    try:
        return f()
    except Exception:
        return None


def use_perm(q):
    """a few searches / queries with the object (fills whatever it memoises)"""
    from permuta import Perm
    _quiet(lambda: list(q.occurrences_in(Perm((1, 0, 2)))))
    _quiet(lambda: Perm((0, 2, 1, 3)).contains(q))
    _quiet(lambda: list(q.occurrences_in(Perm((0, 1)), [0] * len(q), [0, 1])))
    _quiet(lambda: next(q.occurrences_in(Perm((2, 0, 3, 1, 4))), None))     # started and abandoned
    _quiet(lambda: (hash(q), str(q), q.rank() if len(q) < 12 else None, q.inverse(), q.is_simple()))
    return q


def mkperm(seq, salt=0):
    from permuta import Perm
    seq = tuple(seq)
    p = Perm(seq)
    k = _pick(("p", seq, salt), 9)
    if k == 0:
        return p
    if k == 1:
        return use_perm(p)
    routes = {
        2: lambda: use_perm(p.complement()).complement(),
        3: lambda: use_perm(p.reverse()).reverse(),
        4: lambda: use_perm(p.inverse()).inverse(),
        5: lambda: use_perm(p.rotate(1)).rotate(-1),
        6: lambda: use_perm(p.insert(0, 0)).remove(0),
        7: lambda: Perm.unrank(use_perm(p).rank()) if len(p) < 15 else use_perm(p),
        8: lambda: Perm.from_string(str(use_perm(p))) if len(p) <= 10 else Perm(tuple(use_perm(p))),
    }
    q = _quiet(routes[k])
    return q if q is not None and tuple(q) == seq and type(q) is Perm else p


def use_mesh(m):
    from permuta import Perm
    n = len(m)
    _quiet(lambda: (hash(m), repr(m), m.rank() if n <= 4 else None))
    _quiet(lambda: Perm(tuple(range(min(n + 1, 6)))).contains(m))
    _quiet(lambda: next(m.occurrences_in(Perm((1, 0, 2, 3))), None))
    _quiet(lambda: m.rotate(1))
    _quiet(lambda: m.is_shaded((0, 0)))
    _quiet(lambda: m.can_shade((n, n)))
    _quiet(lambda: m.add_point((0, 0), 0))
    _quiet(lambda: m.sub_mesh_pattern(range(n)))
    return m


def _shading(cells, key):
    """the shading as a frozenset whose cells were INSERTED in an order chosen from `key` (sorted, reversed, rotated):
    equal sets whatever the order, but CPython iterates a set in an order that depends on the insertion order of
    colliding entries - code that reads a shading in iteration order where it should not shows up"""
    cs = sorted({tuple(c) for c in cells})
    if len(cs) > 1:
        k = _pick(("shading-order", tuple(cs), key), 2 * len(cs))
        cs = cs[k // 2:] + cs[:k // 2]
        if k % 2:
            cs.reverse()
    return frozenset(cs)


def mkmesh(seq, cells, salt=0):
    from permuta import MeshPatt, Perm
    seq = tuple(seq)
    cells = _shading(cells, (tuple(seq), salt))
    m = MeshPatt(Perm(seq), cells)
    k = _pick(("m", seq, tuple(sorted(cells)), salt), 9)
    if k == 0:
        return m
    if k == 1:
        return use_mesh(m)

    def by_shade():
        if not cells:
            return None
        c = sorted(cells)[_pick(("c", seq, salt), len(cells))]
        base = use_mesh(MeshPatt(Perm(seq), cells - {c}))
        return base.shade(c)

    routes = {
        2: lambda: use_mesh(m.complement()).complement(),
        3: lambda: use_mesh(m.reverse()).reverse(),
        4: lambda: use_mesh(m.inverse()).inverse(),
        5: lambda: use_mesh(m.rotate(1)).rotate(3),
        6: by_shade,
        7: lambda: MeshPatt.unrank(Perm(seq), use_mesh(m).rank()) if len(seq) <= 5 else None,
        8: lambda: use_mesh(m).sub_mesh_pattern(range(len(seq))),
    }
    q = _quiet(routes[k])
    ok = q is not None and type(q) is MeshPatt and tuple(q.pattern) == seq and frozenset(q.shading) == cells
    return q if ok else m


# ----------------------------------------------------------------------------- extension (hardener hg1)
# mkperm2 / mkmesh2: the same idea with more routes (copies via slicing/concatenation, copy/pickle round
# trips, sums and removal, of_length items, add_point + sub_mesh_pattern, constructor on used parts,
# members of all_syms(), two-step shading) and a size-aware `use` (the full warm-up is quadratic in the length).
# churn(): many short-lived objects of the same kind that are queried and dropped (id()-keyed state).
ROUTE_LOG = None      # a list while testing: (kind, route number, route was exercised)


def _log(kind, k, ok):
    if ROUTE_LOG is not None:
        ROUTE_LOG.append((kind, k, ok))


def use_perm_light(q):
    """linear-time uses of a long permutation (as a value, as a pattern in itself, as a target)"""
    from permuta import Perm
    _quiet(lambda: (hash(q), q == Perm(tuple(q)), q.inverse(), q.reverse()))
    _quiet(lambda: next(q.occurrences_in(q), None))                    # fills its memoised search table
    _quiet(lambda: next(Perm((0,)).occurrences_in(q), None))
    _quiet(lambda: q.contains(Perm((0, 1))))
    _quiet(lambda: q.contains(Perm((1, 0))))
    return q


def _use_p(q):
    return use_perm(q) if len(q) <= 40 else use_perm_light(q)


N_PERM_ROUTES = 20


def mkperm2(seq, salt=0):
    import copy
    import pickle
    from permuta import Perm, MeshPatt
    seq = tuple(seq)
    n = len(seq)
    p = Perm(seq)
    k = _pick(("p2", seq, salt), N_PERM_ROUTES)
    if k == 0:
        return p
    u = _use_p
    if k == 1:
        return u(p)
    h = n // 2

    def sib_p(ctor):
        """siblings first: other values of the same length obtained through the same alternative constructor are
        used and dropped before the object under test is made (state shared between such objects)"""
        churn_perms(seq, lambda q: u(ctor(q)), 2)

    routes = {
        2: lambda: u(p.complement()).complement(),
        3: lambda: u(p.reverse()).reverse(),
        4: lambda: u(p.inverse()).inverse(),
        5: lambda: u(p.rotate(1)).rotate(-1),
        6: lambda: u(p.insert(0, 0)).remove(0),
        7: lambda: (sib_p(lambda q: Perm.unrank(q.rank())), Perm.unrank(u(p).rank()))[1] if n < 15 else u(p).inverse().inverse(),
        8: lambda: (sib_p(lambda q: Perm.from_string(str(q))), Perm.from_string(str(u(p))))[1] if n <= 10 else Perm(tuple(u(p))),
        9: lambda: (lambda q: Perm(q[:h] + q[h:]))(u(p)),                    # slicing + concatenation
        10: lambda: u(p.reverse_complement()).reverse_complement(),
        11: lambda: u(p.flip_antidiagonal()).flip_antidiagonal(),
        12: lambda: u(p.rotate(2)).rotate(2),
        13: lambda: u(p.direct_sum(Perm((0,)))).remove(n),
        14: lambda: u(Perm((0,)).skew_sum(p)).remove(0),
        15: lambda: (sib_p(Perm.to_standard), Perm.to_standard(u(p)))[1],
        16: lambda: copy.copy(u(p)),
        17: lambda: pickle.loads(pickle.dumps(u(p))),
        18: lambda: next(q for q in Perm.of_length(n) if q == p) if n <= 4 else u(p).get_perm(),
        19: lambda: use_mesh(MeshPatt(u(p), ())).reverse().reverse().pattern if n <= 12
        else MeshPatt(u(p), ()).reverse().reverse().pattern,
    }
    q = _quiet(routes[k])
    ok = q is not None and tuple(q) == seq and type(q) is Perm
    _log("p", k, ok)
    return q if ok else p


def use_mesh_light(m):
    """uses of a long mesh pattern that stay (nearly) linear in the size of its shading"""
    n = len(m)
    _quiet(lambda: (hash(m), m == m))
    _quiet(lambda: m.rotate(1))
    _quiet(lambda: m.is_shaded((0, 0)))
    _quiet(lambda: m.is_shaded((0, 0), (1, 1)))
    _quiet(lambda: m.can_shade((n, n)))
    _quiet(lambda: m.sub_mesh_pattern((0,)))
    _quiet(lambda: next(m.occurrences_in(m.pattern), None))
    return m


def _use_m(m):
    return use_mesh(m) if len(m) <= 8 else use_mesh_light(m)


N_MESH_ROUTES = 20


def mkmesh2(seq, cells, salt=0):
    import copy
    import pickle
    from permuta import MeshPatt, Perm
    seq = tuple(seq)
    n = len(seq)
    cells = _shading(cells, (tuple(seq), salt))
    m = MeshPatt(Perm(seq), cells)
    k = _pick(("m2", seq, tuple(sorted(cells)), salt), N_MESH_ROUTES)
    if k == 0:
        return m
    u = _use_m
    if k == 1:
        return u(m)
    srt = sorted(cells)

    def by_shade(count):
        if len(srt) < count:
            return None
        j = _pick(("c", seq, salt), len(srt))
        drop = [srt[(j + i) % len(srt)] for i in range(count)]
        q = u(MeshPatt(Perm(seq), cells - set(drop)))
        for c in drop:                       # one cell at a time: a chain of shade() results
            q = q.shade(c)
        return q

    def by_point():
        free = [(x, y) for x in range(n + 1) for y in range(n + 1) if (x, y) not in cells] if n <= 12 else []
        if not free:
            return None
        c = free[_pick(("f", seq, salt), len(free))]
        big = u(m).add_point(c)
        return big.sub_mesh_pattern([i for i in range(n + 1) if i != c[0]])

    def sib_m():
        """siblings first: patterns with other shadings of the same permutation obtained through unrank are used
        (rectangle queries included) and dropped before the object under test is made"""
        def f(q):
            r = MeshPatt.unrank(Perm(seq), q.rank())
            u(r)
            r.is_shaded((0, 0), (n, n))
            r.sub_mesh_pattern(range(0, n, 2))
        churn_meshes(seq, cells, f, 2)

    routes = {
        2: lambda: u(m.complement()).complement(),
        3: lambda: u(m.reverse()).reverse(),
        4: lambda: u(m.inverse()).inverse(),
        5: lambda: u(m.rotate(1)).rotate(3),
        6: lambda: by_shade(1),
        7: lambda: (sib_m(), MeshPatt.unrank(Perm(seq), u(m).rank()))[1] if n <= 6 else None,
        8: lambda: u(m).sub_mesh_pattern(range(n)),
        9: lambda: (sib_m(), next(q for q in MeshPatt.of_length(n) if q == m))[1] if n <= 1 else
        ((sib_m(), MeshPatt.unrank(mkperm2(seq, salt), u(m).rank()))[1] if n <= 6 else None),
        10: by_point,
        11: lambda: (lambda q: MeshPatt(q.pattern, q.shading))(u(m)),        # constructor on used parts
        12: lambda: copy.copy(u(m)),
        13: lambda: pickle.loads(pickle.dumps(u(m))),
        14: lambda: u(m.flip_horizontal()).flip_horizontal().flip_diagonal().flip_diagonal(),
        15: lambda: u(m.rotate(2)).rotate(-2),
        16: lambda: u(m).shade(),                                            # shade() with nothing to add
        17: lambda: next(q for q in u(m).all_syms() if q == m),
        18: lambda: by_shade(2),
        19: lambda: MeshPatt(mkperm2(seq, salt), cells),                     # underlying Perm with a past
    }
    q = _quiet(routes[k])
    ok = q is not None and type(q) is MeshPatt and tuple(q.pattern) == seq and frozenset(q.shading) == cells
    _log("m", k, ok)
    return q if ok else m


def churn_perms(seq, fn, count=6):
    """`count` short-lived permutations of the same length as `seq` (rotations of its values) are created,
    handed to fn (results and exceptions discarded) and dropped"""
    from permuta import Perm
    seq = tuple(seq)
    n = len(seq)
    for j in range(1, count + 1):
        q = Perm(tuple((v + j) % n for v in seq)) if n else Perm(())
        _quiet(lambda: fn(q))
        del q


def churn_meshes(seq, cells, fn, count=6):
    """`count` short-lived mesh patterns on the same underlying permutation whose shadings differ from
    `cells` in one cell each are created, handed to fn and dropped"""
    from permuta import MeshPatt, Perm
    seq = tuple(seq)
    n = len(seq)
    cells = set(tuple(c) for c in cells)
    if any(not (0 <= x <= n and 0 <= y <= n) for x, y in cells):
        return
    for j in range(count):
        c = ((j * 7 + 3) % (n + 1), (j * 5 + 1) % (n + 1))
        q = _quiet(lambda: MeshPatt(Perm(seq), cells ^ {c}))
        if q is not None:
            _quiet(lambda: fn(q))
        del q


# ----------------------------------------------------------------------------- extension (hardener hg2)
# `mkperm_u` / `mkmesh_u` (u = with the calling module's own `use`): the routes of mkperm / mkmesh and more (copies via slicing and
# concatenation, standardisation of the used object, shifts and back, inverse of inverse, sum with the empty
# permutation; add_point + sub_mesh_pattern, an item of MeshPatt.of_length, shade from a used AND ranked base,
# unrank from the rank of a used object).  Same contract: the returned object equals the requested value.
ROUTE_STATS = {}     # (kind, route, produced the requested value) -> count; diagnostic only


def mkperm_u(seq, salt=0, use=None):
    """`use`: the calling module's own way of using a permutation (its operations under test, results discarded);
    applied, after use_perm, to every object the routes pass through - the origin a derived object comes from has
    then been used with the very operations the line is about"""
    from permuta import Perm
    seq = tuple(seq)
    p = Perm(seq)
    n = len(seq)
    k = _pick(("p2", seq, salt), 18)
    c = _pick(("cut", seq, salt), n + 1)

    def u(x):
        use_perm(x)
        if use is not None:
            _quiet(lambda: use(x))
        return x

    if k == 0:
        return p
    if k == 1:
        return u(p)
    routes = {
        2: lambda: u(p.complement()).complement(),
        3: lambda: u(p.reverse()).reverse(),
        4: lambda: u(p.inverse()).inverse(),
        5: lambda: u(p.rotate(1)).rotate(-1),
        6: lambda: u(p.insert(0, 0)).remove(0),
        7: lambda: Perm.unrank(u(p).rank()) if n < 15 else u(p),
        8: lambda: Perm.from_string(str(u(p))) if n <= 10 else Perm(tuple(u(p))),
        9: lambda: u(u(p).remove(n - 1)).insert(n - 1, seq[n - 1]) if n else u(p),
        10: lambda: Perm(tuple(u(p)[:c]) + tuple(p[c:])),
        11: lambda: Perm(list(u(p))[::-1][::-1]),
        12: lambda: Perm.to_standard(u(p)),
        13: lambda: u(u(p).shift_right(c)).shift_left(c),
        14: lambda: u(u(p).inverse().inverse()),
        15: lambda: u(p).direct_sum(Perm(())),
        16: lambda: Perm(()).skew_sum(u(p)),
        17: lambda: u(u(p).reverse().complement()).complement().reverse(),
    }
    q = _quiet(routes[k])
    good = q is not None and tuple(q) == seq and type(q) is Perm
    ROUTE_STATS[("p", k, good)] = ROUTE_STATS.get(("p", k, good), 0) + 1
    return q if good else p


def mkmesh_u(seq, cells, salt=0, use=None):
    """`use`: as for mkperm_u (the calling module's own use of a mesh pattern)"""
    from permuta import MeshPatt, Perm
    seq = tuple(seq)
    cells = _shading(cells, (tuple(seq), salt))
    n = len(seq)
    k = _pick(("m2", seq, tuple(sorted(cells)), salt), 15)
    m = MeshPatt(Perm(seq), cells)

    def u(x):
        if n <= 40:
            _quiet(x.rank)
        use_mesh(x)
        if use is not None:
            _quiet(lambda: use(x))
        return x

    def by_shade():
        if not cells:
            return u(m).shade()
        cs = sorted(cells)
        j = 1 + _pick(("c2", seq, salt), len(cs))
        return u(u(MeshPatt(Perm(seq), cs[j:])).shade(*cs[:j]))

    def by_point():
        free = [(x, y) for x in range(n + 1) for y in range(n + 1) if (x, y) not in cells]
        if not free or n > 12:
            return None
        x, y = free[_pick(("f", seq, salt), len(free))]
        big = u(u(m).add_point((x, y)))
        return big.sub_mesh_pattern([i for i in range(n + 1) if i != x])

    def by_listing():
        if n > 2:
            return None
        return next((x for x in MeshPatt.of_length(n, use_perm(Perm(seq))) if x.shading == cells), None)

    if k == 0:
        return m
    if k == 1:
        return u(m)
    routes = {
        2: lambda: u(m.complement()).complement(),
        3: lambda: u(m.reverse()).reverse(),
        4: lambda: u(m.inverse()).inverse(),
        5: lambda: u(m.rotate(1)).rotate(3),
        6: by_shade,
        7: lambda: MeshPatt.unrank(use_perm(Perm(seq)), u(m).rank()) if n <= 40 else None,
        8: lambda: u(m).sub_mesh_pattern(range(n)),
        9: by_shade,
        10: by_point,
        11: by_listing,
        12: by_shade,
        13: lambda: MeshPatt.unrank(Perm(seq), u(u(m).flip_horizontal()).flip_horizontal().rank()) if n <= 40 else None,
        14: lambda: u(u(m).flip_horizontal()).flip_horizontal(),
    }
    q = _quiet(routes[k])
    ok = q is not None and type(q) is MeshPatt and tuple(q.pattern) == seq and frozenset(q.shading) == cells
    ROUTE_STATS[("m", k, ok)] = ROUTE_STATS.get(("m", k, ok), 0) + 1
    return q if ok else m


# ----------------------------------------------------------------------------- public aliases
# the library's documented alternative names (class-level `alias = method` bindings of perm.py / meshpatt.py at
# the pinned commit); a call under test is issued through one of its aliases on a deterministic share of lines
ALIASES = {
    "to_standard": ["standardize", "from_iterable"],
    "one_based": ["one", "proper", "scientific"],
    "identity": ["monotone_increasing"],
    "compose": ["multiply"],
    "shift_right": ["shift", "cyclic_shift", "cyclic_shift_right"],
    "shift_left": ["cyclic_shift_left"],
    "complement": ["flip_horizontal"],
    "reverse": ["flip_vertical"],
    "inverse": ["flip_diagonal"],
    "is_skew_decomposable": ["skew_decomposable"],
    "is_sum_decomposable": ["sum_decomposable"],
    "count_descents": ["num_descents"],
    "count_ascents": ["num_ascents"],
    "count_peaks": ["num_peaks", "count_pinnacles", "num_pinnacles"],
    "count_column_sum_primes": ["num_column_sum_primes"],
    "count_valleys": ["num_valleys"],
    "count_ltrmin": ["num_ltrmin"],
    "count_bonds": ["num_bonds", "bonds"],
    "count_inc_bonds": ["num_inc_bonds"],
    "count_dec_bonds": ["num_dec_bonds"],
    "count_cycles": ["num_cycles"],
    "is_increasing": ["is_identity"],
    "block_decomposition": ["all_intervals", "decomposition"],
    "monotone_block_decomposition": ["all_monotone_intervals"],
    "maximum_block": ["maximal_interval", "simple_location"],
    "children": ["shrink_by_one"],
    "count_rtlmax_ltrmin_layers": ["num_rtlmax_ltrmin_layers"],
    "count_occurrences_of": ["occurrences"],
    "apply": ["permute"],
    "cycle_notation": ["cycles"],
}


def alias(name, key):
    """the method name itself or one of its public aliases, chosen deterministically from `key`
    (about a third to a half of the calls go through an alias)"""
    al = ALIASES.get(name)
    if not al:
        return name
    k = _pick(("alias", name, key), 2 * len(al) + 1)
    return al[k // 2] if k % 2 == 0 and k < 2 * len(al) else name


class ViaAlias:
    """receiver wrapper: `ViaAlias(obj, key).method(...)` calls `obj.<method or one of its public aliases>(...)`"""
    __slots__ = ("_o", "_k")

    def __init__(self, o, key):
        self._o = o
        self._k = key

    def __getattr__(self, name):
        return getattr(self._o, alias(name, self._k))
