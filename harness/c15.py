"""C15 - the basis automaton of pin_words.py (make_nfa_for_pinword ... has_finite_pinperms, dfa_db)."""
import atexit
import itertools
import os
import shutil
import tempfile
from functools import lru_cache

import core
from core import fseq, fseqs, fbool, pseq, pseqs, guarded
import pinlib
import used
import past
from pinlib import DIRS, QUADS, trie_words, bits_to_str, in_m, m_words, m_word_perm, contains_any

PROP = "C15"
RULE = ("pws/decode/factor/sptom/mtosp/strict: every pin word / permutation up to the stated length; nfabits: every pin "
        "word of length <= K against all direction words of length <= D; accbits(d): every permutation of length <= 4 "
        "(thorough 5) against all direction words of length <= 8 (model NFA semantics up to 7, model DFA pipeline up to 8; "
        "quick: the permutations of length 4 on a rotating quarter of the two-letter prefix blocks); "
        "sembits: every basis of <= 2 permutations of length <= 4 (quick: every single one and a sample of 64 pairs) "
        "against all words of the pin-sequence language of length 2..8 with the containment oracle, the other lines of "
        "a basis (finpin*, canon*, accs) grouped with it; canon*: canonical minimal automata (complete language "
        "comparison); finpin*: those bases plus random triples/quadruples and bases with several elements of length 5 "
        "(one group with length 6), alone and mixed with short ones; long pin words (<= 33) and long words (<= 401); "
        "a third of the bases built from Perm objects with a past, half of the automata requested through a list "
        "object that held another basis in an earlier call; "
        "non-trivial = the basis / pin word is non-empty and at least one compared word is accepted and one rejected "
        "(bit vectors), resp. the word is non-empty (single words); distinct = distinct op lines")
ASSUMPTIONS = [
    "model/implementation agreement outside the enumerated and sampled inputs is assumed",
    "the model's determinise/minimise/product pipeline is PROVED language-preserving (C15.pipeline_language, "
    "has_finite_pinperms_iff_bounded, explore/refine fuel proved sufficient); it is still compared each run with the library's "
    "automata through canonical minimal forms (a complete language comparison)",
    "automata-lib is used as shipped in /venv; it is exercised only through its public results",
    "the oracle of finpin* speaks only when it can decide: pin sequences avoiding the basis are prefix closed, so if no word "
    "of L(M) of some length <= 10 avoids the basis the answer must be 'finite'",
]
PARTIAL = [
    "accepts_iff_contains (Bassino-Bouvel-Pierrot-Rossin) is now PROVED: C14.basisAccepts_iff_contains (Props/C14.lean A6': for m in L(M), |m|>=2, basisAccepts B m <-> perm(m_to_sp m) contains some b in B; with C15.pipeline_language it covers the automaton of make_dfa_for_basis) and C14.hasFinitePinperms_iff (has_finite_pinperms B <-> the B-avoiding permutations of strict pin words are bounded in length); sigma was first stated through C14's mToSp/pinwordToPerm; the bridges to C15's own copies are now all PROVED (Props/C15Ext.lean: mToSp_bridge and isStrict_bridge for EVERY word, no well-formedness needed; C14C15.decode_bridge for pinwordToPerm) and the theorem is restated entirely on Model.C15 functions: accepts_iff_contains_own (mToSp m = some w, isStrict w, pinwordToPerm w = ok sigma, dfaForBasis B accepts m <-> sigma contains some b in B) and has_finite_pinperms_iff_own; finpin_eq proves that the verdict the driver prints (after its run-time certificate test) is showBool (hasFinitePinperms B). The ops sembits/accs remain as a correspondence test of the real code",
    'db_equiv: shipped dfa_db automata language-equivalent to the automata computed from scratch -- complete comparison of canonical minimal automata for every shipped file (ops dbcanon/canondb), not a Lean theorem',
]
TRUSTED = ["automata-lib 7.x (DFA.from_nfa, union, difference, isfinite, accepts_input) - not modelled, results compared"]

_TMPROOT = None


def _tmproot():
    """one scratch root per check run (created by the parent before the workers fork)"""
    global _TMPROOT
    if _TMPROOT is None:
        env = os.environ.get("C15_TMPROOT")
        if env and os.path.isdir(env):
            _TMPROOT = env
        else:
            _TMPROOT = tempfile.mkdtemp(prefix="c15db_")
            os.environ["C15_TMPROOT"] = _TMPROOT
            atexit.register(shutil.rmtree, _TMPROOT, True)
    return _TMPROOT


_tmproot()


def worker_init():
    """each worker works in its own copy of the shipped dfa_db (load_dfa_for_perm resolves the
    relative path `dfa_db/` against the current directory and writes missing files)"""
    global Perm, PinWords
    from permuta import Perm as P
    from permuta.permutils.pin_words import PinWords as PW
    Perm, PinWords = P, PW
    d = os.path.join(_tmproot(), "w%d" % os.getpid())
    if not os.path.isdir(d):
        os.makedirs(d)
        src = os.path.join(core.REPO, "dfa_db")
        if os.path.isdir(src):
            shutil.copytree(src, os.path.join(d, "dfa_db"))
    os.chdir(d)


def pword(s):
    return "" if s == "_" else s


def fword(w):
    return w if w else "_"


def fwords(ws):
    ws = list(ws)
    return ";".join(fword(w) for w in ws) if ws else "-"


def basis_of(s):
    """the basis of a line; a deterministic third of the bases is built from Perm objects with a past (used /
    derived from a used object through another API route, past.mkperm)"""
    ps = pseqs(s)
    if used.sel("basis", [s], 3) and all(used.is_perm(p) for p in ps):
        return tuple(past.mkperm(p, i) for i, p in enumerate(ps))
    return tuple(Perm(p) for p in ps)


def _aliased(fn, b, key):
    """fn(list of the basis): for a deterministic half of the bases the list handed over is a list object that
    held ANOTHER basis (its first element only / nothing) in an earlier call of fn and was then
    changed in place (argument aliasing, used.grown_list); otherwise a fresh list"""
    if b and used.sel("alias", [key], 2):
        return used.grown_list(fn, b, first=(b[:1] if len(b) > 1 else []))
    # the basis in one of the forms a caller may hand over (the signatures say Iterable[Perm]): a list, a tuple, a
    # one-shot iterator, a generator
    k = used.digest("basis-form", [key]) % 4
    if k == 0:
        return fn(tuple(b))
    if k == 1:
        return fn(iter(list(b)))
    if k == 2:
        return fn(q for q in list(b))
    return fn(list(b))


# ----------------------------------------------------------------------------- implementation side
@lru_cache(maxsize=256)
def _dfa_basis(bs, mode):
    b = list(basis_of(bs))
    if mode == "db":
        return _aliased(lambda l: PinWords.make_dfa_for_basis(l, use_db=True), b, bs)
    if mode == "perm":
        assert len(b) == 1
        return PinWords.make_dfa_for_perm(b[0])
    return _aliased(lambda l: PinWords.make_dfa_for_basis(l, use_db=False), b, bs)


@lru_cache(maxsize=4096)
def _dfa_pinword(u):
    return PinWords.make_dfa_for_pinword(u)


def _walk_bits(dfa, x, d):
    """acceptance of x and all extensions by <= d letters (preorder), read off the DFA's table"""
    tr, fin = dfa.transitions, dfa.final_states
    q = dfa.initial_state
    for c in x:
        q = tr[q][c]
    out = []

    def go(q, k):
        out.append(q in fin)
        if k:
            for c in DIRS:
                go(tr[q][c], k - 1)
    go(q, d)
    return out


def _canon(dfa):
    return pinlib.canonical_dfa(dfa.states, dfa.transitions, dfa.initial_state, dfa.final_states)


def impl(op, a):
    if op == "pws":
        return guarded(lambda: fwords(sorted(PinWords.perm_to_pinword_mapping(len(pseq(a[0])))[Perm(pseq(a[0]))])))
    if op == "decode":
        return guarded(lambda: fseq(PinWords.pinword_to_perm(pword(a[0]))))
    if op == "factor":
        return guarded(lambda: fwords(PinWords.factor_pinword(pword(a[0]))))
    if op == "sptom":
        return guarded(lambda: fwords(PinWords.sp_to_m(pword(a[0]))))
    if op == "mtosp":
        return guarded(lambda: fword(PinWords.m_to_sp(pword(a[0]))))
    if op == "strict":
        return guarded(lambda: fbool(PinWords.is_strict_pinword(pword(a[0]))))
    if op == "nfa":
        def f():
            u, w = pword(a[0]), pword(a[1])
            r1 = PinWords.make_nfa_for_pinword(u).accepts_input(w)
            r2 = _dfa_pinword(u).accepts_input(w)
            return fbool(r1) if r1 == r2 else "NFA=%s DFA=%s" % (r1, r2)
        return guarded(f)
    if op == "nfabits":
        return guarded(lambda: bits_to_str(_walk_bits(_dfa_pinword(pword(a[0])), pword(a[1]), int(a[2]))))
    if op == "mdfa":
        return guarded(lambda: fbool(PinWords.make_dfa_for_m().accepts_input(pword(a[0]))))
    if op == "mbits":
        return guarded(lambda: bits_to_str(PinWords.make_dfa_for_m().accepts_input(w) for w in trie_words(int(a[0]))))
    if op == "acc":
        return guarded(lambda: fbool(_dfa_basis(a[0], "fresh").accepts_input(pword(a[1]))))
    if op == "accs":
        def f():
            dfa = _dfa_basis(a[0], "fresh")
            return bits_to_str(dfa.accepts_input(pword(w)) for w in a[1].split(";"))
        return guarded(f)
    if op in ("accbits", "accbitsd"):
        def f():
            bs = pseqs(a[0])
            dfa = _dfa_basis(a[0], "perm" if len(bs) == 1 else "fresh")
            return bits_to_str(_walk_bits(dfa, pword(a[1]), int(a[2])))
        return guarded(f)
    if op == "sembits":
        def f():
            dfa = _dfa_basis(a[0], "fresh")
            return bits_to_str(dfa.accepts_input(w) for w in m_words(int(a[1])))
        return guarded(f)
    if op == "finpin":
        return guarded(lambda: fbool(_aliased(PinWords.has_finite_pinperms, list(basis_of(a[0])), "f" + a[0])))
    if op == "finpindfa":
        return guarded(lambda: fbool(PinWords.has_finite_pinperms(list(basis_of(a[0])), dfa=_dfa_basis(a[0], "fresh"))))
    if op == "finpindb":
        return guarded(lambda: fbool(PinWords.has_finite_pinperms(list(basis_of(a[0])), use_db=True)))
    if op == "canon":
        return guarded(lambda: _canon(_dfa_basis(a[0], "fresh")))
    if op == "canondb":
        return guarded(lambda: _canon(_dfa_basis(a[0], "db")))
    if op == "dbcanon":
        return guarded(lambda: _canon(PinWords.load_dfa_for_perm(Perm(pseq(a[0])))))
    if op == "mcanon":
        return guarded(lambda: _canon(PinWords.make_dfa_for_m()))
    raise ValueError("unknown op " + op)


# ----------------------------------------------------------------------------- oracle (property text)
ORACLE_FIN_LEN = 10


def _all_perms(bs):
    return all(sorted(b) == list(range(len(b))) for b in bs)


def oracle(op, a):
    if op == "pws":
        p = pseq(a[0])
        return fwords(sorted(pinlib.pinword_table(len(p)).get(p, [])))
    if op == "decode":
        u = pword(a[0])
        if pinlib.is_pin_word(u):
            return fseq(pinlib.decode_pinword(u))
        return None
    if op in ("mdfa",):
        return fbool(in_m(pword(a[0])))
    if op == "mbits":
        return bits_to_str(in_m(w) for w in trie_words(int(a[0])))
    if op == "acc":
        w = pword(a[1])
        if len(w) >= 2 and in_m(w) and _all_perms(pseqs(a[0])):
            return fbool(contains_any(m_word_perm(w), pseqs(a[0])))
        return None
    if op == "accs":
        ws = [pword(w) for w in a[1].split(";")]
        if any(len(w) > 40 for w in ws):
            return None             # brute-force containment in a long permutation is out of reach: model comparison only
        if all(len(w) >= 2 and in_m(w) for w in ws) and _all_perms(pseqs(a[0])):
            return bits_to_str(contains_any(m_word_perm(w), pseqs(a[0])) for w in ws)
        return None
    if op == "sembits":
        bs = pseqs(a[0])
        if not _all_perms(bs):
            return None
        return bits_to_str(contains_any(m_word_perm(w), bs) for w in m_words(int(a[1])))
    if op in ("finpin", "finpindfa", "finpindb"):
        # pin sequences avoiding the basis are prefix-closed: if none of some length avoids, they are bounded
        bs = pseqs(a[0])
        if not _all_perms(bs):
            return None
        if any(len(b) == 0 for b in bs):
            return "T"
        counts = pinlib.avoiding_m_word_counts(bs, ORACLE_FIN_LEN)
        if any(v == 0 for v in counts.values()):
            return "T"
        return None
    if op == "canondb":
        return guarded(lambda: _canon(_dfa_basis(a[0], "fresh")))
    if op == "dbcanon":
        return guarded(lambda: _canon(_dfa_basis(a[0], "perm")))
    if op == "mcanon":
        return "4/1110/1,2,1,2;3,2,3,2;1,3,1,3;3,3,3,3"
    return None


def nontrivial(op, a, out):
    if out.startswith("ERR"):
        return False
    if op in ("nfabits", "accbits", "accbitsd", "sembits", "mbits", "accs"):
        body = out.split(":", 1)[1]
        return any(ch != "0" for ch in body) and any(ch != "f" for ch in body[:-1] or body)
    if op in ("nfa", "acc"):
        return a[0] not in ("_", "-") and a[1] != "_"
    if op in ("pws", "decode", "factor", "sptom", "mtosp", "strict"):
        return len(a[0]) >= 2
    if op.startswith("finpin") or op.startswith("canon") or op == "dbcanon":
        return a[0] not in ("-", "_")
    return True


# ----------------------------------------------------------------------------- translator self-check
def translator_selfcheck():
    import sys
    sys.path.insert(0, os.path.join(core.VERIF, "tools"))
    import importlib
    ti = importlib.import_module("translate_c15")
    from permuta.permutils import pin_words as pw
    text = "\n".join(sum((fn(core.REPO) for fn in (ti.c15_dirs_quads, ti.c15_dfa_m, ti.c15_letter_dicts)), []))

    def lst(s):
        return "[%s]" % ", ".join("'%s'" % c for c in s)
    if "c15_DIRS : List Char := " + lst(pw.DIRS) not in text:
        return "DIRS differs from the live module constant"
    if "c15_QUADS : List Char := " + lst(pw.QUADS) not in text:
        return "QUADS differs from the live module constant"
    m = pw.PinWords.make_dfa_for_m()
    for q, row in m.transitions.items():
        for c, t in row.items():
            if "('%s', %d)" % (c, t) not in text.split("(%d, [" % q, 1)[1].split("])", 1)[0]:
                return "dfaM transition %s,%s differs" % (q, c)
    if "c15_dfaM_finals : List Nat := [%s]" % ", ".join(str(s) for s in sorted(m.final_states)) not in text:
        return "dfaM final states differ"
    if "c15_dfaM_init : Nat := %d" % m.initial_state not in text:
        return "dfaM initial state differs"
    for q in pw.QUADS:
        l = pw.PinWords.sp_to_m(q)[0]
        if "('%s', %s)" % (q, lst(l)) not in text:
            return "letter_dict[%s] differs from sp_to_m(%s)" % (q, q)
    return None


# ----------------------------------------------------------------------------- generation
def perms(n):
    return itertools.permutations(range(n))


def rand_perm(rng, n):
    l = list(range(n))
    rng.shuffle(l)
    return tuple(l)


def rand_pinword(rng, n):
    w = ""
    for _ in range(n):
        cands = list(QUADS)
        if w:
            cands += [c for c in DIRS if not (w[-1] in DIRS and (w[-1] in "UD") == (c in "UD"))]
        # favour directions (longer factors)
        c = rng.choice(cands + [x for x in cands if x in DIRS] * 2)
        w += c
    return w


def rand_word(rng, n, alternating=False):
    w = ""
    for _ in range(n):
        if alternating and w:
            w += rng.choice("LR" if w[-1] in "UD" else "UD")
        else:
            w += rng.choice(DIRS)
    return w


_SP = {"1": "RU", "2": "LU", "3": "LD", "4": "RD"}


def planted_word(rng, u):
    """a direction word built to match A* f(u1) A* ... A* (from the paper's phi, not from the code),
    optionally damaged by one deletion / substitution"""
    facs = []
    cur = ""
    for c in u:
        if c in QUADS or not cur:
            if cur:
                facs.append(cur)
            cur = c
        else:
            cur += c
    if cur:
        facs.append(cur)
    w = rand_word(rng, rng.randrange(0, 3))
    for f in facs:
        if f[0] in QUADS:
            l = _SP[f[0]]
            if len(f) == 1:
                l = rng.choice([l, l[::-1]])
            elif (l[1] in "UD") == (f[1] in "UD"):
                l = l[::-1]
            w += l + f[1:]
        else:
            w += f
        w += rand_word(rng, rng.randrange(0, 3))
    r = rng.random()
    if r < 0.3 and w:
        i = rng.randrange(len(w))
        w = w[:i] + w[i + 1:]
    elif r < 0.5 and w:
        i = rng.randrange(len(w))
        w = w[:i] + rng.choice(DIRS) + w[i + 1:]
    return w


def run(ctx):
    rng = ctx.rng
    quick = ctx.tier == "quick"
    PL = 4 if quick else 5          # permutations up to this length
    K, D = (4, 6) if quick else (5, 7)
    ctx.exhaustive = True
    ctx.exhaustive_bound = ("pin words <= %d x all direction words <= %d (nfabits); permutations <= %d x all direction words "
                            "<= 8 (accbits to 7 / accbitsd to 8%s); bases of %s of length <= 4 x all words of "
                            "L(M) of length 2..8 (sembits); finpin on all single permutations <= 4 and %s pairs; canonical automata for all permutations <= %d and "
                            "shipped dfa_db files" % (K, D, PL, "; quick: length-4 permutations on 4 of the 16 two-letter prefix blocks each" if quick else "",
                                                      "1 permutation and a sample of 64 pairs" if quick else "<= 2 permutations",
                                                      "about 70 sampled" if quick else "all", PL))
    # -- corpus
    ctx.compare("corpus", [
        "pws 0,1", "pws _", "pws 0", "pws 1,3,0,2", "decode 3DL2UR", "decode 14L2UR", "factor 14L2UR", "sptom 1R",
        "sptom 2UL", "sptom 3", "sptom 4D", "mtosp RUR", "mtosp ULUL", "mtosp DL", "mtosp LD", "mtosp DRD",
        "nfa 1 UR", "nfa 1 RU", "nfa 1 UU", "nfa 11 URUR", "nfa 11 URU", "nfa 3 LD", "nfa 3 DL", "nfa 3 LL", "nfa _ _",
        "nfa _ ULDR", "mdfa ULUR", "mdfa UD", "mdfa _", "mbits 4", "acc 0,1 URUR", "acc - U", "acc _ U", "acc 0 UR",
        "accbits 0,1 _ 3", "accbitsd 0,1 _ 3", "finpin 0,1,2", "finpin 0,1,2;2,1,0", "finpin -", "finpin _", "finpin 0",
        "finpin 1,3,0,2;2,0,3,1", "canon 0", "canon -", "canon _", "dbcanon 0", "mcanon", "canon 0,1;1,0",
        "finpindb 0,1,2", "finpindfa 0,1,2;2,1,0", "canondb 0,1,2;2,1,0", "accs 0,1 _;U;UR;URUR;RURU;LDLD",
        "sembits 0,1 6",
    ])
    # -- helper copies: every pin word / permutation of small length
    lines = []
    for n in range(PL + 1):
        for p in perms(n):
            lines.append("pws " + (fseq(p)))
    lines.append("pws 2,1,3")          # not a permutation of 0..n-1: the table has no entry
    lines.append("pws 0,0")
    for n in range(0, 5 if quick else 6):
        for u in pinlib.pin_language(n):
            lines.append("decode " + fword(u))
            lines.append("factor " + fword(u))
            lines.append("strict " + fword(u))
            if n <= 4:
                for f in set(PinWordsFactor(u)):
                    lines.append("sptom " + fword(f))
    for w in trie_words(5):
        lines.append("mtosp " + fword(w))
        lines.append("mdfa " + fword(w))
    lines.append("mbits 8")
    lines = sorted(set(lines))
    ctx.compare("helpers-exhaustive", lines)
    # -- one big shuffled stream (heavy bit-vector / automaton lines spread evenly among cheap single-word lines so
    #    that the worker and driver chunks are balanced)
    units = []          # groups of lines kept together (same basis => the worker's automaton cache is hit)
    count = {}

    def add(kind, line, same_unit=False):
        if same_unit and units:
            units[-1].append(line)
        else:
            units.append([line])
        count[kind] = count.get(kind, 0) + 1
    for n in range(0, K + 1):
        for u in pinlib.pin_language(n):
            add("nfabits", "nfabits %s _ %d" % (fword(u), D))
    # every permutation: NFA semantics up to length 7, DFA pipeline up to length 8, split by 2-letter prefixes
    # (quick tier: all 16 prefixes for the permutations of length <= 3; for those of length 4 the two whole-language
    #  lines to depth 1 plus 4 of the 16 prefix blocks, rotating with the permutation's index so that every prefix
    #  is met by a quarter of them; the thorough tier keeps everything)
    pref2 = [x + y for x in DIRS for y in DIRS]
    pidx = 0
    for n in range(0, PL + 1):
        for p in perms(n):
            if n == 5 and rng.random() > 0.25:
                continue
            fp = fseq(p)
            add("accbits", "accbits %s _ 1" % fp)
            add("accbits", "accbitsd %s _ 1" % fp, True)
            pidx += 1
            for j, x in enumerate(pref2):
                if quick and n >= 4 and (j + pidx) % 4 != 0:
                    continue
                add("accbits", "accbits %s %s %d" % (fp, x, 5), True)
                add("accbits", "accbitsd %s %s %d" % (fp, x, 6), True)
    # single words: pin words of length <= 3 against direction words of length <= 4
    for n in range(0, 4):
        for u in pinlib.pin_language(n):
            for w in trie_words(4 if quick else 5):
                if quick and rng.random() > 0.2:
                    continue
                add("nfa", "nfa %s %s" % (fword(u), fword(w)))
    # random long pin words with planted / damaged matches
    for _ in range(4000 if quick else 40000):
        u = rand_pinword(rng, rng.randrange(1, 9))
        w = planted_word(rng, u) if rng.random() < 0.8 else rand_word(rng, rng.randrange(0, 14))
        add("nfa", "nfa %s %s" % (fword(u), fword(w)))
    # longer pin words / longer direction words (the sizes the streams above never reach): factors planted at the
    # very beginning / the very end of the direction word, several long factors, numerals only
    for _ in range(300 if quick else 3000):
        u = rand_pinword(rng, rng.choice([9, 10, 11, 12, 16, 21, 33]))
        if rng.random() < 0.2:
            u = "".join(rng.choice(QUADS) for _ in range(rng.choice([9, 12, 17])))
        w = planted_word(rng, u)
        pad = rand_word(rng, rng.choice([0, 0, 20, 40]))
        w = rng.choice([w, pad + w, w + pad, w[1:], w[:-1]])
        add("nfa", "nfa %s %s" % (fword(u), fword(w)))
    # the automaton of a basis.  One UNIT per basis: its lines stay together, so a worker builds the automaton of the
    # basis once (the harness memoises it per worker) for the semantic bit vector, the canonical form, the word
    # samples and the finiteness test with a supplied automaton; `finpin` / `finpindb` build their own inside.
    # Bases: every single permutation of length <= 4, (quick) a deterministic sample of 64 of the 528 pairs resp.
    # (thorough) all pairs, random triples and quadruples.
    small = [p for n in range(1, 5) for p in perms(n)]
    singles = [(p,) for p in small]
    pairs = list(itertools.combinations(small, 2))
    bases = singles + pairs
    pool = singles + (rng.sample(pairs, 64) if quick else pairs)
    pool += [tuple(rng.sample(small, 3)) for _ in range(24 if quick else 600)]
    pool += [tuple(rng.sample(small, 4)) for _ in range(10 if quick else 300)]
    for b in pool:
        fb = fseqs(b)
        add("sembits", "sembits %s 8" % fb)
        if len(b) == 1 or not quick or rng.random() < 0.45:
            add("finpin", "finpin " + fb, True)
        if rng.random() < 0.2:
            add("finpin", "finpindfa " + fb, True)
            add("finpin", "finpindb " + fb, True)
        if len(b) > 1 and rng.random() < 0.3:
            add("canon", "canon " + fb, True)
            if rng.random() < 0.4:
                add("canon", "canondb " + fb, True)
        if rng.random() < 0.4:
            # longer words of L(M) (and a few outside), many words per basis
            ws = [rand_word(rng, rng.randrange(2, 12), alternating=rng.random() < 0.9) for _ in range(24)]
            add("accs", "accs %s %s" % (fb, ";".join(ws)), True)
            add("acc", "acc %s %s" % (fb, ws[0]), True)
        if rng.random() < 0.05:
            ws = [rand_word(rng, rng.choice([21, 33, 40, 64, 70, 200, 401]), alternating=True) for _ in range(4)]
            add("accs", "accs %s %s" % (fb, ";".join(ws)), True)
        if len(b) > 1 and rng.random() < 0.08:
            add("sembits", "sembits %s 8" % fseqs(b[::-1]), True)
    # bases with LONG elements (length 5; one unit with length 6): several long elements together (all eight
    # symmetric images of one, both monotone ones), long elements mixed with short ones.  A worker that meets
    # length 5 (6) builds the library's pin-word table of that length once (1 s resp. 9 s): few units, kept together.
    def sym8(p):
        out = []
        for q in (tuple(p), tuple(sorted(range(len(p)), key=lambda i: p[i]))):
            for r in (q, q[::-1]):
                for t in (r, tuple(len(r) - 1 - v for v in r)):
                    if t not in out:
                        out.append(t)
        return out
    mono5 = (tuple(range(5)), tuple(range(4, -1, -1)))
    long_units = []
    for _ in range(3 if quick else 40):
        u = []
        p5 = rand_perm(rng, 5)
        imgs = sym8(p5)
        cands = [tuple(imgs), tuple(imgs[:2]), (p5, rand_perm(rng, 5)), (p5, rng.choice(small[9:])), mono5,
                 (rng.choice(small[3:9]), rand_perm(rng, 5), rand_perm(rng, 5)), (mono5[0], rng.choice(small[3:])),
                 (rng.choice(mono5), rand_perm(rng, 5), rand_perm(rng, 4))]
        for b in (cands if not quick else cands[:1] + rng.sample(cands[1:], 4)):
            u.append("finpin " + fseqs(b))
            if rng.random() < 0.5:
                u.append("sembits %s 8" % fseqs(b))
            if rng.random() < 0.3:
                u.append("finpindfa " + fseqs(b))
                u.append("canon " + fseqs(b))
        long_units.append(u)
    p6 = rand_perm(rng, 6)
    long_units.append(["finpin " + fseqs((rng.choice(small[3:9]), tuple(range(5, -1, -1)))), "finpin " + fseqs((p6, rand_perm(rng, 5))),
                       "sembits %s 8" % fseq(p6)]
                      + ([] if quick else ["finpin " + fseqs(tuple(sym8(p6))), "finpin " + fseqs((tuple(range(6)), tuple(range(5, -1, -1))))]))
    for u in long_units:
        units.append(u)
        count["long-elements"] = count.get("long-elements", 0) + len(u)
    # complete language comparison through canonical minimal automata; shipped database
    add("canon", "mcanon")
    add("canon", "canon -")
    for n in range(0, PL + 1):
        for p in perms(n):
            if n == 5 and rng.random() > 0.34:
                continue
            add("canon", "canon " + fseq(p))
    shipped = []
    dbroot = os.path.join(core.REPO, "dfa_db")
    if os.path.isdir(dbroot):
        for d in sorted(os.listdir(dbroot)):
            for f in sorted(os.listdir(os.path.join(dbroot, d))):
                name = f[:-4]
                if f.endswith(".txt") and name.isdigit() and len(name) <= 9:
                    shipped.append(tuple(int(c) for c in name))
    if quick:
        shipped5 = [p for p in shipped if len(p) >= 5]
        shipped = [p for p in shipped if len(p) < 5] + rng.sample(shipped5, min(4, len(shipped5)))
    for p in shipped:
        add("canon", "dbcanon " + fseq(p))
    # the database route for EVERY permutation of length 5 (thorough: and 6): store + load through make_dfa_for_basis(
    # use_db=True) in a fresh directory against the model (a per-permutation special case in the store path - a wrong
    # entry in a look-up table - shows only on that permutation).  Quick tier: a rotating 24 of the 120 / 12 of the 720,
    # grouped in few units so that the pin-word table of the length is built by few workers.
    import itertools as _it
    for n, take in ((5, 24 if quick else 120), (6, 12 if quick else 720)):
        allp = list(_it.permutations(range(n)))
        off = rng.randrange(len(allp))
        chosen = [allp[(off + i * (len(allp) // take)) % len(allp)] for i in range(take)]
        per_unit = 12 if quick else 45
        for i, q in enumerate(chosen):
            add("canon", "canondb " + fseq(q), i % per_unit != 0)
    ctx.extra["shipped_db_files_checked"] = len(shipped)
    ctx.extra["automata_stream_composition"] = count
    rng.shuffle(units)
    lines = []
    seen = set()
    for u in units:
        for l in u:
            if l not in seen:
                seen.add(l)
                lines.append(l)
    ctx.compare("automata", lines)
    # -- malformed
    ctx.compare("malformed", [
        "nfa X U", "nfa 1X UR", "nfa a _", "nfa U1 UR", "nfa 1UU URUU", "nfa U1 URU", "mtosp U", "mtosp _", "mtosp UU",
        "mtosp 1R", "acc 2,1,3 UR", "acc 0,0 UR", "finpin 2,1,3", "mdfa 1", "mdfa UX", "acc 0,1 UX", "acc 0,1 1",
        "decode U", "decode 1UU", "decode 1X", "sptom U", "sptom UR", "sptom _", "strict U", "strict 11", "factor U1",
        "factor UU1",
    ])


def PinWordsFactor(u):
    """numeral-led factors of a pin word (for line generation only)"""
    out = []
    cur = ""
    for c in u:
        if c in QUADS and cur:
            out.append(cur)
            cur = c
        else:
            cur += c
    if cur:
        out.append(cur)
    return out
