"""C18 - shading lemma, point insertion, lookups, rendering (meshpatt.py 244-328, 414-747)."""
import functools
import itertools

from core import fseq, fcells, fbool, pseq, pcells, guarded
import used
import past

PROP = "C18"
RULE = ("exhaustive: every mesh pattern of length <= 2 (all 2+16+1024 shadings) x every cell / every ordered pair of "
        "edge-adjacent cells / every direction / every rectangle; random: length-3/4 meshes with boundary-heavy or "
        "lemma-friendly shadings; semantic ops (cs, css, sbl, addptsem) are judged by a brute-force comparison of the sets of "
        "containing permutations over ALL permutations of length <= 6 (7 thorough) with a mesh containment written from the "
        "definition; non-trivial = the implementation licensed a shading (cs/css/sbl = T), the list/table is non-empty, "
        "add_point succeeded on a non-empty shading, the rectangle has >= 2 cells, the pattern has >= 1 point; "
        "distinct = distinct op lines; large: the structural ops on patterns of length 9-12, 21-40, 64-70 and a few "
        "around 200 (cells around points, at the border, next to shaded cells; bands with one hole at the far end); "
        "objects with a past: on a deterministic twelfth of the lines the pattern is fresh / used / derived from a used "
        "object through another API route (past.mkmesh2: shade() of a used pattern, symmetries and back, unrank, "
        "add_point + sub_mesh_pattern, copies); returned lists / dicts / sets are damaged and the call is repeated; "
        "outgrid-simul: can_simul_shade / north_east_simul_shading_lemma_conditions on positions that are not cells of the "
        "grid, negative coordinates included: length <= 1 every mesh pattern x every edge-adjacent ordered pair of the window "
        "[-n-2, 2n+2]^2 (all ordered pairs for two shadings per length in quick, all in thorough), length 2 sampled shadings "
        "(half with two equal rows / columns) x every edge-adjacent pair of [-3, 5]^2, lengths 3-12 pairs aimed at the "
        "negative-subscript wrap-around in each of the four rounds, pairs across the border, shifted / far positions")
ASSUMPTIONS = [
    "model/implementation agreement outside the enumerated and sampled inputs is assumed",
    "the oracle judges licensed shadings and add_point against permutations of length <= 6 (quick) / 7 (thorough) only; the universally quantified statements are the Lean theorems can_shade_sound, can_simul_shade_sound, shadable_boxes_sound, add_point_spec",
    "can_simul_shade / north_east_simul_shading_lemma_conditions are modelled for ARBITRARY integer positions "
    "(Model/C18Int.lean: rotation into negative coordinates, Python's negative subscripts in self.pattern[pos1[0] - 1], "
    "IndexError beyond; ops cansimul / css / cssz / nesimul take signed cells); on such positions the property demands "
    "nothing of the call itself (shade() refuses them), the oracle (cssz) accepts an exception and requires a licence to "
    "be sound for the cells of the grid among the two positions",
    "negative coordinates are not in the protocol of the other operations (can_shade, add_point, is_shaded, ...); for "
    "can_shade every natural position is modelled (outside the grid it raises IndexError in round 0 or 1)",
]
PARTIAL = [
]
TRUSTED = ["the encoding of ascii_plot strings into one protocol token (' '->'.', newline->'/', U+2592->'#', U+25CF->'o') "
           "is applied after the real rendering on both sides and is a bijection on the alphabet used"]


def worker_init():
    global Perm, MeshPatt
    from permuta import Perm as P, MeshPatt as M
    Perm, MeshPatt = P, M


# ------------------------------------------------------------------------------ protocol helpers
def fmesh(p, sh):
    return "%s/%s" % (fseq(p), fcells(sh))


def fmp(m):
    return fmesh(tuple(m.pattern), m.shading)


_DERIVE = [False]     # selected lines: the pattern is an object with a past (past.mkmesh2), see impl
_OBJ = {}


def mk(a):
    """the pattern object under test, *after it has been used*: a few other queries are issued on
    the same object first (point insertions in other directions, a shading-lemma query), so that
    any state an object keeps between calls is exercised; results of the warm-up are discarded.
    On the selected lines the object comes from past.mkmesh2 (fresh / used / derived from a used object through
    another API route: symmetries and back, shade(), unrank, add_point + sub_mesh_pattern, copies, ...) and the
    second evaluation of the line receives the same object."""
    if _DERIVE[0]:
        key = (a[0], a[1])
        if key in _OBJ:
            return _OBJ[key]
        m = past.mkmesh2(pseq(a[0]), pcells(a[1]), 2)
        _OBJ[key] = m
    else:
        m = MeshPatt(Perm(pseq(a[0])), pcells(a[1]))
    n = len(m.pattern)
    cells = []
    if len(a) > 2:
        try:
            cells = [c for c in pcells(a[2]) if len(c) == 2][:2]
        except Exception:
            cells = []
    cells.append((n, n))
    for c in cells:
        for d in ((2, 0, 3, -1) if n < 9 else (2,)):     # (long patterns: one insertion per cell, each costs O(|shading|))
            try:
                m.add_point(c, d)
            except Exception:
                pass
        try:
            m.can_shade(c)
        except Exception:
            pass
    return m


def redo(call, fmt, damage):
    """fmt(call()); on the selected lines the returned container is damaged afterwards and the call is repeated
    (same object, same arguments): the second answer must be that of a first call"""
    r = call()
    out = fmt(r)
    if not _DERIVE[0]:
        return out
    try:
        damage(r)
    except Exception:  # pylint: disable=broad-except
        pass
    out2 = fmt(call())
    return out if out == out2 else used.unstable(out, out2)


def probe(m):
    """a few cheap queries whose answers depend on everything a pattern object may keep between calls"""
    n = len(m)
    cells = [c for c in ((0, 0), (n, n), (n // 2, (n + 1) // 2)) if c not in m.shading]
    return (tuple(m.pattern), sorted(m.shading), [m.can_shade(c) for c in cells], sorted(m.rotate(1).shading),
            m.is_shaded((0, 0), (min(1, n), min(1, n))), m.has_anchored_point(), hash(m),
            sorted(m.sub_mesh_pattern(range(n)).shading))


def fresh_like(r):
    """fmp(r) for a pattern object r RETURNED by the call under test; on the selected lines r must in addition
    answer `probe` like a newly constructed pattern with the same underlying permutation and shading"""
    if not _DERIVE[0] or len(r) > 12:
        return fmp(r)
    f = MeshPatt(Perm(tuple(r.pattern)), frozenset(r.shading))
    a, b = used.quiet(lambda: probe(r)), used.quiet(lambda: probe(f))
    return fmp(r) if a == b else used.unstable(fmp(r), "result object answers %r, a new one %r" % (a, b))


def spoil_list(l):
    l.append(-7)
    l.reverse()


def spoil_boxes(d):
    for v in list(d.values()):
        v.append(((0, 0),))
        v.reverse()
    d.clear()
    d[-1]                      # (a defaultdict: looking a key up inserts it)


def cell(s):
    (c,) = pcells(s)
    return c


ENC = {" ": ".", "\n": "/", "▒": "#", "●": "o"}
DEC = {v: k for k, v in ENC.items()}


def enc(s):
    return "=" + "".join(ENC.get(ch, ch) for ch in s)


def parse_plot(s, cs):
    """inverse of MeshPatt.ascii_plot(cell_size=cs), written from the docstring picture: text rows alternate between
    cell rows (cs text lines each, top row first) and grid lines; a cell is shaded iff its '|'-separated field starts
    with U+2592; point j sits in the grid line whose (cs*(j+1))-th '-'-separated field is U+25CF"""
    rows = s.split("\n")
    n = (len(rows) - cs) // (cs + 1)
    shading = set()
    patt = [0] * n
    for k in range(n + 1):
        for j, f in enumerate(rows[k * (cs + 1)].split("|")):
            if f.startswith("\u2592"):
                shading.add((j, n - k))
    for j in range(n):
        for k in range(n):
            if rows[k * (cs + 1) + cs].split("-")[cs * (j + 1)] == "\u25cf":
                patt[j] = n - 1 - k
                break
    return tuple(patt), shading


def adj_ok(p, cells, vals):
    """docstring of can_shade: 'the values of the adjacent points to the box': every returned value is the value of a
    point of the pattern sitting in a corner of one of the boxes"""
    return all(any(i in (x - 1, x) and p[i] == v and v in (y - 1, y) for (x, y) in cells for i in range(len(p)))
               for v in vals)


def fboxes(d):
    if not d:
        return "-"
    return "|".join("%d:%s" % (k, ";".join(sorted("+".join("%d.%d" % c for c in grp) for grp in d[k])))
                    for k in sorted(d))


def pgroup(s):
    return tuple(tuple(int(z) for z in t.split(".")) for t in s.split("+"))


# ------------------------------------------------------------------------------ implementation side
def _plain(op, a):
    saved = _DERIVE[0]
    _DERIVE[0] = False
    try:
        return _impl(op, a)
    finally:
        _DERIVE[0] = saved


REDO_OPS = ("canshade", "cansimul", "cs", "css", "boxes", "sbl", "npb")     # ops that repeat their call themselves (redo)


def impl(op, a):
    n = a[0].count(",") + 1 if a and a[0] != "_" else 0
    big = n >= 9
    # selection: a deterministic twelfth of the lines (half of the 'large' stream, where deriving a long pattern costs
    # milliseconds) run on an object with a past; the call under test is repeated on that object (by redo, with the
    # first result damaged in between, or by a second evaluation of the line); 1 in 16 of the selected lines are
    # preceded by the neighbouring calls (used.prelude)
    _DERIVE[0] = used.digest("d~" + op, a) % (2 if big else 12) == 0
    if not _DERIVE[0]:
        return _impl(op, a)
    if not big:
        used.prelude(op, a, _plain, 16)
    _OBJ.clear()
    r1 = _impl(op, a)
    if n >= 21 or op[4:] in REDO_OPS:
        _OBJ.clear()
        return r1
    r2 = _impl(op, a)
    _OBJ.clear()
    return r1 if r1 == r2 else used.unstable(r1, r2)


def _impl(op, a):
    op = op[4:] if op.startswith("c18.") else op
    if op == "shade":
        return guarded(lambda: fresh_like(mk(a).shade(*pcells(a[2]))))
    if op == "addpt":
        return guarded(lambda: fresh_like(mk(a).add_point(cell(a[2]), int(a[3]))))
    if op == "addinc":
        return guarded(lambda: fresh_like(mk(a).add_increase(cell(a[2]))))
    if op == "adddec":
        return guarded(lambda: fresh_like(mk(a).add_decrease(cell(a[2]))))
    if op == "necond":
        return guarded(lambda: fbool(mk(a).north_east_shading_lemma_conditions(cell(a[2]))))
    if op == "nesimul":
        return guarded(lambda: fbool(mk(a).north_east_simul_shading_lemma_conditions(cell(a[2]), cell(a[3]))))
    if op == "canshade":
        return guarded(lambda: (lambda m: redo(lambda: m.can_shade(cell(a[2])), fseq, spoil_list))(mk(a)))
    if op == "cansimul":
        return guarded(lambda: (lambda m: redo(lambda: m.can_simul_shade(cell(a[2]), cell(a[3])), fseq, spoil_list))(mk(a)))
    if op == "cs":
        return guarded(lambda: (lambda m: redo(lambda: m.can_shade(cell(a[2])), lambda l: fbool(bool(l)), spoil_list))(mk(a)))
    if op == "css":
        return guarded(lambda: (lambda m: redo(lambda: m.can_simul_shade(cell(a[2]), cell(a[3])),
                                               lambda l: fbool(bool(l)), spoil_list))(mk(a)))
    if op == "cssz":
        # the verdict alone, for arbitrary integer positions: a licence is a non-empty list; an exception licenses nothing
        def f():
            m = mk(a)
            try:
                return fbool(bool(m.can_simul_shade(cell(a[2]), cell(a[3]))))
            except (IndexError, AssertionError):
                return "F"
        return guarded(f)
    if op == "adj":
        return guarded(lambda: fbool(adj_ok(pseq(a[0]), [cell(a[2])], mk(a).can_shade(cell(a[2])))))
    if op == "adj2":
        return guarded(lambda: fbool(adj_ok(pseq(a[0]), [cell(a[2]), cell(a[3])],
                                            mk(a).can_simul_shade(cell(a[2]), cell(a[3])))))
    if op == "boxes":
        return guarded(lambda: (lambda m: redo(m.shadable_boxes, lambda d: fboxes(dict(d)), spoil_boxes))(mk(a)))
    if op == "sbl":
        def f():
            g = pgroup(a[2])
            m = mk(a)
            return redo(m.shadable_boxes, lambda d: fbool(any(g in v for v in d.values())), spoil_boxes)
        return guarded(f)
    if op == "isshaded1":
        return guarded(lambda: fbool(mk(a).is_shaded(cell(a[2]))))
    if op == "isshaded":
        return guarded(lambda: fbool(mk(a).is_shaded(cell(a[2]), cell(a[3]))))
    if op == "ispf":
        return guarded(lambda: fbool(mk(a).is_pointfree(cell(a[2]), cell(a[3]))))
    if op == "npb":
        return guarded(lambda: (lambda m: redo(m.non_pointless_boxes, fcells, lambda s: s.clear()))(mk(a)))
    if op == "anchored":
        return guarded(lambda: "".join(fbool(b) for b in mk(a).has_anchored_point()))
    if op in ("plot", "plotl"):
        return guarded(lambda: enc(mk(a).ascii_plot(int(a[2]))))
    if op == "plotrt":
        def f():
            cs = int(a[2])
            p, sh = parse_plot(mk(a).ascii_plot(cs), cs)
            return fmesh(p, sh)
        return guarded(f)
    if op == "addptsem":
        def f():
            m = mk(a).add_point(cell(a[2]), int(a[3]))
            return digest(containing(tuple(m.pattern), frozenset(m.shading), int(a[4])))
        return guarded(f)
    raise ValueError("unknown op " + op)


# ------------------------------------------------------------------------------ brute-force semantics (the property text)
@functools.lru_cache(maxsize=None)
def _sigmas(smax):
    return [s for n in range(smax + 1) for s in itertools.permutations(range(n))]


def _bit(c):
    return 1 << (c[0] * 8 + c[1])


def _mask(cells):
    r = 0
    for c in cells:
        r |= _bit(c)
    return r


@functools.lru_cache(maxsize=64)
def occ_masks(patt, smax):
    """for every permutation s (|s| <= smax): one bit mask per occurrence of the classical pattern `patt` in s, with
    one bit for every cell of the occurrence's grid that contains a point of s.
    Definition used: an occurrence is a strictly increasing index tuple c with s[c] order-isomorphic to patt; a point
    (i, s[i]) with i not in c lies in cell (number of c-indices left of i, number of c-values below s[i])."""
    k = len(patt)
    res = []
    for s in _sigmas(smax):
        ms = []
        for c in itertools.combinations(range(len(s)), k):
            vals = [s[i] for i in c]
            if all((patt[u] < patt[v]) == (vals[u] < vals[v]) for u in range(k) for v in range(k)):
                m = 0
                for i in range(len(s)):
                    if i in c:
                        continue
                    m |= _bit((sum(1 for j in c if j < i), sum(1 for v in vals if v < s[i])))
                ms.append(m)
        res.append(ms)
    return res


@functools.lru_cache(maxsize=200000)
def containing(patt, shading, smax):
    """indices (into _sigmas()) of the permutations that contain the mesh pattern (patt, shading): some occurrence of
    patt has no point of the permutation in a shaded cell"""
    r = _mask(shading)
    return tuple(idx for idx, ms in enumerate(occ_masks(patt, smax)) if any(not (m & r) for m in ms))


def digest(t):
    import hashlib
    return "%d:%s" % (len(t), hashlib.md5(repr(t).encode()).hexdigest()[:12])


def same_class(patt, sh, extra, smax):
    sh = frozenset(sh)
    return containing(patt, sh, smax) == containing(patt, sh | frozenset(extra), smax)


def inrange(n, *cells):
    return all(0 <= z <= n for c in cells for z in c)


def oracle(op, a):
    op = op[4:] if op.startswith("c18.") else op
    p, sh = pseq(a[0]), set(pcells(a[1]))
    n = len(p)
    if op == "shade":
        pos = pcells(a[2])
        if not inrange(n, *pos):
            return "ERR:AssertionError"
        return fmesh(p, sh | set(pos))
    if op == "cs":
        # the property: a reported cell may be shaded.  Not shadable semantically => the verdict must be "no"
        c = cell(a[2])
        if not inrange(n, c):
            return None
        return None if same_class(p, sh, [c], int(a[3])) else "F"
    if op == "css":
        c1, c2 = cell(a[2]), cell(a[3])
        if not inrange(n, c1, c2):
            return None
        return None if same_class(p, sh, [c1, c2], int(a[4])) else "F"
    if op == "cssz":
        # positions that are not cells of the grid cannot be shaded (shade() asserts); the property then demands
        # nothing of the call itself (an exception is fine) but a licence must still be sound for whatever can be shaded:
        # the cells of the grid among the two
        cs = [c for c in (cell(a[2]), cell(a[3])) if inrange(n, c)]
        return None if same_class(p, sh, cs, int(a[4])) else "F"
    if op == "sbl":
        g = pgroup(a[2])
        return None if same_class(p, sh, g, int(a[3])) else "F"
    if op == "adj":
        return "T" if inrange(n, cell(a[2])) else None
    if op == "adj2":
        return "T" if inrange(n, cell(a[2]), cell(a[3])) else None
    if op == "addpt":
        if cell(a[2]) in sh:
            return "ERR:AssertionError"
        return None
    if op == "addptsem":
        c = cell(a[2])
        if c in sh:
            return "ERR:AssertionError"
        if not inrange(n, c):
            return None
        r, bit = _mask(sh), _bit(c)
        return digest(tuple(idx for idx, ms in enumerate(occ_masks(p, int(a[4]))) if any((not (m & r)) and (m & bit) for m in ms)))
    if op == "isshaded1":
        c = cell(a[2])
        if not inrange(n, c):
            return "ERR:AssertionError"
        return fbool(c in sh)
    if op in ("isshaded", "ispf"):
        (l, lo), (r, up) = cell(a[2]), cell(a[3])
        if not inrange(n, (l, lo), (r, up)) or l > r or lo > up:
            return "ERR:AssertionError"
        if op == "isshaded":
            return fbool(all((x, y) in sh for x in range(l, r + 1) for y in range(lo, up + 1)))
        # the points strictly inside the region spanned by the cells (l..r) x (lo..up)
        return fbool(not any(l <= i < r and lo <= v < up for i, v in enumerate(p)))
    if op == "npb":
        return fcells({(i + dx, v + dy) for i, v in enumerate(p) for dx in (0, 1) for dy in (0, 1)})
    if op == "anchored":
        rg = range(n + 1)
        return "".join(fbool(b) for b in (all((n, i) in sh for i in rg), all((i, n) in sh for i in rg),
                                          all((0, i) in sh for i in rg), all((i, 0) in sh for i in rg)))
    if op == "plotrt":
        if int(a[2]) < 1:
            return "ERR:AssertionError"
        return fmesh(p, sh)
    return None


def nontrivial(op, a, out):
    op = op[4:] if op.startswith("c18.") else op
    if out.startswith("ERR:"):
        return False
    p, sh = pseq(a[0]), pcells(a[1])
    if op == "cssz":       # two edge-adjacent positions of Z^2, at least one outside the grid
        (x1, y1), (x2, y2) = cell(a[2]), cell(a[3])
        return abs(x1 - x2) + abs(y1 - y2) == 1
    if op in ("cs", "css", "sbl", "necond", "nesimul"):
        return out == "T"
    if op in ("canshade", "cansimul"):
        return out != "_"
    if op in ("adj", "adj2"):
        return False  # counted through canshade/cansimul
    if op == "boxes":
        return out != "-"
    if op in ("addpt", "addptsem", "addinc", "adddec", "shade"):
        return len(sh) >= 1
    if op in ("isshaded", "ispf"):
        return cell(a[2]) != cell(a[3])
    return len(p) >= 1


# ------------------------------------------------------------------------------ generators
def all_meshes(n):
    cells = [(x, y) for x in range(n + 1) for y in range(n + 1)]
    for p in itertools.permutations(range(n)):
        for bits in range(2 ** len(cells)):
            yield p, [c for i, c in enumerate(cells) if bits >> i & 1]


def adjacent_pairs(n):
    res = []
    for x in range(n + 1):
        for y in range(n + 1):
            if x < n:
                res.append(((x, y), (x + 1, y)))
            if y < n:
                res.append(((x, y), (x, y + 1)))
    return res


def fc(c):
    return "%d.%d" % c


def rand_perm(rng, n):
    l = list(range(n))
    rng.shuffle(l)
    return tuple(l)


def rand_mesh(rng, n):
    """length-n mesh with a structured shading: boundary-heavy, sparse, dense, whole rows/columns, or built to satisfy
    the lemma's implications around a chosen point"""
    p = rand_perm(rng, n)
    cells = [(x, y) for x in range(n + 1) for y in range(n + 1)]
    mode = rng.randrange(6)
    if mode == 0:
        sh = {c for c in cells if (c[0] in (0, n) or c[1] in (0, n)) and rng.random() < 0.7}
        sh |= {c for c in cells if rng.random() < 0.1}
    elif mode == 1:
        sh = {c for c in cells if rng.random() < 0.15}
    elif mode == 2:
        sh = {c for c in cells if rng.random() < 0.8}
    elif mode == 3:
        sh = set()
        for _ in range(rng.randrange(1, 4)):
            k = rng.randrange(n + 1)
            if rng.random() < 0.5:
                sh |= {(k, y) for y in range(n + 1) if rng.random() < 0.9}
            else:
                sh |= {(x, k) for x in range(n + 1) if rng.random() < 0.9}
    else:
        # shade pairs of cells across the lines through a point so that the implication conditions tend to hold
        i = rng.randrange(n)
        v = p[i]
        sh = set()
        for c in range(n + 1):
            r = rng.random()
            if r < 0.35:
                sh |= {(c, v), (c, v + 1)}
            elif r < 0.5:
                sh.add((c, v + 1) if rng.random() < 0.5 else (c, v))
            r = rng.random()
            if r < 0.35:
                sh |= {(i, c), (i + 1, c)}
            elif r < 0.5:
                sh.add((i + 1, c) if rng.random() < 0.5 else (i, c))
        for c in [(i, v), (i + 1, v), (i, v + 1), (i + 1, v + 1)]:
            if rng.random() < 0.75:
                sh.discard(c)
    return p, sorted(sh)


def lines_for(p, sh, n, rng, full, smax, alldirs=True):
    """all op lines for one mesh; `full` = every cell/pair/direction/rectangle, else a random selection"""
    P, C = fseq(p), fcells(sh)
    pre = "%s %s" % (P, C)
    cells = [(x, y) for x in range(n + 1) for y in range(n + 1)]
    pairs = adjacent_pairs(n)
    sel = cells if full else rng.sample(cells, min(len(cells), 4))
    selp = pairs if full else rng.sample(pairs, min(len(pairs), 5))
    struct, sem = [], []
    for c in sel:
        struct.append("necond %s %s" % (pre, fc(c)))
        struct.append("canshade %s %s" % (pre, fc(c)))
        struct.append("adj %s %s" % (pre, fc(c)))
        struct.append("cs %s %s %d" % (pre, fc(c), smax))
        struct.append("isshaded1 %s %s" % (pre, fc(c)))
        struct.append("addinc %s %s" % (pre, fc(c)))
        struct.append("adddec %s %s" % (pre, fc(c)))
        semdirs = (-1, 0, 1, 2, 3) if (alldirs or n < 2) else (-1,) + tuple(rng.sample((0, 1, 2, 3), 2))
        for d in (-1, 0, 1, 2, 3):
            struct.append("addpt %s %s %d" % (pre, fc(c), d))
            if d in semdirs:
                sem.append("addptsem %s %s %d %d" % (pre, fc(c), d, smax))
        if full or rng.random() < 0.25:
            struct.append("sbl %s %s %d" % (pre, fc(c), smax))
    for (c1, c2) in selp:
        for u, v in ((c1, c2), (c2, c1)):
            struct.append("cansimul %s %s %s" % (pre, fc(u), fc(v)))
            struct.append("css %s %s %s %d" % (pre, fc(u), fc(v), smax))
        struct.append("adj2 %s %s %s" % (pre, fc(c1), fc(c2)))
        hi, lo = (c1, c2) if c1[1] >= c2[1] else (c2, c1)
        struct.append("nesimul %s %s %s" % (pre, fc(hi), fc(lo)))
        if full or rng.random() < 0.25:
            struct.append("sbl %s %s+%s %d" % (pre, fc(c1), fc(c2), smax))
    # non-adjacent / identical pairs
    for _ in range(2):
        u, v = rng.choice(cells), rng.choice(cells)
        struct.append("cansimul %s %s %s" % (pre, fc(u), fc(v)))
        struct.append("css %s %s %s %d" % (pre, fc(u), fc(v), smax))
        if u[1] >= v[1]:
            struct.append("nesimul %s %s %s" % (pre, fc(u), fc(v)))
    rects = [(a, b) for a in cells for b in cells if a[0] <= b[0] and a[1] <= b[1]]
    if not full:
        rects = rng.sample(rects, min(len(rects), 6))
    # is_pointfree does not read the shading: on the exhaustive grid it is run for about one shading in eight
    do_pf = (not full) or n < 2 or rng.random() < 0.125
    for a, b in rects:
        struct.append("isshaded %s %s %s" % (pre, fc(a), fc(b)))
        if do_pf:
            struct.append("ispf %s %s %s" % (pre, fc(a), fc(b)))
    struct.append("boxes " + pre)
    struct.append("npb " + pre)
    struct.append("anchored " + pre)
    for cs in ((1, 2) if full else (1, rng.randrange(2, 4))):
        struct.append("plot %s %d" % (pre, cs))
        struct.append("plotl %s %d" % (pre, cs))
        struct.append("plotrt %s %d" % (pre, cs))
    k = rng.randrange(0, 4)
    struct.append("shade %s %s" % (pre, fcells(rng.sample(cells, min(k, len(cells))))))
    return struct, sem


BIG_SCALES = {"S": (9, 12), "M": (21, 40), "L": (64, 70), "X": (197, 204)}
BENCH_PREFIX = "c18."


def big_mesh(rng, n, scale):
    """a long mesh pattern: any of the structured shadings of rand_mesh up to length 40, beyond that only the sparse
    ones (few cells / whole rows and columns / built around a point so that the lemma's implications tend to hold)"""
    while True:
        p, sh = rand_mesh(rng, n)
        if scale in "SM" or len(sh) <= 12 * (n + 1):
            break
    if rng.random() < 0.3:          # nearly monotone underlying permutation with the inversion near an end
        q = list(range(n))
        i = rng.choice([0, n - 2, n // 2, rng.randrange(n - 1)])
        q[i], q[i + 1] = q[i + 1], q[i]
        p = tuple(q)
    return p, sh


def near_cells(rng, p, sh, count):
    """cells worth asking about in a long pattern: the four cells around a point, the corners and border of the
    grid, neighbours of shaded cells, random ones"""
    n = len(p)
    res = []
    for _ in range(count):
        m = rng.randrange(5)
        if m == 0 and n:
            i = rng.choice([0, n - 1, rng.randrange(n)])
            c = (i + rng.randrange(2), p[i] + rng.randrange(2))
        elif m == 1:
            c = (rng.choice([0, n]), rng.choice([0, n, rng.randrange(n + 1)]))
        elif m == 2:
            c = (rng.choice([0, n, rng.randrange(n + 1)]), rng.choice([0, n]))
        elif m == 3 and sh:
            x, y = rng.choice(sh)
            c = (min(n, max(0, x + rng.randrange(-1, 2))), min(n, max(0, y + rng.randrange(-1, 2))))
        else:
            c = (rng.randrange(n + 1), rng.randrange(n + 1))
        res.append(c)
    return res


def large_lines(rng, quick):
    """the 'large' stream: the structural operations (no semantic verdicts: the oracle would need permutations longer
    than the pattern) on patterns of length 9-12, 21-40, 64-70 and a few around 200.  Left out where one of the sides
    needs more than about 0.2 s per line (measured): shadable_boxes beyond length 10 (it asks the lemma for every
    cell and every adjacent pair), renderings beyond length 70."""
    lines = []
    mul = 1 if quick else 6
    for scale, count in (("S", 30), ("M", 14), ("L", 6), ("X", 3)):
        lo, hi = BIG_SCALES[scale]
        for _ in range(count * mul):
            n = rng.randint(lo, hi)
            p, sh = big_mesh(rng, n, scale)
            shs = set(sh)
            pre = "%s %s" % (fseq(p), fcells(sh))
            for c in near_cells(rng, p, sh, 3):
                lines.append("canshade %s %s" % (pre, fc(c)))
                lines.append("necond %s %s" % (pre, fc(c)))
                lines.append("adj %s %s" % (pre, fc(c)))
                lines.append("isshaded1 %s %s" % (pre, fc(c)))
                lines.append("addpt %s %s %d" % (pre, fc(c), rng.randrange(-1, 4)))
                if rng.random() < 0.5:
                    lines.append("%s %s %s" % (rng.choice(["addinc", "adddec"]), pre, fc(c)))
                d = rng.choice([(1, 0), (0, 1), (-1, 0), (0, -1)])
                c2 = (c[0] + d[0], c[1] + d[1])
                if 0 <= c2[0] <= n and 0 <= c2[1] <= n:
                    lines.append("cansimul %s %s %s" % (pre, fc(c), fc(c2)))
                    lines.append("adj2 %s %s %s" % (pre, fc(c), fc(c2)))
                    hi2, lo2 = (c, c2) if c[1] >= c2[1] else (c2, c)
                    lines.append("nesimul %s %s %s" % (pre, fc(hi2), fc(lo2)))
                c3 = (min(n, c[0] + rng.randrange(0, 4)), min(n, c[1] + rng.randrange(0, 4)))
                lines.append("isshaded %s %s %s" % (pre, fc(c), fc(c3)))
                lines.append("ispf %s %s %s" % (pre, fc(c), fc(c3)))
            lines.append("ispf %s 0.0 %d.%d" % (pre, rng.randrange(n + 1), n))
            lines.append("shade %s %s" % (pre, fcells(near_cells(rng, p, sh, rng.randrange(0, 4)))))
            lines.append("anchored " + pre)
            lines.append("npb " + pre)
            if n <= 10:
                lines.append("boxes " + pre)
            if scale != "X":
                cs = rng.randrange(1, 4) if scale != "L" else 1
                lines.append("%s %s %d" % (rng.choice(["plot", "plotl"]), pre, cs))
                lines.append("plotrt %s %d" % (pre, cs))
    # near misses that only show far from the start: a band over the whole width / a boundary row or column that is
    # fully shaded except for one hole at the far end (meshlib.band_cases)
    import meshlib
    for p, sh, (l, b, r, t), hole in meshlib.band_cases(rng):
        pre = "%s %s" % (fseq(p), fcells(sh))
        lines.append("isshaded %s %d.%d %d.%d" % (pre, l, b, r, t))
        lines.append("anchored " + pre)
        if hole is not None:
            lines.append("isshaded1 %s %d.%d" % (pre, hole[0], hole[1]))
            lines.append("canshade %s %d.%d" % (pre, hole[0], hole[1]))
            lines.append("addpt %s %d.%d %d" % (pre, hole[0], hole[1], rng.randrange(-1, 4)))
    return lines

def rot_back(n, c, j):
    """the position whose image under j rotations of the loop of can_simul_shade (pos -> (pos[1], n - pos[0])) is c"""
    for _ in range(j):
        c = (n - c[1], c[0])
    return c


def outgrid_lines(rng, quick, smax):
    """can_simul_shade / north_east_simul_shading_lemma_conditions on positions that are NOT cells of the grid
    (coordinates > n or negative).  cansimul / nesimul compare the exact answer (list, IndexError, AssertionError) with
    the model; cssz is the verdict judged by the oracle."""
    lines = []

    def both(pre, u, v, n):
        lines.append("cansimul %s %s %s" % (pre, fc(u), fc(v)))
        lines.append("cssz %s %s %s %d" % (pre, fc(u), fc(v), smax))
        lines.append("nesimul %s %s %s" % (pre, fc(u), fc(v)))

    def window(n, lo, hi):
        return [(x, y) for x in range(lo, hi + 1) for y in range(lo, hi + 1)]

    def adjacent(cells, n):
        cs = set(cells)
        return [(c, (c[0] + dx, c[1] + dy)) for c in cells for dx, dy in ((1, 0), (-1, 0), (0, 1), (0, -1))
                if (c[0] + dx, c[1] + dy) in cs and not inrange(n, c, (c[0] + dx, c[1] + dy))]

    # length 0 and 1: every mesh pattern; all ordered pairs of positions of the window [-n-2, 2n+2]^2 that are not both
    # cells of the grid (quick: all pairs for two shadings per length, edge-adjacent pairs for the others)
    for n in (0, 1):
        W = window(n, -n - 2, 2 * n + 2)
        meshes = list(all_meshes(n))
        full = set(range(len(meshes))) if not quick else {0, rng.randrange(len(meshes))}
        for i, (p, sh) in enumerate(meshes):
            pre = "%s %s" % (fseq(p), fcells(sh))
            if i in full:
                for u in W:
                    for v in W:
                        if not inrange(n, u, v):
                            lines.append("cansimul %s %s %s" % (pre, fc(u), fc(v)))
            for u, v in adjacent(W, n):
                both(pre, u, v, n)
    # length 2: sampled shadings (half of them with two equal rows / columns, which the row condition of the
    # simultaneous lemma asks for) x every edge-adjacent ordered pair of the window [-3, 5]^2 not inside the grid
    cells2 = [(x, y) for x in range(3) for y in range(3)]
    W = window(2, -3, 5)
    adj2 = adjacent(W, 2)
    for k in range(12 if quick else 150):
        p = rand_perm(rng, 2)
        if k % 2:
            sh = {c for c in cells2 if rng.random() < 0.3}
        else:
            r1, r2 = rng.sample(range(3), 2)
            col = {x for x in range(3) if rng.random() < 0.4}
            sh = {(x, r1) for x in col} | {(x, r2) for x in col}
            if rng.random() < 0.5:
                sh = {(y, x) for x, y in sh}
        pre = "%s %s" % (fseq(p), fcells(sorted(sh)))
        for u, v in adj2:
            both(pre, u, v, 2)
    # lengths 3-5 (and a few long ones): pairs aimed at the negative-index wrap-around: in the frame of round j the upper
    # position is (a, b) with 1 - n <= a <= -1 and b - 1 = pattern[a - 1] (Python index), the lower one (a, b - 1);
    # pairs straddling the border of the grid; far-away positions
    for _ in range(150 if quick else 2500):
        n = rng.choice((3, 3, 4, 5, 9, 12))
        p, sh = rand_mesh(rng, n) if rng.random() < 0.7 else (rand_perm(rng, n), [])
        pre = "%s %s" % (fseq(p), fcells(sh))
        for _ in range(4):
            m = rng.randrange(4)
            if m == 0:
                a = rng.randrange(1 - n, 0)
                b = p[a - 1] + 1
                u, v = (a, b), (a, b - 1)
            elif m == 1:        # across the border: one cell of the grid and its neighbour outside
                t = rng.randrange(n + 1)
                u, v = rng.choice([((n, t), (n + 1, t)), ((t, n), (t, n + 1)), ((0, t), (-1, t)), ((t, 0), (t, -1))])
            elif m == 2:        # next to a point, shifted out of the grid by n + 1 or reflected
                i = rng.randrange(n)
                u, v = (i + 1, p[i] + 1), (i + 1, p[i])
                d = rng.choice([(n + 1, 0), (0, n + 1), (-n - 1, 0), (0, -n - 1)])
                u, v = (u[0] + d[0], u[1] + d[1]), (v[0] + d[0], v[1] + d[1])
            else:
                u = (rng.randrange(-2 * n, 3 * n), rng.randrange(-2 * n, 3 * n))
                v = rng.choice([(u[0], u[1] - 1), (u[0] + 1, u[1]), (rng.randrange(-n, 2 * n), rng.randrange(-n, 2 * n))])
            j = rng.randrange(4)
            u, v = rot_back(n, u, j), rot_back(n, v, j)
            if rng.random() < 0.5:
                u, v = v, u
            if inrange(n, u, v):
                continue
            if n <= 5:
                both(pre, u, v, n)
            else:
                lines.append("cansimul %s %s %s" % (pre, fc(u), fc(v)))
                lines.append("nesimul %s %s %s" % (pre, fc(u), fc(v)))
    return lines


def run(ctx):
    cmp0 = ctx.compare

    def cmp(stream, lines, use_model=True):
        import time
        t = time.time()
        cmp0(stream, ["c18." + l for l in lines], use_model=use_model)
        ctx.extra.setdefault("stream_seconds", {})[stream] = round(time.time() - t, 1)
    rng = ctx.rng
    ctx.exhaustive = True
    smax = 6 if ctx.tier == "quick" else 7
    ctx.exhaustive_bound = ("all 1042 mesh patterns of length <= 2 x all cells, all ordered edge-adjacent cell pairs, all 5 "
                            "directions, all rectangles; semantic verdicts against all permutations of length <= %d; add_point semantics "
                            "(addptsem): length <= 1 all 5 directions, length 2: %s" % (
                                smax, "all 5 directions" if ctx.tier != "quick" else "DIR_NONE + 2 sampled directions per cell (quick tier budget)"))
    ctx.extra["sigma_max"] = smax
    cmp("corpus", [
        "canshade 0 0.0 1.1", "canshade 1,2,0 2.2,3.0,3.2,3.3 1.2", "necond 0 _ 0.0", "necond 0 _ 1.1",
        "cansimul 0,2,1 _ 1.1 1.0", "cansimul 0,2,1 _ 3.2 3.1", "cansimul 0,2,1 _ 2.3 2.2", "cansimul 0,2,1 _ 1.1 2.1",
        "nesimul 0,2,1 _ 3.3 3.2", "nesimul 0,2,1 _ 3.1 3.0",
        "boxes 0,3,1,2 0.2,0.3,0.4,1.0,1.2,3.0,3.2,4.2", "npb 0,1 0.1,0.2,2.0", "anchored 0,1 0.0,1.0,1.1,2.0",
        "addpt _ _ 0.0 -1", "addpt 0,1,2 1.0,2.1,3.2 2.0 3", "addinc 0 _ 0.0", "adddec 0 _ 0.0",
        "shade 0,1 0.1 1.1", "shade 0,1 0.1 1.1,1.0", "plot 0,1,2 2.1,3.0,3.1,3.2,3.3 1", "plotrt 0,1,2 2.1,3.0,3.1,3.2,3.3 1",
        "plot _ _ 1", "plot _ 0.0 1", "plotrt _ _ 3", "plotrt _ 0.0 2", "plotl _ _ 1", "plotl _ 0.0 2", "plotl 0,1,2 2.1,3.0,3.1,3.2,3.3 1",
        "isshaded 3,2,1,0 0.0,0.1,1.1,1.2,2.1,2.2 1.1 2.2", "ispf 4,0,1,2,3 _ 0.2 2.3", "boxes _ _", "boxes _ 0.0",
    ])
    # ---- exhaustive small
    struct, sem = [], []
    for n in range(3):
        for p, sh in all_meshes(n):
            s1, s2 = lines_for(p, sh, n, rng, True, smax, alldirs=(ctx.tier != "quick"))
            struct.extend(s1)
            sem.extend(s2)
    cmp("exhaustive-len<=2", struct)
    cmp("exhaustive-addpoint-semantics", sem, use_model=False)
    # ---- random length 3/4 (semantic checks there use the same sigma range)
    R = 500 if ctx.tier == "quick" else 4000
    struct, sem = [], []
    for _ in range(R):
        n = rng.choice((3, 3, 4))
        p, sh = rand_mesh(rng, n)
        s1, s2 = lines_for(p, sh, n, rng, False, smax)
        struct.extend(s1)
        sem.extend(s2[:3] if n == 3 else s2[:1])
    cmp("random-len3-4", struct)
    cmp("random-addpoint-semantics", sem, use_model=False)
    # a few larger ones: structure only (no semantic verdict: oracle would need too long permutations) -> plain ops
    big = []
    for _ in range(60 if ctx.tier == "quick" else 600):
        n = rng.randrange(5, 8)
        p, sh = rand_mesh(rng, n)
        pre = "%s %s" % (fseq(p), fcells(sh))
        cells = [(x, y) for x in range(n + 1) for y in range(n + 1)]
        for c in rng.sample(cells, 4):
            big.append("canshade %s %s" % (pre, fc(c)))
            big.append("addpt %s %s %d" % (pre, fc(c), rng.randrange(-1, 4)))
        c1, c2 = rng.choice(adjacent_pairs(n))
        big.append("cansimul %s %s %s" % (pre, fc(c1), fc(c2)))
        big.append("boxes " + pre)
        big.append("plot %s 1" % pre)
        big.append("plotl %s %d" % (pre, rng.randrange(1, 4)))
        big.append("plotrt %s %d" % (pre, rng.randrange(1, 4)))
        big.append("anchored " + pre)
        big.append("npb " + pre)
    cmp("random-len5-7-structure", big)
    # ---- large: sizes the other streams never reach (structure only)
    cmp("large", large_lines(rng, ctx.tier == "quick"))
    # ---- positions that are not cells of the grid, for the simultaneous lemma (negative coordinates included)
    cmp("outgrid-simul", outgrid_lines(rng, ctx.tier == "quick", min(smax, 5)))
    # ---- malformed: shaded target cell, out-of-range cells, bad sizes
    mal, malsem = [], []
    for p, sh in [((), []), ((0,), [(0, 0), (1, 1)]), ((1, 0), [(0, 2), (2, 2), (1, 1)]), ((0, 2, 1), [(3, 3), (0, 0)])]:
        n = len(p)
        pre = "%s %s" % (fseq(p), fcells(sh))
        for c in sh:
            for d in (-1, 0, 3):
                mal.append("addpt %s %s %d" % (pre, fc(c), d))
                malsem.append("addptsem %s %s %d 4" % (pre, fc(c), d))
            mal.append("addinc %s %s" % (pre, fc(c)))
            mal.append("adddec %s %s" % (pre, fc(c)))
        oor = [(n + 1, 0), (0, n + 1), (n + 1, n + 1), (n + 2, 1), (n, n + 3)]
        for c in oor:
            for d in (-1, 0, 1, 2, 3, 7):
                mal.append("addpt %s %s %d" % (pre, fc(c), d))
            mal.append("addinc %s %s" % (pre, fc(c)))
            mal.append("adddec %s %s" % (pre, fc(c)))
            mal.append("necond %s %s" % (pre, fc(c)))
            mal.append("canshade %s %s" % (pre, fc(c)))
            mal.append("cs %s %s 4" % (pre, fc(c)))
            mal.append("isshaded1 %s %s" % (pre, fc(c)))
            mal.append("isshaded %s 0.0 %s" % (pre, fc(c)))
            mal.append("ispf %s 0.0 %s" % (pre, fc(c)))
            mal.append("ispf %s %s %s" % (pre, fc(c), fc(c)))
            mal.append("shade %s %s" % (pre, fc(c)))
            mal.append("shade %s 0.0,%s" % (pre, fc(c)))
            mal.append("nesimul %s %s %d.%d" % (pre, fc(c), c[0], max(c[1] - 1, 0)))
        for c in [(n, n), (n, 0), (0, n)]:
            for d in (0, 1, 2, 3, 5, -2):
                mal.append("addpt %s %s %d" % (pre, fc(c), d))
        mal.append("isshaded %s %d.%d 0.0" % (pre, n, n))
        mal.append("ispf %s %d.0 0.%d" % (pre, n, n))
        mal.append("nesimul %s 0.0 0.1" % pre)
        mal.append("nesimul %s %d.0 %d.%d" % (pre, n, n, n))
        mal.append("plot %s 0" % pre)
        mal.append("plotl %s 0" % pre)
        mal.append("plotrt %s 0" % pre)
    cmp("malformed", mal)
    cmp("malformed-semantics", malsem, use_model=False)
