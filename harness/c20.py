"""C20 - persisted and shipped BiSC data and stored automata are faithful
(permuta/bisc/bisc.py create_bisc_input..read_bisc_file, permuta/permutils/pin_words.py store_dfa_for_perm /
load_dfa_for_perm / create_dfa_db_for_length / make_dfa_for_basis_from_db, permuta/resources/bisc/*.json).

Line grammar (tokens separated by one space, see lean/PermutaModel/Driver/C20.lean):

  bisc <init> <ops>      one directory, a history of persistence calls
      init  = '-' | name=<raw>+name=<raw>...      file <name>.json pre-populated with raw content
      ops   = op+op+...    w:<name>:<dataset>       write_json_to_file(dataset, <dir>/<name>.json)
                           W:<info>:<n>:<patts>     write_bisc_files(n, avoids(patts), <dir>/<info>)
                           r:<name>                 read_bisc_file(<dir>/<name>)
      dataset = '.' | k=<seqs>&k=<seqs>...          (keys ascending in every *answer*)
      raw     = literal characters, '_' = space, '^' = newline
      answer  = per op, joined by '|':  ok | CANTWRITE | ok,ok | OK:<dataset> | INVALID | GARBAGE | ERR:<Exc>
  rawread <raw> / rawmut <raw>   read_bisc_file on one file with that content
  db <init> <ops>        one directory, a fresh process, a history of automaton-database calls
      init  = '-' | p=q (file of p holds make_dfa_for_perm(q)) | p=! (empty file) | p=@ (copied from <repo>/dfa_db)
      ops   = s:p:- | s:p:q  store_dfa_for_perm(p[, make_dfa_for_perm(q)])     l:p  load_dfa_for_perm(p)
              c:n  create_dfa_db_for_length(n)     x  new process (lru_cache cleared)     j:p  file of p emptied
              b:p;q  make_dfa_for_basis_from_db([p, q])
      answer = per l/b op: M<q> (language-equal to make_dfa_for_perm(q) on all words of length <= 7 over ULDR
               and by DFA equality) | FRESH/DIFF | ERR:<Exc>
  shipped <file> <lo>-<hi> / shippedp <file> <lo>-<hi>    per length k in lo..hi: size and digest of the length-k entry of
      a shipped data file, against {sigma in S_k : P(sigma)} (resp. its complement) for an independent definition of P
      (shipped) and for the library's predicate (shippedp); INVALID for a file the reader reports as invalid
"""
import contextlib
import hashlib
import io
import itertools
import math
import json
import os
import re
import shutil
import tempfile

import core
from core import fseq, fseqs, pseq, pseqs
import used
import past

PROP = "C20"
SHRINK_SEP = "+"
RULE = ("bisc: exhaustive = every history of <=6 (quick: <=5) calls over 2 names x 3 datasets that ends in a read, from the "
        "empty directory, and every history of <=4 calls from 6 pre-populated directories; random: histories of <=9 calls "
        "over 5 names, random datasets (multi-digit keys/entries, non-permutations), write_bisc_files with 5 predicates; "
        "raw: crafted and randomly mutated file contents; db: every history of <=4 calls over an alphabet of 11 calls on "
        "the permutations 01,10, random histories on lengths <=4 (thorough <=5), every file of <repo>/dfa_db; shipped: "
        "every shipped file x every length; large: data sets with entries of length 9-12, 21-40, 64-70, ~200, ~401, ~1000, "
        "long and short data sets alternating under one name, long files damaged at either end, write_bisc_files up to "
        "length 6, look-alike database keys of length >= 11; a third of the Perm objects have a past, half of the bisc "
        "lines pass ONE dictionary object to every write (refilled in place, emptied after the call). non-trivial = (bisc) some read follows a write to the same name or reads a "
        "pre-populated file, (db) some load/basis call, (raw) always, (shipped) always; distinct = distinct op lines")
ASSUMPTIONS = [
    "model/implementation agreement outside the enumerated and sampled histories is assumed",
    "the harness directory is a fresh tempfile.mkdtemp directory under /tmp (removed afterwards); a name containing '/' "
    "denotes a missing directory",
    "JSON is modelled on the sub-language null/true/false/natural/escape-free string/array/object; int(key) on "
    "non-empty digit strings; files are ASCII without carriage returns",
    "automata are compared by DFA equality (automata-lib) and by acceptance of all 21845 words of length <= 7 over ULDR",
    "a caller-supplied in_dfa is taken to be the caller's claim of the automaton for that permutation: histories that "
    "store a different permutation's automaton, corrupt a file, or use file-name collisions (length >= 11) have no "
    "oracle answer and are compared with the model only",
    "a file that is a well-formed BiSC dictionary in a layout json.dumps does not produce (extra white space, several "
    "lines, repeated keys) has no oracle answer (the property speaks about files the library wrote and about malformed "
    "files); such lines are compared with the model only",
]
PARTIAL = [
    "shipped data partition: finite statement, decided by complete enumeration in the harness (exhaustive), not a Lean theorem",
    "language equivalence of a stored automaton with a fresh computation: evaluated on all words of length <= 7 and by "
    "DFA equality; the Lean theorem is about an abstract automaton type (load_returns_good)",
]
TRUSTED = [
    "tempfile/os/pathlib/open of CPython modelled as a map from names to contents",
    "json.dumps/json.loads modelled on the fragment described in Model/C20.lean",
    "automata-lib DFA.__eq__/accepts_input/repr/eval round trip are not modelled (automata are symbolic in the model)",
]

REPO = core.REPO
RES = os.path.join(REPO, "permuta", "resources", "bisc")
TMPROOT = "/tmp"

_B = None
_PW = None
_Perm = None
_WORDS = None


def worker_init():
    global _B, _PW, _Perm, _WORDS, _PP
    import importlib
    _B = importlib.import_module("permuta.bisc.bisc")
    _PP = importlib.import_module("permuta.bisc.perm_properties")
    from permuta import Perm
    from permuta.permutils.pin_words import PinWords
    _Perm = Perm
    _PW = PinWords
    _WORDS = ["".join(w) for k in range(8) for w in itertools.product("ULDR", repeat=k)]


# ----------------------------------------------------------------------------- scratch directories
# mkdir/rmdir cost ~3 ms each on this file system, plain files ~0.05 ms: every process works in ONE directory created
# with tempfile.mkdtemp under /tmp (inside the run's parent directory when there is one) and empties it after each
# line; run() removes the parent, a Finalize/atexit hook removes stray ones.
_WORK = (None, None)


def _workdir():
    global _WORK
    if _WORK[0] != os.getpid():
        parent = os.environ.get("C20_TMP")
        if parent and not os.path.isdir(parent):
            parent = None
        d = tempfile.mkdtemp(prefix="c20w_", dir=parent or TMPROOT)
        import atexit
        from multiprocessing import util
        atexit.register(shutil.rmtree, d, True)
        util.Finalize(None, shutil.rmtree, args=(d, True), exitpriority=10)
        _WORK = (os.getpid(), d)
    return _WORK[1]


def _empty(d, keep_dirs=False):
    for e in os.scandir(d):
        if e.is_dir(follow_symlinks=False):
            if keep_dirs:
                _empty(e.path, True)
            else:
                shutil.rmtree(e.path, ignore_errors=True)
        else:
            os.unlink(e.path)


# ----------------------------------------------------------------------------- encodings
def dec_raw(s):
    return s.replace("_", " ").replace("^", "\n")


def enc_raw(s):
    assert not (set(s) & set("_^+=")), s
    return s.replace(" ", "_").replace("\n", "^")


def pdataset(s):
    if s == ".":
        return []
    res = []
    for e in s.split("&"):
        k, v = e.split("=")
        res.append((int(k), pseqs(v)))
    return res


def fdataset(items):
    """items: iterable of (key, list of sequences); keys sorted in the answer"""
    items = sorted(items, key=lambda kv: kv[0])
    if not items:
        return "."
    return "&".join("%d=%s" % (k, fseqs(v)) for k, v in items)


def _is_nat(x):
    return type(x) is int and x >= 0


def canon_read(result, printed, path):
    """observable of read_bisc_file: (return value, what was printed)"""
    if printed:
        if printed == "File is invalid: %s\n" % path and result == {}:
            return "INVALID"
        return "WEIRD-PRINT"
    if not isinstance(result, dict):
        return "GARBAGE"
    for k, v in result.items():
        if not _is_nat(k) or type(v) is not list:
            return "GARBAGE"
        for p in v:
            if not isinstance(p, tuple) or not all(_is_nat(x) for x in p):
                return "GARBAGE"
    return "OK:" + fdataset((k, [tuple(p) for p in v]) for k, v in result.items())


def _capture(fn):
    buf = io.StringIO()
    with contextlib.redirect_stdout(buf):
        try:
            r = fn()
            err = None
        except Exception as e:  # every exception kind is an observable here
            r = None
            err = "ERR:" + type(e).__name__
    return r, buf.getvalue(), err


# ----------------------------------------------------------------------------- implementation: bisc
def _impl_read1(d, name):
    path = os.path.join(d, name)
    r, out, err = _capture(lambda: _B.read_bisc_file(path))
    if err:
        return err, None
    return canon_read(r, out, path), r


def _impl_read(d, name):
    """one read as the line asks for it - and then the same read once more after the caller has emptied the
    dictionary it was handed (and after an unrelated read of a name that does not exist): both reads must give the
    same answer (what is on disk), i.e. a read neither aliases nor depends on an earlier read"""
    c1, r = _impl_read1(d, name)
    if isinstance(r, dict):
        try:
            for v in r.values():
                if isinstance(v, list):
                    del v[:]
            r.clear()
        except Exception:  # pylint: disable=broad-except
            pass
    _capture(lambda: _B.read_bisc_file(os.path.join(d, name + "_nosuchname")))
    c2, _ = _impl_read1(d, name)
    return c1 if c1 == c2 else "UNSTABLE:%s|%s" % (c1, c2)


def _mkp(seq, salt=0):
    """dataset entries / database keys: for a deterministic third of the sequences that are permutations (length
    <= 410) a Perm object with a past (used, or derived from a used object through another API route)"""
    seq = tuple(seq)
    if len(seq) <= 410 and used.is_perm(seq) and used.digest("P20", [fseq(seq)]) % 3 == 0:
        return past.mkperm(seq, salt)
    return _Perm(seq)


def _nm(name):
    """file / info names of the protocol: `~` stands for a blank (the line protocol is blank-separated); the model and
    the oracle keep the escaped spelling - names are opaque keys there, and the escape is injective"""
    return name.replace("~", " ")


def _impl_bisc(init, ops):
    d = _workdir()
    shared = {}          # ONE dictionary object per line: every write passes it, refilled in place (argument aliasing)
    alias = used.digest("bisc", [init, ops]) % 2 == 0
    try:
        if init != "-":
            for e in init.split("+"):
                n, c = e.split("=")
                with open(os.path.join(d, _nm(n) + ".json"), "w", newline="") as f:
                    f.write(dec_raw(c))
        outs = []
        if ops != "-":
            for o in ops.split("+"):
                t = o.split(":")
                t[1] = _nm(t[1])
                if t[0] == "w":
                    data = {k: [_mkp(s, k) for s in v] for k, v in pdataset(t[2])}
                    if alias:
                        shared.clear()
                        shared.update(data)
                        data = shared
                    fn = os.path.join(d, t[1] + ".json")
                    _, out, err = _capture(lambda: _B.write_json_to_file(data, fn))
                    if alias:
                        used.spoil(data)        # the caller empties its dictionary (and the lists in it) after the call
                    if err:
                        outs.append(err)
                    elif out == "Could not write to file: %s\n" % fn:
                        outs.append("CANTWRITE")
                    elif out:
                        outs.append("WEIRD-PRINT")
                    else:
                        outs.append("ok")
                elif t[0] == "W":
                    n = int(t[2])
                    patts = [_mkp(p) for p in pseqs(t[3])]
                    info = os.path.join(d, t[1])
                    _, out, err = _capture(lambda: _B.write_bisc_files(n, lambda p: p.avoids(*patts), info))
                    if err:
                        outs.append(err)
                    else:
                        st = []
                        for kind in ("good", "bad"):
                            msg = "Could not write to file: %s_%s_len%d.json\n" % (info, kind, n)
                            if msg in out:
                                st.append("CANTWRITE")
                                out = out.replace(msg, "", 1)
                            else:
                                st.append("ok")
                        outs.append(",".join(st) if not out else "WEIRD-PRINT")
                elif t[0] == "r":
                    outs.append(_impl_read(d, t[1]))
                else:
                    raise ValueError("bad op " + o)
        return "|".join(outs) if outs else "-"
    finally:
        _empty(d)


def _impl_raw(content):
    d = _workdir()
    try:
        with open(os.path.join(d, "f.json"), "w", newline="") as f:
            f.write(dec_raw(content))
        return _impl_read(d, "f")
    finally:
        _empty(d)


# ----------------------------------------------------------------------------- implementation: db
_FRESH = {}


def _fresh(p):
    """make_dfa_for_perm(p) and its acceptance fingerprint on all words of length <= 7 (per process)"""
    p = tuple(p)
    if p not in _FRESH:
        dfa = _PW.make_dfa_for_perm(_Perm(p))
        _FRESH[p] = (dfa, _fingerprint(dfa))
    return _FRESH[p]


_FP = {}


def _fingerprint(dfa):
    """acceptance of all words of length <= 7 (cached per process on the automaton's repr)"""
    key = repr(dfa)
    if key not in _FP:
        if len(_FP) > 4000:
            _FP.clear()
        _FP[key] = hashlib.md5(bytes(1 if dfa.accepts_input(w) else 0 for w in _WORDS)).digest()
    return _FP[key]


_REF = {}


def _ref_basis(basis):
    key = tuple(tuple(q) for q in basis)
    if key not in _REF:
        _REF[key] = _PW.make_dfa_for_basis_from_pinwords(basis)
    return _REF[key]


def _db_universe(init, ops):
    u = set()
    for part, sep in ((init, "="), (ops, ":")):
        if part == "-":
            continue
        for e in part.split("+"):
            for tok in e.split(sep)[(0 if sep == "=" else 1):]:
                if tok in ("-", "!", "@", ""):
                    continue
                for q in tok.split(";"):
                    if re.fullmatch(r"_|\d+(,\d+)*", q):
                        q = pseq(q)
                        if len(q) <= 5:
                            u.add(q)
    return sorted(u, key=lambda q: (len(q), q))


def _dbfile(p):
    return os.path.join("dfa_db", "S%d" % len(p), "".join(str(i) for i in p) + ".txt")


class _Timeout(BaseException):
    pass


def _alarm(signum, frame):
    raise _Timeout()


DB_LINE_SECONDS = 300


def _impl_db(init, ops):
    """one db line under a wall-clock limit (a length-11 automaton can never be computed: a store that ignores
    its in_dfa argument would otherwise hang the run instead of failing it)"""
    import signal
    old = signal.signal(signal.SIGALRM, _alarm)
    signal.alarm(DB_LINE_SECONDS)
    try:
        return _impl_db_inner(init, ops)
    except _Timeout:
        return "ERR:Timeout"
    finally:
        signal.alarm(0)
        signal.signal(signal.SIGALRM, old)


def _load_again(p, dfa):
    """the automaton just loaded for p is *used* (combined with the automaton of M and with itself, asked for
    finiteness, its language sampled) and then loaded once more: the second load must describe the same automaton"""
    before = repr(dfa)
    try:
        _PW.has_finite_pinperms([p], dfa=dfa)
        dfa.union(dfa)
        dfa.accepts_input("UR")
        _PW.make_dfa_for_m().difference(dfa)
    except Exception:  # pylint: disable=broad-except
        pass
    dfa2 = _PW.load_dfa_for_perm(_Perm(tuple(p)))
    if repr(dfa2) != before or not dfa2 == dfa:
        return _UnstableDFA(before, repr(dfa2))
    return dfa2


class _UnstableDFA:
    """stands for an automaton whose second load differed from the first: equal to nothing, accepts nothing"""

    def __init__(self, a, b):
        self.a, self.b = a, b

    def __repr__(self):
        return "UNSTABLE-DFA:%d|%d" % (len(self.a), len(self.b))

    def __eq__(self, other):
        return False

    def accepts_input(self, w):
        return False


def _clear_load_memo():
    """forget what load_dfa_for_perm memoised (an lru_cache today; any other representation is left alone)"""
    f = _PW.load_dfa_for_perm
    for g in (f, getattr(f, "__func__", None)):
        if g is not None and hasattr(g, "cache_clear"):
            g.cache_clear()
            return


def _impl_db_inner(init, ops):
    d = _workdir()
    old = os.getcwd()
    uni = None
    outs = []
    try:
        os.chdir(d)
        _clear_load_memo()

        def junk(p):
            os.makedirs(os.path.dirname(_dbfile(p)), exist_ok=True)
            open(_dbfile(p), "w").close()

        if init != "-":
            for e in init.split("+"):
                ps, qs = e.split("=")
                p = pseq(ps)
                if qs == "!":
                    junk(p)
                elif qs == "@":
                    os.makedirs(os.path.dirname(_dbfile(p)), exist_ok=True)
                    shutil.copyfile(os.path.join(REPO, _dbfile(p)), _dbfile(p))
                else:
                    _PW.store_dfa_for_perm(_Perm(p), _fresh(pseq(qs))[0])
            _clear_load_memo()
        if ops != "-":
            for o in ops.split("+"):
                t = o.split(":")
                if t[0] == "s":
                    p = _mkp(pseq(t[1]), 1)
                    x = None if t[2] == "-" else _fresh(pseq(t[2]))[0]
                    _, _, err = _capture(lambda: _PW.store_dfa_for_perm(p, x))
                    if err:
                        outs.append(err)
                elif t[0] == "l":
                    p = _mkp(pseq(t[1]), 2)
                    try:
                        dfa = _PW.load_dfa_for_perm(p)
                        dfa = _load_again(p, dfa)
                    except SyntaxError:
                        outs.append("ERR:SyntaxError")
                        continue
                    except Exception as e:
                        outs.append("ERR:" + type(e).__name__)
                        continue
                    if isinstance(dfa, _UnstableDFA):
                        outs.append(repr(dfa))
                        continue
                    if uni is None:
                        uni = _db_universe(init, ops)
                    fp = _fingerprint(dfa)
                    hit = "M?"
                    for q in uni:
                        fd, ffp = _fresh(q)
                        if ffp == fp and fd == dfa:
                            hit = "M" + fseq(q)
                            break
                    outs.append(hit)
                elif t[0] == "c":
                    _PW.create_dfa_db_for_length(int(t[1]))
                elif t[0] == "x":
                    _clear_load_memo()
                elif t[0] == "j":
                    junk(pseq(t[1]))
                elif t[0] == "b":
                    basis = [_mkp(q, 3) for q in pseqs(t[1])]
                    try:
                        # (argument aliasing: the list object is first passed empty - no file is touched - and then
                        #  filled in place)
                        dfa = used.grown_list(_PW.make_dfa_for_basis_from_db, basis, first=[])
                        dfa2 = _PW.make_dfa_for_basis_from_db(basis)       # the same request once more
                        if not (dfa2 == dfa and _fingerprint(dfa2) == _fingerprint(dfa)):
                            outs.append("UNSTABLE:basis-automaton-changed")
                            continue
                    except SyntaxError:
                        outs.append("ERR:SyntaxError")
                        continue
                    except Exception as e:
                        outs.append("ERR:" + type(e).__name__)
                        continue
                    ref = _ref_basis(basis)
                    same = (dfa == ref) and _fingerprint(dfa) == _fingerprint(ref)
                    outs.append("FRESH" if same else "DIFF")
                else:
                    raise ValueError("bad op " + o)
        return "|".join(outs) if outs else "-"
    finally:
        os.chdir(old)
        _clear_load_memo()
        _empty(d, keep_dirs=True)


# ----------------------------------------------------------------------------- implementation: shipped
_SHIPPED = {}


def _shipped(base):
    if base not in _SHIPPED:
        path = os.path.join(RES, base)
        r, out, err = _capture(lambda: _B.read_bisc_file(path))
        if err:
            st = err
        elif out:
            st = "INVALID" if (out == "File is invalid: %s\n" % path and r == {}) else "WEIRD-PRINT"
        elif isinstance(r, dict) and all(_is_nat(k) and type(v) is list and all(
                isinstance(q, tuple) and all(_is_nat(x) for x in q) for q in v) for k, v in r.items()):
            st = "OK:"
        else:
            st = "GARBAGE"
        _SHIPPED[base] = (r, st)
    return _SHIPPED[base]


def digest(perms):
    perms = [tuple(p) for p in perms]
    s = sorted(perms)
    h = hashlib.md5(";".join(fseq(p) for p in s).encode()).hexdigest()[:16]
    return "n=%d,distinct=%d,md5=%s" % (len(perms), len(set(perms)), h)


def _krange(s):
    lo, hi = s.split("-")
    return range(int(lo), int(hi) + 1)


def _impl_shipped(base, ks):
    r, status = _shipped(base)
    if not status.startswith("OK:"):
        return status
    return "|".join("%d:%s" % (k, digest(r[k]) if k in r else "ABSENT") for k in _krange(ks))


def _impl_shippart(fam, top):
    """the good and the bad file of one family, length by length: sizes, repeated entries, entries in both files,
    entries that are not permutations of the length they are filed under (no predicate is evaluated: cheap at every
    shipped length, 8 and 9 included)"""
    (g, sg), (b, sb) = _shipped("%s_good_len%d" % (fam, top)), _shipped("%s_bad_len%d" % (fam, top))
    if not sg.startswith("OK:") or not sb.startswith("OK:"):
        return "good:%s,bad:%s" % (sg.rstrip(":"), sb.rstrip(":"))
    outs = []
    for k in range(top + 1):
        gk, bk = [tuple(p) for p in g.get(k, [])], [tuple(p) for p in b.get(k, [])]
        sgk, sbk = set(gk), set(bk)
        ok = all(sorted(p) == list(range(k)) for p in sgk | sbk)
        outs.append("%d:total=%d,repeated=%d,both=%d,perms=%s" % (
            k, len(sgk | sbk), len(gk) - len(sgk) + len(bk) - len(sbk), len(sgk & sbk), "T" if ok else "F"))
    return "|".join(outs)


def _impl_shipfile(base):
    """one shipped file on its own (also when its counterpart is missing or empty): per length, repeated entries and
    entries that are not permutations of the length they are filed under"""
    r, st = _shipped(base)
    if not st.startswith("OK:"):
        return st.rstrip(":")
    outs = []
    for k in sorted(r):
        items = [tuple(p) for p in r[k]]
        outs.append("%d:repeated=%d,perms=%s" % (k, len(items) - len(set(items)),
                                                 "T" if all(sorted(p) == list(range(k)) for p in items) else "F"))
    return "|".join(outs)


class _AutoTimeout(BaseException):
    pass


def _impl_autoname(name):
    """auto_bisc(<name>): does the name resolve to a shipped data set?  `NOFILES` = it printed that the required files do
    not exist and returned None; `FOUND` = it found a good and a bad file and started to work on them (cut off after a
    few seconds: only the look-up is under test here)"""
    import signal

    def handler(_s, _f):
        raise _AutoTimeout()
    old_dir = os.getcwd()
    old = signal.signal(signal.SIGALRM, handler)
    buf = io.StringIO()
    try:
        os.chdir(os.path.join(REPO, "permuta", "bisc"))       # the look-up is relative to this directory
        signal.alarm(8)
        try:
            with contextlib.redirect_stdout(buf):
                r = _B.auto_bisc(name)
        except _AutoTimeout:
            return "FOUND"
        except Exception as e:  # pylint: disable=broad-except
            return "ERR:" + type(e).__name__
        finally:
            signal.alarm(0)
        out = buf.getvalue()
        if r is None and "The required files do not exist" in out:
            return "NOFILES"
        return "FOUND"
    finally:
        signal.signal(signal.SIGALRM, old)
        os.chdir(old_dir)


def impl(op, a):
    if op == "bisc":
        return _impl_bisc(a[0], a[1])
    if op in ("rawread", "rawmut"):
        return _impl_raw(a[0] if a else "")
    if op == "db":
        return _impl_db(a[0], a[1])
    if op in ("shipped", "shippedp"):
        return _impl_shipped(a[0], a[1])
    if op == "shippart":
        return _impl_shippart(a[0], int(a[1]))
    if op == "shipfile":
        return _impl_shipfile(a[0])
    if op == "autoname":
        return _impl_autoname(a[0])
    raise ValueError("unknown op " + op)


# ----------------------------------------------------------------------------- oracle (property text)
def _classical_avoids(p, patts):
    for q in patts:
        n = len(q)
        for c in itertools.combinations(range(len(p)), n):
            vals = [p[i] for i in c]
            if all((q[x] < q[y]) == (vals[x] < vals[y]) for x in range(n) for y in range(n)):
                return False
    return True


def _py_dumps(items):
    """the JSON text the library is expected to write for a dictionary (independent of json.dumps)"""
    return "{" + ", ".join('"%d": [%s]' % (k, ", ".join("[" + ", ".join(str(x) for x in p) + "]" for p in v))
                           for k, v in items) + "}"


class _Pairs(list):
    """JSON object as the list of its (key, value) pairs (duplicates stay visible)"""


def classify_raw(content):
    """-> ('data', items) if content is exactly a BiSC dictionary as the library writes it,
          ('malformed', first_line_parses) if it is not a BiSC file at all,
          ('unusual', None) if it is a well-formed BiSC dictionary in another layout (white space, blank-padded
          integer keys), or one with a repeated key (JSON leaves the meaning of repeated keys open)"""
    try:
        obj = json.loads(content, object_pairs_hook=_Pairs)
        wellformed = isinstance(obj, _Pairs) and all(
            re.fullmatch(r" *[0-9]+ *", k) and type(v) is list and all(
                type(p) is list and all(_is_nat(x) for x in p) for p in v) for k, v in obj)
        whole_json = True
    except ValueError:
        wellformed = False
        whole_json = False
    if wellformed:
        if len({int(k) for k, _ in obj}) != len(obj):
            return "unusual", None
        items = [(int(k), [tuple(p) for p in v]) for k, v in obj]
        if _py_dumps(items) == content:
            return "data", items
        return "unusual", None
    first = content.split("\n")[0]
    try:
        json.loads(first)
        first_ok = True
    except ValueError:
        first_ok = False
    return "malformed", (first_ok or whole_json)


def _oracle_bisc(init, ops):
    """abstract map semantics: the last data set written to a name wins; a name never written and not
    pre-populated with a data file is reported invalid"""
    state = {}
    if init != "-":
        for e in init.split("+"):
            n, c = e.split("=")
            state[n] = ("raw", dec_raw(c))
    outs = []
    if ops == "-":
        return "-"
    for o in ops.split("+"):
        t = o.split(":")
        if t[0] == "w":
            if "/" in t[1]:
                return None
            state[t[1]] = ("data", pdataset(t[2]))
            outs.append("ok")
        elif t[0] == "W":
            if "/" in t[1]:
                return None
            n = int(t[2])
            patts = pseqs(t[3])
            good, bad = [], []
            for k in range(n + 1):
                g, b = [], []
                for p in itertools.permutations(range(k)):
                    (g if _classical_avoids(p, patts) else b).append(p)
                good.append((k, g))
                bad.append((k, b))
            state["%s_good_len%d" % (t[1], n)] = ("data", good)
            state["%s_bad_len%d" % (t[1], n)] = ("data", bad)
            outs.append("ok,ok")
        else:
            st = state.get(t[1])
            if st is None:
                outs.append("INVALID")
            elif st[0] == "data":
                if len({k for k, _ in st[1]}) != len(st[1]):
                    return None
                outs.append("OK:" + fdataset(st[1]))
            else:
                kind, x = classify_raw(st[1])
                if kind == "data":
                    outs.append("OK:" + fdataset(x))
                elif kind == "malformed":
                    outs.append("INVALID")
                else:
                    return None
    return "|".join(outs)


def _oracle_db(init, ops):
    """every load of p returns an automaton language-equivalent to a fresh computation for p, provided every
    automaton handed to the database for p was one (in_dfa None or the fresh automaton of p itself)"""
    if init != "-":
        for e in init.split("+"):
            p, q = e.split("=")
            if q == "!" or (q != "@" and q != p) or len(pseq(p)) > 10:
                return None
    outs = []
    if ops == "-":
        return "-"
    for o in ops.split("+"):
        t = o.split(":")
        if t[0] == "j":
            return None
        if t[0] == "s" and (t[2] not in ("-", t[1]) or len(pseq(t[1])) > 10):
            return None
        if t[0] == "l":
            if len(pseq(t[1])) > 10:
                return None
            outs.append("M" + t[1])
        if t[0] == "b":
            outs.append("FRESH")
    return "|".join(outs) if outs else "-"


# independent definitions of the named properties ------------------------------------------------
def _mesh_avoids(p, patt, shading):
    n = len(patt)
    sh = set(shading)
    for c in itertools.combinations(range(len(p)), n):
        vals = [p[i] for i in c]
        if not all((patt[x] < patt[y]) == (vals[x] < vals[y]) for x in range(n) for y in range(n)):
            continue
        sv = sorted(vals)
        ok = True
        for x, y in enumerate(p):
            if x in c:
                continue
            i = sum(1 for z in c if z < x)
            j = sum(1 for z in sv if z < y)
            if (i, j) in sh:
                ok = False
                break
        if ok:
            return False
    return True


def _stack_pass(p):
    out, st = [], []
    for x in p:
        while st and st[-1] < x:
            out.append(st.pop())
        st.append(x)
    while st:
        out.append(st.pop())
    return out


def _quick_pass(p):
    p = list(p)
    if not p:
        return p
    for i in range(len(p) - 1, -1, -1):
        if all(y < p[i] for y in p[:i]) and all(y > p[i] for y in p[i + 1:]):
            return _quick_pass(p[:i]) + [p[i]] + _quick_pass(p[i + 1:])
    return [y for y in p if y < p[0]] + [p[0]] + [y for y in p if y > p[0]]


def _simsun(p):
    for m in range(len(p), 0, -1):
        w = [x for x in p if x < m]
        if any(w[i] > w[i + 1] > w[i + 2] for i in range(len(w) - 2)):
            return False
    return True


def _dihedral(p):
    n = len(p)
    if n <= 2:
        return False  # the library's stated convention: D1, D2 are not counted
    return any(all(p[i] == (i + s) % n for i in range(n)) or all(p[i] == (s - i) % n for i in range(n))
               for s in range(n))


def _even(p):
    n = len(p)
    if n == 0:
        return True
    if n < 3:
        return n % 2 == 1  # the library's stated convention for the degenerate lengths
    seen, cycles = set(), 0
    for i in range(n):
        if i not in seen:
            cycles += 1
            while i not in seen:
                seen.add(i)
                i = p[i]
    return (n - cycles) % 2 == 0


def _rsk_shape(p):
    import bisect
    rows = []
    for x in p:
        for row in rows:
            i = bisect.bisect_right(row, x)
            if i == len(row):
                row.append(x)
                x = None
                break
            row[i], x = x, row[i]
        if x is not None:
            rows.append([x])
    return [len(r) for r in rows]


def _shape_contains(shape, mu):
    return len(shape) >= len(mu) and all(a >= b for a, b in zip(shape, mu))


DEFS = {
    "stack_sortable": lambda p: _stack_pass(p) == sorted(p),
    "West_2_stack_sortable": lambda p: _stack_pass(_stack_pass(p)) == sorted(p),
    "quick_sortable": lambda p: _quick_pass(p) == sorted(p),
    "smooth": lambda p: _classical_avoids(p, [(0, 2, 1, 3), (1, 0, 3, 2)]),
    "forest_like": lambda p: _classical_avoids(p, [(0, 2, 1, 3)]) and _mesh_avoids(p, (1, 0, 3, 2), [(2, 2)]),
    "Baxter": lambda p: _mesh_avoids(p, (1, 3, 0, 2), [(2, 2)]) and _mesh_avoids(p, (2, 0, 3, 1), [(2, 2)]),
    "SimSun": _simsun,
    "dihedral": _dihedral,
    "in_alternating_group": _even,
    "yt_perm_avoids_22": lambda p: not _shape_contains(_rsk_shape(p), [2, 2]),
    "yt_perm_avoids_32": lambda p: not _shape_contains(_rsk_shape(p), [3, 2]),
    "av_231_and_mesh": lambda p: _classical_avoids(p, [(1, 2, 0)]) and _mesh_avoids(
        p, (0, 1, 5, 2, 3, 4), [(1, 6), (4, 5), (4, 6)]),
}


def _lib_pred(fam):
    return {
        "stack_sortable": lambda p: p.stack_sortable(), "West_2_stack_sortable": lambda p: p.west_2_stack_sortable(),
        "quick_sortable": lambda p: p.quick_sortable(), "smooth": _PP.smooth, "forest_like": _PP.forest_like,
        "Baxter": _PP.baxter, "SimSun": _PP.simsun, "dihedral": _PP.dihedral,
        "in_alternating_group": _PP.in_alternating_group, "yt_perm_avoids_22": _PP.yt_perm_avoids_22,
        "yt_perm_avoids_32": _PP.yt_perm_avoids_32, "av_231_and_mesh": _PP.av_231_and_mesh,
    }[fam]


SHIP_RE = re.compile(r"(.+)_(good|bad)_len(\d+)")


def _oracle_shipped(op, base, ks):
    """the length-k entry of <family>_good_len<L> is exactly {sigma in S_k : property(sigma)}, that of the bad file its
    complement in S_k (so the two files partition S_k), for every k <= L"""
    path = os.path.join(RES, base + ".json")
    if not os.path.exists(path):
        return "INVALID"            # a missing file has to be reported as such
    # (a file shipped EMPTY is reported as invalid by the reader - rightly - but the property asks more of a shipped data
    #  set: it is the partition it is named after; so the expected answer is the data, and the empty file is a finding)
    fam, kind, L = SHIP_RE.fullmatch(base).groups()
    want = (kind == "good")
    outs = []
    for k in _krange(ks):
        if k > int(L):
            outs.append("%d:ABSENT" % k)
            continue
        if op == "shipped":
            pred = DEFS[fam]
            perms = itertools.permutations(range(k))
        else:
            lp = _lib_pred(fam)
            pred = lambda p: bool(lp(p))
            perms = _Perm.of_length(k)
        outs.append("%d:%s" % (k, digest(p for p in perms if bool(pred(p)) == want)))
    return "|".join(outs)


def oracle(op, a):
    if op == "bisc":
        return _oracle_bisc(a[0], a[1])
    if op == "rawread" or op == "rawmut":
        kind, x = classify_raw(dec_raw(a[0] if a else ""))
        if kind == "data":
            return "OK:" + fdataset(x)
        if kind == "malformed":
            return "INVALID"
        return None
    if op == "db":
        return _oracle_db(a[0], a[1])
    if op in ("shipped", "shippedp"):
        return _oracle_shipped(op, a[0], a[1])
    if op == "shipfile":
        path = os.path.join(RES, a[0] + ".json")
        if not os.path.exists(path) or os.path.getsize(path) == 0:
            return "INVALID"
        top = int(SHIP_RE.fullmatch(a[0]).group(3))
        return "|".join("%d:repeated=0,perms=T" % k for k in range(top + 1))
    if op == "autoname":
        # a name resolves iff the package ships <name>_good_len<L>.json and <name>_bad_len<L>.json with L >= 8
        have = {(m.group(1), m.group(2)) for m in (SHIP_RE.fullmatch(f[:-5]) for f in os.listdir(RES) if f.endswith(".json"))
                if m and int(m.group(3)) >= 8}
        return "FOUND" if (a[0], "good") in have and (a[0], "bad") in have else "NOFILES"
    if op == "shippart":
        # the two files partition S_k for every k up to the stated length
        return "|".join("%d:total=%d,repeated=0,both=0,perms=T" % (k, math.factorial(k)) for k in range(int(a[1]) + 1))
    return None


def nontrivial(op, a, out):
    if op == "bisc":
        ops = a[1].split("+")
        pre = set() if a[0] == "-" else {e.split("=")[0] for e in a[0].split("+")}
        written = set(pre)
        for o in ops:
            t = o.split(":")
            if t[0] == "w":
                written.add(t[1])
            elif t[0] == "W":
                written.add("%s_good_len%s" % (t[1], t[2]))
                written.add("%s_bad_len%s" % (t[1], t[2]))
            elif t[0] == "r" and t[1] in written:
                return True
        return False
    if op == "db":
        return any(o[:2] in ("l:", "b:") for o in a[1].split("+"))
    return True


# ----------------------------------------------------------------------------- translator self-check
def translator_selfcheck():
    """generated constants against what the live code does"""
    import builtins
    import importlib
    path = os.path.join(core.LEAN, "PermutaModel", "Generated", "Tables.lean")
    src = open(path).read()

    def chars(name):
        m = re.search(r"def %s : List Char := \[(.*?)\]\n" % name, src)
        if not m:
            return None
        return "".join(re.findall(r"'(.)'", m.group(1)))

    def boolean(name):
        m = re.search(r"def %s : Bool := (true|false)" % name, src)
        return None if not m else m.group(1) == "true"

    B = importlib.import_module("permuta.bisc.bisc")
    from permuta.permutils.pin_words import PinWords
    seen = []
    real_open = builtins.open

    def spy(file, mode="r", *args, **kw):
        seen.append((str(file), mode))
        return real_open(file, mode, *args, **kw)

    d = tempfile.mkdtemp(prefix="c20sc_", dir=TMPROOT)
    try:
        B.open = spy  # module-level name shadows the builtin for that module only
        try:
            with contextlib.redirect_stdout(io.StringIO()):
                B.write_json_to_file({}, os.path.join(d, "t.json"))
                B.read_bisc_file(os.path.join(d, "t"))
        finally:
            del B.open
    finally:
        shutil.rmtree(d, ignore_errors=True)
    modes = [m for _, m in seen]
    if chars("c20WriteMode") is None:
        return None     # item MISSING: already reported by the translator as a broken obligation
    if modes != [chars("c20WriteMode"), chars("c20ReadMode")]:
        return "open modes at run time %r differ from generated %r" % (modes, [chars("c20WriteMode"), chars("c20ReadMode")])
    if boolean("c20LoadMemo") != hasattr(PinWords.load_dfa_for_perm, "cache_clear"):
        return "c20LoadMemo disagrees with the live load_dfa_for_perm"
    return None


# ----------------------------------------------------------------------------- generators
LD_BOUND = {True: 3, False: 4}
NAMES = ["a", "b"]
DATASETS = [".", "0=_&1=0", "2=0,1;1,0&3=-"]


def _seqs_ending_in_read(alphabet, reads, maxlen):
    for k in range(1, maxlen + 1):
        for pre in itertools.product(alphabet, repeat=k - 1):
            for r in reads:
                yield "+".join(pre + (r,))


def rand_dataset(rng):
    if rng.random() < 0.1:
        return "."
    keys = rng.sample([0, 1, 2, 3, 4, 5, 7, 9, 10, 11, 12, 100, 123], rng.randrange(1, 5))
    if rng.random() < 0.5:
        keys.sort()
    items = []
    for k in keys:
        perms = []
        for _ in range(rng.randrange(0, 4) if rng.random() < 0.8 else rng.randrange(4, 9)):
            r = rng.random()
            if r < 0.6:
                n = rng.randrange(0, 6) if rng.random() < 0.8 else rng.randrange(10, 13)
                p = list(range(n))
                rng.shuffle(p)
            elif r < 0.8:
                p = [rng.choice([0, 1, 9, 10, 99, 100, 1000, 12345678901234567890]) for _ in range(rng.randrange(1, 4))]
            else:
                p = []
            perms.append(tuple(p))
        items.append((k, perms))
    return "&".join("%d=%s" % (k, fseqs(v)) for k, v in items)


PRED_PATTS = ["0,1", "1,2,0", "-", "_", "0,2,1;1,0,2", "0"]

CRAFTED_RAW = [
    # absent handled by bisc lines; empty / white space / garbage / truncated / concatenated
    "", " ", "\n", "garbage", "{", "[", "{\"1\": [[0]]", "{\"1\": [[0]]}{\"1\": [[0]]}", "{}{}", "{\"1\": [[0]]} x",
    "{\"1\": [[0]],}", "{\"1\": [[01]]}", "{\"1\": [[0,]]}", "{,}", "{\"1\" [[0]]}", "{1: [[0]]}", "{\"1\": [[0]] \"2\": []}",
    "\n{\"1\": []}", "{\"1\":\n [[0]]}", "{\"1\": [[0]]}\n", " {\"1\" : [ [0 ] ] } \n", "{}", "{ }", "{\"0\": []}",
    "{\"10\": [[10, 0, 9]], \"2\": [[], [0]]}", "{\"007\": [[0]]}", "{\"1\": [[0]], \"1\": []}", "{\"1\": [[0]], \"01\": []}",
    # wrong shapes
    "[1, 2]", "[]", "5", "0", "\"ab\"", "null", "true", "false", "[{\"1\": []}]",
    "{\"1\": 5}", "{\"1\": [5]}", "{\"1\": null}", "{\"1\": [null]}", "{\"1\": [true]}", "{\"1\": true}", "{\"a\": []}",
    "{\"\": []}", "{\"1a\": []}", "{\"1\": \"ab\"}", "{\"1\": \"\"}", "{\"1\": {}}", "{\"1\": {\"a\": []}}",
    "{\"1\": [\"ab\"]}", "{\"1\": [\"\"]}", "{\"1\": [{}]}", "{\"1\": [[\"a\"]]}", "{\"1\": [[null]]}", "{\"1\": [[[0]]]}",
    "{\"1\": [[0], 5]}", "{\"1\": [\"ab\", 5]}", "{\"a\": \"ab\"}", "{\"1\": \"ab\", \"b\": []}",
    # only the first line is looked at
    "{\"1\": [[0]]}\ngarbage", "{\"1\": [[0]]}\n{\"1\": [[0]]}", "{\"1\": [[0]]}\n\n", "garbage\n{\"1\": [[0]]}",
]

MUT_ALPHABET = "[]{},:\" 0123456789\n"


def mutate(rng, s):
    s = list(s)
    for _ in range(rng.choice([1, 1, 1, 2, 3])):
        r = rng.random()
        i = rng.randrange(len(s) + 1)
        if r < 0.35 and s:
            del s[min(i, len(s) - 1)]
        elif r < 0.7:
            s.insert(i, rng.choice(MUT_ALPHABET))
        elif s:
            s[min(i, len(s) - 1)] = rng.choice(MUT_ALPHABET)
    return "".join(s)


def perms(n):
    return itertools.permutations(range(n))


def rand_perm(rng, n):
    p = list(range(n))
    rng.shuffle(p)
    return tuple(p)


def run(ctx):
    import time as _t
    _orig = ctx.compare
    secs = ctx.extra.setdefault("stream_seconds", {})

    def timed(stream, lines, **kw):
        t0 = _t.time()
        _orig(stream, lines, **kw)
        secs[stream] = round(_t.time() - t0, 2)
    ctx.compare = timed
    parent = tempfile.mkdtemp(prefix="c20_", dir=TMPROOT)
    os.environ["C20_TMP"] = parent      # inherited by the worker processes (forked at the first compare)
    try:
        _run(ctx)
    finally:
        os.environ.pop("C20_TMP", None)
        shutil.rmtree(parent, ignore_errors=True)


def _run(ctx):
    rng = ctx.rng
    quick = ctx.tier == "quick"
    # ------------------------------------------------------------------ corpus
    # regression cases of the two repaired defects (83d1cc6 write mode, b52c3d7 reader): former replay lines
    ctx.compare("regression", [
        "bisc - w:a:0=_&1=0+w:a:0=_&1=0+r:a",
        "bisc - W:x:2:0,1+W:x:2:0,1+r:x_good_len2+r:x_bad_len2",
        "bisc a={\"1\":_[[0]]} w:a:0=_+r:a",
        "bisc a={}{} r:a+w:a:0=_+r:a",
        "rawread [1,_2]", "rawread 0", "rawread null", "rawread \"ab\"",
        "rawread {\"1\":_\"ab\"}", "rawread {\"1\":_\"\"}", "rawread {\"1\":_{}}", "rawread {\"1\":_[\"ab\"]}",
        "rawread {\"1\":_[[\"a\"]]}", "rawread {\"1\":_[[null]]}", "rawread {\"1\":_[[true]]}", "rawread {\"1\":_[[[0]]]}",
        "rawread {\"1\":_[[0]]}^garbage", "rawread {\"1\":_[[0]]}^{\"1\":_[[0]]}",
    ])
    corpus = [
        "bisc - w:a:0=_&1=0+r:a",
        "bisc - w:a:0=_&1=0+w:a:0=_&1=0+r:a",                       # the same data set written again (DESIGN §7 no. 11)
        "bisc - w:a:0=_&1=0+r:a+w:a:2=0,1;1,0&3=-+r:a+r:b",
        "bisc - W:x:2:0,1+r:x_good_len2+r:x_bad_len2",
        "bisc - W:x:2:0,1+W:x:2:0,1+r:x_good_len2+r:x_bad_len2",
        "bisc - W:x:3:1,2,0+W:y:2:-+r:x_good_len3+r:x_bad_len3+r:y_good_len2+r:y_bad_len2+r:x_good_len2",
        "bisc - r:a", "bisc - w:a:.+r:a", "bisc - w:a:.+w:a:.+r:a",
        "bisc - w:nodir/a:0=_+r:nodir/a+r:a", "bisc - W:nodir/x:1:0,1+r:nodir/x_good_len1",
        "bisc a={\"1\":_[[0]]} r:a+w:b:0=_+r:a+r:b",
        "bisc a={\"1\":_[[0]]} w:a:0=_+r:a",
        "bisc a= w:a:0=_+r:a",
        "bisc a={}{} r:a+w:a:0=_+r:a",
        "bisc - w:a:12=11,10,9,8,7,6,5,4,3,2,1,0;0,1,2,3,4,5,6,7,8,9,10,11&100=1000,0+r:a",
        "bisc - w:a:3=0&1=0;0+r:a",
    ]
    ctx.compare("corpus", corpus)
    ctx.compare("raw-crafted", ["rawread " + enc_raw(c) if c else "rawread" for c in CRAFTED_RAW])
    # ------------------------------------------------------------------ exhaustive histories (bisc)
    alphabet = ["w:%s:%s" % (n, d) for n in NAMES for d in DATASETS] + ["r:a", "r:b"]
    reads = ["r:a", "r:b"]
    L0 = 5 if quick else 6
    lines = ["bisc - " + s for s in _seqs_ending_in_read(alphabet, reads, L0)]
    ctx.compare("bisc-exhaustive-empty-dir", lines)
    inits = ["a={\"0\":_[[]],_\"1\":_[[0]]}", "a={}", "a=", "a={\"0\":_[[]],_\"1\":_[[0]]}{\"0\":_[[]],_\"1\":_[[0]]}",
             "a=garbage", "a={\"2\":_[[0,_1],_[1,_0]],_\"3\":_[]}+b={}"]
    lines = ["bisc %s %s" % (i, s) for i in inits for s in _seqs_ending_in_read(alphabet, reads, 4)]
    ctx.compare("bisc-exhaustive-prepopulated", lines)
    ctx.exhaustive = True
    ctx.exhaustive_bound = ("bisc: all histories of <=%d calls ending in a read over {write_json_to_file} x 2 names x 3 data "
                            "sets + {read} x 2 names from the empty directory; all such histories of <=4 calls from %d "
                            "pre-populated directories; db: all histories of <=%d calls ending in a load/basis call over 11 calls on {01,10}; shipped: "
                            "all %s shipped files x all lengths <=%s, complete enumeration of S_k"
                            % (L0, len(inits), LD_BOUND[quick], "28", "7 (quick)" if quick else "stated length (8 or 9)"))
    # ------------------------------------------------------------------ random histories (bisc)
    R = 2500 if quick else 30000
    lines = []
    for _ in range(R):
        names = ["a", "b", "c"]
        infos = ["x", "y"]
        init = "-"
        if rng.random() < 0.3:
            ents = []
            for n in rng.sample(names, rng.randrange(1, 3)):
                r = rng.random()
                if r < 0.5:
                    c = _py_dumps(pdataset(rand_dataset(rng)))
                elif r < 0.7:
                    c = _py_dumps(pdataset(rand_dataset(rng))) * 2
                elif r < 0.85:
                    c = ""
                else:
                    c = mutate(rng, _py_dumps(pdataset(rand_dataset(rng)))).replace("\n", "")
                ents.append("%s=%s" % (n, enc_raw(c)))
            init = "+".join(ents)
        ops = []
        for _ in range(rng.randrange(1, 10)):
            r = rng.random()
            if r < 0.4:
                ops.append("w:%s:%s" % (rng.choice(names), rand_dataset(rng)))
            elif r < 0.5:
                ops.append("W:%s:%d:%s" % (rng.choice(infos), rng.randrange(0, 4), rng.choice(PRED_PATTS)))
            elif r < 0.85:
                ops.append("r:" + rng.choice(names))
            else:
                ops.append("r:%s_%s_len%d" % (rng.choice(infos), rng.choice(["good", "bad"]), rng.randrange(0, 4)))
        if rng.random() < 0.03:
            ops.insert(rng.randrange(len(ops) + 1), "w:nodir/a:.")
        lines.append("bisc %s %s" % (init, "+".join(ops)))
    ctx.compare("bisc-random", lines)
    # ------------------------------------------------------------------ names that look alike / names of shipped files
    # (a) names differing only in blank vs underscore vs hyphen, doubled separators, leading/trailing separators, case:
    #     each is a file of its own - what was written under one must not show (or vanish) under another;
    # (b) a name that was never written in this directory is missing, also when the package ships a file of that name
    conf = ["x~y", "x_y", "x-y", "x~~y", "x__y", "~x", "_x", "x~", "x_", "X_y", "xy"]
    lines = []
    for i, n1 in enumerate(conf):
        for n2 in conf:
            if n1 == n2:
                continue
            if not quick or (i + conf.index(n2)) % 3 == 0:
                lines.append("bisc - w:%s:0=_&1=0+w:%s:2=0,1;1,0&3=-+r:%s+r:%s" % (n1, n2, n1, n2))
            lines.append("bisc - w:%s:0=_&1=0+r:%s+r:%s" % (n1, n2, n1))
            if (i + conf.index(n2)) % 4 == 0:
                lines.append("bisc - W:%s:2:0,1+W:%s:2:1,0+r:%s_good_len2+r:%s_good_len2+r:%s_bad_len2+r:%s_bad_len2" % (
                    n1, n2, n1, n2, n1, n2))
                lines.append("bisc - W:%s:2:0,1+r:%s_good_len2+r:%s_bad_len2" % (n1, n2, n2))
    ctx.compare("bisc-lookalike-names", lines)
    shipped_bases = sorted(f[:-5] for f in os.listdir(RES) if f.endswith(".json"))
    lines = []
    for b in shipped_bases:
        lines.append("bisc - r:%s" % b)
        lines.append("bisc - r:data/%s+r:%s" % (b, b))
        lines.append("bisc - w:a:0=_&1=0+r:%s+r:a" % b)
    ctx.compare("bisc-names-of-shipped-files", lines)
    # ------------------------------------------------------------------ sizes the streams above never reach
    # data sets with LONG entries (lengths 9-12, 21-40, 64-70, ~200, ~401, ~1000; keys with several digits), a long data
    # set overwritten by a short one and the other way round under one name, files whose content is a long data set
    # damaged at the very beginning / the very end, write_bisc_files up to length 6
    def long_dataset(lo, hi):
        items = []
        for k in rng.sample([0, 7, 9, 10, 11, 12, 21, 33, 64, 100, 401, 1000], rng.randrange(1, 4)):
            perms_ = []
            for _ in range(rng.randrange(1, 4)):
                n = rng.randrange(lo, hi + 1) if rng.random() < 0.8 else rng.randrange(0, 6)
                perms_.append(rand_perm(rng, n))
            items.append((k, perms_))
        return "&".join("%d=%s" % (k, fseqs(v)) for k, v in items)
    lines = []
    f = 1 if quick else 8
    for lo, hi, cnt in ((9, 12, 160 * f), (21, 40, 120 * f), (64, 70, 60 * f), (190, 210, 24 * f), (395, 405, 10 * f), (995, 1005, 6 * f)):
        for _ in range(cnt):
            r = rng.random()
            if r < 0.5:
                ops = []
                for _ in range(rng.randrange(2, 6)):
                    q = rng.random()
                    if q < 0.45:
                        ops.append("w:%s:%s" % (rng.choice("ab"), long_dataset(lo, hi) if rng.random() < 0.7 else rand_dataset(rng)))
                    else:
                        ops.append("r:" + rng.choice("ab"))
                ops.append("r:" + rng.choice("ab"))
                init = "-"
                if rng.random() < 0.25:
                    init = "a=" + enc_raw(_py_dumps(pdataset(long_dataset(lo, hi))) * rng.choice([1, 1, 2]))
                lines.append("bisc %s %s" % (init, "+".join(ops)))
            else:
                c = _py_dumps(pdataset(long_dataset(lo, hi)))
                q = rng.random()
                if q < 0.25:
                    c = c[:-rng.randrange(1, 4)]                    # damaged at the very end
                elif q < 0.45:
                    c = c[rng.randrange(1, 3):]                     # ... at the very beginning
                elif q < 0.6:
                    i = rng.choice([1, 2, len(c) - 2, len(c) - 3])
                    c = c[:i] + rng.choice(MUT_ALPHABET.replace("\n", "")) + c[i + 1:]
                elif q < 0.7:
                    c = c + rng.choice(["x", " ", "}", "\n", "\n{}"])
                lines.append("rawmut " + enc_raw(c) if c else "rawmut")
    for n in (4, 5, 6) if quick else (4, 5, 5, 6, 6, 6):
        for patts in rng.sample(["0,1,2", "1,2,0;2,0,1", "1,3,0,2", "0,2,1,3;3,1,2,0", "2,1,0", "0,1,2,3,4", "1,0"], 2):
            lines.append("bisc - W:x:%d:%s+r:x_good_len%d+r:x_bad_len%d+W:x:%d:%s+r:x_good_len%d" % (n, patts, n, n, n, patts, n))
    rng.shuffle(lines)
    ctx.compare("large", lines)
    # look-alike permutations of length >= 11 (the same decimal concatenation = the same file name, the same first
    # entries, ...: used.lookalikes) as database keys; automata are supplied (none can be computed for such lengths)
    lines = []
    for _ in range(30 if quick else 300):
        n = rng.choice([11, 12, 13, 14, 21, 33, 40])
        p = list(range(n))
        if rng.random() < 0.7:
            i = rng.randrange(n - 1)
            p[i], p[i + 1] = p[i + 1], p[i]
        else:
            rng.shuffle(p)
        twins = used.lookalikes(tuple(p), rng)
        if not twins:
            continue
        q = rng.choice(twins[:3])
        a1, a2 = rng.sample(["0,1", "1,0", "0", "0,1,2"], 2)
        fp, fq = fseq(p), fseq(q)
        hist = ["s:%s:%s" % (fp, a1), "s:%s:%s" % (fq, a2), "l:" + fp, "l:" + fq]
        if rng.random() < 0.5:
            hist.insert(2, "x")
        if rng.random() < 0.3:
            hist = hist[1::-1] + hist[2:]
        lines.append("db - " + "+".join(hist))
    ctx.compare("db-lookalike-keys", lines)
    # ------------------------------------------------------------------ random raw contents
    lines = []
    for _ in range(3000 if quick else 40000):
        base = _py_dumps(pdataset(rand_dataset(rng)))
        if rng.random() < 0.15:
            base = base.replace(", ", rng.choice([",", " , ", ",  "])).replace(": ", rng.choice([":", " : "]))
        c = mutate(rng, base) if rng.random() < 0.9 else base
        lines.append("rawmut " + enc_raw(c) if c else "rawmut")
    ctx.compare("raw-mutated", lines)
    # ------------------------------------------------------------------ database
    dbcorpus = [
        "db - l:0,2,1+s:0,2,1:0,1+x+l:0,2,1+j:0,2,1+l:0,2,1+x+l:0,2,1",
        "db - s:0,2,1:-+l:0,2,1", "db - s:0,2,1:0,2,1+s:0,2,1:-+l:0,2,1+x+l:0,2,1",
        "db - s:0,1:1,0+l:0,1+s:0,1:-+l:0,1+x+l:0,1",                  # first stored wins, even when it is the wrong one
        "db 1,0=0,1+0,1=! l:1,0+l:0,1+c:2+b:0,1;1,0",
        "db - c:0+c:1+c:2+l:_+l:0+l:0,1+l:1,0+b:1,0;0,1+b:-+b:_;0",
        "db - c:3+b:2,1,0;0,1,2+l:1,2,0+x+b:0,2,1;1,2,0;1,0",
        "db - b:0,1;1,0+l:0,1",
        # file-name collision for length >= 11: ''.join(str(i) for i in perm)
        "db - s:1,0,10,2,3,4,5,6,7,8,9:0,1+s:10,1,0,2,3,4,5,6,7,8,9:1,0+l:10,1,0,2,3,4,5,6,7,8,9+l:1,0,10,2,3,4,5,6,7,8,9",
        "db - s:10,1,0,2,3,4,5,6,7,8,9:1,0+s:1,0,10,2,3,4,5,6,7,8,9:0,1+l:10,1,0,2,3,4,5,6,7,8,9+l:1,0,10,2,3,4,5,6,7,8,9",
    ]
    ctx.compare("db-corpus", dbcorpus)
    dalpha = ["s:0,1:-", "s:1,0:-", "s:0,1:0,1", "s:0,1:1,0", "s:1,0:0,1", "l:0,1", "l:1,0", "c:2", "x", "j:0,1", "b:0,1;1,0"]
    LD = 3 if quick else 4
    lines = []
    for k in range(1, LD + 1):
        for pre in itertools.product(dalpha, repeat=k - 1):
            for last in ("l:0,1", "l:1,0", "b:0,1;1,0"):
                lines.append("db - " + "+".join(pre + (last,)))
    ctx.compare("db-exhaustive", lines)
    lines = []
    for _ in range(500 if quick else 3000):
        k = rng.randrange(LD, LD + 3)
        lines.append("db - " + "+".join([rng.choice(dalpha) for _ in range(k)] + [rng.choice(["l:0,1", "l:1,0", "b:0,1;1,0"])]))
    ctx.compare("db-longer-histories", lines)
    # every permutation of length <= 4 (thorough 5): stored, reloaded in a new process, compared with a fresh computation
    NL = 4 if quick else 5
    lines = []
    for n in range(NL + 1):
        for p in perms(n):
            fp = fseq(p)
            lines.append("db - s:%s:-+l:%s+x+l:%s+s:%s:%s+l:%s" % (fp, fp, fp, fp, fseq(rand_perm(rng, rng.randrange(0, 4))), fp))
            lines.append("db - l:%s+x+b:%s" % (fp, fp))
    ctx.compare("db-all-perms", lines)
    # the database that already sits in the repository's working directory (a pre-populated directory)
    lines = []
    root = os.path.join(REPO, "dfa_db")
    if os.path.isdir(root):
        for n in range(NL + 1):
            dd = os.path.join(root, "S%d" % n)
            if not os.path.isdir(dd):
                continue
            for p in perms(n):
                if os.path.isfile(os.path.join(REPO, _dbfile(p))):
                    lines.append("db %s=@ l:%s+s:%s:-+x+l:%s" % (fseq(p), fseq(p), fseq(p), fseq(p)))
    ctx.notes.append("files of <repo>/dfa_db checked against fresh computations: %d" % len(lines))
    ctx.compare("db-repo-directory", lines)
    lines = []
    for _ in range(80 if quick else 1200):
        pool = [rand_perm(rng, rng.choice([1, 2, 2, 3, 3, 3, 4] if quick else [2, 3, 3, 4, 4, 5])) for _ in range(2)]
        pool.append(rand_perm(rng, rng.randrange(0, 4)))
        small = [rand_perm(rng, rng.randrange(0, 4)) for _ in range(2)]
        proper = rng.random() < 0.6
        init = "-"
        if rng.random() < 0.4:
            ents = []
            for p in rng.sample(pool, rng.randrange(1, 3)):
                if proper or rng.random() < 0.5:
                    ents.append("%s=%s" % (fseq(p), fseq(p)))
                elif rng.random() < 0.5:
                    ents.append("%s=!" % fseq(p))
                else:
                    ents.append("%s=%s" % (fseq(p), fseq(rng.choice(small))))
            init = "+".join(dict((e.split("=")[0], e) for e in ents).values())
        ops = []
        for _ in range(rng.randrange(2, 8)):
            r = rng.random()
            p = rng.choice(pool)
            if r < 0.2:
                ops.append("s:%s:-" % fseq(p))
            elif r < 0.35:
                ops.append("s:%s:%s" % (fseq(p), fseq(p if proper else rng.choice(small + [p]))))
            elif r < 0.7:
                ops.append("l:" + fseq(p))
            elif r < 0.8:
                ops.append("x")
            elif r < 0.87:
                ops.append("c:%d" % rng.randrange(0, 4))
            elif r < 0.93 and not proper:
                ops.append("j:" + fseq(p))
            elif proper:
                # (with foreign automata in the files the union can coincide with the fresh one by language
                #  inclusion, which the symbolic model cannot see: basis calls only in proper histories)
                ops.append("b:" + fseqs(rng.sample(pool, rng.randrange(1, 3))))
            else:
                ops.append("l:" + fseq(p))
        lines.append("db %s %s" % (init, "+".join(ops)))
    # the whole database of one length filled in ONE call (create_dfa_db_for_length(5): 120 permutations, more than any
    # batch size an implementation may use), then look-ups of early, late and random permutations of that length
    # (about 35 s in the implementation: one line, first in its stream)
    p5 = list(itertools.permutations(range(5)))
    loads = [p5[3], p5[0], p5[-1], p5[63], p5[64], p5[65]] + rng.sample(p5, 4 if quick else 30)
    lines.insert(0, "db - c:5+" + "+".join("l:" + fseq(q) for q in loads))
    ctx.compare("db-random", lines)
    # ------------------------------------------------------------------ shipped data
    files = sorted(f[:-5] for f in os.listdir(RES) if f.endswith(".json"))
    lines = []
    for base in files:
        m = SHIP_RE.fullmatch(base)
        if not m or m.group(1) not in DEFS:
            ctx.notes.append("shipped file of an unknown family, not checked: " + base)
            continue
        if os.path.getsize(os.path.join(RES, base + ".json")) == 0:
            lines.append("shipped %s 0-0" % base)
            ctx.notes.append("shipped file is empty (has to be reported invalid by the reader): " + base)
            continue
        top = int(m.group(3))
        # one line reads one file once; the long enumerations (k >= 8, thorough only) get lines of their own
        ranges = ["0-%d" % min(7, top)] + ([] if quick else ["%d-%d" % (k, k) for k in range(8, top + 1)])
        for rg in ranges:
            lines.append("shipped %s %s" % (base, rg))
            lines.append("shippedp %s %s" % (base, rg))
    ctx.extra["shipped_files"] = len(files)
    # every family at every shipped length (8 and 9 too, in both tiers): the two files partition S_k; and, in the quick
    # tier too, length 8 against the library's own predicate
    fams = {}
    for base in files:
        m = SHIP_RE.fullmatch(base)
        if m and os.path.getsize(os.path.join(RES, base + ".json")) > 0:
            fams.setdefault((m.group(1), int(m.group(3))), set()).add(m.group(2))
    part = ["shippart %s %d" % (f, t) for (f, t), kinds in sorted(fams.items()) if kinds == {"good", "bad"}]
    if quick:
        for base in files:
            m = SHIP_RE.fullmatch(base)
            if m and m.group(1) in DEFS and int(m.group(3)) >= 8 and os.path.getsize(os.path.join(RES, base + ".json")) > 0:
                lines.append("shippedp %s 8-8" % base)
    # longest enumerations first so that the pool is balanced
    lines.sort(key=lambda l: -int(l.split(" ")[2].split("-")[1]))
    ctx.compare("shipped", lines, use_model=False)
    ctx.compare("shipped-partition", part, use_model=False)
    ctx.compare("shipped-files-one-by-one", ["shipfile " + b for b in files if SHIP_RE.fullmatch(b)], use_model=False)
    # auto_bisc(<name>): only a name that IS the name of a shipped data set resolves (single-word family names are used:
    # the look-up of the source splits file names at every underscore); word prefixes of shipped names do not
    def _both_nonempty(fam):
        mine = [b for b in files if SHIP_RE.fullmatch(b) and SHIP_RE.fullmatch(b).group(1) == fam]
        return all(os.path.getsize(os.path.join(RES, b + ".json")) > 0 for b in mine) and \
            {SHIP_RE.fullmatch(b).group(2) for b in mine} == {"good", "bad"}
    # (a family one of whose two files is shipped EMPTY - SimSun, av_231_and_mesh at this commit - is left out: the
    #  look-up finds the files and the learning then fails on the empty data set; the empty files themselves are
    #  reported by the `shipped` stream as files the reader has to call invalid)
    single = sorted({SHIP_RE.fullmatch(b).group(1) for b in files if SHIP_RE.fullmatch(b) and "_" not in SHIP_RE.fullmatch(b).group(1)
                     and _both_nonempty(SHIP_RE.fullmatch(b).group(1))})
    prefixes = sorted({"_".join(SHIP_RE.fullmatch(b).group(1).split("_")[:i]) for b in files if SHIP_RE.fullmatch(b)
                       for i in range(1, len(SHIP_RE.fullmatch(b).group(1).split("_")))})
    ctx.compare("auto-bisc-names", ["autoname " + n for n in (single[:2] if quick else single) + prefixes + ["nosuchname", "good", "len8"]],
                use_model=False)
