"""C03 - mesh / bivincular / vincular / covincular occurrences in permutations
(meshpatt.py 361-412, bivincularpatt.py 12-34, perm.py 2481-2528)."""
import itertools

from core import fseq, fseqs, fbool, fcells, pseq, pseqs, pcells, guarded
import meshlib as ml
import used
import past

PROP = "C03"
RULE = ("exhaustive: every mesh pattern of length <=2 with EVERY subset of its (k+1)^2 cells and every "
        "bivincular requirement pair (I,V) for length <=2 (bounds in exhaustive_bound) against every permutation "
        "up to the stated length; random: length-3/4 patterns with boundary-biased shadings in permutations built by "
        "inflating unshaded cells (planted occurrence) with near misses (a point in a shaded cell); mixed "
        "classical/mesh argument lists; histories on one MeshPatt object; non-trivial = pattern length >=1, not "
        "longer than the permutation, permutation length >=2 and at least one shaded cell / adjacency requirement; "
        "distinct = distinct op lines; large: every operation again on targets of length 9-12, 21-40, 64-70 and a few "
        "around 200 / 401 / 1000 and on patterns of length up to 70 (planted copies at the ends, nearly monotone targets "
        "with few classical occurrences, lists mixing short and long items); objects with a past: on the heavy lines the "
        "patterns and targets are fresh / used / derived from a used object through another API route (past.mkperm2 / "
        "mkmesh2), a selection of lines is preceded by the neighbouring calls (used.prelude)")
ASSUMPTIONS = [
    "model/implementation agreement outside the enumerated and sampled inputs is assumed",
    "theorems assume IsPerm of pattern and permutation; non-permutation tuples are only correspondence-checked",
    "shadings are compared as sorted sets (frozenset order is not observable)",
]
PARTIAL = []
TRUSTED = ["frozenset membership / deduplication taken as list membership / eraseDups"]


def worker_init():
    global Perm, MeshPatt, BivincularPatt, VincularPatt, CovincularPatt
    from permuta import Perm as P, MeshPatt as M
    from permuta.patterns.bivincularpatt import BivincularPatt as B, VincularPatt as V, CovincularPatt as C
    Perm, MeshPatt, BivincularPatt, VincularPatt, CovincularPatt = P, M, B, V, C


# ----------------------------------------------------------------------------- used objects
# Every library object of a line is built once (used.obj) and warmed up; on the selected lines (`_heavy`)
# the whole line is evaluated a second time on the SAME objects and both answers must agree, and every
# occurrence listing is computed while another listing of the same call is only partially consumed.
_HEAVY = [False]
_DERIVE = [False]     # objects of the line come from past.mkperm2 / mkmesh2 (fresh / used / derived from a used object)
_BIG = 9              # targets at least this long belong to the 'large' stream


def _longest(a):
    """length of the longest sequence among the arguments (cell lists do not count)"""
    return max([t.count(",") + 1 for t in " ".join(a).replace(";", " ").replace("/", " ").replace(":", " ").split(" ") if "." not in t] or [0])


def _heavy(op, a):
    """all lines with a mesh pattern of length >= 3 or a target of length >= 7 (the random and length-3
    streams) and a deterministic twelfth of the short exhaustive lines"""
    if a and ((a[0].count(",") >= 2 and op[0] == "m") or
              ("." not in a[-1] and ":" not in a[-1] and a[-1].count(",") >= 6)):
        return True
    return used.sel(op, a, 12)


def _warm_target(s):
    if _DERIVE[0]:
        return
    if _HEAVY[0]:
        used.warm_perm(s, 1)
    else:
        used.quiet(hash, s)


def _warm_mesh(m):
    if _DERIVE[0]:
        return
    if _HEAVY[0]:
        used.warm_mesh(m, 1)
    else:
        used.quiet(hash, m)


def _mkP(seq, salt=0):
    return past.mkperm2(seq, salt) if _DERIVE[0] else Perm(seq)


def _P(seq):
    seq = tuple(seq)
    return used.obj(("P", seq), lambda: _mkP(seq, 1), _warm_target)


def _mkM(p, cells):
    return past.mkmesh2(p, cells, 2) if _DERIVE[0] else MeshPatt(Perm(p), cells)


def _item(t):
    """build the real object for one item of a mixed argument list"""
    if t == "x":
        return (0, 1)          # a plain tuple: not a Patt
    kind, r = t.split(":")
    parts = r.split("/")
    if kind == "c":
        return _P(pseq(parts[0]))
    if kind == "m":
        return used.obj(("m", t), lambda: _mkM(pseq(parts[0]), pcells(parts[1])), _warm_mesh)
    if kind == "b":
        return used.obj(("b", t), lambda: BivincularPatt(_mkP(pseq(parts[0]), 3), _arg(pseq(parts[1]), (t, 1)), _arg(pseq(parts[2]), (t, 2))), _warm_mesh)
    if kind == "v":
        return used.obj(("v", t), lambda: VincularPatt(_mkP(pseq(parts[0]), 3), _arg(pseq(parts[1]), (t, 1))), _warm_mesh)
    if kind == "k":
        return used.obj(("k", t), lambda: CovincularPatt(_mkP(pseq(parts[0]), 3), _arg(pseq(parts[1]), (t, 1))), _warm_mesh)
    raise ValueError(t)


def _arg(seq, key):
    """an iterable argument in one of the forms a caller may hand over: tuple, list, set-free one-shot iterator,
    generator (the signatures say Iterable[int])"""
    k = past._pick(("arg", tuple(seq), key), 4)
    if k == 0:
        return tuple(seq)
    if k == 1:
        return list(seq)
    if k == 2:
        return iter(list(seq))
    return (x for x in list(seq))


def _items(s):
    return [] if s == "-" else [_item(t) for t in s.split(";")]


def _mesh(a):
    return used.obj(("M", a[0], a[1]), lambda: _mkM(pseq(a[0]), pcells(a[1])), _warm_mesh)


def _biv(kind, *parts):
    cls = {"B": BivincularPatt, "V": VincularPatt, "C": CovincularPatt}[kind]
    # (the underlying Perm of a bivincular pattern is an object with a past on the selected lines)
    return used.obj((kind,) + parts, lambda: cls(_mkP(pseq(parts[0]), 3), *[pseq(x) for x in parts[1:]]), _warm_mesh)


def _occ(make):
    """the complete listing make() as a string; on heavy lines it is computed while a second listing of the
    same call on the same objects is partially consumed, and both listings must be equal"""
    if not _HEAVY[0]:
        return fseqs(make())
    full, pieced = used.interleaved(make)
    return fseqs(full) if full == pieced else used.unstable(fseqs(full), fseqs(pieced))


def impl(op, a):
    n = _longest(a)
    big, huge = n >= _BIG, n >= 45
    # heavy = second evaluation on the same objects + interleaved listings; the lines of the 'large' stream are
    # heavy up to length 45 (beyond that the four-fold work is too slow)
    _HEAVY[0] = not huge and (big or _heavy(op, a))
    # a third of the heavy lines (and the whole 'large' stream) run on objects with a past; an eighth of the heavy
    # lines are preceded by the neighbouring calls (objects created, queried and dropped)
    _DERIVE[0] = big or (_HEAVY[0] and used.digest("d~" + op, a) % 3 == 0)
    if _HEAVY[0] and not big:
        used.prelude(op, a, _plain, 8)
    used.begin()
    r1 = _impl(op, a)
    if not _HEAVY[0]:
        return r1
    used.T.rewind()
    r2 = _impl(op, a)
    return r1 if r1 == r2 else used.unstable(r1, r2)


def _plain(op, a):
    """a neighbouring call: evaluated once, on fresh objects, without the used-object treatment"""
    saved = (_HEAVY[0], _DERIVE[0])
    _HEAVY[0] = _DERIVE[0] = False
    try:
        return _impl(op, a)
    finally:
        _HEAVY[0], _DERIVE[0] = saved


def _avoids_set(s, items):
    """avoids_set receives a list on the heavy lines; afterwards the list is emptied and the call is repeated
    with a new list of the same items (must not be answered from state tied to the first list)"""
    if not _HEAVY[0]:
        return fbool(s.avoids_set(iter(items)))
    lst = list(items)
    r1 = fbool(s.avoids_set(lst))
    del lst[:]
    r2 = fbool(s.avoids_set(list(items)))
    return r1 if r1 == r2 else used.unstable(r1, r2)


def _impl(op, a):
    if op in ("mocc", "moccspec"):
        return guarded(lambda: (lambda m, s: _occ(lambda: m.occurrences_in(s)))(_mesh(a), _P(pseq(a[2]))))
    if op == "moccof":
        return guarded(lambda: (lambda m, s: _occ(lambda: s.occurrences_of(m)))(_mesh(a), _P(pseq(a[2]))))
    if op == "bocc":
        return guarded(lambda: (lambda m, s: _occ(lambda: m.occurrences_in(s)))(_biv("B", a[0], a[1], a[2]), _P(pseq(a[3]))))
    if op == "vocc":
        return guarded(lambda: (lambda m, s: _occ(lambda: m.occurrences_in(s)))(_biv("V", a[0], a[1]), _P(pseq(a[2]))))
    if op == "cocc":
        return guarded(lambda: (lambda m, s: _occ(lambda: m.occurrences_in(s)))(_biv("C", a[0], a[1]), _P(pseq(a[2]))))
    if op == "bshade":
        return guarded(lambda: fcells(_biv("B", a[0], a[1], a[2]).shading))
    if op == "mshade":
        return guarded(lambda: fcells(_mesh(a).shading))
    if op == "mcount":
        return guarded(lambda: str(_mesh(a).count_occurrences_in(_P(pseq(a[2])))))
    if op == "min":
        return guarded(lambda: fbool(_mesh(a) in _P(pseq(a[2]))))
    if op == "mcontainedin":
        return guarded(lambda: fbool(_mesh(a).contained_in(*[_P(s) for s in pseqs(a[2])])))
    if op == "mavoidedby":
        return guarded(lambda: fbool(_mesh(a).avoided_by(*[_P(s) for s in pseqs(a[2])])))
    if op == "mcontains":
        return guarded(lambda: fbool(_P(pseq(a[0])).contains(*_items(a[1]))))
    if op == "mavoids":
        return guarded(lambda: fbool(_P(pseq(a[0])).avoids(*_items(a[1]))))
    if op == "mavoidsset":
        return guarded(lambda: _avoids_set(_P(pseq(a[0])), _items(a[1])))
    if op == "mhist":
        def f():
            m = _mesh(a)          # one object: its underlying Perm memoises the search table
            return "|".join((lambda t: _occ(lambda: m.occurrences_in(t)))(_P(s)) for s in pseqs(a[2]))
        return guarded(f)
    if op == "mbadtarget":
        return guarded(lambda: fseqs(_mesh(a).occurrences_in((0, 1))))
    raise ValueError("unknown op " + op)


def _wellformed(p, s):
    return ml.is_perm(p) and ml.is_perm(s)


def _item_contained(t, s):
    """property text: containment of one classical or mesh-type pattern in the permutation s"""
    kind, r = t.split(":")
    parts = r.split("/")
    p = pseq(parts[0])
    if kind == "c":
        return bool(ml.classical_occs_any(p, s))
    if kind == "m":
        return bool(ml.mesh_occs_any(p, pcells(parts[1]), s))
    if kind == "b":
        return bool(ml.adjacency_occs_any(p, pseq(parts[1]), pseq(parts[2]), s))
    if kind == "v":
        return bool(ml.adjacency_occs_any(p, pseq(parts[1]), (), s))
    if kind == "k":
        return bool(ml.adjacency_occs_any(p, (), pseq(parts[1]), s))
    raise ValueError(t)


def oracle(op, a):
    """independent brute force from the property text; None where the text does not decide
    (malformed input, error kinds).  For targets longer than 14 the listing is produced by extending index
    tuples position by position and testing every shaded cell's rectangle for emptiness (meshlib.*_big): still
    the definition, but without running through all index subsets"""
    if op in ("mocc", "moccof", "moccspec", "mcount", "min", "mcontainedin", "mavoidedby", "mhist"):
        p, cells = pseq(a[0]), pcells(a[1])
        if not ml.is_perm(p) or any(not (0 <= x <= len(p) and 0 <= y <= len(p)) for x, y in cells):
            return None
        targets = pseqs(a[2]) if op in ("mcontainedin", "mavoidedby", "mhist") else [pseq(a[2])]
        if not all(ml.is_perm(s) for s in targets):
            return None
        if op in ("mocc", "moccof", "moccspec"):
            return fseqs(ml.mesh_occs_any(p, cells, targets[0]))
        if op == "mcount":
            return str(len(ml.mesh_occs_any(p, cells, targets[0])))
        if op == "min":
            return fbool(bool(ml.mesh_occs_any(p, cells, targets[0])))
        if op == "mcontainedin":
            return fbool(all(ml.mesh_occs_any(p, cells, s) for s in targets))
        if op == "mavoidedby":
            return fbool(all(not ml.mesh_occs_any(p, cells, s) for s in targets))
        return "|".join(fseqs(ml.mesh_occs_any(p, cells, s)) for s in targets)
    if op in ("bocc", "vocc", "cocc"):
        p, s = pseq(a[0]), pseq(a[-1])
        I = pseq(a[1]) if op in ("bocc", "vocc") else ()
        V = pseq(a[2]) if op == "bocc" else (pseq(a[1]) if op == "cocc" else ())
        if not _wellformed(p, s) or any(not 0 <= j <= len(p) for j in tuple(I) + tuple(V)):
            return None
        return fseqs(ml.adjacency_occs_any(p, I, V, s))
    if op == "bshade":
        p, I, V = pseq(a[0]), pseq(a[1]), pseq(a[2])
        k = len(p)
        if any(not 0 <= j <= k for j in tuple(I) + tuple(V)):
            return None
        return fcells(set((j, y) for j in I for y in range(k + 1)) | set((x, v) for v in V for x in range(k + 1)))
    if op in ("mcontains", "mavoids", "mavoidsset"):
        s = pseq(a[0])
        toks = [] if a[1] == "-" else a[1].split(";")
        if "x" in toks or not ml.is_perm(s):
            return None
        if op == "mcontains":
            return fbool(all(_item_contained(t, s) for t in toks))
        return fbool(all(not _item_contained(t, s) for t in toks))
    return None


def nontrivial(op, a, out):
    if out.startswith("ERR:") or op in ("bshade", "mshade", "mbadtarget"):
        return False
    if op in ("mcontains", "mavoids", "mavoidsset"):
        s = pseq(a[0])
        return len(s) >= 2 and any(t[0] in "mbvk" for t in a[1].split(";") if t not in ("-", "x"))
    p = pseq(a[0])
    if op in ("bocc", "vocc", "cocc"):
        s = pseq(a[-1])
        return 1 <= len(p) <= len(s) and len(s) >= 2 and any(x != "_" for x in a[1:-1])
    if a[1] == "_":
        return False
    if op in ("mcontainedin", "mavoidedby", "mhist"):
        return len(p) >= 1 and any(len(s) >= max(2, len(p)) for s in pseqs(a[2]))
    s = pseq(a[2])
    return 1 <= len(p) <= len(s) and len(s) >= 2


def _subsets(l):
    for r in range(len(l) + 1):
        yield from itertools.combinations(l, r)


def _rand_item(rng, s):
    """one well-formed item for a mixed list; half of them are planted to be contained in s"""
    kind = rng.choice("ccmmbvk")
    k = rng.randrange(0, 4)
    p = ml.rand_perm(rng, k)
    if rng.random() < 0.5 and len(s) >= k:
        idx = sorted(rng.sample(range(len(s)), k))
        vals = [s[i] for i in idx]
        p = tuple(sorted(vals).index(v) for v in vals)
    if kind == "c":
        return "c:" + fseq(p)
    if kind == "m":
        return "m:%s/%s" % (fseq(p), fcells(ml.rand_shading(rng, k, rng.choice([4, 4, 1, 0]))))
    I = sorted(j for j in range(k + 1) if rng.random() < 0.25)
    V = sorted(j for j in range(k + 1) if rng.random() < 0.25)
    if kind == "b":
        return "b:%s/%s/%s" % (fseq(p), fseq(I), fseq(V))
    if kind == "v":
        return "v:%s/%s" % (fseq(p), fseq(I))
    return "k:%s/%s" % (fseq(p), fseq(V))


def _sub_item(rng, s, drop):
    """a long classical / mesh item for a mixed list: the pattern of s with `drop` entries removed (so it is
    contained in s), half of the time spoiled by exchanging two adjacent values"""
    n = len(s)
    keep = sorted(rng.sample(range(n), n - drop)) if n >= drop else list(range(n))
    q = list(ml.standardize([s[i] for i in keep]))
    if rng.random() < 0.5 and len(q) >= 2:
        v = rng.randrange(len(q) - 1)
        i, j = q.index(v), q.index(v + 1)
        q[i], q[j] = q[j], q[i]
    if rng.random() < 0.5:
        return "c:" + fseq(q)
    return "m:%s/%s" % (fseq(q), fcells(ml.sparse_shading(rng, len(q), rng.randrange(0, 3))))


def large_lines(rng, quick):
    """the 'large' stream: the same operations at sizes the other streams never reach (targets of length 9-12,
    21-40, 64-70 and a few around 200 / 401 / 1000; patterns of length up to 70 in targets a few points longer).
    An operation is left out of a scale where one of the three sides (implementation, oracle, Lean driver) needs
    more than about 0.2 s for a line (measured): dense targets only for |pattern| <= 3 up to length 40 and
    <= 2 up to length 70; around 200 patterns of length 2 only in targets with few classical occurrences; around
    401 and 1000 patterns of length <= 1."""
    lines = []
    mul = 1 if quick else 6
    # scale, number of cases, longest pattern with dense targets, longest pattern with sparse targets
    plan = [("S", 300, 4, 4), ("M", 170, 3, 3), ("L", 60, 2, 3), ("X", 14, 1, 2), ("Y", 8, 1, 1), ("Z", 8, 1, 1)]
    for scale, count, kdense, ksparse in plan:
        for _ in range(count * mul):
            n = ml.big_len(rng, scale)
            dense = rng.random() < 0.5
            k = rng.randint(1, kdense if dense else ksparse)
            if rng.random() < 0.03:
                k = 0
            p = ml.rand_perm(rng, k)
            sh = ml.rand_shading(rng, k)
            s = ml.big_target(rng, p, sh, n, dense)
            small = scale in "SML"
            r = rng.random()
            if scale == "Z":
                # around 1000 the point-by-point scan of the code is quadratic for candidates that survive long:
                # random targets with an extreme value forced to an end, at least two of the four cells shaded
                s = list(ml.rand_perm(rng, n))
                i, v = rng.choice([(0, 0), (0, n - 1), (n - 1, 0), (n - 1, n - 1)])
                j = s.index(v)
                s[i], s[j] = s[j], s[i]
                sh = sorted(set(rng.sample(ml.all_cells(1), rng.randrange(2, 5)) + [(0, 1)]))
                p, k, s, r = (0,), 1, tuple(s), 0.0
            fp, fc, fs = fseq(p), fcells(sh), fseq(s)
            if r < 0.4 or not small and r < 0.7:
                lines.append("%s %s %s %s" % (rng.choice(["mocc", "mocc", "mocc", "moccof", "mcount", "min"]), fp, fc, fs))
            elif r < 0.55:
                I = sorted(j for j in range(k + 1) if rng.random() < 0.3)
                V = sorted(j for j in range(k + 1) if rng.random() < 0.3)
                bsh = set((j, y) for j in I for y in range(k + 1)) | set((x, v) for v in V for x in range(k + 1))
                s2 = ml.big_target(rng, p, bsh, n, dense)
                kind = rng.choice(["bocc", "bocc", "vocc", "cocc"])
                if kind == "bocc":
                    lines.append("bocc %s %s %s %s" % (fp, fseq(I), fseq(V), fseq(s2)))
                else:
                    lines.append("%s %s %s %s" % (kind, fp, fseq(I if kind == "vocc" else V), fseq(s2)))
            elif r < 0.7:
                # a mixed list: short classical / mesh / bivincular items and long ones (a few points shorter than s)
                items = [_rand_item(rng, s) for _ in range(rng.randrange(1, 3))]
                items.append("m:%s/%s" % (fp, fc))
                for _ in range(rng.randrange(0, 3)):
                    items.append(_sub_item(rng, s, rng.randrange(0, 3)))
                rng.shuffle(items)
                lines.append("%s %s %s" % (rng.choice(["mcontains", "mavoids", "mavoidsset"]), fs, ";".join(items)))
            elif r < 0.85:
                # several targets, short and long ones mixed, several long ones together
                ss = [s, ml.inflate(rng, p, sh, rng.randrange(0, 5), cheat=0.3), ml.big_target(rng, p, sh, ml.big_len(rng, scale), dense)]
                if scale != "S":
                    ss.append(ml.big_target(rng, p, sh, ml.big_len(rng, "S"), True))
                rng.shuffle(ss)
                lines.append("%s %s %s %s" % (rng.choice(["mcontainedin", "mavoidedby"]), fp, fc, fseqs(ss)))
            else:
                # one pattern object searched in a short target, a long one, a short one, a variant of the long one, ...
                t1 = ml.inflate(rng, p, sh, rng.randrange(0, 5), cheat=0.3)
                t2 = ml.perturbed(rng, s)
                lines.append("mhist %s %s %s" % (fp, fc, fseqs([t1, s, t1, t2, ml.rand_perm(rng, 3), s])))
    # long patterns in targets that are a few points longer; targets that differ only near the end
    for scale, count in (("S", 120), ("M", 60), ("L", 16)):
        for _ in range(count * mul):
            k = ml.big_len(rng, scale)
            p = ml.rand_perm(rng, k) if rng.random() < 0.7 else ml.sparse_target(rng, (1, 0), k, 2)
            sh = ml.sparse_shading(rng, k)
            s = ml.inflate(rng, p, sh, rng.randrange(0, 4), cheat=rng.choice([0.0, 0.3]))
            if rng.random() < 0.3:
                s = ml.perturbed(rng, s)
            op = rng.choice(["mocc", "mocc", "moccof", "mcount", "min"])
            lines.append("%s %s %s %s" % (op, fseq(p), fcells(sh), fseq(s)))
            if rng.random() < 0.3:
                I = sorted(set(rng.choice([0, k, rng.randrange(k + 1)]) for _ in range(2)))
                V = sorted(set(rng.choice([0, k, rng.randrange(k + 1)]) for _ in range(rng.randrange(0, 2))))
                lines.append("bocc %s %s %s %s" % (fseq(p), fseq(I), fseq(V), fseq(s)))
    return lines


def run(ctx):
    rng = ctx.rng
    quick = ctx.tier == "quick"
    N2 = 6                          # all shadings of length-2 patterns against all perms up to N2
    ctx.exhaustive = True
    ctx.exhaustive_bound = ("mocc: every mesh pattern of length <=1 (all 2+16 shadings) x all perms |s|<=6; length 2 "
                            "(2x512 shadings) x all perms |s|<=%d%s; bocc: every (I,V) for patterns of length <=2 x all "
                            "perms |s|<=6, length 3 x all perms |s|<=%d" % (5 if quick else 6, " plus |s|=6 for a seeded third of the shadings" if quick else "", 4 if quick else 5))
    ctx.compare("corpus", [
        "mocc 1,0,2 1.2,2.2,2.3 3,1,0,2,4", "mocc _ _ _", "mocc _ 0.0 _", "mocc _ 0.0 0", "mocc _ _ 0,1", "mocc 0 0.0,1.1 0,1",
        "mocc 0 0.0,0.1,1.0,1.1 0", "mocc 0 0.0,0.1,1.0,1.1 0,1", "mocc 0,1 1.0,1.1,1.2 0,2,1", "mocc 0,1 0.1,1.1,2.1 0,2,1",
        "bocc 0,1 1 _ 0,2,1", "bocc 0,1 _ 1 0,2,1", "bocc _ 0 _ _", "bocc _ 0 _ 0", "bocc _ _ 0 0", "bocc 0 0,1 0,1 0", "bocc 0 0,1 0,1 0,1",
        "bocc 0,1 0,2 0,2 0,2,1,3", "vocc 0,1 0,1,2 0,1", "cocc 1,0 0,2 1,2,0", "bshade 0,1 1,1 1", "bshade _ 0 0", "mshade 0 0.0,0.0,1.1",
        "mcontains 0,2,1 c:0,1;m:0,1/1.1;b:0,1/1/_", "mavoids 0,2,1 c:2,1,0;v:0,1/1", "mcontains 0,1 -", "mavoids _ -",
        "mcontains 1,0 c:0,1;x", "mcontains 1,0 x;c:0,1", "mavoids 0,1 c:0,1;x", "mavoids 0,1 x", "mavoidsset 0,1 k:0,1/1;x",
        "mhist 0,1 1.1 0,1;0,2,1;0,1;_;1,0", "mbadtarget 0,1 1.1", "min 0 0.0 1,0", "mcount 0 _ 0,1,2",
    ])
    # ---- exhaustive: all shadings
    lines = []
    sig = {n: [fseq(s) for s in ml.perms(n)] for n in range(7)}
    for k in range(3):
        cells = ml.all_cells(k)
        for p in ml.perms(k):
            fp = fseq(p)
            for sh in _subsets(cells):
                fc = fcells(sh)
                third = (not quick) or k < 2 or rng.random() < 1 / 3
                for n in range(N2 + 1):
                    if n == 6 and not third:
                        continue
                    for fs in sig[n]:
                        lines.append("mocc %s %s %s" % (fp, fc, fs))
    ctx.compare("exhaustive-mesh", lines)
    # ---- length-3 patterns: boundary-biased random shadings against ALL permutations up to a bound
    lines = []
    nsh, nmax3 = (25, 5) if quick else (300, 6)
    for p in ml.perms(3):
        for _ in range(nsh):
            fc = fcells(ml.rand_shading(rng, 3))
            for n in range(nmax3 + 1):
                for fs in sig[n]:
                    lines.append("mocc %s %s %s" % (fseq(p), fc, fs))
    ctx.compare("length3-all-perms", lines)
    # ---- exhaustive: adjacency requirement sets
    lines = []
    for k in range(4):
        nmax = 6 if k <= 2 else (4 if quick else 5)
        for p in ml.perms(k):
            fp = fseq(p)
            for I in _subsets(range(k + 1)):
                for V in _subsets(range(k + 1)):
                    for n in range(nmax + 1):
                        for fs in sig[n]:
                            lines.append("bocc %s %s %s %s" % (fp, fseq(I), fseq(V), fs))
                    lines.append("bshade %s %s %s" % (fp, fseq(I), fseq(V)))
                if k <= 3:
                    for n in range(5):
                        for fs in sig[n]:
                            lines.append("vocc %s %s %s" % (fp, fseq(I), fs))
                            lines.append("cocc %s %s %s" % (fp, fseq(I), fs))
    ctx.compare("exhaustive-bivincular", lines)
    # ---- derived operations on a thinner grid
    lines = []
    for k in range(3):
        for p in ml.perms(k):
            for _ in range(40 if quick else 200):
                fc = fcells(ml.rand_shading(rng, k))
                for n in range(5):
                    for fs in sig[n]:
                        r = rng.random()
                        if r < 0.25:
                            lines.append("mcount %s %s %s" % (fseq(p), fc, fs))
                        elif r < 0.5:
                            lines.append("min %s %s %s" % (fseq(p), fc, fs))
                        elif r < 0.75:
                            lines.append("moccof %s %s %s" % (fseq(p), fc, fs))
                        elif r < 0.8:
                            lines.append("moccspec %s %s %s" % (fseq(p), fc, fs))
    ctx.compare("derived-grid", lines)
    # ---- random: planted occurrences / near misses, boundary-biased shadings
    R = 6000 if quick else 80000
    lines = []
    for _ in range(R):
        k = rng.choice([1, 2, 3, 3, 3, 4, 4])
        p = ml.rand_perm(rng, k)
        sh = ml.rand_shading(rng, k)
        extra = rng.randrange(0, 11 - k)
        s = ml.inflate(rng, p, sh, extra, cheat=rng.choice([0.0, 0.0, 0.15, 0.4]))
        if rng.random() < 0.15:
            s = ml.rand_perm(rng, rng.randrange(0, 9))
        r = rng.random()
        if r < 0.55:
            lines.append("mocc %s %s %s" % (fseq(p), fcells(sh), fseq(s)))
        elif r < 0.65:
            I = sorted(j for j in range(k + 1) if rng.random() < 0.3)
            V = sorted(j for j in range(k + 1) if rng.random() < 0.3)
            bsh = set((j, y) for j in I for y in range(k + 1)) | set((x, v) for v in V for x in range(k + 1))
            s2 = ml.inflate(rng, p, bsh, extra, cheat=rng.choice([0.0, 0.2]))
            lines.append("bocc %s %s %s %s" % (fseq(p), fseq(I), fseq(V), fseq(s2)))
        elif r < 0.8:
            items = [_rand_item(rng, s) for _ in range(rng.randrange(1, 4))]
            if rng.random() < 0.5:
                items.append("m:%s/%s" % (fseq(p), fcells(sh)))
            rng.shuffle(items)
            lines.append("%s %s %s" % (rng.choice(["mcontains", "mavoids", "mavoidsset"]), fseq(s), ";".join(items)))
        elif r < 0.9:
            ss = [s] + [ml.inflate(rng, p, sh, rng.randrange(0, 6), cheat=0.3) for _ in range(rng.randrange(0, 3))]
            lines.append("%s %s %s %s" % (rng.choice(["mcontainedin", "mavoidedby"]), fseq(p), fcells(sh), fseqs(ss)))
        else:
            ss = [ml.inflate(rng, p, sh, rng.randrange(0, 6), cheat=0.3) for _ in range(rng.randrange(2, 5))]
            ss.append(ss[0])
            lines.append("mhist %s %s %s" % (fseq(p), fcells(sh), fseqs(ss)))
    ctx.compare("random-planted", lines)
    # ---- large: sizes the other streams never reach
    ctx.compare("large", large_lines(rng, quick))
    # ---- malformed: glue code (constructor asserts, non-pattern arguments, non-permutation tuples)
    ctx.compare("malformed", [
        "mocc 0,1 3.0 0,1", "mocc 0,1 0.3 0,1", "mocc _ 0.1 _", "mshade 0 2.2", "mshade 0,1 2.2,2.2",
        "bocc 0,1 3 _ 0,1", "bocc 0,1 _ 3 0,1", "bocc 0,1 -1 _ 0,1", "bocc 0,1 _ -1 0,1", "bocc 0,1 0,3 _ 0,1", "bocc _ 1 _ _",
        "vocc 0,1 3 0,1", "cocc 0,1 -2 0,1", "bshade 0 2 _", "bshade 0 _ 2", "bshade 0 1,2 5",
        "mbadtarget _ _", "mbadtarget 0 0.0", "mcontains 0,1 x", "mavoids 0,1 x;x", "mavoidsset _ x",
        "mcontains 0,1 c:1,0;x", "mavoids 0,1 c:1,0;x", "mavoids 0,1 c:0,1;x",
        "mocc 0,1 1.1 0,0,1", "mocc 0,1 1.1 1,1,0", "mocc 0 0.0 0,0", "mocc 0,1 0.2 2,1,3", "mocc 0 1.1 5",
    ])
