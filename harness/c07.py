"""C07 - concurrent queries on a permutation class are correct under every interleaving (permset.py).

Real threads run the real methods under a deterministic scheduler: `sys.settrace` makes every
line executed inside perm_sets/permset.py a pre-emption point; exactly one thread runs at a time
and the (seeded) scheduler decides who continues.  `Av._CACHE_LOCK` is replaced from here by a
scheduler-aware lock with the same `with` interface, so blocking is visible and the order of
lock acquisitions is recorded.  No source hook is used.

line: `conc <basis> <q1;q2;...> <events> <seed:policy:precreate>`
  queries: C<n> count, L<n> of_length, U<n> up_to_length, I<perm> membership
  events : what the scheduler-aware lock and the scheduler observed, in the order it happened:
           e<t> thread t entered `with LOCK`, <t> thread t acquired the lock, w<t> the shared cache got one
           level longer while t was running, r<t> thread t released the lock, d<t> thread t's query returned.
           A query that finds its level in the cache on a lock-free fast path contributes only d<t>; the model
           (driven by the lock discipline generated from the source) is advanced through the same events, so
           it is told by the events - not by an assumption about the source - which queries took the lock.
  answer : per-thread results joined by '|', then '#', then the keys of every cache level
"""
import itertools
import random
import sys
import threading
import time

from core import fseq, fseqs, fbool, pseq, ferr
import c02

PROP = "C07"
RULE = ("each case = 2-4 real threads querying one shared Av object (or equal bases constructed inside the threads) under "
        "one seeded deterministic schedule (policies: uniform random, sticky, bounded context switches); non-trivial = at "
        "least two threads need a level that is not yet cached (so their critical sections compete); distinct = distinct "
        "(basis, queries, observed lock/growth/completion events, schedule seed) lines")
ASSUMPTIONS = [
    "CPython executes one bytecode-level container operation (list.append, dict read, list item assignment, len(list), list[i]) "
    "atomically (GIL); on a lock-free fast path `len(self.cache)` and `self.cache[n]` are two such atomic reads",
    "pre-emption is explored at source-line granularity inside permset.py, not inside C-level calls",
    "the patched scheduler-aware lock has the mutual-exclusion semantics of multiprocessing.Lock",
    "fairness/termination under the OS scheduler is outside the model",
]
PARTIAL = ["termination is proved for schedules that can be cut into >= sum(2n+4) fair rounds (sum(2n+5) when the source has the lock-free "
           "fast path: one more step per request for the test; each round contains every thread id; "
           "C07.fair_progress / av_fair_run_correct) and deadlock freedom for every reachable state (C07.deadlock_free); that the real "
           "OS/GIL scheduler and threading.Lock are fair in this sense (every runnable thread is eventually scheduled) is an assumption, not a theorem",
           "one write of _ensure_level is one atomic terminating step of the machine: termination/atomicity of a single list append or "
           "level replacement inside CPython is taken from the sequential theory (C02) and the GIL, not proved here",
           "answers are compared up to the order of the keys inside a level (List.Perm), as in C02",
           "lock-free fast path (Generated.lockFastPath): the driver models its test by the canonical guard level_number < len(self.cache) "
           "(Model.C07.sourceDisc); the theorems are proved for every guard that implies it (Disc.OK), and further conjuncts of the real "
           "test (isinstance, 0 <=) are true for the non-negative ints the harness passes",
           "the replay of the observed events is exact under the plain discipline; under a fast path the lock-free test and `with LOCK` "
           "are separate pre-emption points which the harness does not observe individually (no source hooks), so for a few queries the "
           "replayed model reads lock-free where the implementation took the lock or vice versa (coverage.replay_events_in_sync); the "
           "compared answers do not depend on it (C07.concurrent_correct / driver_replay_correct hold for every schedule)"]
TRUSTED = ["sys.settrace-based deterministic scheduler (harness/c07.py)", "monkey-patched Av._CACHE_LOCK"]

HANG_S = 12.0
HANG_TOTAL_S = 600.0


def worker_init():
    c02.worker_init()
    global Perm, MeshPatt, Av, Basis, PS
    from permuta import Av as A, Basis as B, MeshPatt as M, Perm as P
    import permuta.perm_sets.permset as ps
    Perm, MeshPatt, Av, Basis, PS = P, M, A, B, ps


class SchedLock:
    """scheduler-aware replacement for Av._CACHE_LOCK"""

    def __init__(self, sch):
        self.owner = None
        self.sch = sch

    def __enter__(self):
        me = threading.get_ident()
        self.sch.event("e", me)
        while self.owner is not None:
            self.sch.yield_point(blocked=True)
        self.owner = me
        self.sch.acq.append(self.sch.names[me])
        self.sch.event("", me)
        return self

    def __exit__(self, *a):
        self.sch.event("r", threading.get_ident())
        self.owner = None
        return False

    # multiprocessing.Lock API used nowhere else in permset.py, provided for completeness
    def acquire(self, *a, **k):
        self.__enter__()
        return True

    def release(self):
        self.__exit__()


class _LockShim:
    """stands in for the `multiprocessing` / `threading` module object inside permset.py: lock
    factories hand out scheduler-aware locks, everything else is forwarded"""

    def __init__(self, real, sch):
        self._real = real
        self._sch = sch

    def Lock(self, *a, **k):
        return SchedLock(self._sch)

    RLock = Lock

    def __getattr__(self, name):
        return getattr(self._real, name)


class Scheduler:
    def __init__(self, rng, policy):
        self.rng = rng
        self.policy = policy
        self.cv = threading.Condition()
        self.current = None
        self.state = {}
        self.names = {}
        self.acq = []
        self.events = []
        self.cache_len = None       # callable: current length of the shared level cache (or None)
        self.seen_len = 1           # a new class starts with level 0 only
        self.last = None
        self.steps = 0
        self.switches = 0
        self.hung = False
        # bookkeeping for the systematic policy `pw.<a>.<d>.<b>.<k>` (pre-emption at write boundaries)
        self.fp_fn = None           # callable: fingerprint of the shared level cache (identity and size of every level)
        self.last_fp = None
        self.writes = {}            # thread name -> changes of the fingerprint seen while that thread was running
        self.released = {}          # thread name -> it has released the lock at least once
        self.since_rel = {}         # thread name -> pre-emption points passed since its first release
        self.ysteps = {}            # thread name -> pre-emption points passed

    def sample(self, me):
        """only the running thread mutates shared state, so any growth of the cache since the last look
        is the work of `me`; a lock-free reader never causes growth and is never an event of its own"""
        if self.fp_fn is not None and me in self.names:
            try:
                fp = self.fp_fn()
            except Exception:  # noqa: B902 - the class may not exist yet
                fp = None
            if fp is not None and fp != self.last_fp:
                if self.last_fp is not None:
                    self.writes[self.names[me]] = self.writes.get(self.names[me], 0) + 1
                self.last_fp = fp
        if self.cache_len is None:
            return
        try:
            n = self.cache_len()
        except Exception:  # noqa: B902 - the class may not exist yet
            return
        if n is not None and n > self.seen_len:
            self.events.extend(["w%d" % self.names[me]] * (n - self.seen_len))
            self.seen_len = n

    def event(self, kind, me):
        self.sample(me)
        self.events.append("%s%d" % (kind, self.names[me]))
        if kind == "r":
            self.released.setdefault(self.names[me], True)
            self.since_rel.setdefault(self.names[me], 0)

    def yield_point(self, blocked=False):
        me = threading.get_ident()
        self.sample(me)
        nm = self.names.get(me)
        if nm is not None and not blocked:
            self.ysteps[nm] = self.ysteps.get(nm, 0) + 1
            if nm in self.since_rel:
                self.since_rel[nm] += 1
        with self.cv:
            self.state[me] = "blocked" if blocked else "ready"
            self.current = None
            self.cv.notify_all()
            while self.current != me:
                self.cv.wait()
            self.state[me] = "running"

    def park(self):
        """suspend the calling thread (e.g. holding a partially consumed iterator) until every other
        thread is done or cannot run; returns the names of the threads that were still blocked then"""
        me = threading.get_ident()
        self.sample(me)
        with self.cv:
            self.state[me] = "parked"
            self.current = None
            self.cv.notify_all()
            while self.current != me:
                self.cv.wait()
            self.state[me] = "running"
            return sorted(self.names[t] for t, s in self.state.items() if s == "blocked")

    def tracer(self, frame, event, arg):
        if frame.f_code.co_filename.endswith("permset.py"):
            # pre-emption points: every line of permset.py, and every return from one of its functions (between
            # `_get_level` handing out a level - the lock is released by then - and the caller using it)
            if event in ("line", "return"):
                self.yield_point()
            return self.tracer
        return None

    def choose(self, cand):
        cand = sorted(cand, key=lambda t: self.names[t])
        if self.policy.startswith("pw."):
            # systematic: thread a runs until it has released the lock and passed d further pre-emption points (it then
            # holds whatever it was handed); thread b runs until it has performed its k-th write to the shared cache and
            # is pre-empted right there; then a runs to its end, then everybody else
            _, a, d, b, k = self.policy.split(".")
            a, d, b, k = int(a), int(d), int(b), int(k)
            byname = {self.names[t]: t for t in cand}
            a_parked = self.released.get(a) and self.since_rel.get(a, 0) > d
            if not a_parked and a in byname and self.state[byname[a]] == "ready":
                return byname[a]
            if self.writes.get(b, 0) < k and b in byname and self.state[byname[b]] == "ready":
                return byname[b]
            if a in byname:
                return byname[a]
            return cand[0]
        if self.policy == "sticky" and self.last in cand and self.rng.random() < 0.9:
            return self.last
        if self.policy == "switch" and self.last in cand:
            # bounded number of context switches, at random points
            if self.switches >= 3 or self.rng.random() > 0.04:
                return self.last
        c = self.rng.choice(cand)
        if c != self.last:
            self.switches += 1
        return c

    def run(self, jobs):
        results = {}
        errors = {}

        def worker(name, fn):
            me = threading.get_ident()
            with self.cv:
                self.names[me] = name
                self.state[me] = "ready"
                self.cv.notify_all()
                while self.current != me:
                    self.cv.wait()
            sys.settrace(self.tracer)
            try:
                results[name] = fn()
            except BaseException as e:  # noqa: B902 - any exception is an observable failure
                errors[name] = ferr(e)
            finally:
                sys.settrace(None)
                self.event("d", me)
                with self.cv:
                    self.state[me] = "done"
                    self.current = None
                    self.cv.notify_all()

        ths = [threading.Thread(target=worker, args=(n, f), daemon=True) for n, f in jobs]
        for t in ths:
            t.start()
        t0 = time.time()
        with self.cv:
            while len(self.state) < len(ths):
                self.cv.wait(1.0)
            while True:
                t_disp = time.time()
                while self.current is not None:
                    self.cv.wait(1.0)
                    # a hang is a dispatched thread that does not reach its next yield point (it waits on a real
                    # lock nobody will release): the clock restarts with every dispatch, so a long run on a loaded
                    # machine is not a hang; HANG_TOTAL_S bounds the whole run
                    if time.time() - t_disp > HANG_S or time.time() - t0 > HANG_TOTAL_S:
                        self.hung = True
                        return results, errors
                live = [t for t, s in self.state.items() if s != "done"]
                if not live:
                    break
                ready = [t for t in live if self.state[t] == "ready"]
                blocked = [t for t in live if self.state[t] == "blocked"]
                parked = [t for t in live if self.state[t] == "parked"]
                if ready:
                    cand = ready
                elif blocked and not parked:
                    cand = blocked              # blocked threads re-check their lock
                elif blocked and parked:
                    # nobody can run except by resuming a suspended thread: give the blocked ones a few
                    # chances to get their lock first, then resume a parked one (which records who stalled)
                    self.stall_rounds = getattr(self, "stall_rounds", 0) + 1
                    cand = blocked if self.stall_rounds % 4 else parked
                else:
                    cand = parked or live
                self.current = self.choose(cand)
                self.last = self.current
                self.steps += 1
                self.cv.notify_all()
        for t in ths:
            t.join()
        return results, errors


def parse_queries(qs):
    return [(q[0], q[1:]) for q in qs.split(";")]


def make_class(basis_str):
    basis = c02.parse_basis(basis_str)
    return Av.from_iterable([c02.to_patt(b) for b in basis])


def fevents(ev):
    return ",".join(ev) if ev else "_"


def run_conc(basis_str, queries, seed, policy, precreate):
    """returns (per-thread outputs, observed events, final keys, hung, steps)"""
    Av.clear_cache()
    rng = random.Random("%s|%s|%s|%s" % (basis_str, queries, seed, policy))
    sch = Scheduler(rng, policy)
    # every lock the class owns, and every lock it may create later through the `multiprocessing` /
    # `threading` names of its module, is replaced by a scheduler-aware lock (restored afterwards)
    saved_attrs = {}
    for name, val in list(vars(PS.Av).items()):
        if hasattr(val, "acquire") and hasattr(val, "release"):
            saved_attrs[name] = val
            setattr(PS.Av, name, SchedLock(sch))
    saved_mods = {}
    for modname in ("multiprocessing", "threading"):
        real = getattr(PS, modname, None)
        if real is not None and not isinstance(real, _LockShim):
            saved_mods[modname] = real
            setattr(PS, modname, _LockShim(real, sch))
    try:
        shared = make_class(basis_str) if precreate else None

        def cache_len():
            av0 = shared
            if av0 is None:
                cc = PS.Av._CLASS_CACHE
                av0 = next(iter(cc.values())) if cc else None
            return len(av0.cache) if av0 is not None else None
        sch.cache_len = cache_len

        def cache_fp():
            av0 = shared
            if av0 is None:
                cc = PS.Av._CLASS_CACHE
                av0 = next(iter(cc.values())) if cc else None
            return tuple((id(lv), len(lv)) for lv in av0.cache) if av0 is not None else None
        sch.fp_fn = cache_fp

        def job(kind, arg):
            def f():
                av = shared if shared is not None else make_class(basis_str)
                if kind == "C":
                    return str(av.count(int(arg)))
                def stepwise(it):
                    # the listing is consumed item by item with a pre-emption point after each item: other threads
                    # may build and compact levels while this one is in the middle of a level it was handed
                    items = []
                    for q in it:
                        items.append(q)
                        sch.yield_point()
                    return items
                if kind == "L":
                    return c02.canon_full(stepwise(av.of_length(int(arg))))
                if kind == "U":
                    return c02.canon_full(stepwise(av.up_to_length(int(arg))))
                if kind == "I":
                    return fbool(Perm(pseq(arg)) in av)
                if kind == "P":
                    # a partially consumed up_to_length iterator is kept open while the other threads run
                    g = iter(av.up_to_length(int(arg)))
                    items = list(itertools.islice(g, 1))
                    stalled = sch.park()
                    items.extend(g)
                    out = c02.canon_full(items)
                    return out if not stalled else "STALLS-OTHER-THREADS:%s:%s" % (",".join(map(str, stalled)), out)
                raise ValueError(kind)
            return f

        qs = parse_queries(queries)
        jobs = [(i, job(k, a)) for i, (k, a) in enumerate(qs)]
        results, errors = sch.run(jobs)
        outs = []
        for i in range(len(qs)):
            if i in errors:
                outs.append(errors[i])
            elif i in results:
                outs.append(results[i])
            else:
                outs.append("HANG")
        av = shared if shared is not None else Av._CLASS_CACHE.get(next(iter(Av._CLASS_CACHE)), None) if Av._CLASS_CACHE else None
        keys = "/".join(fseqs(sorted(tuple(p) for p in lv)) for lv in av.cache) if av is not None else ""
        return outs, list(sch.events), keys, sch.hung, sch.steps
    finally:
        for name, val in saved_attrs.items():
            setattr(PS.Av, name, val)
        for modname, real in saved_mods.items():
            setattr(PS, modname, real)


def oracle_outs(basis_str, queries):
    basis = c02.parse_basis(basis_str)
    oc = c02.OracleClass(";".join(sorted(repr(b) for b in basis)), basis)
    outs = []
    for k, a in parse_queries(queries):
        if k == "C":
            outs.append(str(len(oc.level(int(a)))))
        elif k == "L":
            outs.append(c02.canon_full(oc.level(int(a))))
        elif k in ("U", "P"):
            outs.append(c02.canon_full([p for i in range(int(a) + 1) for p in oc.level(i)]))
        else:
            outs.append(fbool(oc.member(pseq(a))))
    return outs


def eval_case(spec):
    """spec = (basis, queries, seed, policy, precreate) -> (line, impl_out, oracle_out, nontrivial)"""
    basis_str, queries, seed, policy, precreate = spec
    outs, acq, keys, hung, steps = run_conc(basis_str, queries, seed, policy, precreate)
    meta = "%s:%s:%d" % (seed, policy, 1 if precreate else 0)
    line = "conc %s %s %s %s" % (basis_str, queries, fevents(acq), meta)
    keypart = keys if precreate else "*"
    io = "|".join(outs) + "#" + keypart
    oo = "|".join(oracle_outs(basis_str, queries)) + "#" + keypart
    levels = []
    for k, a in parse_queries(queries):
        levels.append(len(pseq(a)) if k == "I" else int(a))
    nontrivial = sum(1 for l in levels if l >= 2) >= 2
    return line, io, oo, nontrivial


def impl(op, a):
    """replay: re-run the same seeded schedule; the observed events must reproduce (a line in the older
    format carries the bare acquisition order)"""
    basis_str, queries, acq, meta = a
    seed, policy, pre = meta.split(":")
    outs, acq2, keys, hung, steps = run_conc(basis_str, queries, int(seed), policy, pre == "1")
    if not any(c in acq for c in "ewrd"):
        acq2 = [e for e in acq2 if e.isdigit()]
    if fevents(acq2) != acq:
        return "NONDETERMINISTIC-SCHEDULE events=%s" % fevents(acq2)
    return "|".join(outs) + "#" + (keys if pre == "1" else "*")


def oracle(op, a):
    basis_str, queries, acq, meta = a
    pre = meta.split(":")[2]
    if pre == "1":
        outs, acq2, keys, hung, steps = run_conc(basis_str, queries, int(meta.split(":")[0]), meta.split(":")[1], True)
    else:
        keys = "*"
    return "|".join(oracle_outs(basis_str, queries)) + "#" + keys


def nontrivial(op, a, out):
    return True


def rand_query(rng, maxlen, mesh):
    ml = min(maxlen, 5) if mesh else maxlen
    r = rng.random()
    n = rng.randrange(0, ml + 1)
    if r < 0.35:
        return "C%d" % n
    if r < 0.6:
        return "L%d" % n
    if r < 0.8:
        return "I%s" % fseq(c02.rand_perm(rng, n))
    if r < 0.9:
        return "P%d" % min(n, ml - 1)
    return "U%d" % min(n, ml - 1)


def gen_specs(rng, count, maxlen):
    specs = []
    for i in range(count):
        if rng.random() < 0.2:
            b = c02.rand_mesh_basis_line(rng) or fseqs(c02.rand_classical_basis(rng))
        else:
            b = fseqs(c02.rand_classical_basis(rng))
        mesh = "/" in b
        k = rng.randrange(2, 5)
        qs = ";".join(rand_query(rng, maxlen, mesh) for _ in range(k))
        policy = rng.choice(["random", "random", "sticky", "switch"])
        precreate = rng.random() < 0.85
        specs.append((b, qs, rng.randrange(10 ** 6), policy, precreate))
    return specs


def run(ctx):
    rng = ctx.rng
    quick = ctx.tier == "quick"
    n = 400 if quick else 6000
    maxlen = 6 if quick else 7
    specs = [("0,2,1", "C4;L5", 1, "random", True), ("0,1,2;2,0,1,3", "C5;C3;U4", 2, "sticky", True),
             ("0,2,1", "L6;L6;C2;I0,1,2,3", 3, "switch", True), ("1,0/0.0,1.1", "C4;L3;I1,0,2", 4, "random", True),
             ("0,1,2", "C5;C5", 5, "random", False), ("0,2,1;2,1,0,3", "P5;C3;I0,1;L2", 6, "random", True)]
    specs += gen_specs(rng, n, maxlen)
    cases = list(ctx.pool.map(eval_case, specs, chunksize=4))
    ctx.compare_precomputed("scheduled-runs", cases)
    # systematic: a reader that has just been handed level 3 (count / membership / listing, pre-empted at its first,
    # second, ... pre-emption point after releasing the lock) against a builder pre-empted right after its k-th write
    # to the shared cache (one write = one level appended, replaced or changed in place - the granularity of the
    # model's `step`), for every k the builder performs; then the reader finishes with what it holds
    wb = []
    K = 14 if quick else 24
    for b in (["0,2,1"] if quick else ["0,2,1", "0,1,2;3,2,1,0", "1,0/0.0,1.1"]):
        mesh = "/" in b
        for reader in ["C3", "I0,1,2" if not mesh else "I0,1,2", "L3", "U3"]:
            for d in range(0, 3 if quick else 5):
                for k in range(1, K + 1):
                    wb.append((b, "%s;%s" % (reader, "C6" if (quick or mesh) else "C7"), 0, "pw.0.%d.1.%d" % (d, k), True))
    if sum(1 for c in cases if "HANG" in c[1]) > 10:
        wb = wb[:16]          # the random schedules already hang all over: no need to wait for 150 more hangs
    wcases = list(ctx.pool.map(eval_case, wb, chunksize=4))
    ctx.compare_precomputed("write-boundaries", wcases)
    cases = cases + wcases
    hangs = [c for c in cases if "HANG" in c[1]]
    ctx.extra["schedules_run"] = len(cases)
    ctx.extra["policies"] = {p: sum(1 for s in specs if s[3] == p) for p in ("random", "sticky", "switch")}
    ctx.extra["acquisition_orders_distinct"] = len({c[0].split(" ")[3] + c[0].split(" ")[2] for c in cases})
    ctx.extra["hangs"] = len(hangs)
    # queries that returned without ever taking the lock (0 under the plain discipline; the lock-free fast
    # path of double-checked locking shows up here)
    nolock = 0
    for c in cases:
        toks = c[0].split(" ")[3].split(",")
        nolock += sum(1 for t in toks if t.startswith("d") and t[1:] not in toks)
    ctx.extra["queries_without_lock"] = nolock
    # diagnostic: in how many observed events the replayed model was in the corresponding state
    # (exact under the plain discipline; under a lock-free fast path the test `n < len(cache)` and
    # `with LOCK` are separate pre-emption points, so a few events may find the model one query ahead)
    try:
        import core
        if core.driver_available() and getattr(ctx, "model_ok", True):
            res = core.run_driver(["concsync" + c[0][4:] for c in cases if c[0].startswith("conc ")])
            ok = sum(int(r.split("/")[0]) for r in res if "/" in r)
            tot = sum(int(r.split("/")[1]) for r in res if "/" in r)
            ctx.extra["replay_events_in_sync"] = "%d/%d" % (ok, tot)
    except Exception as e:  # noqa: B902 - diagnostic only
        ctx.extra["replay_events_in_sync"] = "n/a (%s)" % type(e).__name__
    ctx.exhaustive = False
