"""C04 - the eight symmetries on permutations, mesh patterns, sets; equivariance of containment; lex_min.

Anchors: perm.py 453-645, meshpatt.py 103-144 / 193-242, permutils/symmetry.py, cli.py get_lex_min.

The oracle is geometric: a permutation is the point set {(2i+1, 2v+1)} and a shaded cell (x, y) is the
point (2x, 2y) inside the square [0, 2n]^2; the eight symmetries are the eight isometries of that square
applied to coordinates; the result is read back (points sorted by abscissa).  Containment is decided by
brute force over itertools.combinations, never by the library.
"""
import argparse
import contextlib
import io
import itertools

from core import fseq, fseqs, fbool, fcells, pseq, pseqs, pcells, guarded
import meshlib as ml
import used
import past

PROP = "C04"
RULE = ("exhaustive: every permutation of length <= N with every symmetry and every rotation count -9..9; every mesh "
        "pattern of length <= 2 (all 2^((n+1)^2) shadings) with every symmetry / rotation count; containment "
        "equivariance for every (symmetry, permutation, pattern) in the stated bounds; every set of <= 3 permutations of "
        "length <= 4 (random list order) for all_symmetry_sets / lex_min; random: permutations up to length 12 with huge "
        "and negative rotation counts, meshes up to length 4 with planted occurrences, sets built from orbit members and "
        "with duplicates, CLI strings (0/1-based, arbitrary separators). non-trivial = the permutation/pattern has "
        "length >= 2 (>= 1 cell for meshes), for equivariance the pattern is non-empty and not longer than the "
        "permutation; distinct = distinct op lines; large: every operation again at lengths 9-12, 21-40, 64-70 and a few "
        "around 200 / 401 / 1000 (permutation symmetries and sets at all of them, mesh symmetries up to 200, containment "
        "equivariance as far as all three sides answer within ~0.2 s, CLI strings with one long run of digits); objects "
        "with a past and call histories: on a deterministic selection of lines the arguments are fresh / used / derived "
        "from a used object (past.mkperm2 / mkmesh2), the line is evaluated twice, the set returned by "
        "all_symmetry_sets and the list handed over are damaged before the orbit is asked for again (same basis, new "
        "objects, another orbit member), lazy results are consumed interleaved")
ASSUMPTIONS = [
    "model/implementation agreement outside the enumerated and sampled inputs is assumed",
    "theorems about Model.containsOne / containsMesh use C01.containsOne_iff / C01.mem_occurrencesIn_iff (C01's proved refinement)",
    "sets / frozensets are compared through their sorted listings (Python set iteration order is not constrained)",
    "CLI: only ASCII input strings are generated (re's \\d also matches non-ASCII digits; not modelled)",
]
PARTIAL = [
    "lex_min under duplication of the input: NOT claimed - sorted(perms) keeps duplicates, so lex_min([p, p]) differs "
    "from lex_min([p]) by construction; proved instead: invariance under every symmetry (lexMin_act) and under "
    "reordering (lexMin_perm); the code's callers pass a Basis / set",
    "digitRuns = re.findall(r'\\d+') and permStr = Perm.__str__ are tied by correspondence only (string level)",
]
TRUSTED = ["argparse wiring of cli.py is not modelled (the body get_lex_min is, at string level)"]


def worker_init():
    global Perm, MeshPatt, symmetry, get_lex_min
    from permuta import Perm as P, MeshPatt as M
    from permuta.permutils import symmetry as S
    from permuta.cli import get_lex_min as G
    Perm, MeshPatt, symmetry, get_lex_min = P, M, S, G


# ------------------------------------------------------------------------------------------------ implementation
# On a deterministic selection of the lines (see impl; every line of the 'large' stream) the objects under test are
# objects with a past (past.mkperm2 / mkmesh2: fresh / used / derived from a used object through another API
# route), the line is evaluated twice (both answers must agree), an eighth of those lines are preceded by the
# neighbouring calls (used.prelude), and the mutable results (the set returned by all_symmetry_sets, the list
# handed over) are damaged before the call is repeated.
_DERIVE = [False]
_BIG = 15


_OBJ = {}             # the objects with a past of the current line (the second evaluation runs on the same objects)


def _mkP(seq, salt=0):
    if not _DERIVE[0]:
        return Perm(seq)
    key = ("P", tuple(seq), salt)
    if key not in _OBJ:
        _OBJ[key] = past.mkperm2(seq, salt)
    return _OBJ[key]


def _mesh(a, b):
    if not _DERIVE[0]:
        return MeshPatt(Perm(pseq(a)), pcells(b))
    key = ("M", a, b)
    if key not in _OBJ:
        _OBJ[key] = past.mkmesh2(pseq(a), pcells(b), 2)
    return _OBJ[key]


def _fmesh(m):
    return "%s/%s" % (fseq(m.pattern), fcells(m.shading))


def _mkey(m):
    return (tuple(m.pattern), sorted(m.shading))


def _fmeshes(ms):
    ms = sorted(ms, key=_mkey)
    return "-" if not ms else ";".join(_fmesh(m) for m in ms)


def _ftuples(ts):
    return "|".join(fseqs(t) for t in ts)


def _gperm(g):
    if g == "rev":
        return lambda p: p.reverse()
    if g == "comp":
        return lambda p: p.complement()
    if g == "inv":
        return lambda p: p.inverse()
    if g == "rc":
        return lambda p: p.reverse_complement()
    if g == "fa":
        return lambda p: p.flip_antidiagonal()
    t = int(g[1:])
    return lambda p: p.rotate(t)


def _int_or_str(s):
    try:
        return int(s)
    except ValueError:
        return s


def _longest(a):
    """length of the longest sequence among the arguments (cell lists do not count)"""
    return max([t.count(",") + 1 for t in " ".join(a).replace(";", " ").replace("/", " ").split(" ") if "." not in t] or [0])


def _clean(op, a):
    _OBJ.clear()
    return _impl(op, a)


def impl(op, a):
    n = _longest(a) if op != "cli.lexmin" else (len(a[0]) if a else 0)
    big = n >= _BIG
    # selection: every line of the 'large' stream, a twelfth of the lines with a permutation of length >= 7 (the
    # random streams), 1 in 48 of the short exhaustive lines
    thr = 3 if op.startswith("m.") or op == "rel.m" else 7     # (the exhaustive mesh streams stop at length 2)
    _DERIVE[0] = big or used.digest("d~" + op, a) % (12 if n >= thr else 48) == 0
    if not _DERIVE[0]:
        return _impl(op, a)
    if n < 150:
        used.prelude(op, a, _clean, 8)
    _OBJ.clear()
    r1 = _impl(op, a)
    if n >= 150:
        _OBJ.clear()
        return r1
    r2 = _impl(op, a)             # once more, on the same (now used) objects
    _OBJ.clear()
    return r1 if r1 == r2 else used.unstable(r1, r2)


def _sym_all(S, as_iter):
    """all_symmetry_sets; on the selected lines the returned set is emptied and the list that was handed over
    is extended afterwards, then the orbit is asked for again - with a new list of new objects and with another
    member of the orbit (the answers must be those of a first call)"""
    r = symmetry.all_symmetry_sets(iter(S) if as_iter else S)
    out = _ftuples(sorted(r))
    if not _DERIVE[0]:
        return out
    seqs = [tuple(p) for p in S]
    r.clear()
    S.append(Perm((0,)))
    out2 = _ftuples(sorted(symmetry.all_symmetry_sets([Perm(p) for p in seqs])))
    out3 = used.quiet(lambda: _ftuples(sorted(symmetry.all_symmetry_sets([Perm(p).rotate(1) for p in seqs]))))
    return out if out == out2 and out3 in (None, out) else used.unstable(out, "%s~%s" % (out2, out3))


def _sym_lexmin(S, as_iter):
    if _DERIVE[0]:
        # an earlier caller obtained the orbit (of this basis, and of one of its images) and consumed it
        used.quiet(lambda: symmetry.all_symmetry_sets(list(S)).clear())
        used.quiet(lambda: symmetry.all_symmetry_sets([p.inverse() for p in S]).clear())
    return fseqs(symmetry.lex_min(iter(S) if as_iter else S))


def _sym_map(f, S, as_iter):
    """the elementwise helpers return lazy iterators: on the selected lines one is consumed around a second,
    complete one over the same list"""
    if not _DERIVE[0]:
        return fseqs(list(f(iter(S) if as_iter else S)))
    full, pieced = used.interleaved(lambda: f(S))
    return fseqs(full) if full == pieced else used.unstable(fseqs(full), fseqs(pieced))


def _impl(op, a):
    if op.startswith("p."):
        k = op[2:]
        P = lambda: _mkP(pseq(a[0]))
        f = {"inv": lambda: P().inverse(), "fd": lambda: P().flip_diagonal(), "rev": lambda: P().reverse(),
             "fv": lambda: P().flip_vertical(), "comp": lambda: P().complement(), "fh": lambda: P().flip_horizontal(),
             "rc": lambda: P().reverse_complement(), "fa": lambda: P().flip_antidiagonal()}
        if k in f:
            return guarded(lambda: fseq(f[k]()))
        if k == "rot":
            return guarded(lambda: fseq(P().rotate(_int_or_str(a[1]))))
        if k == "syms":
            return guarded(lambda: fseqs(sorted(set(P().all_syms()))))
    if op == "rel.p":
        def f():
            p, s, t = _mkP(pseq(a[0])), int(a[1]), int(a[2])
            return "".join(fbool(x) for x in [
                p.inverse().inverse() == p, p.reverse().reverse() == p, p.complement().complement() == p,
                p.complement().reverse() == p.rotate(2), p.reverse().complement() == p.rotate(2),
                p.rotate(s + t) == p.rotate(t).rotate(s), p.rotate(4) == p,
                p.flip_antidiagonal() == p.inverse().rotate(2), p.rotate(1).inverse() == p.inverse().rotate(3),
                p.rotate(-1) == p.rotate(3)])
        return guarded(f)
    if op == "rel.m":
        def f():
            m, s, t = _mesh(a[0], a[1]), int(a[2]), int(a[3])
            return "".join(fbool(x) for x in [
                m.inverse().inverse() == m, m.reverse().reverse() == m, m.complement().complement() == m,
                m.complement().reverse() == m.rotate(2), m.reverse().complement() == m.rotate(2),
                m.rotate(s + t) == m.rotate(t).rotate(s), m.rotate(4) == m,
                m.rotate(1) == m.inverse().complement(), m.rotate(1).inverse() == m.inverse().rotate(3),
                m.rotate(-1) == m.rotate(3)])
        return guarded(f)
    if op.startswith("m."):
        k = op[2:]
        M = lambda: _mesh(a[0], a[1])
        f = {"rev": lambda: M().reverse(), "fv": lambda: M().flip_vertical(), "comp": lambda: M().complement(),
             "fh": lambda: M().flip_horizontal(), "inv": lambda: M().inverse(), "fd": lambda: M().flip_diagonal()}
        if k in f:
            return guarded(lambda: _fmesh(f[k]()))
        if k == "rot":
            return guarded(lambda: _fmesh(M().rotate(_int_or_str(a[2]))))
        if k == "syms":
            return guarded(lambda: _fmeshes(set(M().all_syms())))
    if op == "eq.cl":
        g = _gperm(a[0])

        def fcl():
            # the same two objects are first used in the original query (this fills the pattern's
            # memoised search table) and then mapped by the symmetry: images of *used* objects
            s, p = _mkP(pseq(a[1]), 1), _mkP(pseq(a[2]))
            s.contains(p)
            p.contains(s)
            return fbool(g(s).contains(g(p)))
        return guarded(fcl)
    if op == "eq.mesh":
        def f():
            g = a[0]
            s, m = _mkP(pseq(a[1]), 1), _mesh(a[2], a[3])
            s.contains(m)          # use the objects before mapping them (memoised tables are filled)
            if g == "rev":
                s2, m2 = s.reverse(), m.reverse()
            elif g == "comp":
                s2, m2 = s.complement(), m.complement()
            elif g == "inv":
                s2, m2 = s.inverse(), m.inverse()
            else:
                s2, m2 = s.rotate(int(g[1:])), m.rotate(int(g[1:]))
            return fbool(s2.contains(m2))
        return guarded(f)
    if op.startswith("s."):
        k = op[2:]
        S = [_mkP(p, i) for i, p in enumerate(pseqs(a[0]))]
        f = {"rot90": symmetry.rotate_90_clockwise_set, "rot180": symmetry.rotate_180_clockwise_set,
             "rot270": symmetry.rotate_270_clockwise_set, "inv": symmetry.inverse_set, "rev": symmetry.reverse_set,
             "comp": symmetry.complement_set, "anti": symmetry.antidiagonal_set}
        if k in f:
            # handed over alternately as a list and as a one-shot iterator (the helpers accept any iterable)
            return guarded(lambda: _sym_map(f[k], S, len(S) % 2 == 1))
        if k == "all":
            return guarded(lambda: _sym_all(S, len(S) % 2 == 1))
        if k == "lexmin":
            return guarded(lambda: _sym_lexmin(S, len(S) % 2 == 0))
    if op == "cli.lexmin":
        def f():
            buf = io.StringIO()
            with contextlib.redirect_stdout(buf):
                get_lex_min(argparse.Namespace(basis=a[0] if a else ""))
            out = buf.getvalue()
            assert out.endswith("\n") and out.count("\n") == 1
            return "[" + out[:-1] + "]"
        return guarded(f)
    raise ValueError("unknown op " + op)


# ------------------------------------------------------------------------------------------------ geometric oracle
ISO = {
    "id": lambda X, Y, N: (X, Y),
    "rev": lambda X, Y, N: (N - X, Y),          # mirror in the vertical axis
    "comp": lambda X, Y, N: (X, N - Y),         # mirror in the horizontal axis
    "inv": lambda X, Y, N: (Y, X),              # mirror in the diagonal
    "fa": lambda X, Y, N: (N - Y, N - X),       # mirror in the antidiagonal
    "rc": lambda X, Y, N: (N - X, N - Y),       # half turn
    "cw": lambda X, Y, N: (Y, N - X),           # quarter turn clockwise
    "ccw": lambda X, Y, N: (N - Y, X),          # quarter turn counter-clockwise
}


def _steps(g):
    """a symmetry token as a list of elementary isometries"""
    if g in ISO:
        return [g]
    t = int(g[1:])
    if abs(t) > 64:      # a full turn is the identity
        t = t - 4 * (t // 4)
    return ["cw"] * t if t >= 0 else ["ccw"] * (-t)


def geo_perm(g, p):
    n = len(p)
    pts = [(2 * i + 1, 2 * v + 1) for i, v in enumerate(p)]
    for st in _steps(g):
        pts = [ISO[st](x, y, 2 * n) for x, y in pts]
    pts.sort()
    return tuple((y - 1) // 2 for _, y in pts)


def geo_cells(g, n, cells):
    pts = [(2 * x, 2 * y) for x, y in cells]
    for st in _steps(g):
        pts = [ISO[st](x, y, 2 * n) for x, y in pts]
    return sorted(set((x // 2, y // 2) for x, y in pts))


EIGHT = [["id"], ["cw"], ["cw", "cw"], ["cw", "cw", "cw"], ["inv"], ["cw", "inv"], ["cw", "cw", "inv"],
         ["cw", "cw", "cw", "inv"]]


def geo_word(word, p):
    for st in word:
        p = geo_perm(st, p)
    return p


def geo_word_cells(word, n, cells):
    for st in word:
        cells = geo_cells(st, n, cells)
    return cells


def occs(p, s):
    k = len(p)
    for c in itertools.combinations(range(len(s)), k):
        if all((p[x] < p[y]) == (s[c[x]] < s[c[y]]) for x in range(k) for y in range(k)):
            yield c


def contains(s, p):
    """(long permutations: meshlib.classical_occs_big extends index tuples position by position instead of
    running through all index subsets - the same definition)"""
    if len(s) > 14:
        return bool(ml.classical_occs_big(p, s))
    return any(True for _ in occs(p, s))


def mesh_contains(s, p, cells):
    """some occurrence such that no point of s lies in a shaded region"""
    n, k = len(s), len(p)
    if n > 14:
        return bool(ml.mesh_occs_big(p, cells, s))
    for c in occs(p, s):
        cols = [-1] + list(c) + [n]
        rows = [-1] + sorted(s[i] for i in c) + [n]
        ok = True
        for (x, y) in cells:
            for i in range(cols[x] + 1, cols[x + 1]):
                if rows[y] < s[i] < rows[y + 1]:
                    ok = False
                    break
            if not ok:
                break
        if ok:
            return True
    return False


def _pkey(p):
    return (len(p), tuple(p))


def geo_sets(S):
    return sorted(set(tuple(sorted((geo_word(w, p) for p in S), key=_pkey)) for w in EIGHT),
                  key=lambda t: [_pkey(p) for p in t])


def _pstr(p):
    if not p:
        return "ε"
    if len(p) <= 10:
        return "".join(str(i) for i in p)
    return "".join("(%d)" % i for i in p)


def _std(vals):
    order = sorted(range(len(vals)), key=lambda i: (vals[i], i))
    res = [0] * len(vals)
    for r, i in enumerate(order):
        res[i] = r
    return tuple(res)


def oracle(op, a):
    if op.startswith("p."):
        k = op[2:]
        p = pseq(a[0])
        if sorted(p) != list(range(len(p))):
            return None           # the property speaks about permutations only
        names = {"inv": "inv", "fd": "inv", "rev": "rev", "fv": "rev", "comp": "comp", "fh": "comp", "rc": "rc", "fa": "fa"}
        if k in names:
            return fseq(geo_perm(names[k], p))
        if k == "rot":
            try:
                int(a[1])
            except ValueError:
                return None
            return fseq(geo_perm("r" + a[1], p))
        if k == "syms":
            return fseqs(sorted(set(geo_word(w, p) for w in EIGHT)))
    if op == "rel.p":
        return "T" * 10
    if op == "rel.m":
        n = len(pseq(a[0]))
        if any(not (0 <= x <= n and 0 <= y <= n) for x, y in pcells(a[1])):
            return None
        return "T" * 10
    if op.startswith("m."):
        k = op[2:]
        p, cells = pseq(a[0]), pcells(a[1])
        n = len(p)
        if any(not (0 <= x <= n and 0 <= y <= n) for x, y in cells):
            return None
        names = {"rev": "rev", "fv": "rev", "comp": "comp", "fh": "comp", "inv": "inv", "fd": "inv"}
        if k in names:
            return "%s/%s" % (fseq(geo_perm(names[k], p)), fcells(geo_cells(names[k], n, cells)))
        if k == "rot":
            try:
                int(a[2])
            except ValueError:
                return None
            g = "r" + a[2]
            return "%s/%s" % (fseq(geo_perm(g, p)), fcells(geo_cells(g, n, cells)))
        if k == "syms":
            ms = set((geo_word(w, p), tuple(geo_word_cells(w, n, cells))) for w in EIGHT)
            ms = sorted(ms, key=lambda m: (m[0], list(m[1])))
            return ";".join("%s/%s" % (fseq(q), fcells(c)) for q, c in ms)
    if op == "eq.cl":
        # equivariance: the image contains the image iff the original contains the original
        return fbool(contains(pseq(a[1]), pseq(a[2])))
    if op == "eq.mesh":
        k = len(pseq(a[2]))
        if any(not (0 <= x <= k and 0 <= y <= k) for x, y in pcells(a[3])):
            return None
        return fbool(mesh_contains(pseq(a[1]), pseq(a[2]), pcells(a[3])))
    if op.startswith("s."):
        k = op[2:]
        S = pseqs(a[0])
        names = {"rot90": "r1", "rot180": "r2", "rot270": "r3", "inv": "inv", "rev": "rev", "comp": "comp", "anti": "fa"}
        if k in names:
            return fseqs([geo_perm(names[k], p) for p in S])
        if k == "all":
            return _ftuples(geo_sets(S))
        if k == "lexmin":
            return fseqs(geo_sets(S)[0])
    if op == "cli.lexmin":
        s = a[0] if a else ""
        runs, cur = [], ""
        for ch in s:
            if ch in "0123456789":
                cur += ch
            else:
                if cur:
                    runs.append(cur)
                cur = ""
        if cur:
            runs.append(cur)
        perms = sorted(set(_std([int(c) for c in r]) for r in runs), key=_pkey)
        basis = [p for p in perms if not any(q != p and contains(p, q) for q in perms)]
        return "[" + "_".join(_pstr(p) for p in geo_sets(basis)[0]) + "]"
    return None


def nontrivial(op, a, out):
    if out.startswith("ERR:"):
        return False
    if op.startswith("p.") or op == "rel.p":
        return len(pseq(a[0])) >= 2
    if op.startswith("m.") or op == "rel.m":
        return len(pseq(a[0])) >= 1 and len(pcells(a[1])) >= 1
    if op == "eq.cl":
        return 1 <= len(pseq(a[2])) <= len(pseq(a[1])) and len(pseq(a[1])) >= 2
    if op == "eq.mesh":
        return 1 <= len(pseq(a[2])) <= len(pseq(a[1])) and len(pcells(a[3])) >= 1
    if op.startswith("s."):
        return any(len(p) >= 2 for p in pseqs(a[0]))
    if op == "cli.lexmin":
        return bool(a) and any(ch.isdigit() for ch in a[0])
    return True


# ------------------------------------------------------------------------------------------------ generators
def perms(n):
    return itertools.permutations(range(n))


def rand_perm(rng, n):
    l = list(range(n))
    rng.shuffle(l)
    return tuple(l)


def all_cells(n):
    return [(x, y) for x in range(n + 1) for y in range(n + 1)]


def all_meshes(n):
    cs = all_cells(n)
    for p in perms(n):
        for bits in range(2 ** len(cs)):
            yield p, [c for i, c in enumerate(cs) if bits >> i & 1]


def rand_shading(rng, n):
    cs = all_cells(n)
    mode = rng.randrange(6)
    if mode == 0:
        dens = rng.choice([0.05, 0.1, 0.2])
        sh = [c for c in cs if rng.random() < dens]
    elif mode == 1:
        sh = [c for c in cs if rng.random() < 0.5]
    elif mode == 2:      # boundary cells forced on, interior sparse
        sh = [c for c in cs if (c[0] in (0, n) or c[1] in (0, n)) and rng.random() < 0.7]
    elif mode == 3:      # one full column / row (asymmetric under transposition)
        x = rng.randrange(n + 1)
        sh = [(x, y) for y in range(n + 1)] if rng.random() < 0.5 else [(y, x) for y in range(n + 1)]
    elif mode == 4:      # a single cell or a corner pair
        sh = rng.sample(cs, min(len(cs), rng.randrange(1, 3)))
    else:                # everything except a few
        drop = set(rng.sample(cs, min(len(cs), rng.randrange(1, 4))))
        sh = [c for c in cs if c not in drop]
    return sorted(set(sh))


def plant_mesh(rng, p, cells, n):
    """a permutation of length n with a copy of p planted such that (when possible) no other point lies in a
    shaded region: extra points are inserted only into unshaded cells"""
    k = len(p)
    free = [c for c in all_cells(k) if c not in set(cells)]
    if n <= k or not free:
        return tuple(p) if n >= k else rand_perm(rng, n)
    # real-valued coordinates: pattern points at integers 1..k; extras at random spots of free cells
    pts = [(i + 1.0, p[i] + 1.0) for i in range(k)]
    for _ in range(n - k):
        x, y = rng.choice(free)
        pts.append((x + rng.uniform(0.05, 0.95), y + rng.uniform(0.05, 0.95)))
    pts.sort()
    ys = sorted(y for _, y in pts)
    return tuple(ys.index(y) for _, y in pts)


def planted(rng, p, n):
    k = len(p)
    if n < k:
        return rand_perm(rng, n)
    pos = sorted(rng.sample(range(n), k))
    vals = sorted(rng.sample(range(n), k))
    s = [None] * n
    for j, i in enumerate(pos):
        s[i] = vals[p[j]]
    rest = [v for v in range(n) if v not in vals]
    rng.shuffle(rest)
    it = iter(rest)
    return tuple(v if v is not None else next(it) for v in s)


GS = ["rev", "comp", "inv", "rc", "fa", "r1", "r2", "r3", "r-1", "r-2", "r-3", "r0", "r4", "r5", "r-7"]
MGS = ["rev", "comp", "inv", "r1", "r2", "r3", "r-1", "r-6", "r7"]


def big_t(rng):
    m = rng.randrange(5)
    if m == 0:
        return rng.randrange(-9, 10)
    if m == 1:
        return rng.randrange(-1000, 1000)
    if m == 2:
        return rng.choice([-1, 1]) * rng.randrange(10 ** 18, 10 ** 19)
    if m == 3:
        return rng.choice([-4, -8, 4, 8, -5, -3, 2 ** 31, -2 ** 31, 2 ** 63 + 1, -2 ** 63 - 1])
    return rng.choice([-1, 1]) * (4 * rng.randrange(0, 50) + rng.randrange(4))


def _big_perm(rng, n):
    """random, nearly monotone (a few planted inversions near the ends / the middle), or with a small orbit"""
    r = rng.random()
    if r < 0.4:
        return rand_perm(rng, n)
    if r < 0.7:
        return ml.sparse_target(rng, rng.choice([(1, 0), (0, 1), (1, 0, 2), (2, 0, 1)]), n, rng.randrange(1, 4))
    q = rand_perm(rng, n // 2)
    q = tuple(sorted(range(len(q)), key=lambda i: q[i]))
    p = q + tuple(v + len(q) for v in geo_perm(rng.choice(["rev", "inv", "id"]), q))
    return p + tuple(range(len(p), n))


def large_lines(rng, quick):
    """the 'large' stream: every operation at sizes the other streams never reach - permutations of length 9-12,
    21-40, 64-70 and a few around 200 / 401 / 1000 (permutation symmetries and sets at all of them; mesh symmetries
    up to 70 dense and around 200 with few cells; containment equivariance as far as each of the three sides
    answers a line within about 0.2 s: classical patterns of length <= 3 up to 70 and of length 2 around 200 in
    targets with few occurrences, mesh patterns like C03)."""
    lines = []
    mul = 1 if quick else 6
    for scale, count in (("S", 150), ("M", 150), ("L", 80), ("X", 30), ("Y", 16), ("Z", 12)):
        for _ in range(count * mul):
            n = ml.big_len(rng, scale)
            fp = fseq(_big_perm(rng, n))
            r = rng.random()
            if r < 0.3:
                lines.append("p.rot %s %d" % (fp, big_t(rng)))
            elif r < 0.6:
                lines.append("p.%s %s" % (rng.choice(["inv", "rev", "comp", "rc", "fa", "fd", "fv", "fh"]), fp))
            elif r < 0.8:
                lines.append("p.syms %s" % fp)
            else:
                lines.append("rel.p %s %d %d" % (fp, big_t(rng), big_t(rng)))
    # mesh patterns: dense shadings up to 40, few cells beyond
    for scale, count in (("S", 120), ("M", 60), ("L", 24), ("X", 8)):
        for _ in range(count * mul):
            n = ml.big_len(rng, scale)
            p = _big_perm(rng, n)
            sh = rand_shading(rng, n) if scale in "SM" and rng.random() < 0.6 else ml.sparse_shading(rng, n, rng.randrange(1, 9))
            fm = "%s %s" % (fseq(p), fcells(sh))
            r = rng.random()
            if r < 0.4:
                lines.append("m.rot %s %d" % (fm, big_t(rng)))
            elif r < 0.65:
                lines.append("m.%s %s" % (rng.choice(["rev", "comp", "inv", "fv", "fh", "fd"]), fm))
            elif r < 0.85:
                lines.append("m.syms %s" % fm)
            else:
                lines.append("rel.m %s %d %d" % (fm, big_t(rng), big_t(rng)))
    # containment equivariance: short patterns in long targets
    for scale, count, kdense, ksparse in (("S", 140, 4, 4), ("M", 110, 3, 3), ("L", 45, 2, 3), ("X", 12, 1, 2), ("Y", 5, 1, 1)):
        for _ in range(count * mul):
            n = ml.big_len(rng, scale)
            dense = rng.random() < 0.5
            k = rng.randint(1, kdense if dense else ksparse)
            p = rand_perm(rng, k)
            if rng.random() < 0.4:
                s = ml.big_target(rng, p, (), n, dense)
                g = rng.choice(GS) if rng.random() < 0.8 else "r%d" % big_t(rng)
                lines.append("eq.cl %s %s %s" % (g, fseq(s), fseq(p)))
            else:
                sh = ml.rand_shading(rng, k)
                s = ml.big_target(rng, p, sh, n, dense)
                g = rng.choice(MGS) if rng.random() < 0.85 else "r%d" % big_t(rng)
                lines.append("eq.mesh %s %s %s %s" % (g, fseq(s), fseq(p), fcells(sh)))
    # long patterns in targets a few points longer
    for scale, count in (("S", 60), ("M", 30), ("L", 10)):
        for _ in range(count * mul):
            k = ml.big_len(rng, scale)
            p = rand_perm(rng, k)
            sh = ml.sparse_shading(rng, k)
            s = ml.inflate(rng, p, sh, rng.randrange(0, 4), cheat=rng.choice([0.0, 0.3]))
            if rng.random() < 0.3:
                s = ml.perturbed(rng, s)
            if rng.random() < 0.4:
                lines.append("eq.cl %s %s %s" % (rng.choice(GS), fseq(s), fseq(p)))
            else:
                lines.append("eq.mesh %s %s %s %s" % (rng.choice(MGS), fseq(s), fseq(p), fcells(sh)))
    # sets mixing short and long elements, several long ones together, members of one orbit
    for scale, count in (("S", 120), ("M", 80), ("L", 40), ("X", 12), ("Y", 6), ("Z", 4)):
        for _ in range(count * mul):
            S = []
            for _ in range(rng.randrange(1, 5)):
                r = rng.random()
                if r < 0.35:
                    p = rand_perm(rng, rng.randrange(0, 8))
                elif S and r < 0.6:
                    p = geo_word(rng.choice(EIGHT), rng.choice(S))
                else:
                    p = _big_perm(rng, ml.big_len(rng, scale))
                S.append(p)
            S.append(_big_perm(rng, ml.big_len(rng, scale)))
            rng.shuffle(S)
            fS = fseqs(S)
            r = rng.random()
            if r < 0.35:
                lines.append("s.all %s" % fS)
            elif r < 0.75:
                lines.append("s.lexmin %s" % fS)
                T = [geo_word(w, p) for w in [rng.choice(EIGHT)] for p in S]
                rng.shuffle(T)
                lines.append("s.lexmin %s" % fseqs(T))
            else:
                lines.append("s.%s %s" % (rng.choice(["rot90", "rot180", "rot270", "inv", "rev", "comp", "anti"]), fS))
    # CLI: one long run of digits (standardised with ties), alone or next to short ones
    for lo, hi, count in ((9, 12, 40), (21, 40, 30), (64, 70, 10), (196, 204, 3)):
        for _ in range(count * mul):
            n = rng.randint(lo, hi)
            parts = ["".join(str(rng.randrange(10)) for _ in range(n))]
            if lo < 100:
                for _ in range(rng.randrange(0, 3)):
                    m = rng.randrange(1, 5)
                    parts.append("".join(str(v + 1) for v in rand_perm(rng, m)))
            rng.shuffle(parts)
            lines.append("cli.lexmin %s" % rng.choice(["_", ",", "x"]).join(parts))
    return lines


def run(ctx):
    rng = ctx.rng
    quick = ctx.tier == "quick"
    N = 6 if quick else 7
    ctx.exhaustive = True
    ctx.exhaustive_bound = ("perm ops: all |p|<=%d, rotation counts -9..9; mesh ops: all meshes of length<=2 (all shadings), "
                            "rotation counts -9..9; eq.cl: all symmetries x |perm|<=%d x |pattern|<=3; eq.mesh: all meshes "
                            "of length<=1 x |perm|<=5 and all length-2 meshes x |perm|<=%d, 6 symmetries; sets: all sets of "
                            "<=3 perms of length<=4" % (N, 6, 4 if quick else 5))
    ctx.compare("corpus", [
        "p.inv _", "p.rev _", "p.comp _", "p.rc _", "p.fa _", "p.rot _ 1", "p.rot _ -1", "p.syms _", "p.syms 0",
        "p.inv 1,2,5,0,3,4", "p.rev 1,2,5,0,3,4", "p.comp 1,2,3,0,4", "p.rc 1,2,3,0,4", "p.fa 1,2,3,0,4",
        "p.rot 0,4,1,3,2 -3", "p.rot 0,4,1,3,2 -2", "p.rot 0,4,1,3,2 -1", "p.rot 0,4,1,3,2 0", "p.rot 0,4,1,3,2 1",
        "p.rot 0,4,1,3,2 2", "p.rot 0,4,1,3,2 3", "p.syms 0,2,1", "p.syms 0,1", "p.syms 1,3,0,2", "p.syms 0,3,1,2",
        "m.comp 0,2,1 0.1,0.2,0.3", "m.rev 2,1,0 1.1,2.2,3.2", "m.inv 0 0.1", "m.rot 0,2,1 2.3,3.0,3.3 -3",
        "m.rot 0,2,1 2.3,3.0,3.3 -1", "m.rot 0,2,1 2.3,3.0,3.3 1", "m.rot 0,2,1 2.3,3.0,3.3 2", "m.syms 0,1 0.1,1.1",
        "m.syms _ _", "m.syms _ 0.0", "m.rot _ 0.0 1", "m.syms 0 0.0,1.1", "m.syms 0 0.1",
        "eq.cl inv 0,2,1 0,1", "eq.cl r1 2,0,1 1,0", "eq.cl rev _ _", "eq.cl comp 0 _", "eq.cl inv _ 0",
        "eq.mesh r1 0,2,1 0,1 0.1", "eq.mesh inv 1,0,2 0,1 1.0,1.1,1.2", "eq.mesh rev 0 _ 0.0", "eq.mesh comp _ _ 0.0",
        "s.all -", "s.lexmin -", "s.all _", "s.lexmin _", "s.all 0,2,1;1,0", "s.lexmin 2,0,1;0,1,2", "s.lexmin 1,0;1,0",
        "s.all 0,1;0,1;1,0", "s.rot90 0,2,1;_;0", "s.anti 0,2,1;1,0", "s.lexmin 1,3,0,2;2,0,3,1", "s.lexmin 0,2,1;1,0",
        "cli.lexmin 132_4231", "cli.lexmin 021", "cli.lexmin abc", "cli.lexmin", "cli.lexmin 1_1_12", "cli.lexmin 0",
        "cli.lexmin 231,312;12345678910", "cli.lexmin 11", "cli.lexmin 1234_123", "cli.lexmin 2413_3142", "cli.lexmin 0213x1032",
        "rel.p 0,4,1,3,2 -3 7", "rel.m 0,2,1 2.3,3.0,3.3 -3 7",
    ])
    # ---- exhaustive: permutations
    lines = []
    for n in range(N + 1):
        for p in perms(n):
            fp = fseq(p)
            for k in ("inv", "rev", "comp", "rc", "fa", "syms"):
                lines.append("p.%s %s" % (k, fp))
            if n <= 4:
                for k in ("fd", "fv", "fh"):
                    lines.append("p.%s %s" % (k, fp))
            for t in range(-9, 10):
                lines.append("p.rot %s %d" % (fp, t))
            if n <= 5:
                for s in range(-4, 5):
                    lines.append("rel.p %s %d %d" % (fp, s, rng.randrange(-9, 10)))
    ctx.compare("exhaustive-perm", lines)
    # ---- exhaustive: meshes of length <= 2
    lines = []
    for n in range(3):
        for p, sh in all_meshes(n):
            fm = "%s %s" % (fseq(p), fcells(sh))
            for k in ("rev", "comp", "inv", "syms"):
                lines.append("m.%s %s" % (k, fm))
            for t in range(-9, 10):
                lines.append("m.rot %s %d" % (fm, t))
            lines.append("rel.m %s %d %d" % (fm, rng.randrange(-9, 10), rng.randrange(-9, 10)))
            if n <= 1:
                for k in ("fv", "fh", "fd"):
                    lines.append("m.%s %s" % (k, fm))
    ctx.compare("exhaustive-mesh", lines)
    # ---- exhaustive: classical equivariance
    lines = []
    pats = [p for k in range(4) for p in perms(k)]
    for n in range(6 + 1):
        for s in perms(n):
            fs = fseq(s)
            for p in pats:
                fp = fseq(p)
                for g in ("rev", "comp", "inv", "rc", "fa", "r1", "r3", "r-1"):
                    lines.append("eq.cl %s %s %s" % (g, fs, fp))
    ctx.compare("exhaustive-eq-classical", lines)
    # ---- exhaustive: mesh equivariance
    lines = []
    for n in range(3):
        for p, sh in all_meshes(n):
            fm = "%s %s" % (fseq(p), fcells(sh))
            for ns in range((5 if n < 2 else (4 if quick else 5)) + 1):
                for s in perms(ns):
                    fs = fseq(s)
                    for g in ("rev", "comp", "inv", "r1", "r2", "r3"):
                        lines.append("eq.mesh %s %s %s" % (g, fs, fm))
    ctx.compare("exhaustive-eq-mesh", lines)
    # ---- exhaustive: sets of <= 3 perms of length <= 4, random list order
    small = [p for k in range(5) for p in perms(k)]
    lines = []
    for r in range(4):
        for S in itertools.combinations(small, r):
            S = list(S)
            rng.shuffle(S)
            fS = fseqs(S)
            lines.append("s.all %s" % fS)
            lines.append("s.lexmin %s" % fS)
            if rng.random() < 0.1:
                lines.append("s.%s %s" % (rng.choice(["rot90", "rot180", "rot270", "inv", "rev", "comp", "anti"]), fS))
    ctx.compare("exhaustive-sets", lines)
    # ---- random large
    R = 4000 if quick else 60000
    lines = []
    for _ in range(R):
        n = rng.randrange(5, 13)
        p = rand_perm(rng, n)
        if rng.random() < 0.2:    # symmetric inputs: involutions, self-rc etc. (orbits smaller than 8)
            q = p[:n // 2]
            q = tuple(sorted(range(len(q)), key=lambda i: q[i]))
            p = q + tuple(v + len(q) for v in geo_perm(rng.choice(["rev", "inv", "id"]), q))
        fp = fseq(p)
        r = rng.random()
        if r < 0.35:
            lines.append("p.rot %s %d" % (fp, big_t(rng)))
        elif r < 0.6:
            lines.append("p.%s %s" % (rng.choice(["inv", "rev", "comp", "rc", "fa", "fd", "fv", "fh"]), fp))
        elif r < 0.8:
            lines.append("p.syms %s" % fp)
        else:
            lines.append("rel.p %s %d %d" % (fp, big_t(rng), big_t(rng)))
    ctx.compare("random-perm", lines)
    lines = []
    for _ in range(R):
        n = rng.randrange(2, 5)
        p = rand_perm(rng, n)
        sh = rand_shading(rng, n)
        fm = "%s %s" % (fseq(p), fcells(sh))
        r = rng.random()
        if r < 0.4:
            lines.append("m.rot %s %d" % (fm, big_t(rng)))
        elif r < 0.65:
            lines.append("m.%s %s" % (rng.choice(["rev", "comp", "inv", "fv", "fh", "fd"]), fm))
        elif r < 0.85:
            lines.append("m.syms %s" % fm)
        else:
            lines.append("rel.m %s %d %d" % (fm, big_t(rng), big_t(rng)))
    ctx.compare("random-mesh", lines)
    lines = []
    for _ in range(R):
        k = rng.randrange(1, 6)
        n = rng.randrange(k, 13)
        p = rand_perm(rng, k)
        s = planted(rng, p, n) if rng.random() < 0.6 else rand_perm(rng, n)
        g = rng.choice(GS) if rng.random() < 0.8 else "r%d" % big_t(rng)
        lines.append("eq.cl %s %s %s" % (g, fseq(s), fseq(p)))
    ctx.compare("random-eq-classical", lines)
    lines = []
    for _ in range(R):
        k = rng.randrange(1, 5)
        n = rng.randrange(k, 10)
        p = rand_perm(rng, k)
        sh = rand_shading(rng, k)
        r = rng.random()
        if r < 0.6:
            s = plant_mesh(rng, p, sh, n)
        elif r < 0.8:
            s = planted(rng, p, n)
        else:
            s = rand_perm(rng, n)
        g = rng.choice(MGS) if rng.random() < 0.85 else "r%d" % big_t(rng)
        lines.append("eq.mesh %s %s %s %s" % (g, fseq(s), fseq(p), fcells(sh)))
    ctx.compare("random-eq-mesh", lines)
    lines = []
    for _ in range(R // 2):
        m = rng.randrange(1, 6)
        S = []
        for _ in range(m):
            p = rand_perm(rng, rng.randrange(0, 8))
            if S and rng.random() < 0.4:      # another member of an earlier element's orbit / a duplicate
                p = geo_word(rng.choice(EIGHT), rng.choice(S))
            S.append(p)
        fS = fseqs(S)
        r = rng.random()
        if r < 0.35:
            lines.append("s.all %s" % fS)
        elif r < 0.75:
            lines.append("s.lexmin %s" % fS)
            # the same set through a symmetry and a shuffle (answers must coincide; checked by the oracle)
            T = [geo_word(w, p) for w in [rng.choice(EIGHT)] for p in S]
            rng.shuffle(T)
            lines.append("s.lexmin %s" % fseqs(T))
        else:
            lines.append("s.%s %s" % (rng.choice(["rot90", "rot180", "rot270", "inv", "rev", "comp", "anti"]), fS))
    ctx.compare("random-sets", lines)
    lines = []
    seps = ["_", ",", ";", ":", "-", "x", "ab", "__", ".", "/"]
    for _ in range(R // 4):
        m = rng.randrange(0, 5)
        parts = []
        prev = []
        for _ in range(m):
            n = rng.randrange(1, 8) if rng.random() < 0.9 else rng.randrange(9, 13)
            p = rand_perm(rng, n)
            if parts and rng.random() < 0.3:
                p = geo_word(rng.choice(EIGHT), rng.choice(prev))
                n = len(p)
            mode = rng.random()
            if n > 10 or mode < 0.1:
                # digits with repetitions (standardised left to right)
                parts.append("".join(str(rng.randrange(10)) for _ in range(n)))
            elif n == 10 or mode < 0.5:
                parts.append("".join(str(v) for v in p))
            else:
                parts.append("".join(str(v + 1) for v in p) if n < 10 else "".join(str(v) for v in p))
            prev.append(p)
        s = (rng.choice(seps) if rng.random() < 0.2 else "")
        for i, part in enumerate(parts):
            s += part + (rng.choice(seps) if i + 1 < len(parts) or rng.random() < 0.2 else "")
        lines.append("cli.lexmin %s" % s if s else "cli.lexmin")
    ctx.compare("random-cli", lines)
    # ---- large: sizes the other streams never reach
    ctx.compare("large", large_lines(rng, quick))
    # ---- malformed (glue code): non-permutations, non-integer counts, cells outside the grid
    ctx.compare("malformed", [
        "p.inv 2,1,3", "p.inv 0,5", "p.rot 3,0,1 1", "p.rot 3,1,2 3", "p.rot 5,1,2 3", "p.rot 6,1,2 3", "p.fa 3,1,2",
        "p.fa 7,1,2", "p.rot 0,1 x", "p.rot 0,1 1.5", "p.rot 2,1,3 0", "p.rot 2,1,3 4", "p.inv 1,1,0", "p.rot 1,1,0 1",
        "p.rot 1,1,0 3", "p.fa 1,1,0", "p.inv 0,0", "p.rot 1,1 -1",
        "m.rev 0,1 3.0", "m.comp 0 0.2", "m.inv _ 0.1", "m.rot 0,1 0.3 1", "m.syms 0,1 5.5", "m.rot 0,1 0.1 x",
        "rel.m 0 2.2 1 1", "eq.mesh rev 0,1 0 2.0",
    ])
