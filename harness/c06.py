"""C06 - pattern-inside-pattern containment is sound for every permutation; the induced sub-pattern is
the strongest one (meshpatt.py 146-187, 330-359, 391-396, 414-464)."""
import itertools

from core import fseq, fseqs, fbool, fcells, pseq, pseqs, pcells, guarded
import meshlib as ml
import used
import past

PROP = "C06"
RULE = ("exhaustive: every pair of mesh patterns (nu, mu) with |nu|<=1, |mu|<=2 over ALL shadings, and every index "
        "subset of every mesh pattern of length <=2; each case is judged twice: by the region reading of the "
        "property text (submesh/meshin) and by the semantic statement evaluated by brute force over all permutations "
        "(submeshS/meshinS: all permutations up to |mu|+1, which is complete because deleting the other points of a "
        "witness keeps it a witness; meshinS6: all permutations up to length 6); random: |mu|<=4 (5) with shadings "
        "made of large blocks, nu planted as a weakening of an induced sub-pattern, plus near misses with one extra "
        "cell; non-trivial = |mu|>=2, 1<=|nu| (or chosen points) <|mu| or equal, and at least one shaded cell in mu; "
        "distinct = distinct op lines; large: the structural ops (submesh, isshaded*, ispointfree, meshin, permin, "
        "mmcontains/mmavoids) on patterns of length 9-12, 21-40, 64-70 and a few around 200 with block shadings, holes at "
        "the far end of a block, index subsets with few / nearly all points; objects with a past: on the treated lines "
        "the patterns are fresh / used / derived from a used object through another API route (past.mkmesh2: unrank, "
        "of_length, shade, symmetries, add_point + sub_mesh_pattern, copies), index lists are changed after the call")
ASSUMPTIONS = [
    "model/implementation agreement outside the enumerated and sampled inputs is assumed",
    "theorems assume permutations as underlying patterns; malformed arguments are only correspondence-checked",
    "negative indices passed to sub_mesh_pattern (Python wrap-around indexing) are outside the model",
    "MeshPatt.occurrences_in(Perm) treats the Perm as a permutation (C03), not as an unshaded pattern; the "
    "classical-pattern cases of C06 are Perm.occurrences_in(MeshPatt) and occurrences in MeshPatt(perm) with no shading",
]
PARTIAL = []
TRUSTED = ["sorted() modelled by List.mergeSort", "Perm.to_standard modelled by Model.standardize"]


def worker_init():
    global Perm, MeshPatt, BivincularPatt, VincularPatt, CovincularPatt
    from permuta import Perm as P, MeshPatt as M
    from permuta.patterns.bivincularpatt import BivincularPatt as B, VincularPatt as V, CovincularPatt as C
    Perm, MeshPatt, BivincularPatt, VincularPatt, CovincularPatt = P, M, B, V, C
    import c03
    c03.worker_init()


def _warm(m):
    """use a mesh pattern before the call under test: the generic warm-up (hash, abandoned listings of its
    occurrences in permutations) plus the neighbouring C06 queries on the SAME object: induced sub-patterns on
    other point sets, region tests, an abandoned listing of a one-point pattern inside it"""
    used.warm_mesh(m, 1)
    n = len(m.pattern)
    if not used.is_perm(m.pattern):
        return
    used.quiet(lambda: m.sub_mesh_pattern(range(n)))
    used.quiet(lambda: m.sub_mesh_pattern(range(0, n, 2)))
    used.quiet(lambda: m.sub_mesh_pattern((n - 1,)))
    used.quiet(lambda: m.is_shaded((0, 0), (n, n)))
    used.quiet(lambda: m.is_pointfree((0, 0), (1, n)))
    used.sip(lambda: MeshPatt(Perm((0,)), [(0, 0)]).occurrences_in(m))
    used.quiet(lambda: m.contains(Perm((0,))))


_HEAVY = [False]
_DERIVE = [False]     # the objects of the line come from past.mkmesh2 / mkperm2 (fresh / used / derived from a used object)
_BIG = 9              # patterns at least this long belong to the 'large' stream


def _mesh(p, c):
    def make():
        if _DERIVE[0]:
            return past.mkmesh2(pseq(p), pcells(c), 2)
        return MeshPatt(Perm(pseq(p)), pcells(c))
    return used.obj(("M", p, c), make, _warm if _HEAVY[0] else None)


def _fsub(m):
    return "%s/%s" % (fseq(m.pattern), fcells(m.shading))


def _occ(make):
    """a complete listing, computed while a second listing of the same call on the same objects is only
    partially consumed; both must be equal"""
    if not _HEAVY[0]:
        return fseqs(make())
    full, pieced = used.interleaved(make)
    return fseqs(full) if full == pieced else used.unstable(fseqs(full), fseqs(pieced))


def _longest(a):
    return max([t.count(",") + 1 for t in " ".join(a).replace(";", " ").replace("/", " ").split(" ") if "." not in t] or [0])


def impl(op, a):
    import c03
    n = _longest(a)
    big, huge = n >= _BIG, n >= 45
    # a deterministic fifth of the lines (and the whole 'large' stream) gets the used-object treatment (warm-up,
    # interleaved listings, second evaluation on the same objects); the others are evaluated once on fresh objects.
    # A quarter of the treated lines (all large ones) run on objects with a past; 1 in 16 of them are preceded by the
    # neighbouring calls (objects created, queried and dropped).
    heavy = not huge and (big or used.sel(op, a, 5))     # (beyond length 45 the four-fold work is too slow)
    derive = big or (heavy and used.digest("d~" + op, a) % 4 == 0)
    _HEAVY[0] = c03._HEAVY[0] = heavy   # (the mixed items of mmcontains / mmavoids are built by c03)
    _DERIVE[0] = c03._DERIVE[0] = derive
    if heavy and not big:
        used.prelude(op, a, _plain, 16)
    used.begin()
    r1 = _impl(op, a)
    if not heavy:
        return r1
    used.T.rewind()
    r2 = _impl(op, a)             # the same call once more, on the same (now used) objects
    return r1 if r1 == r2 else used.unstable(r1, r2)


def _plain(op, a):
    """a neighbouring call: evaluated once, on fresh objects, without the used-object treatment"""
    import c03
    saved = (_HEAVY[0], _DERIVE[0])
    _HEAVY[0] = c03._HEAVY[0] = _DERIVE[0] = c03._DERIVE[0] = False
    try:
        return _impl(op, a)
    finally:
        _HEAVY[0] = c03._HEAVY[0] = saved[0]
        _DERIVE[0] = c03._DERIVE[0] = saved[1]


def _probe(m):
    n = len(m)
    return (tuple(m.pattern), sorted(m.shading), m.is_shaded((0, 0), (min(1, n), min(1, n))),
            sorted(m.sub_mesh_pattern(range(0, n, 2)).shading), hash(m),
            list(MeshPatt(Perm((0,)), [(0, 0)]).occurrences_in(m)), sorted(m.rotate(1).shading))


def _fresh_like(r):
    """_fsub(r) for the pattern object r returned by sub_mesh_pattern; on the treated lines it must in addition
    answer a few further queries like a newly constructed pattern with the same permutation and shading"""
    if not _HEAVY[0] or len(r) > 12:
        return _fsub(r)
    f = MeshPatt(Perm(tuple(r.pattern)), frozenset(r.shading))
    a, b = used.quiet(lambda: _probe(r)), used.quiet(lambda: _probe(f))
    return _fsub(r) if a == b else used.unstable(_fsub(r), "result object answers %r, a new one %r" % (a, b))


def _submesh(m, idx):
    """sub_mesh_pattern receives a list on the treated lines; afterwards the list is changed and the call is
    repeated with a new list (the answer must not depend on the first list object)"""
    if not _HEAVY[0]:
        return _fsub(m.sub_mesh_pattern(idx))
    lst = list(idx)
    r1 = _fresh_like(m.sub_mesh_pattern(lst))
    lst.append(0)
    lst.reverse()
    r2 = _fsub(m.sub_mesh_pattern(iter(list(idx))))
    return r1 if r1 == r2 else used.unstable(r1, r2)


def _impl(op, a):
    import c03
    if op in ("submesh", "submeshS"):
        return guarded(lambda: _submesh(_mesh(a[0], a[1]), pseq(a[2])))
    if op == "isshaded1":
        return guarded(lambda: fbool(_mesh(a[0], a[1]).is_shaded((int(a[2]), int(a[3])))))
    if op == "isshaded":
        return guarded(lambda: fbool(_mesh(a[0], a[1]).is_shaded((int(a[2]), int(a[3])), (int(a[4]), int(a[5])))))
    if op == "ispointfree":
        return guarded(lambda: fbool(_mesh(a[0], a[1]).is_pointfree((int(a[2]), int(a[3])), (int(a[4]), int(a[5])))))
    if op in ("meshin", "meshinS", "meshinS6"):
        return guarded(lambda: (lambda q, m: _occ(lambda: q.occurrences_in(m)))(_mesh(a[0], a[1]), _mesh(a[2], a[3])))
    if op == "permin":
        return guarded(lambda: (lambda q, m: _occ(lambda: q.occurrences_in(m)))(
            used.obj(("P", a[0]), lambda: past.mkperm2(pseq(a[0]), 1) if _DERIVE[0] else Perm(pseq(a[0])),
                     used.warm_perm if _HEAVY[0] else None), _mesh(a[1], a[2])))
    if op == "mmcontains":
        return guarded(lambda: fbool(_mesh(a[0], a[1]).contains(*c03._items(a[2]))))
    if op == "mmavoids":
        return guarded(lambda: fbool(_mesh(a[0], a[1]).avoids(*c03._items(a[2]))))
    if op in ("mmcontainedin", "mmavoidedby"):
        # Patt.contained_in / avoided_by with several mesh-pattern targets (a[1] = p1/c1;p2/c2;...)
        tg = [] if a[1] == "-" else [_mesh(*t.split("/")) for t in a[1].split(";")]
        it = c03._item(a[0])
        return guarded(lambda: fbool(it.contained_in(*tg) if op == "mmcontainedin" else it.avoided_by(*tg)))
    raise ValueError("unknown op " + op)


def _valid_mesh(p, cells):
    return ml.is_perm(p) and all(0 <= x <= len(p) and 0 <= y <= len(p) for x, y in cells)


def _occs_in_mesh_text(q, qsh, p, psh):
    """docstring / property text: classical occurrences of q in p whose induced sub-pattern (region reading)
    shades at least the cells of qsh.  (Patterns longer than 8: the same reading evaluated only for the sub-cells
    named in qsh, with the incremental listing of classical occurrences - meshlib.occs_in_mesh_big.)"""
    if len(p) > 8:
        return ml.occs_in_mesh_big(q, qsh, p, psh)
    return [c for c in ml.classical_occs(q, p) if set(qsh) <= set(ml.sub_shading_by_regions(p, psh, c))]


def _item_mesh(t):
    kind, r = t.split(":")
    parts = r.split("/")
    q = pseq(parts[0])
    k = len(q)
    if kind == "m":
        return q, pcells(parts[1])
    I = pseq(parts[1]) if kind in "bv" else ()
    V = pseq(parts[2]) if kind == "b" else (pseq(parts[1]) if kind == "k" else ())
    return q, sorted(set((j, y) for j in I for y in range(k + 1)) | set((x, v) for v in V for x in range(k + 1)))


def _item_in_mesh(t, p, psh):
    if t.startswith("c:"):
        return bool(ml.classical_occs_any(pseq(t[2:]), p))
    q, qsh = _item_mesh(t)
    return bool(_occs_in_mesh_text(q, qsh, p, psh))


def oracle(op, a):
    if op in ("submesh", "submeshS"):
        p, sh, idx = pseq(a[0]), pcells(a[1]), pseq(a[2])
        if not _valid_mesh(p, sh) or len(set(idx)) != len(idx) or any(not 0 <= i < len(p) for i in idx):
            return None
        c = sorted(idx)
        patt = ml.standardize([p[i] for i in c])
        if op == "submesh":
            # (long patterns: the same region reading computed by marking, O(n^2) - meshlib.sub_shading_big)
            sub = ml.sub_shading_by_regions(p, sh, c) if len(p) <= 8 else ml.sub_shading_big(p, sh, c)
            return "%s/%s" % (fseq(patt), fcells(sub))
        return "%s/%s" % (fseq(patt), fcells(ml.semantic_sub_shading(p, sh, c, len(p) + 1)))
    if op in ("isshaded1", "isshaded", "ispointfree"):
        p, sh = pseq(a[0]), set(pcells(a[1]))
        v = [int(x) for x in a[2:]]
        n = len(p)
        if not _valid_mesh(p, sh) or any(not 0 <= x <= n for x in v):
            return None
        if op == "isshaded1":
            return fbool((v[0], v[1]) in sh)
        l, b, r, t = v
        if l > r or b > t:
            return None
        if op == "isshaded":
            return fbool(all((x, y) in sh for x in range(l, r + 1) for y in range(b, t + 1)))
        return fbool(not any(l <= i < r and b <= p[i] < t for i in range(n)))
    if op in ("meshin", "meshinS", "meshinS6"):
        q, qsh, p, psh = pseq(a[0]), pcells(a[1]), pseq(a[2]), pcells(a[3])
        if not _valid_mesh(q, qsh) or not _valid_mesh(p, psh):
            return None
        if op == "meshin":
            return fseqs(_occs_in_mesh_text(q, qsh, p, psh))
        return fseqs(ml.semantic_occs_in_mesh(q, qsh, p, psh, len(p) + 1 if op == "meshinS" else max(6, len(p) + 1)))
    if op == "permin":
        q, p, psh = pseq(a[0]), pseq(a[1]), pcells(a[2])
        if not ml.is_perm(q) or not _valid_mesh(p, psh):
            return None
        return fseqs(ml.classical_occs_any(q, p))
    if op in ("mmcontains", "mmavoids"):
        p, psh = pseq(a[0]), pcells(a[1])
        toks = [] if a[2] == "-" else a[2].split(";")
        if "x" in toks or not _valid_mesh(p, psh):
            return None
        if op == "mmcontains":
            return fbool(all(_item_in_mesh(t, p, psh) for t in toks))
        return fbool(all(not _item_in_mesh(t, p, psh) for t in toks))
    if op in ("mmcontainedin", "mmavoidedby"):
        tg = [] if a[1] == "-" else [(pseq(t.split("/")[0]), pcells(t.split("/")[1])) for t in a[1].split(";")]
        if a[0] == "x" or any(not _valid_mesh(p, psh) for p, psh in tg):
            return None
        if op == "mmcontainedin":
            return fbool(all(_item_in_mesh(a[0], p, psh) for p, psh in tg))
        return fbool(all(not _item_in_mesh(a[0], p, psh) for p, psh in tg))
    return None


def nontrivial(op, a, out):
    if out.startswith("ERR:"):
        return False
    if op in ("submesh", "submeshS"):
        return len(pseq(a[0])) >= 2 and 1 <= len(pseq(a[2])) and a[1] != "_"
    if op in ("meshin", "meshinS", "meshinS6"):
        return len(pseq(a[2])) >= 2 and 1 <= len(pseq(a[0])) <= len(pseq(a[2])) and (a[1] != "_" or a[3] != "_")
    if op == "permin":
        return len(pseq(a[1])) >= 2 and len(pseq(a[0])) >= 1
    if op in ("mmcontains", "mmavoids"):
        return len(pseq(a[0])) >= 2 and a[2] != "-"
    if op in ("mmcontainedin", "mmavoidedby"):
        return ";" in a[1]
    return len(pseq(a[0])) >= 1


def _subsets(l):
    for r in range(len(l) + 1):
        yield from itertools.combinations(l, r)


def _blocky(rng, k):
    """shadings for the larger pattern: mostly large blocks so that merged regions can be fully shaded"""
    return ml.rand_shading(rng, k, rng.choice([3, 3, 3, 2, 2, 0, 1, 4]))


def _planted_pair(rng, n):
    """(nu, mu, c): nu is the induced sub-pattern of mu on c weakened by dropping cells, sometimes
    spoiled by one extra cell (near miss)"""
    p = ml.rand_perm(rng, n)
    sh = _blocky(rng, n)
    k = rng.randrange(0, n + 1)
    c = sorted(rng.sample(range(n), k))
    sub = ml.sub_shading_by_regions(p, sh, c)
    q = ml.standardize([p[i] for i in c])
    qsh = [cell for cell in sub if rng.random() < 0.8]
    if rng.random() < 0.35:
        extra = [cell for cell in ml.all_cells(k) if cell not in sub]
        if extra:
            qsh.append(rng.choice(extra))
    return q, sorted(qsh), p, sh, c


def _blocky_big(rng, n):
    """shadings of a long pattern made of a few large rectangles (whole rows / columns among them) so that merged
    regions have a chance of being fully shaded; about half of the rectangles get one hole - in the far corner, the
    near corner or anywhere inside (a near miss that only shows beyond the first rows / columns of the rectangle).
    Returns (shading, rectangles)."""
    sh = set()
    blocks = []
    for _ in range(rng.randrange(1, 5)):
        l, r = sorted((rng.randrange(n + 1), rng.randrange(n + 1)))
        b, t = sorted((rng.randrange(n + 1), rng.randrange(n + 1)))
        if rng.random() < 0.3:
            l, r = 0, n
        elif rng.random() < 0.3:
            b, t = 0, n
        blocks.append((l, b, r, t))
        sh |= set((x, y) for x in range(l, r + 1) for y in range(b, t + 1))
    for (l, b, r, t) in blocks:
        if rng.random() < 0.5:
            m = rng.randrange(4)
            hole = [(r, t), (l, b), (r, rng.randint(b, t)), (rng.randint(l, r), rng.randint(b, t))][m]
            sh.discard(hole)
    return sorted(sh), blocks


def _rect_near(rng, n, blocks):
    """a rectangle query aligned with the rectangles the shading was built from: the rectangle itself, a part of it
    that keeps one corner, or the rectangle extended by one row / column"""
    l, b, r, t = rng.choice(blocks)
    m = rng.randrange(4)
    if m == 1:
        r, t = rng.randint(l, r), rng.randint(b, t)
    elif m == 2:
        l, b = rng.randint(l, r), rng.randint(b, t)
    elif m == 3:
        l, b, r, t = max(0, l - rng.randrange(2)), max(0, b - rng.randrange(2)), min(n, r + rng.randrange(2)), min(n, t + rng.randrange(2))
    return l, b, r, t


def _big_subset(rng, n, few=False):
    """index subsets of a long pattern: all points, all but one, a few near the ends, a block, random (`few`: only
    the variants with few points, whose regions are wide)"""
    m = rng.choice([2, 3, 4]) if few else rng.randrange(6)
    if m == 0:
        return list(range(n))
    if m == 1:
        i = rng.choice([0, n - 1, rng.randrange(n)])
        return [j for j in range(n) if j != i]
    if m == 2:
        return sorted(set([0, n - 1] + rng.sample(range(n), rng.randrange(0, 3))))
    if m == 3:
        a = rng.randrange(n)
        return list(range(a, min(n, a + rng.randrange(1, 6))))
    if m == 4:
        return sorted(rng.sample(range(n), rng.randrange(0, 4)))
    return sorted(rng.sample(range(n), rng.randrange(n // 2, n + 1)))


def large_lines(rng, quick):
    """the 'large' stream: the structural operations at sizes the other streams never reach - patterns of length
    9-12, 21-40, 64-70 and a few around 200 (there: few shaded cells).  The semantic ops (submeshS, meshinS) are
    left out: their oracle ranges over all permutations one longer than the pattern.  Mesh-in-mesh listings are
    generated where the three sides stay below about 0.2 s per line (measured): the small pattern has length <= 2
    up to 40 and length 1 beyond, or is the induced sub-pattern on nearly all points."""
    lines = []
    mul = 1 if quick else 6
    for scale, count in (("S", 180), ("M", 80), ("L", 30), ("X", 8)):
        for _ in range(count * mul):
            n = ml.big_len(rng, scale)
            rnd = rng.random() < 0.6
            p = ml.rand_perm(rng, n) if rnd else ml.sparse_target(rng, (1, 0), n, 2)
            blocks = []
            if scale == "X":
                # (around 200 a rectangle is a band of a few rows or columns)
                sh = set(ml.sparse_shading(rng, n, rng.randrange(1, 12)))
                for _ in range(rng.randrange(0, 3)):
                    k0 = rng.randrange(n + 1)
                    blk = (0, k0, n, min(n, k0 + rng.randrange(2))) if rng.random() < 0.5 else (k0, 0, min(n, k0 + rng.randrange(2)), n)
                    blocks.append(blk)
                    sh |= set((x, y) for x in range(blk[0], blk[2] + 1) for y in range(blk[1], blk[3] + 1))
                    if rng.random() < 0.5:
                        sh.discard((rng.choice([blk[0], blk[2], rng.randint(blk[0], blk[2])]), rng.choice([blk[1], blk[3]])))
                sh = sorted(sh)
            elif rng.random() < 0.7:
                sh, blocks = _blocky_big(rng, n)
            else:
                sh = ml.sparse_shading(rng, n, rng.randrange(1, 12))
            fp, fc = fseq(p), fcells(sh)
            r = rng.random()
            if r < 0.3:
                c = _big_subset(rng, n, few=blocks and rng.random() < 0.5)
                if len(c) >= 2 and rng.random() < 0.3:
                    rng.shuffle(c)
                lines.append("submesh %s %s %s" % (fp, fc, fseq(c)))
            elif r < 0.45:
                l, r2 = sorted((rng.randrange(n + 1), rng.randrange(n + 1)))
                b, t = sorted((rng.randrange(n + 1), rng.randrange(n + 1)))
                if blocks and rng.random() < 0.7:
                    l, b, r2, t = _rect_near(rng, n, blocks)
                elif sh and rng.random() < 0.5:
                    (l, b) = rng.choice(sh)
                    r2, t = min(n, l + rng.randrange(0, 3)), min(n, b + rng.randrange(0, 3))
                lines.append("%s %s %s %d %d %d %d" % (rng.choice(["isshaded", "isshaded", "ispointfree"]), fp, fc, l, b, r2, t))
                if blocks:
                    lines.append("isshaded %s %s %d %d %d %d" % ((fp, fc) + _rect_near(rng, n, blocks)))
                if rng.random() < 0.3:
                    lines.append("isshaded1 %s %s %d %d" % (fp, fc, l, t))
            elif scale == "X":
                lines.append("permin %s %s %s" % (fseq(ml.rand_perm(rng, rng.randrange(1, 3))), fp, fc))
            elif r < 0.75:
                # nu: a weakening of an induced sub-pattern (short, or on nearly all points), sometimes spoiled
                # (the long variant only for random underlying permutations: a nearly monotone one has ~n^2 classical
                # occurrences of its own sub-patterns, each costing the code an O(n^2) sub_mesh_pattern)
                if not rnd or rng.random() < 0.6:
                    k = rng.randrange(0, 3) if scale in "SM" else rng.randrange(0, 2)
                    c = sorted(rng.sample(range(n), k))
                else:
                    c = sorted(rng.sample(range(n), n - rng.randrange(0, 3)))
                k = len(c)
                sub = ml.sub_shading_big(p, sh, c)
                q = ml.standardize([p[i] for i in c])
                qsh = [cell for cell in sub if rng.random() < 0.8]
                if len(qsh) > 12:
                    qsh = rng.sample(qsh, 12)
                if rng.random() < 0.35:
                    qsh.append((rng.randrange(k + 1), rng.randrange(k + 1)))
                lines.append("meshin %s %s %s %s" % (fseq(q), fcells(sorted(set(qsh))), fp, fc))
            elif r < 0.8:
                lines.append("permin %s %s %s" % (fseq(ml.rand_perm(rng, rng.randrange(0, 3))), fp, fc))
            else:
                # mixed lists: short items and long ones (sub-patterns on nearly all points)
                items = []
                for _ in range(rng.randrange(1, 4)):
                    if not rnd or rng.random() < 0.5:
                        k2 = rng.randrange(0, 3)
                        q2 = ml.rand_perm(rng, k2)
                        kind = rng.choice("cmbvk")
                        if kind == "c":
                            items.append("c:" + fseq(q2))
                        elif kind == "m":
                            items.append("m:%s/%s" % (fseq(q2), fcells(ml.rand_shading(rng, k2, 4))))
                        else:
                            I = sorted(j for j in range(k2 + 1) if rng.random() < 0.3)
                            V = sorted(j for j in range(k2 + 1) if rng.random() < 0.3)
                            items.append({"b": "b:%s/%s/%s" % (fseq(q2), fseq(I), fseq(V)), "v": "v:%s/%s" % (fseq(q2), fseq(I)),
                                          "k": "k:%s/%s" % (fseq(q2), fseq(V))}[kind])
                    else:
                        c = sorted(rng.sample(range(n), n - rng.randrange(0, 3)))
                        q2 = ml.standardize([p[i] for i in c])
                        sub = ml.sub_shading_big(p, sh, c)
                        qsh = rng.sample(sub, min(len(sub), rng.randrange(0, 4)))
                        if rng.random() < 0.3:
                            qsh.append((rng.randrange(len(c) + 1), rng.randrange(len(c) + 1)))
                        items.append("m:%s/%s" % (fseq(q2), fcells(sorted(set(qsh)))) if rng.random() < 0.7 else "c:" + fseq(q2))
                lines.append("%s %s %s %s" % (rng.choice(["mmcontains", "mmavoids"]), fp, fc, ";".join(items)))
    # near misses that only show far from the start: a band over the whole width with one hole at the far end
    for p, sh, (l, b, r, t), hole in ml.band_cases(rng):
        n = len(p)
        fp, fc = fseq(p), fcells(sh)
        lines.append("isshaded %s %s %d %d %d %d" % (fp, fc, l, b, r, t))
        if hole is not None:
            lines.append("isshaded %s %s %d %d %d %d" % (fp, fc, l, b, max(l, min(r, hole[0] - (r == n))), max(b, min(t, hole[1] - (t == n)))))
        if n <= 70:
            lines.append("submesh %s %s %s" % (fp, fc, fseq(sorted(rng.sample(range(n), rng.randrange(0, 3))))))
            lines.append("meshin %s %s %s %s" % ("_", "0.0", fp, fc))
    return lines


def run(ctx):
    rng = ctx.rng
    quick = ctx.tier == "quick"
    ctx.exhaustive = True
    ctx.exhaustive_bound = ("meshin + meshinS: all pairs of mesh patterns |nu|<=1 x |mu|<=2 over all shadings "
                            "(18 x 1042 pairs); submesh + submeshS: every index subset of every mesh pattern of "
                            "length <=2 (all shadings); semantic oracles range over all permutations up to |mu|+1 "
                            "(meshinS6: up to 6)")
    ctx.compare("corpus", [
        "submesh 3,2,1,0 0.3,1.2,1.3,3.2,4.2,4.3 0,1,3", "submesh 2,3,1,0 0.3,1.2,1.3,3.2,4.2,4.3 1,2,3",
        "meshin 1,0,2 1.2,2.2,2.3 3,1,0,2,4 0.0,0.1,0.2,1.4,2.4,3.3,3.4,3.5,4.0,4.3,4.4,4.5,5.0",
        "meshinS 1,0,2 1.2,2.2,2.3 3,1,0,2,4 0.0,0.1,0.2,1.4,2.4,3.3,3.4,3.5,4.0,4.3,4.4,4.5,5.0",
        "meshin 0 0.0 0 0.1", "submesh _ 0.0 _", "submeshS _ 0.0 _", "meshin _ 0.0 _ 0.0", "meshinS _ 0.0 _ 0.0",
        "meshinS6 _ 0.0 _ 0.0", "mmcontains _ 0.0 m:_/0.0", "mmavoids _ 0.0 m:_/0.0", "submesh 0,1 0.0 _", "submesh _ _ _", "meshin 0 _ 0 0.1", "meshin _ _ _ _", "meshin _ _ 0,1 1.1", "meshin 0 _ _ _",
        "meshin 0 0.0,0.1,1.0,1.1 0 0.0,0.1,1.0,1.1", "meshinS6 0 0.0,0.1 0,1 0.0,0.1,0.2,1.0,1.1,1.2",
        "submesh 0,1 0.0,0.1,0.2,1.0,1.1,1.2,2.0,2.1,2.2 _", "submesh _ _ _", "submesh 0 0.0,0.1,1.0,1.1 0",
        "submeshS 0,1 0.0,0.1,0.2,1.0,1.1,1.2 1", "submesh 0,1,2 1.1,1.2,2.1,2.2 0,2", "submeshS 0,1,2 1.1,1.2,2.1,2.2 0,2",
        "submesh 0,1,2 1.1,1.2,2.1 0,2", "submesh 1,0,2 0.0,0.1,1.0,1.1 2", "submeshS 1,0,2 0.0,0.1,1.0,1.1 2",
        "permin 0,1 0,2,1 1.1", "permin _ 0 0.0", "mmcontains 0,1 1.1 c:0,1;m:0/_", "mmavoids 0,1 1.1 m:0/0.0;c:1,0",
        "mmcontainedin m:0/0.0,0.1,1.0,1.1 0/0.0,0.1,1.0,1.1;0,1/_", "mmcontainedin m:0/_ 0/0.0,0.1,1.0,1.1;0,1/_", "mmavoidedby m:0/0.0 0,1/_;1,0/_",
        "mmcontainedin c:0 0,1/1.1;0/_", "mmcontainedin m:0/0.0 -", "mmavoidedby c:0,1 1,0/_;0,1/1.1", "mmcontainedin m:0,1/1.1 0,1/_;0,1/1.1;0,2,1/_",
        "mmcontains 0 0.1 m:0/0.0", "mmcontains 0 0.1 m:0/_", "mmavoids 0 0.0 m:0/0.1", "mmavoids 0 _ m:0/0.1", "mmavoids 0 0.1 m:0/_",
        "isshaded1 3,2,1,0 0.0,0.1,0.2 0 1", "isshaded 3,2,1,0 0.0,0.1,1.1 0 0 1 1", "isshaded 3,2,1,0 0.0,0.1,1.1,1.2,2.1,2.2 1 1 2 2",
        "ispointfree 4,0,1,2,3 _ 0 2 2 3",
    ])
    # ---- exhaustive: induced sub-patterns of every mesh pattern of length <= 2
    small = []
    for k in range(3):
        for p in ml.perms(k):
            for sh in _subsets(ml.all_cells(k)):
                small.append((p, sh))
    lines = []
    for p, sh in small:
        for idx in _subsets(range(len(p))):
            lines.append("submesh %s %s %s" % (fseq(p), fcells(sh), fseq(idx)))
            lines.append("submeshS %s %s %s" % (fseq(p), fcells(sh), fseq(idx)))
            if len(idx) >= 2:
                # the chosen points are a SET: the same indices handed over in another order
                lines.append("submesh %s %s %s" % (fseq(p), fcells(sh), fseq(tuple(reversed(idx)))))
    ctx.compare("exhaustive-submesh", lines)
    # ---- exhaustive: every pair |nu| <= 1, |mu| <= 2 (all shadings), text oracle and semantic oracle
    nus = [(p, sh) for p, sh in small if len(p) <= 1]
    lines = []
    for p, sh in small:
        for q, qsh in nus:
            lines.append("meshin %s %s %s %s" % (fseq(q), fcells(qsh), fseq(p), fcells(sh)))
            lines.append("meshinS %s %s %s %s" % (fseq(q), fcells(qsh), fseq(p), fcells(sh)))
    ctx.compare("exhaustive-pairs", lines)
    # ---- |nu| = |mu| = 2 : sampled pairs over all shadings; and the full semantic check up to length 6
    two = [m for m in small if len(m[0]) == 2]
    if not quick:
        # thorough: EVERY pair of length-2 mesh patterns (2x512 x 2x512), text oracle; semantic oracle on a seeded third
        full = []
        for p, sh in two:
            for q, qsh in two:
                full.append("meshin %s %s %s %s" % (fseq(q), fcells(qsh), fseq(p), fcells(sh)))
                if rng.random() < 1 / 3:
                    full.append("meshinS %s %s %s %s" % (fseq(q), fcells(qsh), fseq(p), fcells(sh)))
        ctx.compare("exhaustive-pairs-2-2", full)
        ctx.exhaustive_bound += "; thorough: additionally all pairs |nu|=|mu|=2 over all shadings"
    lines = []
    for _ in range(6000 if quick else 20000):
        p, sh = rng.choice(two)
        q, qsh = rng.choice(two)
        if rng.random() < 0.6:
            q = p
            qsh = tuple(c for c in sh if rng.random() < 0.7)
        lines.append("meshin %s %s %s %s" % (fseq(q), fcells(qsh), fseq(p), fcells(sh)))
        lines.append("meshinS %s %s %s %s" % (fseq(q), fcells(qsh), fseq(p), fcells(sh)))
    s6 = []
    for _ in range(300 if quick else 3000):
        p, sh = rng.choice(small)
        sh = _blocky(rng, len(p)) if rng.random() < 0.7 else sh
        for q, qsh in rng.sample(nus, 6):
            s6.append("meshinS6 %s %s %s %s" % (fseq(q), fcells(qsh), fseq(p), fcells(sh)))
    lines.sort(key=lambda l: l.split(" ")[3:])
    s6.sort(key=lambda l: l.split(" ")[3:])
    ctx.compare("pairs-2-2", lines)
    ctx.compare("semantic-upto-6", s6)
    # ---- random: planted sub-patterns, near misses, larger patterns
    R = 8000 if quick else 80000
    lines = []
    for _ in range(R):
        n = rng.choice([2, 3, 3, 3, 4, 4, 4, 5])
        q, qsh, p, sh, c = _planted_pair(rng, n)
        r = rng.random()
        sem = n <= 4 or rng.random() < 0.2
        if r < 0.3:
            if len(c) >= 2 and rng.random() < 0.4:
                c = list(c)
                rng.shuffle(c)
            lines.append("submesh %s %s %s" % (fseq(p), fcells(sh), fseq(c)))
            if sem:
                lines.append("submeshS %s %s %s" % (fseq(p), fcells(sh), fseq(c)))
        elif r < 0.75:
            lines.append("meshin %s %s %s %s" % (fseq(q), fcells(qsh), fseq(p), fcells(sh)))
            if sem:
                lines.append("meshinS %s %s %s %s" % (fseq(q), fcells(qsh), fseq(p), fcells(sh)))
        elif r < 0.8:
            lines.append("permin %s %s %s" % (fseq(q), fseq(p), fcells(sh)))
        elif r < 0.95:
            items = ["m:%s/%s" % (fseq(q), fcells(qsh))]
            for _ in range(rng.randrange(0, 3)):
                k2 = rng.randrange(0, 3)
                q2 = ml.rand_perm(rng, k2)
                kind = rng.choice("cmbvk")
                if kind == "c":
                    items.append("c:" + fseq(q2))
                elif kind == "m":
                    items.append("m:%s/%s" % (fseq(q2), fcells(ml.rand_shading(rng, k2, 4))))
                else:
                    I = sorted(j for j in range(k2 + 1) if rng.random() < 0.3)
                    V = sorted(j for j in range(k2 + 1) if rng.random() < 0.3)
                    items.append({"b": "b:%s/%s/%s" % (fseq(q2), fseq(I), fseq(V)), "v": "v:%s/%s" % (fseq(q2), fseq(I)),
                                  "k": "k:%s/%s" % (fseq(q2), fseq(V))}[kind])
            rng.shuffle(items)
            lines.append("%s %s %s %s" % (rng.choice(["mmcontains", "mmavoids"]), fseq(p), fcells(sh), ";".join(items)))
            # the dual calls: one item against SEVERAL targets (the planted container, sub-patterns of it, small
            # patterns whose underlying permutations sit inside each other with different shadings; seed C06-11)
            tgs = ["%s/%s" % (fseq(p), fcells(sh))]
            for _ in range(rng.randrange(1, 4)):
                k2 = rng.randrange(0, min(n, 3) + 1)
                q2 = ml.rand_perm(rng, k2) if rng.random() < 0.5 else ml.standardize([p[i] for i in sorted(rng.sample(range(n), k2))])
                tgs.append("%s/%s" % (fseq(q2), fcells(ml.rand_shading(rng, k2, rng.choice([0, 0, 2, 4])))))
            rng.shuffle(tgs)
            lines.append("%s %s %s" % (rng.choice(["mmcontainedin", "mmavoidedby"]), items[0], ";".join(tgs)))
        else:
            l, r2 = sorted((rng.randrange(n + 1), rng.randrange(n + 1)))
            b, t = sorted((rng.randrange(n + 1), rng.randrange(n + 1)))
            lines.append("%s %s %s %d %d %d %d" % (rng.choice(["isshaded", "ispointfree"]), fseq(p), fcells(sh), l, b, r2, t))
    lines.sort(key=lambda l: (l.split(" ")[0] in ("meshinS", "submeshS"), l.split(" ")[-2:]))
    ctx.compare("random-planted", lines)
    # ---- large: sizes the other streams never reach
    ctx.compare("large", large_lines(rng, quick))
    # ---- malformed: asserts and index errors of the glue code
    ctx.compare("malformed", [
        "submesh 0,1 _ 1,1", "submesh 0,1 _ 2", "submesh 0,1 1.1 0,5", "submesh 0,1,2 1.1 0,0,1", "submesh _ _ 0",
        "submesh 0,1 0.0,0.1,0.2,1.0,1.1,1.2,2.0,2.1,2.2 0,0",
        "isshaded 0,1 1.1 2 0 1 0", "isshaded 0,1 1.1 0 2 0 1", "isshaded 0,1 1.1 0 0 3 1", "isshaded 0,1 1.1 3 0 3 1",
        "isshaded1 0,1 1.1 3 0", "isshaded1 0,1 1.1 0 3", "isshaded1 0,1 1.1 1 1",
        "ispointfree 0,1 _ 2 0 1 0", "ispointfree 0,1 _ 0 0 3 1", "ispointfree 0,1 _ 0 1 2 0", "ispointfree 0,1 _ 0 0 2 2",
        "mmcontains 0,1 1.1 x", "mmavoids 0,1 1.1 x;x", "mmcontains 0,1 1.1 c:1,0;x", "mmavoids 0,1 1.1 c:0,1;x",
        "mmcontains 0,1 _ m:0/_;x", "meshin 0,1 3.3 0,1 _", "meshin 0,1 _ 0,1 0.3",
    ])
