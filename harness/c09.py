"""C09 - generation, ranking, standardisation and notations (perm.py 40-290, 2114-2133, 3008-3016;
meshpatt.py unrank/rank/of_length)."""
import itertools
import math
from fractions import Fraction

from core import fseq, fseqs, fbool, fcells, pseq, pseqs, pcells, guarded
import past
import used

PROP = "C09"
RULE = ("exhaustive: every rank 0..sum_{n<=N} n! (unrank, rank(unrank)), every permutation of length <= N (rank, "
        "unrank(rank), all notations and their round trips), every (k, n) with n <= 6 and -1 <= k <= n!+2, every sequence "
        "over {0..3} of length <= 5 standardised as ints / strings / floats / fractions / tuples / mixed numbers, every "
        "mesh rank for patterns of length <= 1; random: notations up to length 12, from_integer up to the assert bound, "
        "mesh ranks for length <= 3, memo histories with repeats and an eviction line; malformed: negative lengths/ranks/"
        "counts, non-permutation and non-integer input of the validated constructor, bad characters. "
        "non-trivial = the argument has length >= 2 (generators: n >= 2, ranks: k >= 2, standardisation: a repeated "
        "value or an inversion is present); distinct = distinct op lines"
        ' repr texts: the real repr text of every permutation of length <= N, of tuples over {0,1,3,10} of length <= 3, of '
        'long permutations (<= 1000) and tuples with numerals up to 31 digits, of every shading (in every listing order) of '
        'the patterns of length <= 1 and random shadings up to length 30 is read by eval and by the model parser; malformed '
        'texts = all one-character edits of 13 base texts + token soups.'
        ' Hardening pass 2: stream `large` (every non-enumerating operation at lengths 9-12, 21-40, 64-70, ~200, ~401, ~1000; mesh ranks for patterns of length 4-33); Perm / MeshPatt operands of heavy lines are objects with a past (past.mkperm_u/mkmesh_u, e.g. shade() of a ranked pattern, unrank of a rank, of_length items); arguments of to_standard / one_based are changed after the call.')
ASSUMPTIONS = [
    "model/implementation agreement outside the enumerated and sampled inputs is assumed",
    "itertools.permutations(range(n)) is modelled by Model.permsLex, sorted(key=...) by a stable insertion sort, "
    "bisect_left by the leftmost insertion point, bin()/int() by their arithmetic meaning, lru_cache by a transparent LRU memo",
    "Perm.rank is modelled for permutations only (on other tuples Python's val - ordered_pos can be negative)",
    "from_string / from_iterable_validated(str): ASCII characters only (Python's int() also accepts other Unicode decimal digits)",
    "values handed to to_standard are represented in the model by naturals after an order-preserving encoding",
    "repr texts: Python's eval on the sub-grammar of repr texts is modelled by Model.parseRepr / evalMeshRepr (ASCII "
    "digits; CPython's 4300-digit limit for integer literals is not modelled)",
]
PARTIAL = ["repr_roundtrip: eval(repr(p)) == p is PROVED for the model reading of the text (C09.repr_roundtrip, "
           "parseRepr_only_image / parseRepr_iff, mesh_repr_roundtrip, mesh_repr_eval_ok, parseMeshRepr_only_image: "
           "Model.parseRepr / evalMeshRepr accept exactly the texts repr writes and read them back); what is still only "
           "evaluated by correspondence is that Python's eval, restricted to that sub-grammar (identifier Perm / MeshPatt, "
           "parentheses, tuple display of decimal naturals with the one-element trailing comma, list display of pairs), IS "
           "this parser: streams repr-read (the real repr text of the implementation -> eval vs. model parser), "
           "repr-malformed (edits of repr texts and token soups over the alphabet `Perm(), 0-9 []MeshPatt`: same value "
           "or both reject), *-repr-eval.  Outside the comparison: texts Python reads leniently as a Perm / MeshPatt x "
           "with repr(x) != text (other whitespace, redundant parentheses, trailing commas, Perm(), Perm(Perm(..)), 00, "
           "unsorted / repeated cells) - the model parser rejects them by design, they are dropped from repr-malformed and "
           "counted in the notes; the class of the exception of a rejection is not compared",
           "mesh unrank/rank inverse is stated on shadings as sets of cells (the model lists the frozenset in increasing bit order)"]
TRUSTED = ["CPython bisect, sorted stability, itertools.permutations order, functools.lru_cache, bin, int(str)"]

NMAX = 8
_ALL = None


def worker_init():
    global Perm, MeshPatt
    from permuta import Perm as P, MeshPatt as M
    Perm = P
    MeshPatt = M


# ------------------------------------------------------------------ helpers
def pint(s):
    return None if s == "N" else int(s)


def pstr(s):
    assert s.startswith("s:")
    return s[2:]


def ftext(t):
    """a text with blanks as one protocol token (`~` stands for a blank; the texts never contain `~`)"""
    assert "~" not in t and "\n" not in t
    return "s:" + t.replace(" ", "~")


def ptext(s):
    assert s.startswith("s:")
    return s[2:].replace("~", " ")


def _evaltext(text):
    """Python's `eval` on the text with the two class names in scope; None = rejected with any exception (outside the
    sub-grammar Python raises SyntaxError, TypeError, NameError or the constructor's AssertionError: the class of the
    exception is not compared, a rejection is a rejection)"""
    import warnings
    try:
        with warnings.catch_warnings():
            warnings.simplefilter("ignore")         # (SyntaxWarning "perhaps you missed a comma")
            return eval(text, {"__builtins__": {}, "Perm": Perm, "MeshPatt": MeshPatt})  # pylint: disable=eval-used
    except Exception:  # pylint: disable=broad-except
        return None


def _plainnat(v):
    return type(v) is int and v >= 0


def _read_perm(text):
    """eval(text) as a Perm of plain non-negative ints in our encoding, else NONE"""
    v = _evaltext(text)
    if type(v) is Perm and all(_plainnat(x) for x in v):
        return fseq(v)
    return "NONE"


def _read_mesh(text):
    v = _evaltext(text)
    if type(v) is MeshPatt and type(v.pattern) is Perm and all(_plainnat(x) for x in v.pattern):
        return fmesh(v)
    return "NONE"


def lenient(text):
    """Python reads the text as a Perm / MeshPatt x although it is not the canonical spelling repr(x) (other
    whitespace, redundant parentheses, trailing commas, Perm(), Perm(Perm(..)), 00, lists that are unsorted or
    repeat a cell, keyword-free variants ...): outside the modelled sub-grammar, excluded from `repr-malformed`"""
    v = _evaltext(text)
    return type(v) in (Perm, MeshPatt) and repr(v) != text


def fints(l):
    l = list(l)
    return "_" if not l else ",".join(str(int(x)) for x in l)


def pints(s):
    return [] if s == "_" else [int(x) for x in s.split(",")]


def pvals(s):
    if s == "_":
        return []
    out = []
    for t in s.split(","):
        if t == "N":
            out.append(None)
        elif t == "x":
            out.append("x")
        elif t == "f":
            out.append(1.0)
        else:
            out.append(int(t))
    return out


def fmesh(m):
    return "%s/%s" % (fseq(m.pattern), fcells(m.shading))


def fmeshes(ms):
    ms = list(ms)
    return "-" if not ms else ";".join(fmesh(m) for m in ms)


KINDS = ("int", "neg", "str", "float", "frac", "tuple", "mixed", "gen", "onestr")


def encode(kind, seq):
    """order-preserving injections of the naturals into other comparable Python values"""
    if kind == "int":
        return list(seq)
    if kind == "neg":
        return tuple(v - 2 for v in seq)
    if kind == "str":
        return [chr(97 + v) * (1 + v % 2) for v in seq]
    if kind == "onestr":
        return "".join(chr(97 + v) for v in seq)
    if kind == "float":
        return [v * 0.5 - 1.0 for v in seq]
    if kind == "frac":
        return [Fraction(v, 3) for v in seq]
    if kind == "tuple":
        return [(v // 2, v % 2) for v in seq]
    if kind == "mixed":
        return [(v // 2) if v % 2 == 0 else v / 2 for v in seq]
    if kind == "gen":
        return (v for v in seq)
    raise ValueError(kind)


# ------------------------------------------------------------------ used objects / call histories
def _P(tok):  # noqa: E302
    """the permutation object of a line: built once per line and used before the call under test (hashed,
    compared, searched with, ranked, printed)"""
    def warm(p):
        used.warm_perm(p, 1 if len(p) <= 100 else 0)     # (a search in a one-longer permutation costs seconds at 1000)
        if used.is_perm(p):
            used.quiet(p.rank)
            used.quiet(str, p)
            used.quiet(repr, p)
            used.quiet(lambda: p < Perm.identity(len(p)))
    return used.obj(("P", tok), lambda: _mkP(pseq(tok)), warm if _HEAVY[0] else None)


def _mkP(seq, salt=0):
    """heavy lines: the object is one with a past (fresh / used / derived from a used object by another API route)"""
    if _HEAVY[0] and (len(seq) > 8 or used.digest("P", [str(seq)]) % 2 == 0) and used.is_perm(seq):
        return past.mkperm_u(seq, salt, lambda x: (x.rank() if len(x) <= 40 else None, str(x), repr(x), x < x))
    return Perm(seq)


def _M(ptok, ctok):
    def warm(m):
        used.warm_mesh(m, 1)
        used.quiet(m.rank)
        used.quiet(repr, m)
    def make():
        if _HEAVY[0] and used.is_perm(pseq(ptok)):
            # (mkmesh_u hands back the requested value: among its routes are shade() from a base that has been ranked,
            # unrank of the rank of a used object, an item of of_length, add_point + sub_mesh_pattern)
            return past.mkmesh_u(pseq(ptok), pcells(ctok), 1)
        return MeshPatt(Perm(pseq(ptok)), pcells(ctok))
    return used.obj(("M", ptok, ctok), make, warm if _HEAVY[0] else None)


def _neighbours(op, a):
    """the generators / class-level functions under test are first used with a DIFFERENT nearby argument, and one
    iterator of the kind under test is created, advanced by one item and abandoned"""
    q = used.quiet
    if op in ("oflen", "upto", "first", "ident"):
        n = int(a[0])
        f = {"oflen": Perm.of_length, "upto": Perm.up_to_length, "first": Perm.first, "ident": Perm.identity}[op]
        if op != "ident":
            used.sip(lambda: f(n))
            used.sip(lambda: f(n + 1), 2)
            used.sip(lambda: f(max(n - 1, 0)), 3)
            used.sip(lambda: Perm.first(n + 2), n + 2 if n < 30 else 1)
        else:
            q(lambda: f(n + 1))
    elif op in ("unrank", "rankunrank"):
        k = int(a[0])
        n = pint(a[1]) if op == "unrank" else None
        if n is None:
            q(lambda: Perm.unrank(k + 1))
            q(lambda: Perm.unrank(max(k - 1, 0)))
            q(lambda: Perm.unrank(k + 7))
        elif 0 <= n <= 12:
            q(lambda: Perm.unrank(k + 1, n))
            q(lambda: Perm.unrank(k, n + 1))
            q(lambda: Perm.unrank(0, n))
    elif op == "std":
        s = pseq(a[1])
        q(lambda: Perm.to_standard(encode(a[0], s[::-1])))
        q(lambda: Perm.to_standard(encode("int", s)))
        q(lambda: Perm.to_standard(encode(a[0], s[:-1])))
    elif op in ("fromint", "intrt0", "intrt1"):
        q(lambda: Perm.from_integer(21))
        q(lambda: Perm.from_integer(102))
    elif op in ("fromstr", "strrt", "validatedstr"):
        q(lambda: Perm.from_string("10"))
        q(lambda: Perm.from_iterable_validated("021"))
    elif op in ("munrank", "mrankunrank"):
        p = _P(a[0])
        q(lambda: MeshPatt.unrank(p, int(a[1]) + 1))
        q(lambda: MeshPatt.unrank(p, 0))
        q(lambda: MeshPatt.unrank(p.reverse(), int(a[1])))
    elif op in ("moflen", "moflenset"):
        n = int(a[0])
        if 0 <= n <= 3:
            used.sip(lambda: MeshPatt.of_length(n))
            if len(a) > 1 and a[1] != "N":
                p = _P(a[1])
                used.sip(lambda: MeshPatt.of_length(n, p), 2)
                used.sip(lambda: MeshPatt.of_length(n, p.reverse()), 3)
            used.sip(lambda: MeshPatt.of_length(n + 1), 2)


_ONCE = ("stdhist", "validok", "moflenset", "gendig")
_GEN = ("oflen", "upto", "first", "moflen", "moflenset")
_HEAVY = [False]


def impl(op, a):
    used.begin()
    # every generator line and a deterministic third of the other lines get the used-object treatment
    _HEAVY[0] = op in _GEN or used.sel(op, a, 3)
    if not _HEAVY[0]:
        return _impl(op, a)
    try:
        _neighbours(op, a)
    except Exception:  # pylint: disable=broad-except
        pass
    r1 = _impl(op, a)
    if op in _ONCE or (op in ("oflen", "upto") and a[0].lstrip("-").isdigit() and int(a[0]) >= 7):
        return r1
    if used.sel(op, a, 16):
        used.ghosts([o for _, o in used.T.objs][:2], 6)     # short-lived siblings created, used and dropped in between
    used.T.rewind()
    r2 = _impl(op, a)       # once more, on the same (now used) objects
    return r1 if r1 == r2 else used.unstable(r1, r2)


# ------------------------------------------------------------------ implementation
def _digest(it):
    """count, last element and rolling digest of a listing (same arithmetic as Driver.C09.digest)"""
    h, c, last = 7, 0, ()
    for p in it:
        h = (h * 31) % 1000000007
        for v in p:
            h = (h * 31 + v + 1) % 1000000007
        c += 1
        last = tuple(p)
    return "%d %s %d" % (c, fseq(last), h)


def _impl(op, a):
    if op == "gendig":
        f = {"oflen": Perm.of_length, "upto": Perm.up_to_length}[a[0]]
        return guarded(lambda: _digest(f(int(a[1]))))
    if op == "oflen":
        return guarded(lambda: fseqs(Perm.of_length(int(a[0]))))
    if op == "upto":
        return guarded(lambda: fseqs(Perm.up_to_length(int(a[0]))))
    if op == "first":
        return guarded(lambda: fseqs(Perm.first(int(a[0]))))
    if op == "unrank":
        k, n = int(a[0]), pint(a[1])
        return guarded(lambda: fseq(Perm.unrank(k) if n is None else Perm.unrank(k, n)))
    if op == "rank":
        return guarded(lambda: str(_P(a[0]).rank()))
    if op == "rankunrank":
        return guarded(lambda: str(Perm.unrank(int(a[0])).rank()))
    if op == "unrankrank":
        return guarded(lambda: fseq(Perm.unrank(_P(a[0]).rank())))
    if op == "lt":
        return guarded(lambda: fbool(_P(a[0]) < _P(a[1])))
    if op == "ident":
        return guarded(lambda: fseq(getattr(Perm, past.alias("identity", tuple(a)))(int(a[0]))))
    if op == "std":
        def std():
            v = encode(a[0], pseq(a[1]))
            r = getattr(Perm, past.alias("to_standard", tuple(a)))(v)
            out = fseq(r)
            if _HEAVY[0] and isinstance(v, list) and v:
                # the list that was passed in is changed afterwards; a fresh call with the old content must not notice
                v.append(v[0])
                v.reverse()
                r2 = fseq(getattr(Perm, past.alias("to_standard", (tuple(a), 2)))(encode(a[0], pseq(a[1]))))
                if r2 != out or fseq(r) != out:
                    return used.unstable(out, r2)
            return out
        return guarded(std)
    if op == "stdhist":
        def f():
            outs = []
            for i, s in enumerate(pseqs(a[0])):
                r = [Perm.to_standard, Perm.standardize, Perm.from_iterable][i % 3](s)
                # use the (shared, memoised) object as a pattern so that it caches its details
                r.occurrences_in(Perm.identity(len(r) + 1))
                outs.append(fseq(r))
            return "|".join(outs)
        return guarded(f)
    if op == "fromint":
        return guarded(lambda: fseq(Perm.from_integer(int(a[0]))))
    if op == "fromstr":
        return guarded(lambda: fseq(Perm.from_string(pstr(a[0]))))
    if op == "onebased":
        def ob():
            v = pints(a[0])
            r = getattr(Perm, past.alias("one_based", tuple(a)))(v)
            out = fints(r)
            v.clear()                     # argument and result are destroyed: the next call starts from scratch
            used.scrub(r)
            return out
        return guarded(ob)
    if op == "validated":
        return guarded(lambda: fseq(Perm.from_iterable_validated(pvals(a[0]))))
    if op == "validok":
        def g():
            try:
                Perm.from_iterable_validated(pvals(a[0]))
                return "T"
            except (TypeError, ValueError):
                return "F"
        return guarded(g)
    if op == "validatedstr":
        return guarded(lambda: fseq(Perm.from_iterable_validated(pstr(a[0]))))
    if op == "str":
        return guarded(lambda: str(_P(a[0])))
    if op == "repr":
        return guarded(lambda: repr(_P(a[0])))
    if op == "reprparse":
        return guarded(lambda: _read_perm(ptext(a[0])))
    if op == "reprread":
        def rr():
            t = repr(_P(a[0]))
            return _read_perm(t) if t == ptext(a[1]) else "TEXT:" + t
        return guarded(rr)
    if op == "mrepr":
        return guarded(lambda: repr(_M(a[0], a[1])))
    if op == "mreprparse":
        return guarded(lambda: _read_mesh(ptext(a[0])))
    if op == "mreprread":
        def mr():
            t = repr(_M(a[0], a[1]))
            return _read_mesh(t) if t == ptext(a[2]) else "TEXT:" + t
        return guarded(mr)
    if op == "strrt":
        return guarded(lambda: fseq(Perm.from_string(str(_P(a[0])))))
    if op == "reprrt":
        return guarded(lambda: fseq(eval(repr(_P(a[0])), {"Perm": Perm})))
    if op == "intrt0":
        return guarded(lambda: fseq(Perm.from_integer(int("".join(str(v) for v in pseq(a[0]))))))
    if op == "intrt1":
        return guarded(lambda: fseq(Perm.from_integer(int("".join(str(v + 1) for v in pseq(a[0]))))))
    if op == "onert":
        return guarded(lambda: fints(getattr(Perm, past.alias("one_based", tuple(a)))(v + 1 for v in pseq(a[0]))))
    if op == "munrank":
        return guarded(lambda: fmesh(MeshPatt.unrank(_P(a[0]), int(a[1]))))
    if op == "mrank":
        return guarded(lambda: str(_M(a[0], a[1]).rank()))
    if op == "mrankunrank":
        return guarded(lambda: str(MeshPatt.unrank(_P(a[0]), int(a[1])).rank()))
    if op == "munrankrank":
        return guarded(lambda: fmesh(MeshPatt.unrank(_P(a[0]), _M(a[0], a[1]).rank())))
    if op == "moflen":
        n = int(a[0])
        return guarded(lambda: fmeshes(MeshPatt.of_length(n) if a[1] == "N" else MeshPatt.of_length(n, _P(a[1]))))
    if op == "moflenset":
        n = int(a[0])
        return guarded(lambda: ";".join(sorted(fmesh(m) for m in MeshPatt.of_length(n))))
    raise ValueError("unknown op " + op)


# ------------------------------------------------------------------ oracle (from the property text)
def all_perms():
    """all permutations of length <= NMAX sorted by (length, tuple); rank = index in this list"""
    global _ALL
    if _ALL is None:
        lst = []
        for n in range(NMAX + 1):
            lst.extend(itertools.permutations(range(n)))
        lst.sort(key=lambda t: (len(t), t))
        _ALL = (lst, {p: i for i, p in enumerate(lst)})
    return _ALL


def level(n):
    return sorted(itertools.permutations(range(n)))


def std_oracle(vals):
    """the unique permutation order-isomorphic to vals with ties broken left to right (stable sort)"""
    order = sorted(range(len(vals)), key=lambda i: (vals[i], i))
    res = [0] * len(vals)
    for r, i in enumerate(order):
        res[i] = r
    return tuple(res)


def is_perm(t):
    return all(isinstance(v, int) for v in t) and sorted(t) == list(range(len(t)))


def oracle(op, a):
    if op == "gendig":
        n = int(a[1])
        if n < 0:
            return None
        rng_ = range(n, n + 1) if a[0] == "oflen" else range(n + 1)
        return _digest(t for k in rng_ for t in itertools.permutations(range(k)))
    lst, idx = all_perms()
    if op == "oflen":
        n = int(a[0])
        return fseqs(level(n)) if 0 <= n <= NMAX else None
    if op == "upto":
        n = int(a[0])
        return fseqs(p for p in lst if len(p) <= n) if 0 <= n <= NMAX else None
    if op == "first":
        k = int(a[0])
        return fseqs(lst[:k]) if 0 <= k <= len(lst) else None
    if op == "unrank":
        k, n = int(a[0]), pint(a[1])
        if n is None:
            return fseq(lst[k]) if 0 <= k < len(lst) else None
        if 0 <= n <= NMAX and 0 <= k < math.factorial(n):
            return fseq(level(n)[k])
        if n >= 0 and (k < 0 or k >= math.factorial(n)):
            return "ERR:AssertionError"     # out of range must be rejected (the code's way: assert)
        return None
    if op == "rank":
        p = pseq(a[0])
        return str(idx[p]) if p in idx else None
    if op == "rankunrank":
        k = int(a[0])
        return str(k) if k >= 0 else None
    if op == "unrankrank":
        p = pseq(a[0])
        return fseq(p) if is_perm(p) else None
    if op == "lt":
        p, q = pseq(a[0]), pseq(a[1])
        if p in idx and q in idx:
            return fbool(idx[p] < idx[q])
        if is_perm(p) and is_perm(q):
            return fbool((len(p), p) < (len(q), q))
        return None
    if op == "ident":
        n = int(a[0])
        return fseq(range(n)) if n >= 0 else None
    if op == "std":
        return fseq(std_oracle(pseq(a[1])))
    if op == "stdhist":
        return "|".join(fseq(std_oracle(s)) for s in pseqs(a[0]))
    if op == "fromint":
        i = int(a[0])
        if 0 < i <= 9876543210:
            return fseq(std_oracle([int(c) for c in str(i)]))
        return None
    if op == "fromstr":
        s = pstr(a[0])
        if s == "\u03b5":
            return "_"
        return fseq(int(c) for c in s) if all(c in "0123456789" for c in s) else None
    if op == "onebased":
        return fints(v - 1 for v in pints(a[0]))
    if op == "validated":
        v = pvals(a[0])
        return fseq(v) if is_perm(v) else None
    if op == "validok":
        return fbool(is_perm(pvals(a[0])))
    if op == "validatedstr":
        s = pstr(a[0])
        if all(c in "0123456789" for c in s) and is_perm([int(c) for c in s]):
            return fseq(int(c) for c in s)
        return None
    if op == "strrt":
        p = pseq(a[0])
        return fseq(p) if is_perm(p) and len(p) <= 10 else None
    if op in ("reprrt", "onert", "reprread"):
        return fseq(pseq(a[0]))         # eval(repr(p)) == p
    if op == "mreprread":
        p, c = pseq(a[0]), pcells(a[1])
        if all(0 <= x <= len(p) and 0 <= y <= len(p) for x, y in c):
            return "%s/%s" % (fseq(p), fcells(set(c)))
        return None
    if op == "repr":
        p = pseq(a[0])
        inner = "()" if not p else "(%d,)" % p[0] if len(p) == 1 else "(" + ", ".join(map(str, p)) + ")"
        return "Perm(%s)" % inner
    if op == "str":
        p = pseq(a[0])
        if not p:
            return "\u03b5"
        return None
    if op == "intrt1":
        p = pseq(a[0])
        return fseq(p) if is_perm(p) and 1 <= len(p) <= 9 else None
    if op == "intrt0":
        p = pseq(a[0])
        return fseq(p) if is_perm(p) and 1 <= len(p) <= 10 and (p[0] != 0 or len(p) == 1) else None
    if op == "munrank":
        return None     # the bit layout is the code's choice; the property constrains the bijection (ops below)
    if op == "mrank":
        return None
    if op == "mrankunrank":
        p, k = pseq(a[0]), int(a[1])
        return str(k) if 0 <= k < 2 ** ((len(p) + 1) ** 2) else None
    if op == "munrankrank":
        p, c = pseq(a[0]), pcells(a[1])
        return "%s/%s" % (fseq(p), fcells(set(c)))
    if op == "moflenset":
        n = int(a[0])
        cells = [(x, y) for x in range(n + 1) for y in range(n + 1)]
        out = []
        for p in itertools.permutations(range(n)):
            for r in range(len(cells) + 1):
                for sub in itertools.combinations(cells, r):
                    out.append("%s/%s" % (fseq(p), fcells(sub)))
        return ";".join(sorted(out))
    return None


def nontrivial(op, a, out):
    if op == "gendig":
        return int(a[1]) >= 2
    if op in ("oflen", "upto", "ident"):
        return int(a[0]) >= 2
    if op in ("first", "rankunrank"):
        return int(a[0]) >= 2
    if op == "unrank":
        return int(a[0]) >= 1 and (a[1] == "N" or int(a[1]) >= 2)
    if op in ("rank", "unrankrank", "str", "repr", "strrt", "reprrt", "intrt0", "intrt1", "onert"):
        return len(pseq(a[0])) >= 2
    if op == "lt":
        return len(pseq(a[0])) >= 2 and len(pseq(a[1])) >= 2 and a[0] != a[1]
    if op == "std":
        s = pseq(a[1])
        return len(s) >= 2 and (len(set(s)) < len(s) or list(s) != sorted(s))
    if op == "stdhist":
        return len(pseqs(a[0])) >= 2
    if op == "fromint":
        return abs(int(a[0])) >= 10
    if op in ("fromstr", "validatedstr"):
        return len(pstr(a[0])) >= 2
    if op in ("onebased", "validated", "validok"):
        return a[0].count(",") >= 1
    if op in ("munrank", "mrankunrank"):
        return int(a[1]) >= 1
    if op in ("mrank", "munrankrank", "mrepr", "mreprread"):
        return a[1] != "_"
    if op == "reprread":
        return len(pseq(a[0])) >= 2
    if op in ("reprparse", "mreprparse"):
        return len(a[0]) >= 10
    if op in ("moflen", "moflenset"):
        return int(a[0]) >= 1
    return True


# ------------------------------------------------------------------ generators
def rand_perm(rng, n):
    l = list(range(n))
    rng.shuffle(l)
    return tuple(l)


def structured_perm(rng, n):
    """identity / reverse / last of its leading block / random"""
    m = rng.randrange(5)
    if m == 0:
        return tuple(range(n))
    if m == 1:
        return tuple(range(n - 1, -1, -1))
    if m == 2 and n >= 2:      # first or last permutation with a given first entry
        f = rng.randrange(n)
        rest = [v for v in range(n) if v != f]
        if rng.random() < 0.5:
            rest.reverse()
        return (f,) + tuple(rest)
    return rand_perm(rng, n)


def run(ctx):
    rng = ctx.rng
    quick = ctx.tier == "quick"
    N = 7 if quick else 8
    lst, _ = all_perms()
    total = sum(math.factorial(n) for n in range(N + 1))
    ctx.exhaustive = True
    ctx.exhaustive_bound = ("ranks 0..%d (= sum_{n<=%d} n!) and all permutations of length <= %d; unrank(k, n) for all n <= 6, "
                            "-1 <= k <= n!+2; to_standard of all sequences over {0..3} of length <= 5 in %d value kinds; "
                            "mesh unrank/rank of every rank for patterns of length <= 1, of_length for length <= %d"
                            % (total - 1, N, N, len(KINDS), 1 if quick else 2))
    perms = [p for p in lst if len(p) <= N]

    ctx.compare("corpus", [
        "unrank 0 N", "unrank 1 N", "unrank 2 N", "unrank 3 N", "unrank 4 N", "unrank 5 N", "unrank 1 3", "unrank 0 0",
        "unrank 0 5", "unrank 1 0", "unrank 1 1", "unrank 0 1", "unrank 5 3", "unrank 6 3", "unrank 23 4", "unrank 24 4",
        "rank 0,1", "rank 0,2,1,3", "rank _", "rank 0", "first 5", "first 0", "first 1", "upto 2", "oflen 2", "oflen 0",
        "std onestr 0,2,6,18,21,3", "std onestr 2,0,0,1,0", "std int _", "fromint 123", "fromint 321", "fromint 201",
        "fromint 0", "fromint 10", "fromint 1", "fromint 9876543210", "fromint 1023456789", "fromint 100", "fromint 1122",
        "fromstr s:203451", "fromstr s:40132", "fromstr s:\u03b5", "fromstr s:", "onebased 4,1,3,2", "validated 0,4,1,3,2",
        "validatedstr s:04132", "validated 2,3,1", "validated 2,1,1", "validated 2,N,1", "str _", "str 0", "repr _",
        "repr 0", "repr 1,0", "str 0,1,2,3,4,5,6,7,8,9", "str 0,1,2,3,4,5,6,7,8,9,10", "str 10,0,1,2,3,4,5,6,7,8,9",
        "strrt 9,8,7,6,5,4,3,2,1,0", "strrt 0,1,2,3,4,5,6,7,8,9,10", "intrt0 0,1", "intrt0 1,0", "intrt0 0", "intrt1 0",
        "intrt0 9,8,7,6,5,4,3,2,1,0", "intrt1 8,7,6,5,4,3,2,1,0", "intrt0 0,9,8,7,6,5,4,3,2,1",
        "munrank 0,1,2 386", "mrank 1,0,2 0.0,3.0,0.2,2.1,2.3,1.2,3.3,3.1,1.1", "munrank _ 0", "munrank _ 1", "munrank _ 2",
        "moflen 0 N", "lt _ 0", "lt 0 _", "lt 1,0 0,1,2", "lt 0,1,2 1,0", "lt 0,1 0,1", "ident 0", "ident 4",
    ])

    # ---- generators
    lines = []
    for n in range(N + 1):
        lines += ["oflen %d" % n, "upto %d" % n, "ident %d" % n]
    offs = [sum(math.factorial(j) for j in range(n)) for n in range(N + 2)]
    ks = set(range(0, 161)) | {o + d for o in offs for d in (-1, 0, 1) if 0 <= o + d <= total}
    ks |= {rng.randrange(total + 1) for _ in range(10 if quick else 60)}
    lines += ["first %d" % k for k in sorted(ks)]
    # beyond the lengths whose listings are printed: count, last element and a rolling digest of the whole listing
    # (a wrong entry in a table of counts, a level cut short or repeated shows here; seed C09-11)
    for n in range(N + 1, (10 if quick else 11)):
        lines += ["gendig oflen %d" % n, "gendig upto %d" % n]
    lines += ["gendig upto 3", "gendig oflen 4"]
    ctx.compare("generators", lines)

    # ---- ranks
    lines = []
    for k in range(total):
        lines.append("unrank %d N" % k)
        lines.append("rankunrank %d" % k)
    for p in perms:
        fp = fseq(p)
        lines.append("rank " + fp)
        lines.append("unrankrank " + fp)
    for n in range(7):
        for k in range(-1, math.factorial(n) + 3):
            lines.append("unrank %d %d" % (k, n))
    ctx.compare("exhaustive-ranks", lines)

    lines = []
    small = [p for p in lst if len(p) <= 4]
    for p in small:
        for q in small:
            lines.append("lt %s %s" % (fseq(p), fseq(q)))
    for i in range(len(perms) - 1):
        lines.append("lt %s %s" % (fseq(perms[i]), fseq(perms[i + 1])))
        lines.append("lt %s %s" % (fseq(perms[i + 1]), fseq(perms[i])))
    ctx.compare("exhaustive-lt", lines)

    R = 1500 if quick else 20000
    lines = []
    for _ in range(R):
        n = rng.randrange(2, 16)
        p = structured_perm(rng, n)
        r = rng.random()
        if r < 0.3:
            lines.append("rank " + fseq(p))
        elif r < 0.6:
            lines.append("unrankrank " + fseq(p))
        elif r < 0.75:
            q = structured_perm(rng, rng.choice([n, n, n - 1, n + 1]))
            if rng.random() < 0.3:      # share a long prefix
                q = list(p)
                i = rng.randrange(n - 1)
                q[i], q[i + 1] = q[i + 1], q[i]
                q = tuple(q)
            lines.append("lt %s %s" % (fseq(p), fseq(q)))
        else:
            n = rng.randrange(0, 14)
            f = math.factorial(n)
            k = rng.choice([0, 1, f - 1, f, f + 1, rng.randrange(f), rng.randrange(f)])
            lines.append("unrank %d %d" % (k, n))
    for _ in range(R // 3):
        # boundary ranks of large levels: offset(n) - 1, offset(n), last of the level
        n = rng.randrange(8, 16)
        o = sum(math.factorial(j) for j in range(n))
        k = rng.choice([o - 1, o, o + 1, o + math.factorial(n) - 1, o + rng.randrange(math.factorial(n))])
        lines.append("unrank %d N" % k)
        lines.append("rankunrank %d" % k)
    ctx.compare("random-ranks", lines)
    # lengths far beyond what any table of precomputed factorials would hold (16..40)
    lines = []
    for _ in range(max(60, R // 10)):
        n = rng.randrange(16, 41)
        p = structured_perm(rng, n)
        lines.append("rank " + fseq(p))
        lines.append("unrankrank " + fseq(p))
        o = sum(math.factorial(j) for j in range(n))
        f = math.factorial(n)
        k = rng.choice([0, f - 1, rng.randrange(f)])
        lines.append("unrank %d %d" % (k, n))
        lines.append("unrank %d N" % (o + k))
        lines.append("rankunrank %d" % (o + k))
    lines += ["rank " + fseq(range(n)) for n in range(16, 41)] + ["rank " + fseq(range(n - 1, -1, -1)) for n in range(16, 41)]
    ctx.compare("long-ranks", lines)

    # ---- sizes the other streams never reach: every operation that does not enumerate a whole level, at the scales
    # 9-12, 21-40, 64-70 and a handful of lines around 200, 401 and 1000 (measured: implementation, oracle and model
    # need < 0.1 s per line everywhere; the oracle formulas are the same as for short inputs)
    lines = []
    scales = [(9, 12, 28), (21, 40, 20), (64, 70, 8), (199, 202, 2), (400, 403, 2), (999, 1001, 1)]
    for lo, hi, cnt in scales:
        for _ in range(cnt if quick else cnt * 6):
            n = rng.randrange(lo, hi + 1)
            p = structured_perm(rng, n)
            fp = fseq(p)
            for op in ("str", "repr", "strrt", "onert", "validated", "rank", "unrankrank"):
                lines.append("%s %s" % (op, fp))
            # partners that differ from p only near the end / only in where the largest values sit
            q = list(p)
            i = rng.choice([n - 2, n - 3, 0, rng.randrange(n - 1)])
            q[i], q[i + 1] = q[i + 1], q[i]
            lines.append("lt %s %s" % (fp, fseq(q)))
            lines.append("lt %s %s" % (fseq(q), fp))
            lines.append("lt %s %s" % (fp, fseq(structured_perm(rng, rng.choice([n - 1, n, n + 1])))))
            lines.append("ident %d" % n)
            f = math.factorial(n)
            o = sum(math.factorial(j) for j in range(n))
            for k in (0, f - 1, f, rng.randrange(f)):
                lines.append("unrank %d %d" % (k, n))
            for k in (o - 1, o, o + f - 1, o + rng.randrange(f)):
                lines.append("unrank %d N" % k)
                lines.append("rankunrank %d" % k)
            hi_v = rng.choice([2, 3, n // 2, n, 3 * n])
            vals = [rng.randrange(hi_v) for _ in range(n)]
            if rng.random() < 0.5:          # a tie between the first and the last entry, a strict maximum in between
                vals[0] = vals[-1] = rng.randrange(hi_v)
                vals[n // 2] = hi_v
            for kind in rng.sample(KINDS, 3):
                if kind == "onestr" and max(vals) > 25:
                    kind = "int"
                lines.append("std %s %s" % (kind, fseq(vals)))
            lines.append("onebased " + fints(v + 1 for v in p))
    for n in (4, 5, 6, 7, 8, 10, 11, 12, 21, 33):
        bits = (n + 1) ** 2
        for _ in range(3 if quick else 30):
            p = structured_perm(rng, n)
            ks = [0, 1, 2 ** bits - 1, 2 ** bits, 1 << (bits - 1), 1 << rng.randrange(bits), rng.randrange(2 ** bits),
                  sum(1 << (x * (n + 1) + y) for x in (0, n) for y in range(n + 1)),       # first and last column
                  sum(1 << (x * (n + 1) + y) for x in range(n + 1) for y in (0, n))]       # first and last row
            for k in ks:
                lines.append("munrank %s %d" % (fseq(p), k))
                lines.append("mrankunrank %s %d" % (fseq(p), k))
            for dens in (0.05, 0.5):
                cells = [(x, y) for x in range(n + 1) for y in range(n + 1) if rng.random() < dens] + [(n, n), (0, n)]
                rng.shuffle(cells)
                lines.append("mrank %s %s" % (fseq(p), fcells(cells, sort=False)))
                lines.append("munrankrank %s %s" % (fseq(p), fcells(cells, sort=False)))
    ctx.compare("large", [l for l in lines if not l.startswith("reprrt ")])

    # ---- standardisation
    lines = []
    for n in range(6):
        for s in itertools.product(range(4), repeat=n):
            fs = fseq(s)
            for kind in KINDS:
                lines.append("std %s %s" % (kind, fs))
    ctx.compare("exhaustive-std", lines)
    lines = []
    for _ in range(R):
        n = rng.randrange(2, 14)
        hi = rng.choice([2, 3, n, 25])
        s = [rng.randrange(hi) for _ in range(n)]
        lines.append("std %s %s" % (rng.choice(KINDS), fseq(s)))
    for _ in range(R // 5):
        pool = [tuple(rng.randrange(rng.choice([2, 4])) for _ in range(rng.randrange(0, 6))) for _ in range(rng.randrange(1, 5))]
        hist = [rng.choice(pool) for _ in range(rng.randrange(2, 9))]
        lines.append("stdhist " + fseqs(hist))
    ctx.compare("random-std", lines)
    # one history long enough to overflow the LRU cache (maxsize 10000), then re-query evicted and retained keys
    many = [(i // 1000, (i // 100) % 10, (i // 10) % 10, i % 10, 3) for i in range(10020)]
    ctx.compare("memo-eviction", ["stdhist " + fseqs(many[:10] + many + many[:15] + many[-15:])])

    # ---- notations
    lines = []
    for p in perms:
        fp = fseq(p)
        for op in ("str", "repr", "strrt", "reprrt", "onert"):
            lines.append("%s %s" % (op, fp))
        lines.append("validated " + fp)
        if p:
            lines.append("intrt0 " + fp)
            lines.append("intrt1 " + fp)
            lines.append("fromstr s:" + "".join(map(str, p)))
            lines.append("validatedstr s:" + "".join(map(str, p)))
    ctx.compare("exhaustive-notations", [l for l in lines if not l.startswith("reprrt ")])
    ctx.compare("exhaustive-repr-eval", [l for l in lines if l.startswith("reprrt ")], use_model=False)
    lines = ["fromint %d" % i for i in range(0, 2200)]
    for _ in range(R):
        n = rng.randrange(8, 13)
        p = structured_perm(rng, n)
        fp = fseq(p)
        op = rng.choice(["str", "repr", "strrt", "reprrt", "onert", "validated", "intrt0", "intrt1"])
        if (op == "intrt0" and n > 10) or (op == "intrt1" and n > 9):
            op = "strrt"
        lines.append("%s %s" % (op, fp))
        d = rng.randrange(1, 11)
        i = rng.randrange(10 ** (d - 1), 10 ** d)
        if rng.random() < 0.3:
            i = int("".join(rng.choice("0129") for _ in range(d)) or "0")
        lines.append("fromint %d" % min(i, 9876543210 + 2))
    lines += ["fromint %d" % i for i in (9876543209, 9876543210, 9876543211, 9999999999, 10 ** 10, -1, -123)]
    ctx.compare("random-notations", [l for l in lines if not l.startswith("reprrt ")])
    ctx.compare("random-repr-eval", [l for l in lines if l.startswith("reprrt ")], use_model=False)

    # ---- repr texts read back: the REAL repr text of the implementation (computed here, on this tree) is handed to
    # Python's eval (implementation side) and to the model's parser Model.parseRepr / evalMeshRepr (model side)
    from permuta import Perm as RP, MeshPatt as RM        # pylint: disable=import-outside-toplevel
    worker_init()                                           # (lenient() below evaluates texts in this process)
    lines = []
    seqs = list(perms)
    seqs += [s_ for n in range(4) for s_ in itertools.product((0, 1, 3, 10), repeat=n)]       # any tuple of naturals
    for _ in range(60 if quick else 600):
        n = rng.choice([1, 2, 3, 9, 10, 11, 12, 21, 40, 99, 100, 101, 120])
        seqs.append(structured_perm(rng, n))
        seqs.append(tuple(rng.choice([0, 9, 10, 99, 100, 10 ** 18, 10 ** 30 + 7, rng.randrange(10 ** rng.randrange(1, 25))])
                          for _ in range(rng.randrange(1, 6))))
    seqs += [structured_perm(rng, n) for n in ((200, 401, 1000) if quick else (200, 401, 1000, 1001, 2500))]
    for q in seqs:
        lines.append("reprread %s %s" % (fseq(q), ftext(repr(RP(q)))))
    meshes = []
    for q in [(), (0,)]:
        cells = [(x, y) for x in range(len(q) + 1) for y in range(len(q) + 1)]
        for r in range(len(cells) + 1):
            for sub in itertools.permutations(cells, r):            # every subset, handed over in every order
                meshes.append((q, sub))
    for _ in range(300 if quick else 3000):
        n = rng.choice([2, 2, 3, 3, 4, 5, 9, 10, 11, 12, 30])
        q = structured_perm(rng, n)
        dens = rng.choice([0.03, 0.2, 0.5, 1.0])
        cells = [(x, y) for x in range(n + 1) for y in range(n + 1) if rng.random() < dens]
        if rng.random() < 0.3:
            cells += [(n, n), (0, n), (n, 0), (n - 1, n), (n, n - 1)]           # (two-digit coordinates at n >= 10)
        cells = list(set(cells))
        rng.shuffle(cells)
        meshes.append((q, tuple(cells)))
    for q, cells in meshes:
        t = repr(RM(RP(q), cells))
        lines.append("mreprread %s %s %s" % (fseq(q), fcells(cells, sort=False), ftext(t)))
        lines.append("mrepr %s %s" % (fseq(q), fcells(cells, sort=False)))
    ctx.compare("repr-read", lines)

    # malformed texts over the alphabet of the sub-grammar: every one-character deletion / insertion / replacement /
    # transposition of base texts, and random token soups.  Both sides must reject (Python: eval raises or does not
    # give a Perm / MeshPatt of plain naturals; model: parser none) or agree on the value.  Excluded (and counted in
    # the notes): texts that Python reads leniently, see lenient().
    cand = []
    alpha_p = "Perm(), 0123456789"
    alpha_m = alpha_p + "[]MshPat"
    bases_p = ["Perm(())", "Perm((0,))", "Perm((1, 0))", "Perm((10, 2, 0))", "Perm((0, 0))", "Perm((7,))"]
    bases_m = ["MeshPatt(Perm(()), [])", "MeshPatt(Perm((0,)), [(0, 1)])", "MeshPatt(Perm((1, 0)), [(0, 0), (2, 2)])",
               "MeshPatt(Perm(()), [(0, 0)])", "MeshPatt(Perm((0,)), [(1, 1), (0, 0)])", "MeshPatt(Perm((0,)), [(0, 2)])",
               "MeshPatt(Perm((0,)), [(0, 0), (0, 0)])"]

    def edits(t, alpha, full):
        out = [t]
        for i in range(len(t) + 1):
            for ch in (alpha if full else rng.sample(alpha, 6)):
                out.append(t[:i] + ch + t[i:])
                if i < len(t):
                    out.append(t[:i] + ch + t[i + 1:])
            if i < len(t):
                out.append(t[:i] + t[i + 1:])
            if i + 1 < len(t):
                out.append(t[:i] + t[i + 1] + t[i] + t[i + 2:])
        return out

    for b in bases_p:
        cand += [("reprparse", t) for t in edits(b, alpha_p, True)]
        cand += [("mreprparse", t) for t in edits(b, alpha_p, False)]
    for b in bases_m:
        cand += [("mreprparse", t) for t in edits(b, alpha_m, not quick)]
        cand += [("reprparse", t) for t in edits(b, alpha_m, False)[:200]]
    toks_p = ["Perm", "Perm(", "(", ")", "))", ",", ", ", " ", "0", "1", "2", "10", "00", "01", "(0,)", "(1, 0)", "()", "(())"]
    toks_m = toks_p + ["MeshPatt(", "[", "]", "[]", "(0, 0)", "(0, 1)", "[(0, 0)]", "Perm(())", "Perm((0,))", "Perm((0, 1))"]
    for _ in range(1500 if quick else 20000):
        cand.append(("reprparse", "".join(rng.choice(toks_p) for _ in range(rng.randrange(1, 8)))))
        cand.append(("mreprparse", "".join(rng.choice(toks_m) for _ in range(rng.randrange(1, 9)))))
    seen, lines, skipped, accepted = set(), [], [], 0
    for op, t in cand:
        if (op, t) in seen or not t.strip(" "):
            continue
        seen.add((op, t))
        if lenient(t):
            skipped.append(t)
            continue
        lines.append("%s %s" % (op, ftext(t)))
        accepted += (_read_perm(t) if op == "reprparse" else _read_mesh(t)) != "NONE"
    ctx.notes.append("repr-malformed: %d of %d texts excluded as read leniently by Python (eval gives a Perm / MeshPatt x "
                     "with repr(x) != text), e.g. %r; of the %d texts kept, Python accepts %d (canonical spellings reached by "
                     "an edit) and rejects the others"
                     % (len(skipped), len(seen), sorted(set(skipped), key=len)[:6], len(lines), accepted))
    ctx.compare("repr-malformed", lines)

    # ---- malformed / glue
    lines = []
    toks = ["-1", "0", "1", "2", "3", "N"]
    for n in range(0, 5 if quick else 6):
        for s in itertools.product(toks, repeat=n):
            v = ",".join(s) if s else "_"
            lines.append("validated " + v)
            lines.append("validok " + v)
    for s in ["0,x", "x,0", "f,0", "0,f", "1,f", "5,x", "x,5", "0,0,N", "N,0,0", "1,0,2,2", "1,0,4", "0,1,-1"]:
        lines.append("validated " + s)
        lines.append("validok " + s)
    for s in ["0a", "a0", "12", "11", "0 1", "-1", "10", "012", "021345", "(0)(1)", "+1", "1.0", "\u03b5", "\u03b5\u03b5", "0\u03b5", ""]:
        if " " in s:
            continue
        lines.append("fromstr s:" + s)
        lines.append("validatedstr s:" + s)
    for _ in range(200):
        s = "".join(rng.choice("0123456789ab(") for _ in range(rng.randrange(0, 7)))
        lines.append("fromstr s:" + s)
        lines.append("validatedstr s:" + s)
    for _ in range(200):
        v = [rng.randrange(-3, 12) for _ in range(rng.randrange(0, 8))]
        lines.append("onebased " + fints(v))
    lines += ["oflen -1", "oflen -3", "upto -1", "upto -2", "first -1", "first -5", "ident -1", "ident -4",
              "unrank -1 N", "unrank -5 N", "unrank -1 3", "unrank 0 -1", "unrank 0 -3", "unrank 1 -1", "unrank 3 -2",
              "unrank -1 -1", "unrank -2 0", "munrank 0 -1", "munrank _ -1", "munrank 0 16", "munrank 0,1 512",
              "moflen 1 _", "moflen 0 0", "moflen 1 0,1", "moflen 2 0", "moflen 0 1,0", "moflen 1 0"]
    ctx.compare("malformed", lines)

    # ---- mesh patterns
    lines = []
    for p in [(), (0,)]:
        n = len(p)
        top = 2 ** ((n + 1) ** 2)
        cells = [(x, y) for x in range(n + 1) for y in range(n + 1)]
        for k in range(-1, top + 2):
            lines.append("munrank %s %d" % (fseq(p), k))
            lines.append("mrankunrank %s %d" % (fseq(p), k))
        for r in range(len(cells) + 1):
            for sub in itertools.permutations(cells, r):       # every subset in every input order
                lines.append("mrank %s %s" % (fseq(p), fcells(sub, sort=False)))
                lines.append("munrankrank %s %s" % (fseq(p), fcells(sub, sort=False)))
    lines += ["moflen 0 N", "moflen 1 N", "moflen 0 _", "moflen 1 0"]
    ctx.compare("exhaustive-mesh", lines)
    ctx.compare("mesh-oflen-set", ["moflenset 0", "moflenset 1"] + ([] if quick else ["moflenset 2"]), use_model=False)
    lines = []
    if not quick:
        lines += ["moflen 2 N", "moflen 2 0,1", "moflen 2 1,0"]
        for p in [(0, 1), (1, 0)]:
            for k in range(512):
                lines.append("mrankunrank %s %d" % (fseq(p), k))
    for _ in range(R):
        n = rng.randrange(2, 4)
        p = rand_perm(rng, n)
        bits = (n + 1) ** 2
        mode = rng.randrange(4)
        if mode == 0:
            k = rng.randrange(2 ** bits)
        elif mode == 1:
            k = rng.choice([0, 1, 2 ** bits - 1, 2 ** bits, 2 ** (bits - 1), 2 ** (bits - 1) - 1, 2 ** bits + 1])
        elif mode == 2:      # a single row / column / bit
            k = 1 << rng.randrange(bits)
        else:
            k = 0
            for x in range(n + 1):
                if rng.random() < 0.4:
                    for y in range(n + 1):
                        k |= 1 << (x * (n + 1) + y)
        cells = [(x, y) for x in range(n + 1) for y in range(n + 1) if rng.random() < 0.4]
        rng.shuffle(cells)
        lines.append("munrank %s %d" % (fseq(p), k))
        lines.append("mrankunrank %s %d" % (fseq(p), k))
        lines.append("mrank %s %s" % (fseq(p), fcells(cells, sort=False)))
        lines.append("munrankrank %s %s" % (fseq(p), fcells(cells, sort=False)))
    ctx.compare("random-mesh", lines)
