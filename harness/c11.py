"""C11 - every permutation statistic returns the value its definition and name promise
(perm.py 670-2131, 2448-2479; permutils/statistics.py; misc/math.py)."""
import itertools
import math

from core import fseq, fseqs, fbool, fcells, pseq, pseqs, guarded
import past
import used

PROP = "C11"
RULE = ("one line = one Perm method (op pf), one predefined statistic by table index (op stat), or one tool call of "
        "PermutationStatistic on data (dist, distupto, preserved, allpres, transformed, equidist, jointeq, jointtr); "
        "exhaustive: every permutation of length <= N for every method and every table entry (N in exhaustive_bound; "
        "lengths 0 and 1 included); random: structured permutations (uniform, near-identity, involutions, long cycles, "
        "sums of monotone blocks, planted long runs) of length 9..30 (holeyness <= 10, fourpats <= 12); distributions: "
        "all bases of <= 2 patterns of length 3 and the class of all permutations; bijections: dictionaries built from "
        "symmetries, identity and random images; non-trivial = the permutation has length >= 3 (methods/statistics) or "
        "the data contain a permutation of length >= 3 (tools); distinct = distinct op lines. "
        "Ops spec/specl compare the executable Lean specification (Spec/C11.lean) with the Python oracle."
        ' Hardening pass 2: stream `large` (holeyness / fourpats at 9-12 incl. permutations whose optimum needs more than half of the positions; all other methods and table entries at 31-40, 64-70, ~200, ~401, 1000 minus the ones measured too slow); permutations of heavy lines are objects with a past; dist/distupto/preserved run after a call history on the SAME statistic object (another class, no class, larger, smaller) and are repeated after the returned table has been destroyed.')
ASSUMPTIONS = [
    "model/implementation agreement outside the enumerated and sampled inputs is assumed",
    "FindStat/arXiv definitions are taken from the docstrings' wording (offline): St000133 bounce is read as the bounce "
    "path of the permutation, St000141 maximum drop size as max(i - sigma(i)) (a drop is a position with sigma(i) < i, "
    "as in the library's own double_drops), 'double ascent/descent' in fore/after-maxima/minima as an ascent/descent "
    "of size two (what the docstring examples pin)",
    "the tools of PermutationStatistic (dist, preserved, allpres, equidist, joint*) are checked for their logic on the "
    "values the bound functions return; the values themselves are checked by the ops stat/pf",
    "min_gapsize is undefined for fewer than two entries (minimum over no pairs): the ValueError is not judged",
    "x & -x in the Fenwick tree of count_inversions is modelled as x - (x & (x-1))",
]
PARTIAL = []      # filled at the bottom (names of statements that are only evaluated, not proved)
TRUSTED = ["itertools.product materialises its arguments left to right (one-shot generator semantics of check_all_transformed)"]

# methods whose value is known to differ from the property at the pinned commit: an additional
# implementation-vs-model line (op pfm / statm / transformedm, no oracle) keeps the model tied to them
KNOWN_DEFECT_FUNCS = ("max_drop_size", "rtlmax_ltrmin_decomposition", "count_rtlmax_ltrmin_layers")
KNOWN_DEFECT_STATS = (14, 15, 18)

SEQ_FUNCS = ["fixed_points", "strong_fixed_points", "descents", "descent_set", "ascents", "ascent_set", "peaks",
             "peak_list", "pinnacles", "pinnacle_set", "valleys", "valley_list", "bends", "bend_list", "ltrmin",
             "rtlmin", "ltrmax", "rtlmax", "cyclic_peaks", "cyclic_peaks_list", "cyclic_valleys",
             "cyclic_valleys_list", "double_excedance", "double_excedance_list", "double_drops", "double_drops_list",
             "all_bonds", "inc_bonds", "dec_bonds", "rank_encoding"]
SORTED_SEQ_FUNCS = ["foremaxima", "afterminima", "aftermaxima", "foreminima"]   # list(set & set): order not promised
INT_FUNCS = ["count_fixed_points", "count_descents", "count_ascents", "count_peaks", "count_valleys",
             "count_column_sum_primes", "order", "count_ltrmin", "count_ltrmax", "count_rtlmin", "count_rtlmax",
             "count_inversions", "count_bounces", "max_drop_size", "count_stack_sorts", "count_pop_stack_sorts",
             "count_cyclic_peaks", "count_cyclic_valleys", "count_double_excedance", "count_double_drops",
             "count_foremaxima", "count_afterminima", "count_aftermaxima", "count_foreminima", "count_non_inversions",
             "min_gapsize", "count_bonds", "count_inc_bonds", "count_dec_bonds", "major_index", "depth",
             "maximal_decreasing_run", "length_of_longestrun_ascending", "length_of_longestrun_descending",
             "count_cycles", "count_rtlmax_ltrmin_layers",
             # proposed by patches/c11-fix-lis.diff; exercised only when the method exists
             "length_of_longest_increasing_subsequence", "length_of_longest_decreasing_subsequence"]
OPTIONAL_FUNCS = ("length_of_longest_increasing_subsequence", "length_of_longest_decreasing_subsequence")
PAIR_FUNCS = ["inversions", "non_inversions"]
SEQS_FUNCS = ["cycle_decomp", "rtlmax_ltrmin_decomposition"]
RUN_FUNCS = ["longestruns_ascending", "longestruns_descending"]
PAT_FUNCS = ["threepats", "fourpats"]
OTHER_FUNCS = ["is_involution", "cycle_notation", "holeyness", "stack_sort", "pop_stack_sort"]
STEP_FUNCS = ["descents", "descent_set", "count_descents", "ascents", "ascent_set", "count_ascents"]
ALL_FUNCS = SEQ_FUNCS + SORTED_SEQ_FUNCS + INT_FUNCS + PAIR_FUNCS + SEQS_FUNCS + RUN_FUNCS + PAT_FUNCS + OTHER_FUNCS
# methods that are total on arbitrary integer tuples (malformed stream)
TUPLE_SAFE = ["descents", "ascents", "peaks", "valleys", "bends", "pinnacles", "inversions", "non_inversions", "ltrmax",
              "rtlmax", "all_bonds", "inc_bonds", "dec_bonds", "major_index", "rank_encoding", "count_descents"]
NSTATS = 32


def worker_init():
    global Perm, Av, PS, is_prime
    from permuta import Perm as P, Av as A
    from permuta.permutils.statistics import PermutationStatistic
    from permuta.misc.math import is_prime as ip
    Perm, Av, PS, is_prime = P, A, PermutationStatistic, ip


# ----------------------------------------------------------------------------- formatting
def fpats(d):
    items = sorted((tuple(k), v) for k, v in d.items() if v)
    return "-" if not items else ";".join("%s:%d" % (fseq(k), v) for k, v in items)


def fnames(l):
    l = list(l)
    return "-" if not l else ";".join(l)


def pbij(s):
    return [] if s == "-" else [tuple(pseq(x) for x in t.split(">")) for t in s.split(";")]


def fbij(pairs):
    pairs = list(pairs)
    return "-" if not pairs else ";".join("%s>%s" % (fseq(k), fseq(v)) for k, v in pairs)


def pbasis(s):
    return None if s == "*" else pseqs(s)


def fmt(f, v):
    if f in SEQ_FUNCS:
        return fseq(v)
    if f in SORTED_SEQ_FUNCS:
        return fseq(sorted(v))
    if f in INT_FUNCS or f == "holeyness":
        return str(int(v))
    if f in PAIR_FUNCS:
        return fcells(v, sort=False)
    if f in SEQS_FUNCS:
        return fseqs(v)
    if f in RUN_FUNCS:
        return "%d|%s" % (v[0], fseq(v[1]))
    if f in PAT_FUNCS:
        return fpats(v)
    if f == "is_involution":
        return fbool(v)
    if f == "cycle_notation":
        return str(v)
    if f in ("stack_sort", "pop_stack_sort"):
        return fseq(v)
    raise ValueError("no format for " + f)


# ----------------------------------------------------------------------------- implementation
def _step(a):
    return None if len(a) < 3 or a[2] == "N" else int(a[2])


def _av(b):
    return None if b is None else Av([Perm(p) for p in b])


class _Timeout(BaseException):
    pass


_TIMEOUTS = {}


def _on_alarm(signum, frame):
    raise _Timeout()


def impl(op, a):
    """the real code, under a per-line time limit: a loop that no longer terminates is reported as
    `ERR:Timeout` (a disagreement with oracle and model) instead of hanging the check"""
    import signal
    limit = 900 if op in ("jointeq", "jointtr") else 60 if op == "equidist" else 5
    key = (op, a[0]) if op in ("pf", "pfm", "stat", "statm", "dist", "distupto", "preserved") else (op,)
    if _TIMEOUTS.get(key, 0) >= 1:      # this worker already saw the call hang: do not wait again
        return "ERR:Timeout"
    try:
        signal.signal(signal.SIGALRM, _on_alarm)
        signal.setitimer(signal.ITIMER_REAL, limit)
        armed = True
    except ValueError:          # not in the main thread
        armed = False
    try:
        return _impl(op, a)
    except _Timeout:
        _TIMEOUTS[key] = _TIMEOUTS.get(key, 0) + 1
        return "ERR:Timeout"
    finally:
        if armed:
            signal.setitimer(signal.ITIMER_REAL, 0)


_COSTLY = ("holeyness", "fourpats", "threepats", "count_stack_sorts", "count_pop_stack_sorts")


def _related(f):
    """the sibling methods of f (count_x / x / x_list / x_set): they are the ones that would share a memo"""
    base = f[len("count_"):] if f.startswith("count_") else f
    for suf in ("_list", "_set"):
        if base.endswith(suf):
            base = base[:-len(suf)]
    return [g for g in (base, "count_" + base, base + "_list", base + "_set") if g != f]


def _use_stats(p, f, dg):
    """use the permutation object before the statistic under test is evaluated on it: generic use, the sibling
    methods of f, three other statistics picked by the line's digest (results discarded; listings only partly
    consumed) and f itself with its listing abandoned after one item"""
    used.warm_perm(p, 0)
    if not used.is_perm(p):
        return
    n = len(ALL_FUNCS)
    names = _related(f) + [ALL_FUNCS[(dg >> s) % n] for s in (3, 11, 19)] + [f]
    for g in names:
        if (g in _COSTLY and len(p) > 6) or g in OPTIONAL_FUNCS:
            continue
        m = getattr(p, g, None)
        if m is None:
            continue
        try:
            r = m()
            if hasattr(r, "__next__"):
                next(r, None)
        except Exception:  # pylint: disable=broad-except
            pass


_USE_F = [None]


def _c11_use(p):
    """a few statistics, and the one the line is about, on an object a derived object is about to be made from"""
    for g in ("count_inversions", "descents", "cycle_decomp", _USE_F[0]):
        if g is None or (g in _COSTLY and len(p) > 6) or g in OPTIONAL_FUNCS:
            continue
        m = getattr(p, g, None)
        if m is not None:
            r = used.quiet(m)
            if hasattr(r, "__next__"):
                next(r, None)


def _mkP(seq, salt):
    """heavy lines: an object with a past (fresh / used / derived from a used object through another API route)"""
    # (beyond length 120 the routes themselves cost 0.05-0.3 s a line: plain constructor there, the object is still
    # used by _use_stats before the call under test)
    if len(seq) > 120 or (len(seq) > 8 and used.digest("P", [str(seq)]) % 2) or not used.is_perm(seq):
        return Perm(seq)
    return past.mkperm_u(seq, salt, _c11_use)


_OTHER_CLASSES = ((0, 1), (1, 0), (0, 1, 2), (2, 1, 0))


def _stat_history(st, n, basis, dg, every=False):
    """(C) call history on ONE statistic object before the call under test: tables over another class (one whose
    rows differ from every other class's from length 2 on), over all permutations, over the line's own class up to
    a larger and up to a smaller length; results are dropped and destroyed.  Two of the four (all: `every`)."""
    other = next(b for b in _OTHER_CLASSES[dg % 4:] + _OTHER_CLASSES if basis is None or [b] != [tuple(x) for x in basis])
    cls = _av(basis)
    m = min(max(n, 2), 3)
    calls = [lambda: st.distribution_up_to(m, _av([other])),
             lambda: st.distribution_up_to(m) if basis is not None else st.distribution_up_to(m, _av([other[::-1]])),
             lambda: st.distribution_up_to(min(n + 1, 4), cls),
             lambda: st.distribution_up_to(max(n - 1, 0), cls)]
    pick = range(4) if every else ((dg >> 3) % 4, (dg >> 5) % 4)
    for j in pick:
        used.scrub(used.quiet(calls[j]))
    used.scrub(used.quiet(lambda: st.distribution_for_length(min(n, 3), _av([other]))))


def _heavy(op, a):
    """every line with a long permutation (the random stream) and a deterministic eighth of the short ones"""
    # (the handful of lines at length ~1000: plain evaluation, the warm-up alone would cost 0.2 s a line)
    return len(a) >= 2 and len(a[1]) < 2500 and (len(a[1]) >= 19 or used.sel(op, a, 8))


def _impl(op, a):
    if op in ("pf", "pfm"):
        f = a[0]
        if not _heavy(op, a):
            def run0():
                p = Perm(pseq(a[1]))
                if len(a) >= 3:
                    return fmt(f, getattr(p, past.alias(f, tuple(a)))(_step(a)))
                return fmt(f, getattr(p, past.alias(f, tuple(a)))())
            return guarded(run0)
        box = []

        def run():
            if not box:
                _USE_F[0] = f
                box.append(_mkP(pseq(a[1]), 0))
                _use_stats(box[0], f, used.digest(op, a))
            p = box[0]
            if len(a) >= 3:
                return fmt(f, getattr(p, past.alias(f, tuple(a)))(_step(a)))
            return fmt(f, getattr(p, past.alias(f, tuple(a)))())
        # the statistic under test is evaluated twice on the same, used, object
        return used.twice(lambda: guarded(run))
    if op in ("stat", "statm") and _heavy(op, a):
        box = []

        def runs():
            if not box:
                _USE_F[0] = None
                box.append(_mkP(pseq(a[1]), 1))
                p0 = box[0]
                used.warm_perm(p0, 0)
                if used.is_perm(p0):
                    for j in (int(a[0]) + 1, int(a[0]) + 7, int(a[0])):
                        st = used.quiet(PS.get_by_index, j % NSTATS)
                        if st is None or (len(p0) > 6 and getattr(st.func, "__name__", "") in _COSTLY):
                            continue
                        used.quiet(st.func, p0)
            return str(int(PS.get_by_index(int(a[0])).func(box[0])))
        return used.twice(lambda: guarded(runs))
    if op == "isprime":
        return guarded(lambda: fbool(is_prime(int(a[0]))))
    if op == "statname":
        return guarded(lambda: PS.get_by_index(int(a[0])).name)
    if op in ("stat", "statm"):
        return guarded(lambda: str(int(PS.get_by_index(int(a[0])).func(Perm(pseq(a[1]))))))
    if op == "spec":
        return _oracle_stat_by_name(_NAMES[int(a[0])], pseq(a[1]))
    if op == "specl":
        return oracle("pf", [a[0], a[1]])
    if op in ("dist", "distupto"):
        def dist():
            st = PS.get_by_index(int(a[0]))
            n, basis = int(a[1]), pbasis(a[2])
            hist = op == "distupto" or used.sel(op, a, 8)
            if hist and 0 <= n <= 7:
                _stat_history(st, n, basis, used.digest(op, a), every=op == "distupto")
            call = (lambda: st.distribution_for_length(n, _av(basis))) if op == "dist" else \
                (lambda: st.distribution_up_to(n, _av(basis)))
            r = call()
            out = fseq(r) if op == "dist" else fseqs(r)
            if hist:
                # the table that was handed out is destroyed; the same question to the same object once more
                used.scrub(r)
                r2 = call()
                out2 = fseq(r2) if op == "dist" else fseqs(r2)
                if out2 != out:
                    return used.unstable(out, out2)
            return out
        return guarded(dist)
    if op == "preserved":
        def pres():
            st = PS.get_by_index(int(a[0]))
            pairs = pbij(a[1])
            if used.sel(op, a, 2):
                # the same statistic object is first asked about the converse map, about the map with its images
                # rotated by one and about a part of it; these dictionaries are dropped before the one under test
                # is built (which may then live at the address of one of them)
                imgs = [v for _, v in pairs]
                used.quiet(lambda: st.preserved_in({Perm(v): Perm(k) for k, v in pairs}))
                used.quiet(lambda: st.preserved_in({Perm(k): Perm(v) for (k, _), v in zip(pairs, imgs[1:] + imgs[:1])}))
                used.quiet(lambda: st.preserved_in({Perm(k): Perm(v) for k, v in pairs[:len(pairs) // 2]}))
            d = {Perm(k): Perm(v) for k, v in pairs}
            out = fbool(st.preserved_in(d))
            d.clear()
            return out
        return used.twice(lambda: guarded(pres)) if used.sel(op, a, 2) else guarded(pres)
    if op == "allpres":
        def allp():
            d = {Perm(k): Perm(v) for k, v in pbij(a[0])}
            r = PS.check_all_preservations(d)
            out = fnames(r)
            d.clear()
            used.scrub(r)
            return out
        return used.twice(lambda: guarded(allp)) if used.sel(op, a, 3) else guarded(allp)
    if op in ("transformed", "transformedm"):
        def tr():
            arg = {Perm(k): Perm(v) for k, v in pbij(a[0])}
            d = PS.check_all_transformed(arg)
            out = "-" if not d else "|".join("%s=>%s" % (k, ";".join(v)) for k, v in d.items())
            arg.clear()
            used.scrub(d)
            return out
        return used.twice(lambda: guarded(tr)) if used.sel(op, a, 3) else guarded(tr)
    if op == "equidist":
        return guarded(lambda: fnames(PS.equally_distributed(_av(pseqs(a[0])), _av(pseqs(a[1])), int(a[2]))))
    if op == "jointeq":
        return guarded(lambda: fnames("+".join(t) for t in PS.jointly_equally_distributed(
            _av(pseqs(a[0])), _av(pseqs(a[1])), int(a[2]), int(a[3]))))
    if op == "jointtr":
        return guarded(lambda: fnames("+".join(t1) + "=>" + "+".join(t2)
                                      for t1, t2 in PS.jointly_transformed_equally_distributed(
            _av(pseqs(a[0])), _av(pseqs(a[1])), int(a[2]), int(a[3]))))
    raise ValueError("unknown op " + op)


# ----------------------------------------------------------------------------- oracle: definitions, brute force
def o_prime(n):
    return n >= 2 and all(n % d for d in range(2, n))


def o_compose_power_order(s):
    n = len(s)
    if n > 12:
        # long inputs (`large` stream): the order of a permutation of length 400 can exceed 10^12, so the powers
        # cannot be walked through; the least k with s^k = id is the least common multiple of the orbit sizes
        # (s^k fixes x iff the size of x's orbit divides k)
        k = 1
        for orb in o_orbits(s):
            k = k * len(orb) // math.gcd(k, len(orb))
        return k
    cur, k = tuple(s), 1
    ident = tuple(range(n))
    while cur != ident:
        cur = tuple(s[x] for x in cur)     # cur = s o cur
        k += 1
    return k


def o_orbits(s):
    """cycles as orbits, each written from its maximum, by increasing maximum"""
    seen, res = set(), []
    for m in range(len(s)):
        orb = [m]
        x = s[m]
        while x != m:
            orb.append(x)
            x = s[x]
        if max(orb) == m:
            res.append(orb)
        seen.update(orb)
    return res


def o_longest_monotone_subsequence(s, up):
    best = 0
    n = len(s)
    for mask in range(1 << n):
        sub = [s[i] for i in range(n) if mask >> i & 1]
        if all((x < y) if up else (x > y) for x, y in zip(sub, sub[1:])):
            best = max(best, len(sub))
    return best


def o_lms_dp(s, up):
    best = []
    for i, v in enumerate(s):
        best.append(1 + max([best[j] for j in range(i) if (s[j] < v if up else s[j] > v)], default=0))
    return max(best, default=0)


def o_stack_pass(s):
    """West's stack-sorting device: push; before pushing x pop everything smaller"""
    st, out = [], []
    for x in s:
        while st and st[-1] < x:
            out.append(st.pop())
        st.append(x)
    while st:
        out.append(st.pop())
    return tuple(out)


def o_pop_stack_pass(s):
    """pop-stack: push x if it is smaller than the top, otherwise empty the whole stack first"""
    st, out = [], []
    for x in s:
        if st and x > st[-1]:
            while st:
                out.append(st.pop())
        st.append(x)
    while st:
        out.append(st.pop())
    return tuple(out)


def o_passes(s, dev):
    s, k = tuple(s), 0
    ident = tuple(range(len(s)))
    while s != ident:
        s = dev(s)
        k += 1
        if k > len(s) + 2:
            return -1
    return k


def o_delta(S):
    return sum(1 for m in S if m + 1 not in S)


def o_holeyness(s):
    n = len(s)
    best = None
    for mask in range(1 << n):
        S = {i for i in range(n) if mask >> i & 1}
        v = o_delta({s[i] for i in S}) - o_delta(S)
        best = v if best is None else max(best, v)
    return best


def o_bounces(s):
    n = len(s)
    if n == 0:
        return 0

    def cover(k):   # least m such that the first m entries contain 0..k
        need = set(range(min(k, n - 1) + 1))
        for m in range(n + 1):
            if need <= set(s[:m]):
                return m
    total, b = 0, cover(0)
    while b < n:
        total += n - b
        b = cover(b)
    return total


def o_records(s, left, mx):
    res = []
    for i, v in enumerate(s):
        others = s[:i] if left else s[i + 1:]
        if all((w < v) if mx else (w > v) for w in others):
            res.append(i)
    return res


def o_runs(s, up):
    n = len(s)
    if n == 0:
        return (0, [])
    best = {}
    for i in range(n):
        for L in range(1, n - i + 1):
            seg = s[i:i + L]
            if all((x < y) if up else (x > y) for x, y in zip(seg, seg[1:])):
                best.setdefault(L, []).append(i)
    m = max(best)
    return (m, best[m])


def o_std(vals):
    srt = sorted(vals)
    return tuple(srt.index(v) for v in vals)


def o_layers(s):
    s = list(s)
    res = []
    while s:
        lay = sorted(set(o_records(s, False, True)) | set(o_records(s, True, False)))
        res.append(lay)
        s = [v for i, v in enumerate(s) if i not in lay]
    return res


def o_listing(f, s, k=None):
    """value of the Perm method `f` from its definition; None = not decided by the property"""
    n = len(s)
    R = range(n)
    adj = range(n - 1)
    if f in ("fixed_points",):
        return [i for i in R if s[i] == i]
    if f == "strong_fixed_points":
        return [i for i in R if s[i] == i and all(s[j] < s[i] for j in range(i)) and all(s[j] > s[i] for j in range(i + 1, n))]
    if f in ("descents", "descent_set"):
        return [i for i in adj if (s[i] > s[i + 1] if k is None else s[i] - s[i + 1] == k)]
    if f in ("ascents", "ascent_set"):
        return [i for i in adj if (s[i] < s[i + 1] if k is None else s[i + 1] - s[i] == k)]
    if f in ("peaks", "peak_list"):
        return [i for i in range(1, n - 1) if s[i - 1] < s[i] > s[i + 1]]
    if f in ("valleys", "valley_list"):
        return [i for i in range(1, n - 1) if s[i - 1] > s[i] < s[i + 1]]
    if f in ("pinnacles", "pinnacle_set"):
        return [s[i] for i in range(1, n - 1) if s[i - 1] < s[i] > s[i + 1]]
    if f in ("bends", "bend_list"):
        return [i for i in range(1, n - 1) if (s[i] - s[i - 1]) * (s[i + 1] - s[i]) < 0]
    if f == "ltrmin":
        return o_records(s, True, False)
    if f == "ltrmax":
        return o_records(s, True, True)
    if f == "rtlmin":
        return o_records(s, False, False)
    if f == "rtlmax":
        return o_records(s, False, True)
    if f in ("cyclic_peaks", "cyclic_peaks_list"):
        return [i for i in R if i < s[i] > s[s[i]]]
    if f in ("cyclic_valleys", "cyclic_valleys_list"):
        return [i for i in R if i > s[i] < s[s[i]]]
    if f in ("double_excedance", "double_excedance_list"):
        return [i for i in R if i < s[i] < s[s[i]]]
    if f in ("double_drops", "double_drops_list"):
        return [i for i in R if i > s[i] > s[s[i]]]
    if f == "foremaxima":
        return [i for i in adj if s[i + 1] - s[i] == 2 and i in o_records(s, True, True)]
    if f == "afterminima":
        return [i for i in adj if s[i + 1] - s[i] == 2 and i in o_records(s, False, False)]
    if f == "aftermaxima":
        return [i for i in adj if s[i] - s[i + 1] == 2 and i in o_records(s, False, True)]
    if f == "foreminima":
        return [i for i in adj if s[i] - s[i + 1] == 2 and i in o_records(s, True, False)]
    if f == "all_bonds":
        return [i for i in adj if abs(s[i] - s[i + 1]) == 1]
    if f == "inc_bonds":
        return [i for i in adj if s[i + 1] - s[i] == 1]
    if f == "dec_bonds":
        return [i for i in adj if s[i] - s[i + 1] == 1]
    if f == "rank_encoding":
        return [sum(1 for j in range(i + 1, n) if s[j] < s[i]) for i in R]
    if f == "inversions":
        return [(i, j) for i in R for j in range(i + 1, n) if s[i] > s[j]]
    if f == "non_inversions":
        return [(i, j) for i in R for j in range(i + 1, n) if s[i] < s[j]]
    return None


COUNT_OF = {   # counting form -> listing form (each count equals the size of the listing)
    "count_fixed_points": "fixed_points", "count_descents": "descents", "count_ascents": "ascents",
    "count_peaks": "peaks", "count_valleys": "valleys", "count_ltrmin": "ltrmin", "count_ltrmax": "ltrmax",
    "count_rtlmin": "rtlmin", "count_rtlmax": "rtlmax", "count_inversions": "inversions",
    "count_non_inversions": "non_inversions", "count_cyclic_peaks": "cyclic_peaks",
    "count_cyclic_valleys": "cyclic_valleys", "count_double_excedance": "double_excedance",
    "count_double_drops": "double_drops", "count_foremaxima": "foremaxima", "count_afterminima": "afterminima",
    "count_aftermaxima": "aftermaxima", "count_foreminima": "foreminima", "count_bonds": "all_bonds",
    "count_inc_bonds": "inc_bonds", "count_dec_bonds": "dec_bonds",
}


def o_value(f, s, k=None):
    n = len(s)
    v = o_listing(f, s, k)
    if v is not None:
        return v
    if f in COUNT_OF:
        return len(o_listing(COUNT_OF[f], s, k))
    if f == "count_column_sum_primes":
        return sum(1 for i in range(n) if o_prime((i + 1) + (s[i] + 1)))
    if f == "order":
        return o_compose_power_order(s)
    if f == "count_bounces":
        return o_bounces(s)
    if f == "max_drop_size":
        return max([i - s[i] for i in range(n)] + [0])
    if f == "holeyness":
        return o_holeyness(s)
    if f == "count_stack_sorts":
        return o_passes(s, o_stack_pass)
    if f == "count_pop_stack_sorts":
        return o_passes(s, o_pop_stack_pass)
    if f == "stack_sort":
        return o_stack_pass(s)
    if f == "pop_stack_sort":
        return o_pop_stack_pass(s)
    if f == "min_gapsize":
        if n < 2:
            return None      # minimum over no pairs: undefined
        return min(abs(i - j) + abs(s[i] - s[j]) for i in range(n) for j in range(i + 1, n))
    if f == "major_index":
        return sum(i + 1 for i in range(n - 1) if s[i] > s[i + 1])
    if f == "depth":
        return sum(s[i] - i for i in range(n) if s[i] > i)
    if f == "maximal_decreasing_run":
        pos = {v: i for i, v in enumerate(s)}
        k_ = 0
        while k_ < n and (k_ == 0 or pos[n - k_] < pos[n - 1 - k_]):
            k_ += 1
        return k_
    if f == "longestruns_ascending":
        return o_runs(s, True)
    if f == "longestruns_descending":
        return o_runs(s, False)
    if f == "length_of_longestrun_ascending":
        return o_runs(s, True)[0]
    if f == "length_of_longestrun_descending":
        return o_runs(s, False)[0]
    if f == "length_of_longest_increasing_subsequence":
        return o_longest_monotone_subsequence(s, True) if n <= 10 else o_lms_dp(s, True)
    if f == "length_of_longest_decreasing_subsequence":
        return o_longest_monotone_subsequence(s, False) if n <= 10 else o_lms_dp(s, False)
    if f == "cycle_decomp":
        return o_orbits(s)
    if f == "count_cycles":
        return len(o_orbits(s))
    if f == "cycle_notation":
        return "( )" if n == 0 else " ".join("( " + " ".join(map(str, c)) + " )" for c in o_orbits(s))
    if f == "is_involution":
        return all(s[s[i]] == i for i in range(n))
    if f in ("threepats", "fourpats"):
        kk = 3 if f == "threepats" else 4
        d = {}
        for c in itertools.combinations(range(n), kk):
            key = o_std([s[i] for i in c])
            d[key] = d.get(key, 0) + 1
        return d
    if f == "rtlmax_ltrmin_decomposition":
        return o_layers(s)
    if f == "count_rtlmax_ltrmin_layers":
        return len(o_layers(s))
    return None


_NAMES = [
    "Number of inversions", "Number of non-inversions", "Major index", "Number of descents", "Number of ascents",
    "Number of peaks", "Number of valleys", "Number of cycles", "Number of left-to-right minimas",
    "Number of left-to-right maximas", "Number of right-to-left minimas", "Number of right-to-left maximas",
    "Number of fixed points", "Order", "Longest increasing subsequence", "Longest decreasing subsequence", "Depth",
    "Number of bounces", "Maximum drop size", "Number of primes in the column sums", "Holeyness of a permutation",
    "Number of stack-sorts needed", "Number of pop-stack-sorts needed", "Number of pinnacles",
    "Number of cyclic peaks", "Number of cyclic valleys", "Number of double excedance", "Number of double drops",
    "Number of foremaxima", "Number of afterminima", "Number of aftermaxima", "Number of foreminima",
]   # the published list of predefined statistics (README.rst), by index

_BY_NAME = {
    "Number of inversions": "count_inversions", "Number of non-inversions": "count_non_inversions",
    "Major index": "major_index", "Number of descents": "count_descents", "Number of ascents": "count_ascents",
    "Number of peaks": "count_peaks", "Number of valleys": "count_valleys", "Number of cycles": "count_cycles",
    "Number of left-to-right minimas": "count_ltrmin", "Number of left-to-right maximas": "count_ltrmax",
    "Number of right-to-left minimas": "count_rtlmin", "Number of right-to-left maximas": "count_rtlmax",
    "Number of fixed points": "count_fixed_points", "Order": "order", "Depth": "depth",
    "Number of bounces": "count_bounces", "Maximum drop size": "max_drop_size",
    "Number of primes in the column sums": "count_column_sum_primes", "Holeyness of a permutation": "holeyness",
    "Number of stack-sorts needed": "count_stack_sorts", "Number of pop-stack-sorts needed": "count_pop_stack_sorts",
    "Number of pinnacles": "count_peaks", "Number of cyclic peaks": "count_cyclic_peaks",
    "Number of cyclic valleys": "count_cyclic_valleys", "Number of double excedance": "count_double_excedance",
    "Number of double drops": "count_double_drops", "Number of foremaxima": "count_foremaxima",
    "Number of afterminima": "count_afterminima", "Number of aftermaxima": "count_aftermaxima",
    "Number of foreminima": "count_foreminima",
}   # name -> key of the definition in o_value (the definitions are written from the names' meaning)


def _oracle_stat_by_name(name, s):
    if name == "Longest increasing subsequence":
        return str(o_longest_monotone_subsequence(s, True) if len(s) <= 10 else o_lms_dp(s, True))
    if name == "Longest decreasing subsequence":
        return str(o_longest_monotone_subsequence(s, False) if len(s) <= 10 else o_lms_dp(s, False))
    return str(int(o_value(_BY_NAME[name], s)))


def o_contains(s, p):
    k = len(p)
    for c in itertools.combinations(range(len(s)), k):
        vals = [s[i] for i in c]
        if all((p[x] < p[y]) == (vals[x] < vals[y]) for x in range(k) for y in range(x + 1, k)):
            return True
    return False


_CLASS_MEMO = {}


def o_class(basis, n):
    key = (None if basis is None else tuple(basis), n)
    if key not in _CLASS_MEMO:
        _CLASS_MEMO[key] = [s for s in itertools.permutations(range(n))
                            if basis is None or not any(o_contains(s, p) for p in basis)]
    return _CLASS_MEMO[key]


def _bound_func(i):
    """the function bound in the table (tool logic is checked on the values the bound functions return)"""
    f = PS._STATISTICS[i][1]
    return lambda s: int(f(Perm(s)))


def o_distribution(i, n, basis):
    f = _bound_func(i)
    vals = [f(s) for s in o_class(basis, n)]
    hist = [sum(1 for v in vals if v == k) for k in range(max(vals, default=0) + 1)]
    assert sum(hist) == len(o_class(basis, n))
    return hist


def o_counter(rows):
    d = {}
    for r in rows:
        d[r] = d.get(r, 0) + 1
    return d


def oracle(op, a):
    """the tool oracles evaluate the bound functions of the live table; a bound function that hangs must not hang
    the oracle: no verdict then (the same call already shows up as ERR:Timeout on the implementation side)"""
    import signal
    key = ("oracle", op, a[0]) if op in ("dist", "distupto", "preserved") else ("oracle", op)
    if _TIMEOUTS.get(key, 0) >= 1:
        return None
    try:
        signal.signal(signal.SIGALRM, _on_alarm)
        signal.setitimer(signal.ITIMER_REAL, 900 if op in ("equidist", "jointeq", "jointtr") else 10)
        armed = True
    except ValueError:
        armed = False
    try:
        return _oracle(op, a)
    except _Timeout:
        _TIMEOUTS[key] = _TIMEOUTS.get(key, 0) + 1
        return None
    finally:
        if armed:
            signal.setitimer(signal.ITIMER_REAL, 0)


def _oracle(op, a):
    if op == "pf":
        f, s = a[0], pseq(a[1])
        k = _step(a)
        if k is not None and k < 1:
            return None                     # a step below one: not decided by the property
        if sorted(s) != list(range(len(s))) and f not in TUPLE_SAFE:
            return None
        v = o_value(f, s, k)
        if v is None:
            return None
        return fmt(f, v)
    if op in ("pfm", "statm", "transformedm", "spec", "specl"):
        return None
    if op == "isprime":
        return fbool(o_prime(int(a[0])))
    if op == "statname":
        i = int(a[0])
        return _NAMES[i] if -NSTATS <= i < NSTATS else "ERR:IndexError"
    if op == "stat":
        i = int(a[0])
        if not -NSTATS <= i < NSTATS:
            return "ERR:IndexError"
        return _oracle_stat_by_name(_NAMES[i], pseq(a[1]))
    if op in ("dist", "distupto", "preserved") and not -NSTATS <= int(a[0]) < NSTATS:
        return "ERR:IndexError"
    if op == "dist":
        return fseq(o_distribution(int(a[0]), int(a[1]), pbasis(a[2])))
    if op == "distupto":
        return fseqs(o_distribution(int(a[0]), m, pbasis(a[2])) for m in range(int(a[1]) + 1))
    if op == "preserved":
        f = _bound_func(int(a[0]))
        return fbool(not [1 for k, v in pbij(a[1]) if f(k) != f(v)])
    if op == "allpres":
        bij = pbij(a[0])
        return fnames(_NAMES[i] for i in range(NSTATS)
                      if not [1 for k, v in bij if _bound_func(i)(k) != _bound_func(i)(v)])
    if op == "transformed":
        bij = pbij(a[0])
        keys = [[_bound_func(i)(k) for k, _ in bij] for i in range(NSTATS)]
        vals = [[_bound_func(i)(v) for _, v in bij] for i in range(NSTATS)]
        rows = []
        for i in range(NSTATS):
            tgt = [_NAMES[j] for j in range(NSTATS) if keys[i] == vals[j]]
            if tgt:
                rows.append("%s=>%s" % (_NAMES[i], ";".join(tgt)))
        return "-" if not rows else "|".join(rows)
    if op == "equidist":
        b1, b2, n = pseqs(a[0]), pseqs(a[1]), int(a[2])
        res = []
        for i in range(NSTATS):
            f = _bound_func(i)
            if all(sorted(f(s) for s in o_class(b1, m)) == sorted(f(s) for s in o_class(b2, m)) for m in range(n + 1)):
                res.append(_NAMES[i])
        return fnames(res)
    if op in ("jointeq", "jointtr"):
        b1, b2, n, dim = pseqs(a[0]), pseqs(a[1]), int(a[2]), int(a[3])
        tab = {}

        def col(i, b, m):
            key = (i, tuple(b), m)
            if key not in tab:
                f = _bound_func(i)
                tab[key] = [f(s) for s in o_class(b, m)]
            return tab[key]

        def joint(idx, b, m):
            return o_counter(zip(*[col(i, b, m) for i in idx])) if o_class(b, m) else {}
        res = []
        if op == "jointeq":
            for idx in itertools.combinations(range(NSTATS), dim):
                if all(joint(idx, b1, m) == joint(idx, b2, m) for m in range(n + 1)):
                    res.append("+".join(_NAMES[i] for i in idx))
        else:
            # the pairs examined are those of combinations(permutations(table, dim), 2) (not decided by the property);
            # a pair is reported iff the two joint distributions agree for every length
            for i1, i2 in itertools.combinations(list(itertools.permutations(range(NSTATS), dim)), 2):
                if all(joint(i1, b1, m) == joint(i2, b2, m) for m in range(n + 1)):
                    res.append("+".join(_NAMES[i] for i in i1) + "=>" + "+".join(_NAMES[i] for i in i2))
        return fnames(res)
    return None


def nontrivial(op, a, out):
    if out.startswith("ERR:"):
        return False
    if op in ("pf", "pfm", "specl"):
        return len(pseq(a[1])) >= 3
    if op in ("stat", "statm", "spec"):
        return len(pseq(a[1])) >= 3
    if op == "isprime":
        return int(a[0]) >= 4
    if op in ("dist", "distupto"):
        return int(a[1]) >= 3
    if op == "preserved":
        return any(len(k) >= 3 for k, _ in pbij(a[1]))
    if op in ("allpres", "transformed", "transformedm"):
        return any(len(k) >= 3 for k, _ in pbij(a[0]))
    if op in ("equidist", "jointeq", "jointtr"):
        return int(a[2]) >= 3
    return False


# ----------------------------------------------------------------------------- translator self-check
def translator_selfcheck():
    """Generated.statTable against the live `_STATISTICS` (names, and the function each entry finally calls)"""
    import os
    import re
    import core
    from permuta import Perm as P
    from permuta.permutils.statistics import PermutationStatistic
    src = open(os.path.join(core.LEAN, "PermutaModel", "Generated", "Tables.lean")).read()
    m = re.search(r"def statTable[^\[]*\[(.*?)\n\]", src, flags=re.S)
    if not m:
        return "statTable not found in Generated/Tables.lean"
    rows = re.findall(r'\("([^"]*)", "([^"]*)"\)', m.group(1))
    live = PermutationStatistic._STATISTICS
    if len(rows) != len(live):
        return "statTable has %d rows, live table %d" % (len(rows), len(live))
    probes = [P(s) for n in range(5) for s in itertools.permutations(range(n))]
    import signal
    for (name, meth), (lname, lfunc) in zip(rows, live):
        if name != lname:
            return "statTable name %r != live %r" % (name, lname)
        if not hasattr(P, meth):
            return "statTable method %r does not exist on Perm" % meth
        if lfunc is getattr(P, meth):
            continue
        # a wrapper: compare values (under a time limit - a hanging function is the correspondence stage's business)
        try:
            signal.signal(signal.SIGALRM, _on_alarm)
            signal.setitimer(signal.ITIMER_REAL, 10)
            if any(getattr(p, meth)() != lfunc(p) for p in probes):
                return "statTable method %r is not what the live entry %r calls" % (meth, lname)
        except _Timeout:
            pass
        finally:
            signal.setitimer(signal.ITIMER_REAL, 0)
    gen = re.search(r"def transformedMaterialised : Bool := (true|false)", src)
    if not gen:
        return "transformedMaterialised not found"
    return None


# ----------------------------------------------------------------------------- generators
def perms(n):
    return itertools.permutations(range(n))


def rand_perm(rng, n):
    l = list(range(n))
    rng.shuffle(l)
    return tuple(l)


def structured_perm(rng, n):
    mode = rng.randrange(8)
    if mode == 0:
        return rand_perm(rng, n)
    if mode == 1:                       # near identity: a few adjacent transpositions
        l = list(range(n))
        for _ in range(rng.randrange(1, 4)):
            i = rng.randrange(n - 1)
            l[i], l[i + 1] = l[i + 1], l[i]
        return tuple(l)
    if mode == 2:                       # involution
        l = list(range(n))
        idx = list(range(n))
        rng.shuffle(idx)
        for i in range(0, n - 1 - rng.randrange(0, 3), 2):
            x, y = idx[i], idx[i + 1]
            l[x], l[y] = y, x
        return tuple(l)
    if mode == 3:                       # few long cycles
        idx = list(range(n))
        rng.shuffle(idx)
        l = [0] * n
        cut = sorted(rng.sample(range(1, n), min(n - 1, rng.randrange(0, 3))))
        parts = [idx[x:y] for x, y in zip([0] + cut, cut + [n])]
        for part in parts:
            for x, y in zip(part, part[1:] + part[:1]):
                l[x] = y
        return tuple(l)
    if mode == 4:                       # direct sum of decreasing blocks (layered) or skew sum of increasing ones
        blocks, left = [], n
        while left:
            b = rng.randrange(1, min(left, 6) + 1)
            blocks.append(b)
            left -= b
        res, off = [], 0
        for b in blocks:
            res.extend(range(off + b - 1, off - 1, -1))
            off += b
        if rng.random() < 0.5:
            res = [n - 1 - v for v in res]
        return tuple(res)
    if mode == 5:                       # planted long ascending / descending run inside a random permutation
        l = list(rand_perm(rng, n))
        L = rng.randrange(3, max(4, n // 2))
        st = rng.randrange(0, n - L + 1)
        seg = sorted(l[st:st + L], reverse=rng.random() < 0.5)
        l[st:st + L] = seg
        return tuple(l)
    if mode == 6:                       # n-1, n-2, ... planted in order (maximal decreasing run), rest random
        k = rng.randrange(1, n)
        pos = sorted(rng.sample(range(n), k))
        l = [None] * n
        for j, ps in enumerate(pos):
            l[ps] = n - 1 - j
        rest = list(range(n - k))
        rng.shuffle(rest)
        it = iter(rest)
        return tuple(v if v is not None else next(it) for v in l)
    l = list(range(n))                   # reverse identity with a few swaps
    l.reverse()
    for _ in range(rng.randrange(0, 3)):
        i, j = rng.randrange(n), rng.randrange(n)
        l[i], l[j] = l[j], l[i]
    return tuple(l)


def isolated_block(rng, n):
    """k pairwise non-adjacent values, none of them the smallest or the largest, gathered in a block of adjacent
    positions at one end (or in the middle); the other values in any order.  From the definition of holeyness: the
    positions OUTSIDE the block are one or two runs whose values have k+1 runs, so the maximum is reached by a large
    set of positions (n-k of them) and - block at an end - by no small one."""
    k = rng.randrange(2, max(3, (n - 1) // 2 - 1) + 1)
    while True:
        hole = sorted(rng.sample(range(1, n - 1), k))
        if all(b - a >= 2 for a, b in zip(hole, hole[1:])):
            break
    rest = [v for v in range(n) if v not in hole]
    m = rng.randrange(4)
    if m == 0:
        rest.sort()
    elif m == 1:
        rest.sort(reverse=True)
    else:
        rng.shuffle(rest)
    rng.shuffle(hole)
    at = rng.choice([0, len(rest), len(rest), rng.randrange(len(rest) + 1)])
    return tuple(rest[:at] + hole + rest[at:])


def large_optimum(rng, n):
    """a permutation whose holeyness is reached ONLY by a set of more than half of the positions (when it exists for
    this n; measured with a size-capped variant of the definition: 12 % of the outputs at length 9, 23 % at 11, 7 %
    at 12, none at 10): t values with gaps of one or two between them (the second smallest and second largest
    among them) sit at the two ends, the other n-t values in between in increasing (or decreasing) order.  The
    middle positions are ONE run whose values have t+1 runs; a run of one or two values cannot be split by leaving
    positions out, so every smaller set loses a value run or gains a position run."""
    ts = [t for t in range(2, n) if t - 1 <= n - t - 2 <= 2 * (t - 1)]
    t = rng.choice(ts)
    runs = [1] * (t - 1)
    for i in rng.sample(range(t - 1), n - t - 2 - (t - 1)):
        runs[i] = 2
    runs = [1] + runs + [1]
    rest, hole, v = [], [], 0
    for j, r in enumerate(runs):
        rest += list(range(v, v + r))
        v += r
        if j < len(runs) - 1:
            hole.append(v)
            v += 1
    if rng.random() < 0.3:
        rest.reverse()
    rng.shuffle(hole)
    a = rng.randrange(0, t + 1)
    return tuple(hole[:a] + rest + hole[a:])


def sym_images(s):
    n = len(s)
    inv = [0] * n
    for i, v in enumerate(s):
        inv[v] = i
    return {"rev": tuple(reversed(s)), "comp": tuple(n - 1 - v for v in s), "inv": tuple(inv),
            "rc": tuple(n - 1 - v for v in reversed(s)), "id": tuple(s)}


# operations left out of the `large` stream from a given length on (measured; the limit is ~0.2 s per line on
# implementation, oracle and model): count_stack_sorts 3 s (implementation) and the layer decomposition 7 s (model)
# at 400; at 1000 the quadratic listings / the cubic run oracle need 1-3.5 s
# stack_sort: the library recurses once per element of a monotone run and raises RecursionError from length ~995 on
# (identity or its reverse, bare interpreter) - a resource limit of the implementation, reported, not exercised
_DROP_FROM = {"stack_sort": 600, "count_stack_sorts": 150, "rtlmax_ltrmin_decomposition": 150, "count_rtlmax_ltrmin_layers": 150,
              "rank_encoding": 600, "count_pop_stack_sorts": 600, "min_gapsize": 600, "inversions": 600,
              "non_inversions": 600, "longestruns_ascending": 600, "longestruns_descending": 600,
              "length_of_longestrun_ascending": 600, "length_of_longestrun_descending": 600,
              "length_of_longest_increasing_subsequence": 600, "length_of_longest_decreasing_subsequence": 600}
_DROP_STAT_FROM = {21: 150, 22: 600, 14: 600, 15: 600}


def pf_lines(s, rng=None, big=False):
    fs = fseq(s)
    n = len(s)
    lines = []
    for f in ALL_FUNCS:
        if f in _ABSENT or n >= _DROP_FROM.get(f, 10 ** 9):
            continue
        if f == "holeyness" and n > (12 if big else 10):
            continue
        if f == "fourpats" and n > 12:
            continue
        if f == "threepats" and n > 16:
            continue
        lines.append("pf %s %s" % (f, fs))
        if f in KNOWN_DEFECT_FUNCS:
            lines.append("pfm %s %s" % (f, fs))
    return lines


def stat_lines(s, n_limit_holey=10):
    fs = fseq(s)
    lines = []
    for i in range(NSTATS):
        if (i == 20 and len(s) > n_limit_holey) or len(s) >= _DROP_STAT_FROM.get(i, 10 ** 9):
            continue
        lines.append("stat %d %s" % (i, fs))
        if i in KNOWN_DEFECT_STATS:
            lines.append("statm %d %s" % (i, fs))
    return lines


def bases3():
    p3 = list(perms(3))
    res = [[p] for p in p3]
    res += [list(c) for c in itertools.combinations(p3, 2)]
    return res


_ABSENT = set()


def run(ctx):
    rng = ctx.rng
    from permuta import Perm as P
    _ABSENT.update(f for f in OPTIONAL_FUNCS if not hasattr(P, f))
    quick = ctx.tier == "quick"
    N = 7 if quick else 8
    NS = 6 if quick else 7          # Lean-spec-vs-oracle bound
    ctx.exhaustive = True
    ctx.exhaustive_bound = ("ops pf and stat: every permutation of length <= %d for every Perm method of the anchor and "
                            "every table index; step sizes -1..3 for |perm| <= 5; spec/specl (Lean spec vs oracle) <= %d; "
                            "dist: all 21 bases of <= 2 patterns of length 3 and all permutations, all 32 statistics, n <= %d; "
                            "isprime: -5..%d" % (N, NS, 5 if quick else 6, 3000 if quick else 30000))
    # ---- corpus: docstring examples, boundary lengths, the candidate defects
    corpus = [
        "pf descents 3,1,0,2 2", "pf descents 0,1,3,2,4 N", "pf ascents 0,4,3,2,1 1", "pf count_descents 0,4,3,1,2 2",
        "pf descents 0,1 0", "pf ascents 0,1 -1", "pf peaks 5,3,4,0,2,1", "pf pinnacles 5,3,4,0,2,1",
        "pf count_inversions 3,0,2,1", "pf count_bounces 0,1", "pf holeyness 0,2,1", "pf min_gapsize 2,0,3,1",
        "pf min_gapsize _", "pf min_gapsize 0", "pf cycle_decomp 4,2,7,0,3,1,6,5", "pf cycle_notation 5,3,0,1,2,4",
        "pf cycle_notation _", "pf maximal_decreasing_run 5,0,4,1,2,3", "pf longestruns_ascending 0,2,1,4,3,5",
        "pf longestruns_descending 2,1,3,0", "pf longestruns_ascending _", "pf threepats 2,1,0,3",
        "pf rank_encoding 0,2,4,3,1", "pf count_pop_stack_sorts 5,1,4,3,0,2", "pf count_stack_sorts 1,2,0",
        "pf foremaxima 2,3,5,4,1,6,0", "pf afterminima 3,1,0,2,4,6,5", "pf aftermaxima 5,4,3,1,2,0",
        "pf foreminima 6,4,2,3,5,1,0", "pf order 4,3,5,0,2,1", "pf count_column_sum_primes 1,0",
        "pfm rtlmax_ltrmin_decomposition 2,7,3,1,4,8,6,0,5", "pfm rtlmax_ltrmin_decomposition 0,2,3,4,1",
        "pfm max_drop_size 2,0,1", "statm 14 0,2,1,3", "statm 15 3,1,2,0", "stat 14 0,1,2", "stat 13 _", "stat 0 _",
        "statname 0", "statname 31", "statname -1", "dist 16 5 *", "distupto 16 4 0,1,2", "dist 0 3 0",
        "dist 3 0 0,1", "preserved 5 0,1,2>2,1,0;0,2,1>1,2,0", "preserved 0 0,1,2>2,1,0", "preserved 3 -",
        "allpres -", "transformedm -", "transformedm 0,1>0,1;1,0>1,0", "equidist 0,1,2 2,1,0 3",
    ]
    ctx.compare("corpus", corpus)
    # ---- exhaustive: every Perm method / every table entry on every permutation
    lines = []
    for n in range(N + 1):
        for s in perms(n):
            lines.extend(pf_lines(s))
    ctx.compare("exhaustive-methods", lines)
    lines = []
    for n in range(N + 1):
        for s in perms(n):
            lines.extend(stat_lines(s))
    ctx.compare("exhaustive-table", lines)
    lines = []
    for n in range(6):
        for s in perms(n):
            for f in STEP_FUNCS:
                for k in (-1, 0, 1, 2, 3):
                    lines.append("pf %s %s %d" % (f, fseq(s), k))
    ctx.compare("exhaustive-steps", lines)
    # ---- the executable Lean specification against the Python oracle
    spec_listings = ["fixed_points", "strong_fixed_points", "descents", "ascents", "peaks", "valleys", "pinnacles", "bends",
                     "ltrmin", "ltrmax", "rtlmin", "rtlmax", "inversions", "non_inversions", "all_bonds", "inc_bonds",
                     "dec_bonds", "cyclic_peaks", "cyclic_valleys", "double_excedance", "double_drops", "foremaxima",
                     "afterminima", "aftermaxima", "foreminima", "rank_encoding", "cycle_decomp", "is_involution",
                     "longestruns_ascending", "longestruns_descending", "maximal_decreasing_run",
                     "rtlmax_ltrmin_decomposition"]
    lines = []
    for n in range(NS + 1):
        for s in perms(n):
            fs = fseq(s)
            lines.extend("spec %d %s" % (i, fs) for i in range(NSTATS))
            lines.extend("specl %s %s" % (f, fs) for f in spec_listings)
    ctx.compare("lean-spec-vs-oracle", lines)
    # ---- primes
    top = 3000 if quick else 30000
    ctx.compare("isprime", ["isprime %d" % z for z in range(-5, top)] +
                ["isprime %d" % (p * q) for p in (101, 103, 107, 109, 113, 127) for q in (101, 103, 107, 109, 113, 127, 131)])
    # ---- random large structured permutations
    R = 250 if quick else 2500
    lines = []
    for _ in range(R):
        n = rng.randrange(9, 31)
        s = structured_perm(rng, n)
        lines.extend(pf_lines(s))
        lines.extend(stat_lines(s))
        k = rng.choice([1, 2, 3, 4, n - 1])
        f = rng.choice(STEP_FUNCS)
        lines.append("pf %s %s %d" % (f, fseq(s), k))
    for _ in range(R // 2):               # holeyness / fourpats sized
        s = structured_perm(rng, rng.randrange(8, 11))
        lines.append("pf holeyness %s" % fseq(s))
        lines.append("stat 20 %s" % fseq(s))
        lines.append("pf fourpats %s" % fseq(s))
    ctx.compare("random-structured", lines)
    # ---- sizes the other streams never reach
    # (a) the exponential statistics at the lengths 9..12 (holeyness: all 2^n sets of positions on every side;
    #     fourpats), on random permutations and on permutations whose optimum needs a LARGE set of positions
    lines = []
    for n in (9, 10, 11, 12):
        for j in range((100 if n == 9 else 60 if n == 11 else 30) if quick else 400):
            s = (large_optimum(rng, n) if j % 4 == 1 else isolated_block(rng, n)) if j % 2 else \
                (rand_perm(rng, n) if j % 4 else structured_perm(rng, n))
            if rng.random() < 0.3:
                s = sym_images(s)[rng.choice(["rev", "comp", "rc"])]
            lines.append("pf holeyness %s" % fseq(s))
            if j % 3 == 0:
                lines.append("stat 20 %s" % fseq(s))
            if j % 5 == 0:
                lines.append("pf fourpats %s" % fseq(s))
    # (b) every other method / table entry at 31-40, 64-70 and a handful of lines around 200, 401 and 1000
    for lo, hi, cnt in ((31, 40, 4), (64, 70, 3), (199, 202, 1), (400, 403, 1), (1000, 1000, 1)):
        for _ in range(cnt if quick else cnt * 6):
            n = rng.randrange(lo, hi + 1)
            s = structured_perm(rng, n)
            lines.extend(pf_lines(s))
            lines.extend(stat_lines(s))
            for f in STEP_FUNCS:
                lines.append("pf %s %s %d" % (f, fseq(s), rng.choice([1, 2, n - 1, n // 2])))
    ctx.compare("large", lines)
    # ---- distributions
    ND = 5 if quick else 6
    lines = []
    for b in [None] + bases3():
        fb = "*" if b is None else fseqs(b)
        top_n = (6 if b is None or len(b) == 1 else ND) if quick else 6
        for i in range(NSTATS):
            for n in range(top_n + 1):
                lines.append("dist %d %d %s" % (i, n, fb))
            if rng.random() < 0.25:
                lines.append("distupto %d %d %s" % (i, rng.randrange(0, 5), fb))
    for b in ([(0,)], [(0, 1)], [(1, 0)], [(0, 1), (1, 0)], [(0, 1, 2, 3)], [(1, 3, 0, 2), (2, 0, 3, 1)], [(0, 1, 2), (1, 0)],
              [(0, 2, 1), (2, 0, 1), (1, 2, 0)]):
        for i in range(NSTATS):
            lines.append("dist %d %d %s" % (i, rng.randrange(0, 6), fseqs(b)))
    ctx.compare("distributions", lines)
    # ---- bijections as data
    lines = []
    B = 60 if quick else 400
    for _ in range(B):
        m = rng.randrange(0, 9)
        keys = []
        while len(keys) < m:
            s = rand_perm(rng, rng.randrange(0, 8)) if rng.random() < 0.7 else structured_perm(rng, rng.randrange(8, 13))
            if s not in keys and len(s) <= 10:
                keys.append(s)
        mode = rng.choice(["rev", "comp", "inv", "rc", "id", "random", "mixed"])
        pairs = []
        for s in keys:
            im = sym_images(s)
            if mode == "random":
                v = rand_perm(rng, len(s))
            elif mode == "mixed":
                v = im[rng.choice(["rev", "comp", "inv", "rc", "id"])] if rng.random() < 0.8 else rand_perm(rng, len(s))
            else:
                v = im[mode]
            pairs.append((s, v))
        fb = fbij(pairs)
        lines.append("allpres %s" % fb)
        lines.append("transformed %s" % fb)
        lines.append("transformedm %s" % fb)
        for i in rng.sample(range(NSTATS), 6):
            lines.append("preserved %d %s" % (i, fb))
    # whole symmetric groups under a symmetry (README example shape)
    for mode in ("rev", "inv", "comp", "rc"):
        pairs = [(s, sym_images(s)[mode]) for n in range(5) for s in perms(n)]
        lines.append("allpres %s" % fbij(pairs))
        lines.append("transformed %s" % fbij(pairs))
        lines.append("transformedm %s" % fbij(pairs))
    ctx.compare("bijections", lines)
    # ---- two classes
    lines = []
    b3 = bases3()
    E = 14 if quick else 80
    for _ in range(E):
        b1 = rng.choice(b3)
        r = rng.random()
        if r < 0.4:
            mode = rng.choice(["rev", "comp", "inv", "rc"])
            b2 = [sym_images(p)[mode] for p in b1]
        elif r < 0.5:
            b2 = list(reversed(b1))
        else:
            b2 = rng.choice(b3)
        lines.append("equidist %s %s %d" % (fseqs(b1), fseqs(b2), rng.randrange(0, 5 if quick else 6)))
    for _ in range(3 if quick else 12):
        b1 = rng.choice(b3)
        b2 = [sym_images(p)[rng.choice(["rev", "comp", "inv", "id"])] for p in b1]
        lines.append("jointeq %s %s %d 2" % (fseqs(b1), fseqs(b2), rng.randrange(2, 4)))
        lines.append("jointeq %s %s %d 1" % (fseqs(b1), fseqs(b2), rng.randrange(2, 5)))
        lines.append("jointtr %s %s %d 1" % (fseqs(b1), fseqs(b2), rng.randrange(2, 4)))
    lines.append("jointeq 0,1,2 0,1,2 2 0")
    lines.append("jointeq 0,1,2 2,1,0 2 3" if not quick else "jointeq 0,1 1,0 1 3")
    # jointly_transformed_equally_distributed with dim=2 examines 491536 ordered pairs of pairs (about 25 s in the
    # implementation): ONE such line, up to length 2, where thousands of pairs hold - among them the pairs in which the
    # statistics change places between the two classes; it goes first so that it overlaps with the rest of the stream
    lines.insert(0, "jointtr 0,2,1 1,2,0 2 2")
    ctx.compare("two-classes", lines)
    # ---- malformed / glue
    lines = ["stat 32 0,1", "stat -33 0,1", "stat 100 _", "stat -1 2,0,1", "stat -32 2,0,1", "statname 32", "statname -33",
             "dist 40 2 *", "preserved 32 0>0", "pf min_gapsize _", "pf min_gapsize 0"]
    for s in [(), (0,), (1, 0), (2, 0, 1)]:
        for f in STEP_FUNCS:
            for k in (0, -1, -7):
                lines.append("pf %s %s %d" % (f, fseq(s), k))
    for s in [(2, 5, 3), (1, 1, 0), (7,), (3, 3, 3, 3), (0, 2, 4, 6, 5), (9, 4, 4, 8, 1, 1)]:
        for f in TUPLE_SAFE:
            lines.append("pf %s %s" % (f, fseq(s)))
    ctx.compare("malformed", lines)


PARTIAL.extend([
    "countPopStackSorts_fuel_suffices: a permutation is sorted after at most len(p) pop-stack passes (Ungar) - not proved; "
    "proved: countPopStackSorts_eq_least (the count is the least number of device passes, searched up to len(p))",
    "maxDropSize_eq_spec: FALSE at the pinned commit (known finding C11-max-drop-size-is-max-excedance); model mirrors the code",
    "rtlmaxLtrminDecomposition_eq_spec: FALSE at the pinned commit (known finding C11-layers-on-unstandardised-remainder); "
    "proved instead: termination for every sequence and layerPositions_eq_spec for sequences with entries below their length",
    "stat_table entries 14/15 (Longest increasing/decreasing subsequence): bound to longest RUN (known finding); "
    "lisDP_eq_spec for the function proposed in patches/c11-fix-lis.diff - correspondence only",
    "kpats (threepats/fourpats) = Counter of standardised subsequences, minGapsize = minimum taxicab "
    "distance, jointly_equally_distributed / jointly_transformed_equally_distributed reporting exactly the index tuples "
    "with equal joint Counters - correspondence only",
    "named statistics proved equal to their definition for all permutations: 28 of 32 (C11.provedNames); the other 4 "
    "(longest increasing / decreasing subsequence and maximum drop size: known findings; pop-stack-sorts: proved up to "
    "termination) are tied by the three-way comparison implementation / Python oracle / Lean spec only",
])
