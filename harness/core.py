"""Shared machinery of the Permuta verification harness.

Every property module (harness/cXX.py) defines a *line protocol*: one self-contained operation
per line (`op arg1 arg2 ...`).  The same line is evaluated

  * by `impl(op, args)`   -- on the real code in /repo (in-process),
  * by the Lean driver    -- on the formal model (lean/.lake/build/bin/driver),
  * by `oracle(op, args)` -- optional: an independent brute-force reading of the property text,

and the canonical answer strings are compared.  See DESIGN.md section 2.5 / 6.
"""
import fcntl
import hashlib
import json
import os
import random
import re
import subprocess
import sys
import time
import traceback
from concurrent.futures import ProcessPoolExecutor

VERIF = os.path.dirname(os.path.dirname(os.path.abspath(__file__)))
REPO = os.environ.get("PERMUTA_REPO", "/repo")
LEAN = os.path.join(VERIF, "lean")
DRIVER = os.path.join(LEAN, ".lake", "build", "bin", "driver")
NPROC = int(os.environ.get("VERIF_NPROC", "16"))
ALLOWED_AXIOMS = {"propext", "Classical.choice", "Quot.sound"}

if REPO not in sys.path:
    sys.path.insert(0, REPO)
os.environ.setdefault("PERMUTA_VERIF", "1")


# ----------------------------------------------------------------------------- formatting
def fseq(p):
    p = list(p)
    return "_" if not p else ",".join(str(int(x)) for x in p)


def fseqs(ps):
    ps = list(ps)
    return "-" if not ps else ";".join(fseq(p) for p in ps)


def fcells(cs, sort=True):
    cs = list(cs)
    if sort:
        cs = sorted(cs)
    return "_" if not cs else ",".join("%d.%d" % (x, y) for x, y in cs)


def fbool(b):
    return "T" if b else "F"


def pseq(s):
    return () if s == "_" else tuple(int(x) for x in s.split(","))


def pseqs(s):
    return [] if s == "-" else [pseq(t) for t in s.split(";")]


def pcells(s):
    return [] if s == "_" else [tuple(int(z) for z in t.split(".")) for t in s.split(",")]


def ferr(e):
    return "ERR:" + type(e).__name__


def guarded(fn):
    """run fn() mapping exceptions to the protocol's error strings"""
    try:
        return fn()
    except (AssertionError, ValueError, TypeError, KeyError, IndexError, NotImplementedError) as e:
        return ferr(e)
    except Exception as e:  # any other exception kind is reported verbatim
        return "ERR:" + type(e).__name__


# ----------------------------------------------------------------------------- driver
def driver_available():
    return os.path.exists(DRIVER)


def run_driver(lines, prop=None):
    """Evaluate lines on the Lean model; returns list of answers (same length)."""
    if not lines:
        return []
    prop = prop or _PROP[0]
    data = "".join("%s %s\n" % (prop, l) for l in lines)
    p = subprocess.run([DRIVER], input=data.encode(), stdout=subprocess.PIPE, stderr=subprocess.PIPE)
    if p.returncode != 0:
        raise RuntimeError("driver crashed: rc=%s stderr=%s" % (p.returncode, p.stderr.decode()[-2000:]))
    out = p.stdout.decode().split("\n")
    if out and out[-1] == "":
        out.pop()
    if len(out) != len(lines):
        raise RuntimeError("driver returned %d answers for %d lines" % (len(out), len(lines)))
    return out


_PROP = [None]


def _driver_chunk(chunk):
    return run_driver(chunk)


def run_driver_parallel(lines, pool=None):
    if len(lines) < 32 or pool is None:
        return run_driver(lines)
    # several driver processes side by side (the compiled driver starts in milliseconds); small chunks so that a
    # stream with a few expensive lines is spread over all cores
    k = max(4, min(2000, len(lines) // (NPROC * 4) + 1))
    chunks = [lines[i:i + k] for i in range(0, len(lines), k)]
    res = []
    for r in pool.map(_driver_chunk, chunks):
        res.extend(r)
    return res


# ----------------------------------------------------------------------------- build / audit
def sh(cmd, cwd=None, timeout=None):
    p = subprocess.run(cmd, cwd=cwd, shell=isinstance(cmd, str), stdout=subprocess.PIPE,
                       stderr=subprocess.STDOUT, timeout=timeout)
    return p.returncode, p.stdout.decode(errors="replace")


class BuildLock:
    def __enter__(self):
        os.makedirs(os.path.join(LEAN, ".lake"), exist_ok=True)
        self.f = open(os.path.join(LEAN, ".lake", "verif-build.lock"), "w")
        fcntl.flock(self.f, fcntl.LOCK_EX)
        return self

    def __exit__(self, *a):
        fcntl.flock(self.f, fcntl.LOCK_UN)
        self.f.close()


def translate(prop=None):
    """regenerate Generated/Tables.lean from /repo's working tree; returns (ok, log)"""
    rc, out = sh([sys.executable, os.path.join(VERIF, "tools", "translate.py"), REPO, LEAN] + ([prop] if prop else []))
    return rc == 0, out


def lake_build(targets):
    rc, out = sh(["lake", "build"] + targets, cwd=LEAN, timeout=3000)
    return rc == 0, out


def prop_modules(prop):
    """Props/<prop>.lean and, when present, Props/<prop>Ext.lean (property theorems of <prop> that need results of
    properties proved later in the import order, e.g. C15's semantic theorem obtained from C14's)"""
    mods = [prop]
    if os.path.exists(os.path.join(LEAN, "PermutaModel", "Props", prop + "Ext.lean")):
        mods.append(prop + "Ext")
    return mods


def prop_theorems(prop):
    """names of the theorems stated in Props/<prop>.lean (+ Props/<prop>Ext.lean): the proof obligations"""
    allnames, allsrc = [], ""
    for m in prop_modules(prop):
        path = os.path.join(LEAN, "PermutaModel", "Props", m + ".lean")
        if not os.path.exists(path):
            continue
        src = open(path).read()
        # strip block comments so commented-out statements are not counted
        stripped = re.sub(r"/-.*?-/", "", src, flags=re.S)
        stripped = re.sub(r"--.*", "", stripped)
        names = re.findall(r"^\s*(?:@\[[^\]]*\]\s*)?theorem\s+([^\s:({\[]+)", stripped, flags=re.M)
        ns = re.findall(r"^namespace\s+(\S+)", stripped, flags=re.M)
        prefix = (ns[0] + ".") if ns else ""
        allnames += [prefix + n for n in names]
        allsrc += src
    return allnames, allsrc


FORBIDDEN = re.compile(r"\bsorry\b|\badmit\b|^\s*axiom\s|native_decide|bv_decide|implemented_by|\bunsafe\s|maxHeartbeats\s+0\b", re.M)


def source_audit():
    """grep the Lean project for forbidden constructs (comments stripped)"""
    bad = []
    root = os.path.join(LEAN, "PermutaModel")
    for d, _, fs in os.walk(root):
        for f in fs:
            if f.endswith(".lean"):
                src = open(os.path.join(d, f)).read()
                s = re.sub(r"/-.*?-/", "", src, flags=re.S)
                s = re.sub(r"--.*", "", s)
                m = FORBIDDEN.search(s)
                if m:
                    bad.append("%s: %s" % (os.path.relpath(os.path.join(d, f), LEAN), m.group(0).strip()))
    return bad


def axiom_audit(prop):
    """#print axioms for every theorem of Props/<prop>.lean.
    returns (obligations, discharged, details, log)"""
    names, src = prop_theorems(prop)
    if not names:
        return 0, 0, {}, "no Props/%s.lean" % prop
    oleans = [os.path.join(LEAN, ".lake", "build", "lib", "lean", "PermutaModel", "Props", m + ".olean") for m in prop_modules(prop)]
    key = ""
    if all(os.path.exists(o) for o in oleans):
        key = hashlib.sha256(b"".join(open(o, "rb").read() for o in oleans) + src.encode()).hexdigest()
    cache_path = os.path.join(LEAN, ".lake", "audit-%s.json" % prop)
    if key and os.path.exists(cache_path):
        try:
            c = json.load(open(cache_path))
            if c.get("key") == key:
                return c["obligations"], c["discharged"], c["details"], "cached"
        except Exception:
            pass
    audit_file = os.path.join(LEAN, ".lake", "Audit_%s.lean" % prop)
    with open(audit_file, "w") as f:
        for m in prop_modules(prop):
            f.write("import PermutaModel.Props.%s\n" % m)
        for n in names:
            f.write("#print axioms %s\n" % n)
    rc, out = sh(["lake", "env", "lean", audit_file], cwd=LEAN, timeout=1200)
    details = {}
    # output: "'name' depends on axioms: [a, b]" or "'name' does not depend on any axioms"
    for m in re.finditer(r"'([^']+)' depends on axioms: \[([^\]]*)\]", out, flags=re.S):
        details[m.group(1)] = [a.strip() for a in m.group(2).replace("\n", " ").split(",") if a.strip()]
    for m in re.finditer(r"'([^']+)' does not depend on any axioms", out):
        details[m.group(1)] = []
    discharged = 0
    for n in names:
        ax = details.get(n)
        if ax is not None and set(ax) <= ALLOWED_AXIOMS:
            discharged += 1
    if rc == 0 and key:
        json.dump({"key": key, "obligations": len(names), "discharged": discharged, "details": details},
                  open(cache_path, "w"))
    return len(names), discharged, details, out[-3000:]


# ----------------------------------------------------------------------------- known findings
def load_known():
    path = os.path.join(VERIF, "KNOWN_FINDINGS.json")
    if not os.path.exists(path):
        return []
    return json.load(open(path)).get("findings", [])


def match_known(prop, line, known):
    for k in known:
        if k.get("property") != prop or k.get("kind") != "known":
            continue
        pat = k.get("line_re")
        if pat and re.fullmatch(pat, line):
            return k
    return None


# ----------------------------------------------------------------------------- evaluation workers
_MODULE = None


def _init_worker(modname):
    global _MODULE
    import importlib
    sys.path.insert(0, os.path.join(VERIF, "harness"))
    _MODULE = importlib.import_module(modname)
    _PROP[0] = _MODULE.PROP
    if hasattr(_MODULE, "worker_init"):
        _MODULE.worker_init()


class _LineTimeout(BaseException):
    """raised by the CPU-time watchdog of one evaluation (BaseException: `except Exception` does not swallow it)"""


def _vt_handler(_sig, _frm):
    raise _LineTimeout()


# CPU seconds one line may take on one side before it is cut off (CPU time of the worker process: machine load does
# not count).  Ordinary lines take milliseconds; the limits only bound pathological cases so that a check always ends.
IMPL_CPU_LIMIT = float(os.environ.get("VERIF_IMPL_CPU_LIMIT", "600"))
ORACLE_CPU_LIMIT = float(os.environ.get("VERIF_ORACLE_CPU_LIMIT", "300"))
SLOW_REPORT_S = float(os.environ.get("VERIF_SLOW_REPORT", "60"))


def _cpu_limited(fn, secs):
    """(value, timed_out, cpu seconds used)"""
    import signal
    t0 = time.process_time()
    old = signal.signal(signal.SIGVTALRM, _vt_handler)
    signal.setitimer(signal.ITIMER_VIRTUAL, secs)
    try:
        return fn(), False, time.process_time() - t0
    except _LineTimeout:
        return None, True, time.process_time() - t0
    finally:
        signal.setitimer(signal.ITIMER_VIRTUAL, 0)
        signal.signal(signal.SIGVTALRM, old)


def _eval_chunk(chunk):
    """chunk: list of lines -> list of (impl_out, oracle_out or None, nontrivial)"""
    res = []
    m = _MODULE
    for line in chunk:
        toks = line.split(" ")
        op, args = toks[0], toks[1:]
        try:
            io, cut, used = _cpu_limited(lambda: m.impl(op, args), IMPL_CPU_LIMIT)
            if cut:
                io = "ERR:Timeout(no answer within %d CPU seconds)" % IMPL_CPU_LIMIT
            if used > SLOW_REPORT_S:
                sys.stderr.write("SLOW implementation side (%.0f CPU s): %s\n" % (used, line[:300]))
        except Exception as e:  # harness fault, reported distinctly
            io = "HARNESS-FAULT:" + type(e).__name__ + ":" + str(e)[:200] + traceback.format_exc()[-400:].replace("\n", " | ")
        oo = None
        if hasattr(m, "oracle"):
            try:
                oo, cut, used = _cpu_limited(lambda: m.oracle(op, args), ORACLE_CPU_LIMIT)
                if cut:
                    oo = None          # the brute-force oracle is silent on this line (the model still answers)
                    sys.stderr.write("ORACLE silent after %d CPU s: %s\n" % (ORACLE_CPU_LIMIT, line[:300]))
                elif used > SLOW_REPORT_S:
                    sys.stderr.write("SLOW oracle side (%.0f CPU s): %s\n" % (used, line[:300]))
            except Exception as e:
                oo = "ORACLE-FAULT:" + type(e).__name__ + ":" + str(e)[:200]
        nt = True
        if hasattr(m, "nontrivial"):
            try:
                nt = bool(m.nontrivial(op, args, io))
            except Exception:
                nt = False
        res.append((io, oo, nt))
    return res


class Ctx:
    def __init__(self, prop, tier, seed, modname):
        self.prop = prop
        self.tier = tier
        self.seed = seed
        self.modname = modname
        self.rng = random.Random("%s-%s" % (seed, prop))
        self.t0 = time.time()
        self.evaluations = 0
        self.distinct = set()
        self.samples = []
        self.streams = {}
        self.ops = {}
        self.errkinds = {}
        self.mismatch_model = []      # impl != model
        self.mismatch_oracle = []     # impl != oracle (property fails on the implementation)
        self.faults = []
        self.notes = []
        self.extra = {}
        self.pool = None
        self.model_ok = True

    def time_left(self, budget):
        return budget - (time.time() - self.t0)

    def compare(self, stream, lines, use_model=True):
        """evaluate lines on implementation, oracle and model; record everything"""
        lines = list(lines)
        if not lines:
            return
        t_start = time.time()
        k = max(1, min(2000, len(lines) // (NPROC * 4) + 1))
        chunks = [lines[i:i + k] for i in range(0, len(lines), k)]
        results = []
        for r in self.pool.map(_eval_chunk, chunks):
            results.extend(r)
        t_impl = time.time()
        model = None
        if use_model and self.model_ok and driver_available():
            model = run_driver_parallel(lines, self.pool)
        if os.environ.get("VERIF_PROGRESS"):
            sys.stderr.write("[%6.0fs] stream %-32s %7d lines  impl+oracle %.0fs  model %.0fs\n" % (
                time.time() - self.t0, stream, len(lines), t_impl - t_start, time.time() - t_impl))
        for idx, line in enumerate(lines):
            io, oo, nt = results[idx]
            mo = model[idx] if model is not None else None
            self.record(stream, line, io, oo, nt, mo, sample=(idx % max(1, len(lines) // 3) == 0))

    def compare_precomputed(self, stream, cases):
        """cases: list of (line, impl_out, oracle_out_or_None, nontrivial) already evaluated on the
        implementation (e.g. concurrent runs whose line is only known afterwards); the model is run here"""
        cases = list(cases)
        if not cases:
            return
        model = None
        if self.model_ok and driver_available():
            model = run_driver_parallel([c[0] for c in cases], self.pool)
        for idx, (line, io, oo, nt) in enumerate(cases):
            self.record(stream, line, io, oo, nt, model[idx] if model is not None else None,
                        sample=(idx % max(1, len(cases) // 3) == 0))

    def record(self, stream, line, io, oo, nt, mo, sample=False):
        st = self.streams.setdefault(stream, {"cases": 0, "nontrivial": 0})
        self.evaluations += 1
        st["cases"] += 1
        op = line.split(" ", 1)[0]
        self.ops[op] = self.ops.get(op, 0) + 1
        if io.startswith("ERR:"):
            self.errkinds[io] = self.errkinds.get(io, 0) + 1
        if io.startswith("HARNESS-FAULT") or (oo or "").startswith("ORACLE-FAULT"):
            self.faults.append({"line": line, "impl": io, "oracle": oo})
            return
        if nt:
            st["nontrivial"] += 1
            self.distinct.add(hashlib.md5(line.encode()).digest()[:8])
        if len(self.samples) < 12 and sample:
            self.samples.append({"stream": stream, "line": line, "impl": io[:300], "model": (mo or "")[:300],
                                 "oracle": (oo or "")[:300]})
        if mo is not None and mo == "bad-op":
            self.faults.append({"line": line, "impl": io, "model": mo})
            return
        om = oo is not None and oo != io
        mm = mo is not None and mo != io
        if om:
            # model_agrees: the implementation still deviates exactly as the model (which mirrors the
            # code as it was when a finding was recorded) does; only then may a known finding apply
            self.mismatch_oracle.append({"stream": stream, "line": line, "impl": io, "oracle": oo, "model": mo,
                                         "model_agrees": not mm})
        elif mm:
            self.mismatch_model.append({"stream": stream, "line": line, "impl": io, "oracle": oo, "model": mo})


# ----------------------------------------------------------------------------- main protocol
def write_json(path, obj):
    os.makedirs(os.path.dirname(path), exist_ok=True)
    tmp = path + ".tmp%d" % os.getpid()
    with open(tmp, "w") as f:
        json.dump(obj, f, indent=1, sort_keys=True)
    os.replace(tmp, path)


def trusted_base(mod):
    base = [
        "Lean 4.33.0 kernel/elaborator (thorough tier: leanchecker re-check of Props and Lemmas oleans)",
        "axioms allowed: propext, Classical.choice, Quot.sound (audited with #print axioms each run); no native_decide/bv_decide/sorry",
        "hand-written Lean model tied to /repo only by this run's correspondence check (exhaustive-small + seeded random)",
        "tools/translate.py (Python ast) for Generated/Tables.lean, cross-checked against live objects",
        "CPython semantics of tuple/set/dict/sorted/itertools taken as given",
    ]
    base.extend(getattr(mod, "TRUSTED", []))
    return base


def run_check(mod, argv):
    import argparse
    ap = argparse.ArgumentParser()
    ap.add_argument("--tier", default=os.environ.get("VERIF_TIER", "quick"))
    ap.add_argument("--replay", default=None)
    ap.add_argument("--no-build", action="store_true")
    a = ap.parse_args(argv)
    prop = mod.PROP
    _PROP[0] = prop
    seed = int(os.environ.get("VERIF_SEED", "0"))
    if a.replay:
        return run_replay(mod, a.replay)
    tier = a.tier if a.tier in ("quick", "thorough") else "quick"
    ctx = Ctx(prop, tier, seed, mod.__name__)
    broken = []     # broken proof obligations / build problems (names)
    build_log = ""
    # 1-2. regenerate tables, build
    with BuildLock():
        ok_t, log_t = translate(prop)
        if not ok_t:
            print("translator fault:\n" + log_t[-3000:])
            return 2
        if "MISSING item" in log_t:
            broken.append("translator: " + "; ".join(l for l in log_t.splitlines() if "MISSING item" in l))
        fallbacks = [l for l in log_t.splitlines() if l.startswith("FALLBACK item")]
        for l in fallbacks:
            print("NOTE: translator " + l + " - pinned table used, this run's correspondence ties it to the code")
        ctx.extra["translator_fallbacks"] = fallbacks
        ok_d, log_d = lake_build(["driver"])
        if not ok_d:
            ctx.model_ok = False
            broken.append("lake build driver failed (model does not elaborate against regenerated tables)")
            build_log += log_d[-4000:]
        ok_p, log_p = lake_build(["PermutaModel.Props.%s" % m for m in prop_modules(prop)])
        if not ok_p:
            broken.append("lake build PermutaModel.Props.%s failed" % prop)
            build_log += log_p[-6000:]
        # 3. audits
        obligations, discharged, details, alog = (0, 0, {}, "")
        if ok_p:
            obligations, discharged, details, alog = axiom_audit(prop)
            if discharged < obligations:
                bad = [n for n in prop_theorems(prop)[0]
                       if not (n in details and set(details[n]) <= ALLOWED_AXIOMS)]
                broken.append("axiom audit failed for: " + ", ".join(bad))
        src_bad = source_audit()
        if src_bad:
            broken.append("forbidden construct in Lean sources: " + "; ".join(src_bad))
        if tier == "thorough" and ok_p and os.environ.get("VERIF_SKIP_LEANCHECKER") != "1":
            rc, out = sh(["lake", "env", "leanchecker"] + ["PermutaModel.Props.%s" % m for m in prop_modules(prop)], cwd=LEAN, timeout=3000)
            ctx.extra["leanchecker"] = "ok" if rc == 0 else "FAILED: " + out[-500:]
            if rc != 0:
                broken.append("leanchecker rejected PermutaModel.Props.%s" % prop)
    # 4. translator self-check against live objects
    if hasattr(mod, "translator_selfcheck"):
        try:
            msg = mod.translator_selfcheck()
        except Exception as e:  # pylint: disable=broad-except
            # the extraction itself raised: that item is already reported as MISSING / FALLBACK by the translator
            msg = None
            ctx.notes.append("translator self-check skipped (%s: %s)" % (type(e).__name__, str(e)[:200]))
        if msg:
            print("translator self-check fault: " + msg)
            return 2
    # 5. correspondence
    with ProcessPoolExecutor(max_workers=NPROC, initializer=_init_worker, initargs=(mod.__name__,)) as pool:
        ctx.pool = pool
        try:
            mod.run(ctx)
        except Exception:
            print("harness fault:\n" + traceback.format_exc())
            return 2
    if ctx.faults:
        print("harness/oracle/driver faults (%d), first: %s" % (len(ctx.faults), json.dumps(ctx.faults[0])[:1500]))
        return 2
    # 6-7. classify
    known = load_known()
    violations = []       # (line-dict, kind)
    known_hits = {}
    for mm in sorted(ctx.mismatch_oracle, key=lambda d: (len(d["line"]), d["line"])):
        k = match_known(prop, mm["line"], known)
        if k and mm.get("model_agrees", True):
            known_hits.setdefault(k["id"], (k, mm))
        else:
            violations.append((mm, "property-fails-on-implementation"))
    model_only = sorted(ctx.mismatch_model, key=lambda d: (len(d["line"]), d["line"]))
    for mm in model_only:
        k = match_known(prop, mm["line"], known)
        if k:
            known_hits.setdefault(k["id"], (k, mm))
        else:
            violations.append((mm, "correspondence-broken"))
    extra_viol = getattr(ctx, "semantic_violations", [])
    for mm in extra_viol:
        k = match_known(prop, mm["line"], known)
        if k:
            known_hits.setdefault(k["id"], (k, mm))
        else:
            violations.append((mm, "property-fails-on-implementation"))
    # shrink the first concrete failing history to a minimal op sequence (modules whose lines are
    # `op a|b|c` histories declare SHRINK_SEP = "|")
    if violations and getattr(mod, "SHRINK_SEP", None):
        try:
            violations[0] = (shrink_case(mod, violations[0][0], violations[0][1]), violations[0][1])
        except Exception as e:  # shrinking is best effort
            ctx.notes.append("shrink failed: %r" % (e,))
    rc = 0
    os.makedirs(os.path.join(VERIF, "replays"), exist_ok=True)
    replay_path = os.path.join("replays", "%s-%s-%d.json" % (prop, tier, seed))
    for kid, (k, mm) in sorted(known_hits.items()):
        print("KNOWN-FINDING: property=%s %s [%s] e.g. %s" % (prop, k["what"], kid, mm["line"][:200]))
    concrete = [v for v in violations if v[1] == "property-fails-on-implementation"]
    if violations or broken:
        rc = 1
        first = (concrete or violations or [(None, None)])[0]
        replay = {
            "property": prop, "tier": tier, "seed": seed,
            "broken_obligations": broken,
            "build_log_tail": build_log[-6000:],
            "kind": first[1],
            "case": first[0],
            "all_cases": [v[0] for v in violations[:50]],
            "how_to_replay": "./check %s --replay %s" % (prop, replay_path),
        }
        write_json(os.path.join(VERIF, replay_path), replay)
        if concrete:
            print("failing input: %s\n  implementation: %s\n  property oracle: %s\n  model: %s" % (
                first[0]["line"], first[0]["impl"][:400], (first[0].get("oracle") or "")[:400], (first[0].get("model") or "")[:400]))
            print("VIOLATION property=%s replay=%s" % (prop, replay_path))
        else:
            if violations:
                print("correspondence broken at: %s\n  implementation: %s\n  model: %s" % (
                    first[0]["line"], first[0]["impl"][:400], (first[0].get("model") or "")[:400]))
            for b in broken:
                print("broken obligation: " + b)
            if build_log:
                print(build_log[-1500:])
            print("VIOLATION property=%s replay=%s no-failing-input-found" % (prop, replay_path))
    # evidence
    cov = {
        "obligations": obligations,
        "discharged": discharged,
        "checker_cmd": "cd lean && lake build PermutaModel.Props.%s && lake env lean .lake/Audit_%s.lean  # #print axioms per theorem" % (prop, prop),
        "trusted_base": trusted_base(mod),
        "theorems": {n: details.get(n) for n in prop_theorems(prop)[0]},
        "evaluations": ctx.evaluations,
        "distinct_nontrivial": len(ctx.distinct),
        "rule": getattr(mod, "RULE", ""),
        "samples": ctx.samples,
        "exhaustive": bool(getattr(ctx, "exhaustive", False)),
        "exhaustive_bound": getattr(ctx, "exhaustive_bound", ""),
        "streams": ctx.streams,
        "ops": ctx.ops,
        "error_kinds_seen": ctx.errkinds,
        "traces_validated_against_impl": ctx.evaluations if driver_available() and ctx.model_ok else 0,
        "partial": getattr(mod, "PARTIAL", []),
        "broken_obligations": broken,
        "known_findings_hit": sorted(known_hits.keys()),
        "notes": ctx.notes,
    }
    cov.update(ctx.extra)
    cov["modelled_source"] = source_drift(prop)
    ev = {
        "property_id": prop, "tier": tier, "seed": seed, "level": "proof",
        "coverage": cov,
        "assumptions": getattr(mod, "ASSUMPTIONS", []),
        "wall_s": round(time.time() - ctx.t0, 2),
        "violations": len(violations) + (1 if broken and not violations else 0),
    }
    write_json(os.path.join(VERIF, "evidence", prop + ".json"), ev)
    print("%s %s: obligations %d/%d, %d evaluations (%d distinct non-trivial), %d known findings, %.1fs, rc=%d" % (
        prop, tier, discharged, obligations, ctx.evaluations, len(ctx.distinct), len(known_hits),
        time.time() - ctx.t0, rc))
    return rc


def source_drift(prop):
    """structural fingerprints of the anchored files against tools/source_lock.json (information for the reader of
    the evidence: which modelled functions were edited since the model was validated; never a verdict)"""
    try:
        sys.path.insert(0, os.path.join(VERIF, "tools"))
        import source_lock
        d = source_lock.drift(prop, REPO)
        n = len(d.get("changed", [])) + len(d.get("added", [])) + len(d.get("removed", []))
        if n:
            print("NOTE: %d function(s) of the anchored files differ from the version the model was validated against "
                  "(%s ...); the verdict comes from the theorems and this run's correspondence" % (
                      n, ", ".join((d["changed"] + d["added"] + d["removed"])[:3])))
        return d
    except Exception as e:  # pylint: disable=broad-except
        return {"error": repr(e)}
    finally:
        if sys.path and sys.path[0].endswith("tools"):
            sys.path.pop(0)


def shrink_case(mod, case, kind, budget=150):
    """greedy delta-debugging on the last argument's SHRINK_SEP-separated ops"""
    sep = mod.SHRINK_SEP
    _init_worker(mod.__name__)
    head, _, hist = case["line"].rpartition(" ")
    parts = hist.split(sep)
    use_model = kind == "correspondence-broken"

    def failing(line):
        (io, oo, nt), = _eval_chunk([line])
        if io.startswith("HARNESS-FAULT") or (oo or "").startswith("ORACLE-FAULT"):
            return None
        if use_model:
            mo = run_driver([line])[0]
            return {"line": line, "impl": io, "oracle": oo, "model": mo, "stream": case.get("stream")} if mo != io and mo != "bad-op" else None
        if oo is not None and oo != io:
            mo = run_driver([line])[0] if driver_available() else None
            return {"line": line, "impl": io, "oracle": oo, "model": mo, "stream": case.get("stream")}
        return None

    best = case
    changed = True
    while changed and budget > 0:
        changed = False
        for i in range(len(parts)):
            cand = parts[:i] + parts[i + 1:]
            if not cand:
                continue
            budget -= 1
            r = failing(head + " " + sep.join(cand))
            if r is not None:
                parts, best, changed = cand, r, True
                break
            if budget <= 0:
                break
    if best is not case:
        best["shrunk_from"] = case["line"]
    return best


def run_replay(mod, path):
    if not os.path.isabs(path):
        path = os.path.join(VERIF, path)
    r = json.load(open(path))
    cases = [c for c in ([r.get("case")] + r.get("all_cases", [])) if c]
    seen = set()
    bad = 0
    _init_worker(mod.__name__)
    for c in cases:
        if c["line"] in seen:
            continue
        seen.add(c["line"])
        (io, oo, nt), = _eval_chunk([c["line"]])
        mo = run_driver([c["line"]])[0] if driver_available() else None
        status = "ok"
        if (oo is not None and oo != io) or (mo is not None and mo != io):
            status = "FAILS"
            bad += 1
        print("%s: %s\n  implementation: %s\n  oracle: %s\n  model: %s" % (status, c["line"], io[:500], (oo or "")[:500], (mo or "")[:500]))
    for b in r.get("broken_obligations", []):
        print("recorded broken obligation: " + b)
    if bad:
        print("VIOLATION property=%s replay=%s" % (mod.PROP, os.path.relpath(path, VERIF)))
        return 1
    return 0
