"""C13 - finiteness, polynomial growth and insertion-encodability verdicts
(permutils/finite.py, polynomial.py, insertion_encodable.py, Av wrappers, cli poly/insenc)."""
import contextlib
import fcntl
import io
import itertools
import os
import pickle
import re
from collections import Counter

import core
import used
import past
from core import fseq, fseqs, fbool, pseq, pseqs, guarded

PROP = "C13"
RULE = ("exhaustive: every set of <=3 permutations of length <=4 (6580 sets), each with all six verdict functions "
        "on a list plus (quick: two, thorough: all) other container kinds/orders/duplications, the Av wrappers, the CLI "
        "bodies, all eight symmetric images and an `enum` line that cross-checks the verdicts against brute-force "
        "avoider counts up to n=9 (n=10 for the pair 0123/3210); random: bases of 1-6 permutations of length 3-9 "
        "drawn from the ten classes, monotone permutations, near misses and symmetric images; histories: several calls "
        "in one line against cold / warm memo tables; non-trivial = the basis has >=2 permutations or one of "
        "length >=3 (a verdict is then not decided by length alone); distinct = distinct op lines")
ASSUMPTIONS = [
    "model/implementation agreement outside the enumerated and sampled inputs is assumed",
    "iteration order of Python sets is not modelled; the model evaluates set containers in listed order, which is "
    "justified by the proved order-independence (C13.verdicts_of_mem_iff)",
    "itertools.tee gives both consumers the full sequence (modelled as two independent copies)",
    "the Kaiser-Klazar / Huczynska-Vatter (polynomial growth) and Albert-Linton-Ruskuc (regular insertion encoding) "
    "structure theorems are cited, not proved: the theorems show that the code computes exactly their criteria",
]
PARTIAL = [
    "Kaiser-Klazar/Huczynska-Vatter and Albert-Linton-Ruskuc iff statements themselves - cited "
    "(the consequences the property names are proved: B1 C13.nonpolynomial_level_fib / class_fib_lower_bound, "
    "B2 C13.erdos_szekeres_level / isFinite_iff_eventually_empty, A6 C13.polyClass_closed / class_subset_level, "
    "Basis(B) vs B C13.verdicts_basisOf)",
]
TRUSTED = ["the structure theorems (polynomial growth, regular insertion encoding) are cited from the literature",
           "Basis(*perms) is modelled by sort + prune with the C01 containment model"]

KINDS = ["list", "tuple", "set", "frozenset", "basis", "gen", "iter"]
OPS = ["fin", "poly", "npoly", "insr", "insm", "ins"]


# ----------------------------------------------------------------------------- implementation side
def worker_init():
    global Perm, Av, Basis, MeshPatt, PU, PolyPerms, IEP, cli, argparse
    import argparse
    from permuta import Perm, Av, Basis, MeshPatt
    import permuta.permutils as PU
    from permuta.permutils import PolyPerms
    from permuta.permutils import InsertionEncodablePerms as IEP
    from permuta import cli


def _container(kind, perms, mk=None):
    """mk: None = fresh Perm objects; otherwise the factory of objects with a past (past.mkperm)"""
    perms = [Perm(p) for p in perms] if mk is None else [mk(p, i) for i, p in enumerate(perms)]
    if kind == "list":
        return perms
    if kind == "tuple":
        return tuple(perms)
    if kind == "set":
        return set(perms)
    if kind == "frozenset":
        return frozenset(perms)
    if kind == "basis":
        return Basis(*perms)
    if kind == "gen":
        return (p for p in perms)
    if kind == "iter":
        return iter(perms)
    raise ValueError(kind)


def _fn(op):
    return {"fin": PU.is_finite, "poly": PU.is_polynomial, "npoly": PU.is_non_polynomial,
            "insr": PU.is_insertion_encodable_rightmost, "insm": PU.is_insertion_encodable_maximum,
            "ins": PU.is_insertion_encodable}[op]


def _clear():
    """best-effort 'cold start' of the process-wide memos (only used to vary the call history): whatever private memo
    the two classes keep - a dict attribute, an lru_cache'd function - is emptied; if none is found the history
    simply starts warm.  Nothing depends on the memo's name or representation."""
    for cls in (PolyPerms, IEP):
        for name, val in list(vars(cls).items()):
            if name.startswith("__"):
                continue
            fn = getattr(val, "__func__", val)
            try:
                if isinstance(val, dict):
                    val.clear()
                elif hasattr(fn, "cache_clear"):
                    fn.cache_clear()
            except Exception:  # pylint: disable=broad-except
                pass


def _call(op, kind, perms, mk=None):
    return fbool(_fn(op)(_container(kind, perms, mk)))


def _mk(p, salt=0):
    """a Perm with a past (fresh / used / derived from a used object through another API route); sequences that
    are not permutations are built directly"""
    return past.mkperm(p, salt) if len(p) <= 410 and used.is_perm(p) else Perm(p)     # (using a Perm is quadratic in its length)


_FINITE_CLASSES = [((0, 1), (1, 0)), ((0, 1, 2), (1, 0)), ((0, 1), (2, 1, 0)), ((0, 1, 2), (2, 1, 0)), ((0, 1, 2, 3), (1, 0)),
                   ((0, 1, 2, 3), (2, 1, 0)), ((0, 1, 2), (3, 2, 1, 0)), ((0, 1), (3, 2, 1, 0))]
_INFINITE_CLASSES = [((0, 2, 1),), ((1, 0, 2),), ((1, 2, 0),), ((2, 0, 1),), ((0, 1, 3, 2),), ((1, 3, 0, 2),), ((2, 0, 3, 1),),
                     ((3, 1, 0, 2),)]


def _churn_line(a):
    """the `av` lines evaluated after histories of short-lived class objects: a deterministic 1 in 40; run() moves
    them into the LAST stream, because those histories reset the library's instance cache and the other streams must
    keep accumulating class objects undisturbed (eviction / recycling of long-lived instances is a history too)"""
    return used.sel("av", list(a), 40)


def _churn_av(classes):
    """short-lived class objects: created, asked every verdict, dropped (instance cache reset, garbage collected)"""
    qs = [lambda c: c.is_finite(), lambda c: c.is_polynomial(), lambda c: c.is_insertion_encodable()]
    used.churn(lambda b: Av([Perm(p) for p in b]), qs, classes, Av.clear_cache)


def _cli(fn, text):
    buf = io.StringIO()
    with contextlib.redirect_stdout(buf):
        fn(argparse.Namespace(basis=text))
    return buf.getvalue()


def _digits(groups):
    return "_".join("".join(str(d) for d in g) for g in groups)


def _nearby(perms):
    """bases close to `perms`: without its last element, with the last two entries of every permutation swapped,
    all reversed"""
    perms = [tuple(p) for p in perms]
    res = []
    if len(perms) > 1:
        res.append(perms[:-1])
    res.append([p[:-2] + (p[-1], p[-2]) if len(p) >= 2 else p for p in perms])
    res.append([p[::-1] for p in perms])
    return [b for b in res if b != perms]


def _neighbours(op, perms):
    for b in _nearby(perms):
        try:
            _fn(op)([Perm(p) for p in b])
        except Exception:  # pylint: disable=broad-except
            pass


def _av_twice(make, which):
    """the verdict of a class object, asked twice on the same object, after a verdict on a nearby class"""
    cls = make()
    pick = lambda c: {"fin": c.is_finite, "poly": c.is_polynomial, "ins": c.is_insertion_encodable}[which]  # noqa: E731
    r1 = fbool(pick(cls)())
    for other in ("fin", "poly", "ins"):
        try:
            {"fin": cls.is_finite, "poly": cls.is_polynomial, "ins": cls.is_insertion_encodable}[other]()
        except Exception:  # pylint: disable=broad-except
            pass
    r2 = fbool(pick(cls)())
    return r1 if r1 == r2 else "UNSTABLE:%s|%s" % (r1, r2)


def impl(op, a):
    if op in OPS:
        perms = pseqs(a[1])

        def f():
            if used.sel(op, a, 2):              # (a deterministic half of the lines)
                _neighbours(op, perms)          # the same verdict function on DIFFERENT nearby bases first
            warm = _call(op, a[0], perms)       # whatever the memo tables hold from earlier lines
            _clear()
            cold = _call(op, a[0], perms)       # empty memo tables
            again = _call(op, a[0], perms)      # tables filled by the previous call
            if not (warm == cold == again):
                return "HISTORY-DEPENDENT warm=%s cold=%s again=%s" % (warm, cold, again)
            big = any(len(p) > 8 for p in perms)
            if big or used.sel(op, a, 16):
                # the same value as objects with a past (used / derived from a used object by another API route)
                derived = _call(op, a[0], perms, _mk)
                if derived != cold:
                    return "OBJECT-DEPENDENT fresh=%s derived=%s" % (cold, derived)
            if a[0] == "list" and perms and (big or used.sel(op, a, 12)):
                # argument aliasing: the caller's list grows / shrinks in place between two calls
                fn = lambda l: fbool(_fn(op)(l))        # noqa: E731
                ps = [Perm(p) for p in perms]
                grown = used.grown_list(fn, ps)
                shrunk = used.shrunk_list(fn, ps, [Perm((0, 1)), Perm((2, 1, 0))])
                if not (grown == shrunk == cold):
                    return "ALIASING fresh=%s grown-in-place=%s shrunk-in-place=%s" % (cold, grown, shrunk)
            return cold
        return guarded(f)
    if op == "enum":
        perms = [Perm(p) for p in pseqs(a[0])]
        return guarded(lambda: "fin=%s poly=%s" % (fbool(PU.is_finite(perms)), fbool(PU.is_polynomial(perms))))
    if op == "av":
        def f():
            for b in _nearby(pseqs(a[1]))[:2]:
                try:
                    pick = Av([Perm(p) for p in b])
                    {"fin": pick.is_finite, "poly": pick.is_polynomial, "ins": pick.is_insertion_encodable}[a[0]]()
                except Exception:  # pylint: disable=broad-except
                    pass
            make = lambda: _av_twice(lambda: Av([_mk(p, i) for i, p in enumerate(pseqs(a[1]))]), a[0])  # noqa: E731
            if not _churn_line(a):
                return make()
            # the verdict after two different histories of short-lived class objects (all finite / all infinite
            # classes, dropped and collected): a class object at a recycled address must not inherit anything
            return used.after_histories(make, [lambda: _churn_av(_FINITE_CLASSES), lambda: _churn_av(_INFINITE_CLASSES)])
        return guarded(f)
    if op == "avmesh":
        def f():
            patts = []
            for t in a[1].split(";"):
                p, c = t.split("/")
                patts.append(Perm(pseq(p)) if c == "P" else MeshPatt(Perm(pseq(p)), core.pcells(c)))
            return _av_twice(lambda: Av(patts), a[0])
        return guarded(f)
    if op == "clipoly":
        def f():
            text = _digits(pseqs(a[0]))
            out = _cli(cli.has_poly_growth, text)
            basis = Basis.from_string(text)
            if out == "Av(%s) is polynomial\n" % (basis,):
                return "poly"
            if out == "Av(%s) is not polynomial\n" % (basis,):
                return "notpoly"
            return "UNEXPECTED-OUTPUT:" + out.replace(" ", "~").replace("\n", "\\n")
        return guarded(f)
    if op == "cliins":
        def f():
            text = _digits(pseqs(a[0]))
            out = _cli(cli.has_regular_insertion_encoding, text)
            cls = Av(Basis.from_string(text))
            sent = {"The class %s has a regular topmost insertion encoding" % (cls,): "top",
                    "The class %s has a regular rightmost insertion encoding" % (cls,): "right",
                    "%s does not have a regular insertion encoding" % (cls,): "none"}
            toks = []
            for line in out.split("\n")[:-1]:
                if line not in sent:
                    return "UNEXPECTED-OUTPUT:" + out.replace(" ", "~").replace("\n", "\\n")
                toks.append(sent[line])
            return "+".join(toks) if toks else "-"
        return guarded(f)
    if op == "sym8":
        perms = pseqs(a[1])
        return guarded(lambda: "".join(_call(a[0], "list", [_SYMS[k](p) for p in perms]) for k in range(8)))
    if op == "hist":
        def f():
            if a[0] == "cold":
                _clear()
            outs = []
            for tok in a[1:]:
                o, kind, b = tok.split(".")
                outs.append(_call(o, kind, pseqs(b), _mk if len(b) > 40 else None))
            return "|".join(outs)
        return guarded(f)
    if op == "bad":
        def f():
            arg = {"int": 5, "none": None, "tuples": [(0, 1), (1, 0)], "ints": [0, 1]}[a[1]]
            _clear()       # plain tuples hash like Perms: a warm memo table would hide the AttributeError
            return fbool(_fn(a[0])(arg))
        return guarded(f)
    raise ValueError("unknown op " + op)


# ----------------------------------------------------------------------------- independent definitions (oracle)
def _rev(p):
    return tuple(reversed(p))


def _comp(p):
    return tuple(len(p) - 1 - v for v in p)


def _inv(p):
    return tuple(sorted(range(len(p)), key=lambda i: p[i]))


_SYMS = [lambda p: tuple(p), _rev, _comp, lambda p: _rev(_comp(p)), _inv, lambda p: _rev(_inv(p)),
         lambda p: _comp(_inv(p)), lambda p: _rev(_comp(_inv(p)))]


def _mono(up, l):
    return all((l[i] < l[j]) if up else (l[i] > l[j]) for i in range(len(l)) for j in range(i + 1, len(l)))


def _juxt_h(a, b, p):
    """monotone-a prefix followed by monotone-b suffix (some cut)"""
    return any(_mono(a, p[:k]) and _mono(b, p[k:]) for k in range(len(p) + 1))


def _juxt_v(a, b, p):
    """the entries with value < k read left to right are monotone-a, those with value >= k monotone-b (some cut);
    these are the classes Av(132,312) etc. of the insertion-encoding theorem = inverses of the horizontal ones"""
    return any(_mono(a, [i for i in sorted(range(len(p)), key=lambda i: p[i]) if p[i] < k]) and
               _mono(b, [i for i in sorted(range(len(p)), key=lambda i: p[i]) if p[i] >= k])
               for k in range(len(p) + 1))


_LAYERED = {}


def _layered12(n):
    """all direct sums of 1's and 21's of length n"""
    if n not in _LAYERED:
        res = set()
        for k in range(n // 2 + 1):
            for twos in itertools.combinations(range(n - k), k):     # n-k blocks, k of them of size 2
                out = []
                for blk in range(n - k):
                    m = len(out)
                    out.extend([m + 1, m] if blk in twos else [m])
                res.add(tuple(out))
        _LAYERED[n] = res
    return _LAYERED[n]


def _mono_len(up, l):
    """length of the longest monotone prefix of l (adjacent comparisons: for a sequence equivalent to all pairs)"""
    k = min(len(l), 1)
    while k < len(l) and ((l[k - 1] < l[k]) if up else (l[k - 1] > l[k])):
        k += 1
    return k


def _classes_long(p):
    """the same ten classes for LONG permutations in linear time (the definitions above are cubic and the set of
    layered permutations is exponential): a monotone-a prefix / monotone-b suffix split exists iff the longest
    monotone-a prefix reaches the start of the longest monotone-b suffix; the value-wise juxtapositions are the
    position-wise ones of the inverse (the positions of the values < k in value order are inverse[:k]); a sum of
    1's and 21's is read off block by block.  Cross-checked against `_classes_def` on every permutation of length
    <= 7 at the start of each run (run() -> _selftest_classes)."""
    p = tuple(p)
    n = len(p)
    res = set()
    for base, q in ((0, p), (4, _inv(p))):
        r = q[::-1]
        pre = {True: _mono_len(True, q), False: _mono_len(False, q)}
        # the longest suffix monotone-b is the reverse of the longest prefix of the reversal monotone-(not b)
        suf = {True: n - _mono_len(False, r), False: n - _mono_len(True, r)}
        for t, (a, b) in enumerate([(True, True), (True, False), (False, True), (False, False)]):
            if suf[b] <= pre[a]:
                res.add(base + t)
    for cls, q in ((8, p), (9, p[::-1])):
        i = 0
        while i < n:
            if q[i] == i:
                i += 1
            elif q[i] == i + 1 and i + 1 < n and q[i + 1] == i:
                i += 2
            else:
                break
        if i == n:
            res.add(cls)
    return res


def _selftest_classes():
    for n in range(8):
        for p in itertools.permutations(range(n)):
            if _classes_def(p) != _classes_long(p):
                raise AssertionError("oracle self-test: _classes_long differs from the definitions on %r" % (p,))


def _classes(p):
    return _classes_long(p) if len(p) > 9 else _classes_def(p)


def _classes_def(p):
    """which of the ten minimal non-polynomial classes contain p (independent definitions)"""
    res = set()
    for t, (a, b) in enumerate([(True, True), (True, False), (False, True), (False, False)]):
        if _juxt_h(a, b, p):
            res.add(t)
        if _juxt_v(a, b, p):
            res.add(4 + t)
    if tuple(p) in _layered12(len(p)):
        res.add(8)
    if _rev(p) in _layered12(len(p)):
        res.add(9)
    return res


def _is_inc(p):
    return tuple(p) == tuple(range(len(p)))


def _is_dec(p):
    return tuple(p) == tuple(range(len(p) - 1, -1, -1))


def _v_fin(B):
    return any(_is_inc(p) for p in B) and any(_is_dec(p) for p in B)


def _v_poly(B):
    got = set()
    for p in B:
        got |= _classes(p)
    return len(got) == 10


def _v_insr(B):
    if any(len(p) > 9 for p in B):
        got = set().union(*[_classes(p) for p in B])
        return {0, 1, 2, 3} <= got
    return all(any(_juxt_h(a, b, p) for p in B) for a in (True, False) for b in (True, False))


def _v_insm(B):
    if any(len(p) > 9 for p in B):
        got = set().union(*[_classes(p) for p in B])
        return {4, 5, 6, 7} <= got
    return all(any(_juxt_v(a, b, p) for p in B) for a in (True, False) for b in (True, False))


def _verdict(op, B):
    B = [tuple(p) for p in B]
    if op == "fin":
        return _v_fin(B)
    if op == "poly":
        return _v_poly(B)
    if op == "npoly":
        return not _v_poly(B)
    if op == "insr":
        return _v_insr(B)
    if op == "insm":
        return _v_insm(B)
    if op == "ins":
        return _v_insr(B) or _v_insm(B)
    raise ValueError(op)


def _std(v):
    """standardisation with ties broken left to right (Perm.to_standard's documented behaviour)"""
    order = sorted(range(len(v)), key=lambda i: (v[i], i))
    res = [0] * len(v)
    for r, i in enumerate(order):
        res[i] = r
    return tuple(res)


# ----------------------------------------------------------------------------- brute-force enumeration
SMALL = [p for k in range(5) for p in itertools.permutations(range(k))]     # the 34 permutations of length <= 4
SMALL_IDX = {p: i for i, p in enumerate(SMALL)}
NMAX = 9
_TABLE = None
_TABLE_VERSION = "v3"


def _pattern_mask_small(s):
    m = 0
    n = len(s)
    for k in range(min(n, 4) + 1):
        for c in itertools.combinations(range(n), k):
            m |= 1 << SMALL_IDX[_std([s[i] for i in c])]
    return m


def _build_table():
    """COUNTS[frozenset of <=3 indices into SMALL] -> [|Av_n(B)| for n = 0..NMAX], by brute force:
    for every permutation of length <= NMAX the set of contained patterns of length <= 4 is computed
    (directly for n <= 5; for n >= 6 every occurrence of <= 4 points misses one of the first five positions, so
    the set is the union over those five one-point deletions), then every <=3-subset of the *absent* patterns
    gets one more avoider."""
    counts = {}
    P = {}
    av9 = []
    i0123, i3210 = SMALL_IDX[(0, 1, 2, 3)], SMALL_IDX[(3, 2, 1, 0)]
    full = (1 << len(SMALL)) - 1
    for n in range(NMAX + 1):
        Q = {}
        for s in itertools.permutations(range(n)):
            if n <= 5:
                m = _pattern_mask_small(s)
            else:
                m = 0
                for i in range(5):
                    x = s[i]
                    m |= P[tuple([v - 1 if v > x else v for v in s[:i] + s[i + 1:]])]
            Q[s] = m
            if n == 9 and not (m >> i0123) & 1 and not (m >> i3210) & 1:
                av9.append(s)
        for m, cnt in Counter(Q.values()).items():
            absent = [i for i in range(len(SMALL)) if not (m >> i) & 1]
            for k in range(4):
                for sub in itertools.combinations(absent, k):
                    key = frozenset(sub)
                    row = counts.get(key)
                    if row is None:
                        row = counts[key] = [0] * (NMAX + 1)
                    row[n] += cnt
        P = Q
    # length 10 for the extreme Erdos-Szekeres pair: every avoider of length 10 is a child of one of length 9
    ten = 0
    pats = [(0, 1, 2, 3), (3, 2, 1, 0)]
    for s in av9:
        for j in range(10):
            t = s[:j] + (9,) + s[j:]
            if not any(_std([t[i] for i in c]) in pats for c in itertools.combinations(range(10), 4)):
                ten += 1
    return {"counts": counts, "ten_0123_3210": ten}


def _table():
    """pure mathematics, independent of the repository: computed when absent (about 8 s) and kept in the
    copy's own git-ignored build directory lean/.lake/"""
    global _TABLE
    if _TABLE is not None:
        return _TABLE
    os.makedirs(os.path.join(core.LEAN, ".lake"), exist_ok=True)
    path = os.path.join(core.LEAN, ".lake", "c13_counts_%s.pkl" % _TABLE_VERSION)
    lock = open(path + ".lock", "w")
    fcntl.flock(lock, fcntl.LOCK_EX)
    try:
        if os.path.exists(path):
            try:
                with open(path, "rb") as f:
                    _TABLE = pickle.load(f)
            except Exception:
                _TABLE = None
        if _TABLE is None:
            _TABLE = _build_table()
            tmp = path + ".tmp%d" % os.getpid()
            with open(tmp, "wb") as f:
                pickle.dump(_TABLE, f)
            os.replace(tmp, path)
    finally:
        fcntl.flock(lock, fcntl.LOCK_UN)
        lock.close()
    return _TABLE


_CONTAIN = {}


def _containers_of(pat, n):
    """set of permutations of length n containing pat (brute force over index subsets)"""
    key = (pat, n)
    if key not in _CONTAIN:
        k = len(pat)
        res = set()
        for s in itertools.permutations(range(n)):
            for c in itertools.combinations(range(n), k):
                if _std([s[i] for i in c]) == pat:
                    res.add(s)
                    break
        _CONTAIN[key] = res
    return _CONTAIN[key]


def _fact(n):
    r = 1
    for i in range(2, n + 1):
        r *= i
    return r


def _counts(B, nmax_generic):
    """[|Av_n(B)|] by brute force; table for the exhaustive domain, direct filtering otherwise"""
    B = sorted(set(tuple(p) for p in B))
    if len(B) <= 3 and all(len(p) <= 4 for p in B):
        t = _table()
        row = list(t["counts"].get(frozenset(SMALL_IDX[p] for p in B), [0] * (NMAX + 1)))
        if (0, 1, 2, 3) in B and (3, 2, 1, 0) in B:
            row.append(0 if t["ten_0123_3210"] == 0 else None)   # subset of Av_10(0123, 3210)
        return row
    res = []
    for n in range(nmax_generic + 1):
        bad = set()
        for p in B:
            if len(p) <= n:
                bad |= _containers_of(p, n)
        res.append(_fact(n) - len(bad))
    return res


def _fib(n):
    a, b = 1, 1          # F_0 = F_1 = 1 (Kaiser-Klazar's indexing; tight for the class of layered 1/21 sums)
    for _ in range(n):
        a, b = b, a + b
    return a


def _enum_oracle(B, nmax_generic=6):
    fin, poly = _v_fin(B), _v_poly(B)
    counts = _counts(B, nmax_generic)
    problems = []
    if fin:
        a = min(len(p) for p in B if _is_inc(p))
        b = min(len(p) for p in B if _is_dec(p))
        bound = (a - 1) * (b - 1)
        for n, c in enumerate(counts):
            if c is not None and n > bound and c != 0:
                problems.append("finite-but-%d-avoiders-of-length-%d>bound-%d" % (c, n, bound))
    else:
        for n, c in enumerate(counts):
            if c == 0:
                problems.append("infinite-but-empty-at-%d" % n)
    if not poly:
        for n, c in enumerate(counts):
            if c is not None and c < _fib(n):
                problems.append("nonpolynomial-but-%d<fib(%d)" % (c, n))
    if fin and not poly:
        problems.append("finite-but-not-polynomial")
    out = "fin=%s poly=%s" % (fbool(fin), fbool(poly))
    if problems:
        out += " ENUMERATION-CONTRADICTS:" + ",".join(problems[:3])
    return out


def oracle(op, a):
    if op in OPS:
        return fbool(_verdict(op, pseqs(a[1])))     # container kind, order, repetition, history: irrelevant
    if op == "enum":
        return _enum_oracle(pseqs(a[0]))
    if op == "av":
        B = pseqs(a[1])
        if not B or any(len(p) == 0 for p in B):
            return None                              # Av refuses these bases by contract (ValueError)
        return fbool(_verdict(a[0], B))
    if op == "avmesh":
        return "ERR:NotImplementedError"
    if op == "clipoly":
        return "poly" if _v_poly([_std(g) for g in pseqs(a[0])]) else "notpoly"
    if op == "cliins":
        B = [_std(g) for g in pseqs(a[0])]
        if not B:
            return None
        toks = (["top"] if _v_insm(B) else []) + (["right"] if _v_insr(B) else [])
        return "+".join(toks) if toks else "none"
    if op == "sym8":
        # images 0-3 are (reverse/complement)-images, 4-7 compose them with the inverse.  The three class
        # verdicts (finite, polynomial, insertion encodable) are invariant under all eight; the two one-sided
        # insertion tests are invariant under reverse/complement and exchanged by the inverse (a horizontal
        # juxtaposition becomes a vertical one)
        B = pseqs(a[1])
        if a[0] in ("insr", "insm"):
            other = "insm" if a[0] == "insr" else "insr"
            return fbool(_verdict(a[0], B)) * 4 + fbool(_verdict(other, B)) * 4
        return fbool(_verdict(a[0], B)) * 8
    if op == "hist":
        outs = []
        for tok in a[1:]:
            o, _kind, b = tok.split(".")
            outs.append(fbool(_verdict(o, pseqs(b))))
        return "|".join(outs)
    return None


def nontrivial(op, a, out):
    if op in ("bad", "avmesh"):
        return False
    if op == "hist":
        return len(a) >= 3
    B = pseqs(a[-1])
    return len(B) >= 2 or any(len(p) >= 3 for p in B)


# ----------------------------------------------------------------------------- translator self-check
def translator_selfcheck():
    import inspect
    worker_init()
    src = open(os.path.join(core.LEAN, "PermutaModel", "Generated", "Tables.lean")).read()

    def const(name):
        m = re.search(r"def %s : \w+ := (-?\d+)" % name, src)
        return int(m.group(1)) if m else None
    from permuta.permutils.polynomial import PermType
    names = re.search(r"def polyTypeNames : [^=]*:= \[(.*)\]", src)
    live = ", ".join('("%s", %d)' % (m.name, m.value) for m in PermType)
    if not names or names.group(1) != live:
        return "polyTypeNames differs from the live PermType enum"
    if const("polyTypeCount") is None:
        return "polyTypeCount missing"
    if const("insEncAllProperties") != IEP._ALL_PROPERTIES:
        return "insEncAllProperties differs from InsertionEncodablePerms._ALL_PROPERTIES"
    if const("insEncRotate") is None:
        return "insEncRotate missing"
    if re.search(r"`perm\.rotate\(\)` with the default of [^\n]*\ndef insEncRotate", src) and \
            const("insEncRotate") != inspect.signature(Perm.rotate).parameters["times"].default:
        return "insEncRotate differs from the default of Perm.rotate"
    return None


# ----------------------------------------------------------------------------- generators
def _rand_perm(rng, n):
    l = list(range(n))
    rng.shuffle(l)
    return tuple(l)


def _rand_juxt(rng, n):
    a, b = rng.random() < 0.5, rng.random() < 0.5
    k = rng.randrange(n + 1)
    left = sorted(rng.sample(range(n), k), reverse=not a)
    right = sorted(set(range(n)) - set(left), reverse=not b)
    return tuple(left + right)


def _rand_layered(rng, n):
    out = []
    while len(out) < n:
        m = len(out)
        if n - m >= 2 and rng.random() < 0.5:
            out.extend([m + 1, m])
        else:
            out.append(m)
    return tuple(out)


def _structured_perm(rng, n):
    r = rng.random()
    if r < 0.30:
        p = _rand_juxt(rng, n)
    elif r < 0.45:
        p = _inv(_rand_juxt(rng, n))
    elif r < 0.60:
        p = _rand_layered(rng, n)
    elif r < 0.70:
        p = tuple(range(n)) if rng.random() < 0.5 else tuple(range(n - 1, -1, -1))
    else:
        p = _rand_perm(rng, n)
    if rng.random() < 0.25 and n >= 2:           # near miss: one adjacent transposition
        i = rng.randrange(n - 1)
        p = p[:i] + (p[i + 1], p[i]) + p[i + 2:]
    return _SYMS[rng.randrange(8)](p)


def _rand_basis(rng, lo=3, hi=9, kmax=6):
    return [_structured_perm(rng, rng.randrange(lo, hi + 1)) for _ in range(rng.randrange(1, kmax + 1))]


def _end_miss(rng, p):
    """one adjacent transposition at the very beginning or the very end (a defect planted near the ends)"""
    n = len(p)
    if n < 2:
        return p
    i = rng.choice([0, n - 2, n - 2, max(0, n - 3)])
    return p[:i] + (p[i + 1], p[i]) + p[i + 2:]


def _witness_basis(rng, lo, hi, short=False):
    """a basis meeting all ten classes by construction (one long witness per class; with `short`, some witnesses are
    short permutations), possibly with one witness dropped or spoilt near an end"""
    def ln():
        return rng.randrange(3, 6) if short and rng.random() < 0.5 else rng.randrange(lo, hi + 1)
    B = []
    for a in (True, False):
        for b in (True, False):
            n = ln()
            k = rng.choice([0, 1, n // 2, n - 1, n, rng.randrange(n + 1)])
            left = sorted(rng.sample(range(n), k), reverse=not a)
            right = sorted(set(range(n)) - set(left), reverse=not b)
            B.append(tuple(left + right))
            n = ln()
            k = rng.choice([0, 1, n // 2, n - 1, n, rng.randrange(n + 1)])
            left = sorted(rng.sample(range(n), k), reverse=not a)
            right = sorted(set(range(n)) - set(left), reverse=not b)
            B.append(_inv(tuple(left + right)))
    B.append(_rand_layered(rng, ln()))
    B.append(_rev(_rand_layered(rng, ln())))
    r = rng.random()
    if r < 0.3:
        B.pop(rng.randrange(len(B)))
    elif r < 0.55:
        i = rng.randrange(len(B))
        B[i] = _end_miss(rng, B[i])
    rng.shuffle(B)
    return B


def _large_lines(rng, lo, hi, count, ops=OPS, sym=True, av=True, maxk=5):
    # (Basis(...) / Av(...) decide containment between the basis elements: exponential for long elements, so the
    #  `basis` container and the class wrappers stay at the first scale)
    kinds = KINDS if av else [k for k in KINDS if k != "basis"]
    """structured bases with LONG elements (lengths lo..hi): witnesses of the ten classes, long monotone pairs with
    a defect planted near an end, bases mixing short and long elements, several long elements together, look-alike
    pairs (same decimal concatenation / same first k entries / same entries modulo 10: used.lookalikes) in one
    basis and in consecutive calls against one pair of memo tables"""
    lines = []
    for _ in range(count):
        r = rng.random()
        if r < 0.3:
            B = _witness_basis(rng, lo, hi, short=rng.random() < 0.5)
            if len(B) > 2 * maxk:
                B = B[:2 * maxk]
        elif r < 0.5:
            n, m = rng.randrange(lo, hi + 1), rng.randrange(lo, hi + 1)
            inc, dec = tuple(range(n)), tuple(range(m - 1, -1, -1))
            q = rng.random()
            if q < 0.3:
                inc = _end_miss(rng, inc)
            elif q < 0.6:
                dec = _end_miss(rng, dec)
            B = [inc, dec] + [_structured_perm(rng, rng.choice([3, 4, 5, rng.randrange(lo, hi + 1)])) for _ in range(rng.randrange(0, 3))]
            rng.shuffle(B)
        else:
            B = [_structured_perm(rng, rng.randrange(lo, hi + 1)) for _ in range(rng.randrange(1, maxk + 1))]
            if rng.random() < 0.5:
                B += [_structured_perm(rng, rng.randrange(3, 7)) for _ in range(rng.randrange(1, 3))]
                rng.shuffle(B)
        r = rng.random()
        fb = fseqs(B)
        look = []
        if r < 0.45:
            p = max(rng.sample(B, min(2, len(B))), key=len)
            look = [(p, q) for q in used.lookalikes(p, rng)[:4]]
        if look and r < 0.45:
            # a look-alike first, then the basis (and the other way round), against one pair of memo tables
            p, q = rng.choice(look)
            o = rng.choice(ops)
            B2 = [q if x == p else x for x in B]
            calls = ["%s.list.%s" % (o, fseqs([q])), "%s.%s.%s" % (o, rng.choice(kinds), fb),
                     "%s.list.%s" % (o, fseqs(B2)), "%s.list.%s" % (o, fseqs([p]))]
            if rng.random() < 0.5:
                calls.reverse()
            if o in ("insm", "ins"):
                calls.insert(0, "insr.list.%s" % fseqs([q]))
            lines.append("hist %s %s" % (rng.choice(["cold", "warm"]), " ".join(calls)))
            lines.append("%s list %s" % (o, fseqs([p, q] + B[:2])))
        elif r < 0.8 or not (sym or av):
            lines.append("%s %s %s" % (rng.choice(ops), rng.choice(kinds), fb))
        elif r < 0.9 and sym:
            lines.append("sym8 %s %s" % (rng.choice(ops), fb))
        elif av:
            lines.append("av %s %s" % (rng.choice(["fin", "poly", "ins"]), fb))
        else:
            lines.append("%s list %s" % (rng.choice(ops), fb))
    return lines


def run(ctx):
    deferred = []
    orig = ctx.compare

    def compare(stream, lines, **kw):
        lines = list(lines)
        keep = []
        for l in lines:
            t = l.split(" ")
            (deferred if t[0] == "av" and _churn_line(t[1:]) else keep).append(l)
        orig(stream, keep, **kw)
    ctx.compare = compare
    try:
        _run(ctx)
    finally:
        ctx.compare = orig
    ctx.compare("class-object-histories", deferred)


def _run(ctx):
    rng = ctx.rng
    quick = ctx.tier == "quick"
    _selftest_classes()
    ctx.exhaustive = True
    ctx.exhaustive_bound = ("all sets of <=3 permutations of length <=4 (6580): six verdicts on a list + %s other "
                            "container/order/duplication variants each, Av wrappers, CLI bodies, eight symmetric images, "
                            "enumeration cross-check n<=9 (n=10 for 0123/3210)" % ("two" if quick else "all"))
    ctx.compare("corpus", [
        "ins list 0,1,2;1,3,0,2", "ins iter 0,1,2;1,3,0,2", "ins gen 0,1,2;1,3,0,2", "ins tuple 1,3,0,2;0,1,2",
        "insr list 0,1,2;1,3,0,2", "insm list 0,1,2;1,3,0,2", "fin list -", "poly list -", "ins list -", "fin list _",
        "poly list _", "ins list _", "fin gen 0;0", "fin list 0,1;1,0", "fin list 0,1,2;2,1,0", "poly list 0,1;1,0",
        "poly set 0,2,1;2,1,0;1,0,2;0,1,2", "npoly list 0,2,1", "enum 1,2,0;2,0,1;2,1,0", "enum 0,1,2,3;3,2,1,0",
        "enum 0,1;1,0", "enum 0", "enum _", "enum -", "av fin -", "av fin _", "av poly 0", "av ins 0,1,2;1,3,0,2",
        "avmesh fin 0,1/0.0", "avmesh poly 0,1/P;1,0/1.1", "avmesh ins 0,1,2/0.0,1.1",
        "clipoly 2,3,1;4,3,2,1", "clipoly -", "cliins 1,2,3;2,4,1,3", "cliins 1,3,2", "cliins -", "cliins 1,1,1",
        "sym8 ins 0,1,2;1,3,0,2", "sym8 poly 0,2,1,3;3,2,1,0", "hist cold fin.list.0,1 ins.list.0,1,2;1,3,0,2 poly.set.0,1;1,0;0,1",
    ])
    ctx.compare("malformed", ["bad %s %s" % (o, w) for o in ("fin", "poly", "ins", "insr") for w in ("int", "none", "tuples", "ints")])
    # ---- exhaustive small
    sets = [c for k in range(4) for c in itertools.combinations(SMALL, k)]
    lines = []
    variants = []        # (kind, arrangement) pairs other than the plain list in sorted order
    for kind in KINDS:
        for arr in ("id", "rev", "rot", "dup", "swapdup"):
            if not (kind == "list" and arr == "id"):
                variants.append((kind, arr))

    def arrange(B, arr):
        B = list(B)
        if arr == "rev":
            return B[::-1]
        if arr == "rot":
            return B[1:] + B[:1]
        if arr == "dup":
            return B + B[:1]
        if arr == "swapdup":
            return B[::-1] + B
        return B
    for idx, B in enumerate(sets):
        fb = fseqs(B)
        for o in OPS:
            lines.append("%s list %s" % (o, fb))
        if quick:
            for j, o in enumerate(OPS):
                kind, arr = variants[(idx * 6 + j) % len(variants)]
                lines.append("%s %s %s" % (o, kind, fseqs(arrange(B, arr))))
        else:
            for kind, arr in variants:
                fa = fseqs(arrange(B, arr))
                for o in OPS:
                    lines.append("%s %s %s" % (o, kind, fa))
        lines.append("enum %s" % fb)
        which = ("fin", "poly", "ins")
        for w in (which if not quick else (which[idx % 3],)):
            lines.append("av %s %s" % (w, fb))
        if not quick or idx % 4 == 0:
            one_based = idx % 8 == 0
            groups = [tuple(v + 1 for v in p) if one_based else p for p in B if len(p) > 0]
            lines.append("clipoly %s" % fseqs(groups))
            lines.append("cliins %s" % fseqs(groups))
        for o in (OPS if not quick else (OPS[idx % 6], OPS[(idx + 3) % 6])):
            lines.append("sym8 %s %s" % (o, fb))
    ctx.compare("exhaustive-small", lines)
    # ---- histories: several calls against one pair of memo tables (cold = cleared first)
    lines = []
    H = 1500 if quick else 20000
    for _ in range(H):
        pool = [rng.choice(SMALL) for _ in range(4)] + [_structured_perm(rng, rng.randrange(3, 8)) for _ in range(3)]
        calls = []
        for _ in range(rng.randrange(2, 7)):
            o = rng.choice(OPS)
            kind = rng.choice(KINDS)
            B = [rng.choice(pool) for _ in range(rng.randrange(0, 5))]
            calls.append("%s.%s.%s" % (o, kind, fseqs(B)))
        lines.append("hist %s %s" % (rng.choice(["cold", "cold", "warm"]), " ".join(calls)))
    ctx.compare("histories", lines)
    # ---- random large, structured
    lines = []
    R = 2500 if quick else 30000
    for _ in range(R):
        B = _rand_basis(rng)
        r = rng.random()
        if r < 0.55:
            lines.append("%s %s %s" % (rng.choice(OPS), rng.choice(KINDS), fseqs(B)))
        elif r < 0.75:
            lines.append("sym8 %s %s" % (rng.choice(OPS), fseqs(B)))
        elif r < 0.85:
            lines.append("av %s %s" % (rng.choice(["fin", "poly", "ins"]), fseqs(B)))
        else:
            groups = [tuple(v + 1 for v in p) for p in B]
            lines.append("%s %s" % (rng.choice(["clipoly", "cliins"]), fseqs(groups)))
    # the ten classes each need a witness: bases that are polynomial / insertion encodable by construction
    for _ in range(R // 5):
        B = []
        for a in (True, False):
            for b in (True, False):
                n = rng.randrange(3, 8)
                k = rng.randrange(n + 1)
                left = sorted(rng.sample(range(n), k), reverse=not a)
                right = sorted(set(range(n)) - set(left), reverse=not b)
                p = tuple(left + right)
                B.append(p)
                if rng.random() < 0.8:
                    B.append(_inv(_rand_juxt(rng, rng.randrange(3, 8))))
        B.append(_rand_layered(rng, rng.randrange(3, 8)))
        B.append(_rev(_rand_layered(rng, rng.randrange(3, 8))))
        if rng.random() < 0.5:
            B.pop(rng.randrange(len(B)))         # drop one witness
        rng.shuffle(B)
        lines.append("%s %s %s" % (rng.choice(OPS), rng.choice(KINDS), fseqs(B)))
    ctx.compare("random-structured", lines)
    # ---- sizes the other streams never reach (memo keys, thresholds, recursion): long elements at several scales
    f = 1 if quick else 6
    lines = _large_lines(rng, 9, 14, 500 * f)
    lines += _large_lines(rng, 21, 40, 260 * f, av=False)
    lines += _large_lines(rng, 64, 70, 120 * f, av=False)
    lines += _large_lines(rng, 190, 210, 24 * f, sym=False, av=False, maxk=3)
    lines += _large_lines(rng, 395, 405, 10 * f, sym=False, av=False, maxk=2)
    lines += _large_lines(rng, 997, 1003, 6 * f, ops=["fin"], sym=False, av=False, maxk=2)   # (is_polynomial recurses once per entry)
    rng.shuffle(lines)
    ctx.compare("large", lines)
    # ---- enumeration cross-check outside the table (brute force up to n = 6)
    lines = []
    for _ in range(150 if quick else 1500):
        B = _rand_basis(rng, 3, 6, 4)
        lines.append("enum %s" % fseqs(B))
    ctx.compare("random-enum", lines)
