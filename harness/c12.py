"""C12 - sorting operators, the Simion-Schmidt map and the named families
(perm.py 1294-1352 / 2720-2878, permutils/bijections.py, bisc/perm_properties.py, permutils/groups.py).

Oracles are written from the property text only:
  * the sorting operators are *devices* (explicit stack / pop-stack / bubble sweep / quicksort of the
    Claesson-Ulfarsson paper) simulated step by step;
  * a `sortable` predicate is "device output = identity" AND its known pattern characterisation
    (Knuth Av(231); bubble Av(231,321); pop-stack Av(231,312); quick Av(321,2413,21\\bar{3}54);
    West-2 Av(2341,3\\bar{5}241)) - the two readings must agree, otherwise the oracle answers
    SPEC-CONFLICT (a bounded *test* of the deep characterisations, not a proof);
  * a counter is the least k with device^k = identity;
  * Simion-Schmidt: the image of a 123-avoider is THE 132-avoider with the same left-to-right
    minima (positions and values) - looked up in an independently enumerated table whose keys
    are checked to be unique; non-members -> ValueError;
  * families by their textbook definitions (vincular Baxter, double-descent simsun, n-gon
    symmetries, parity, Schensted insertion with bisect + Greene's theorem for small n).
"""
import bisect
import itertools
import os

from core import fseq, fseqs, fbool, pseq, guarded
import past
import used

PROP = "C12"
RULE = ("exhaustive: every permutation up to the stated length for every operator / predicate / counter / family; "
        "Simion-Schmidt on every 123-/132-avoider up to length 9 and every non-member up to length 6, bijectivity "
        "as one history line per length; random: structured permutations (231-avoiders, layered, direct sums with "
        "strong fixed points, rotations of the identity, few-passes-from-sorted, random) up to length 40; "
        "non-trivial = |perm| >= 3 (a device has something to do), for ss.* additionally a non-minimum exists or "
        "the error branch is taken; distinct = distinct op lines"
        ' Hardening pass 2: stream `large` (64-70, ~200, 398-403, ~600, 1000: planted 231/312/321/2341/3241 near the ends of an increasing permutation, structured shapes); permutations of heavy lines are objects with a past (past.mkperm_u with the sorting operators as use); the tableau returned by _perm_to_yt is destroyed; dihedral_group is called with a history of abandoned larger/smaller listings.')
ASSUMPTIONS = [
    "model/implementation agreement outside the enumerated and sampled inputs is assumed",
    "count_stack_sorts / count_pop_stack_sorts do not terminate on non-permutation tuples (e.g. Perm((1,2))): "
    "such inputs are outside the property's domain and are never generated",
    "Perm.count_inversions (a Fenwick tree) is modelled by the inversion-pair count; compared through fam.alt",
]
PARTIAL = [
    "PROVED since the first build (no longer partial): west2_iff_avoids (West), quickSortable_iff_avoids, baxter_iff_vincular, simsun_iff_double_descent, forestLike_iff_barred - for every permutation; the oracle's bounded cross-checks of the same statements still run as tests",
    'PROVED (no longer partial), every tuple of distinct naturals: ytShape_eq_RSK (Greene, every k: first k rows of _perm_to_yt = largest union of k increasing subsequences), schensted_first_row / schensted_row_count (LIS / LDS), tableau invariants permToYt_rows_increasing / _columns_increasing / _shape_partition / _entries, ytAvoids22_iff_hook / ytAvoids22_iff_greene / ytAvoids32_iff_hook / ytAvoids32_iff_greene; the oracle\'s independent Schensted insertion (|s|<=40) and brute-force Greene invariants (|s|<=6) still run as tests',
    "Ungar's bound (n-1 pop-stack passes) is not attempted; termination is proved with the bound inv(s) <= n^2",
]
TRUSTED = ["Perm.count_inversions modelled at specification level (pair count)",
           "Perm.__init__ accepts any tuple; Perm(result) in the sort wrappers is the identity on tuples"]

Perm = MeshPatt = Bij = PP = dihedral_group = None


class _Diverges(BaseException):
    """raised by the pass-counting wrappers when a `while` loop of the code under test exceeds every
    bound a terminating run on this input can reach (a mutated loop must not hang the check)"""


_BUDGET = [None, None]


def _tick(i):
    if _BUDGET[i] is not None:
        _BUDGET[i] -= 1
        if _BUDGET[i] < 0:
            raise _Diverges()


def _bounded(n, fn):
    """run fn() allowing at most n^2+8 pop-stack passes and (n+12) passes' worth of `_stack_sort` calls
    (a terminating run on a permutation of length n needs < n resp. <= C(n,2) passes), and 60 s"""
    import signal

    def on_alarm(signum, frame):
        raise _Diverges()
    _BUDGET[0] = n * n + 8
    _BUDGET[1] = (n + 12) * (2 * n + 2)
    old = signal.signal(signal.SIGALRM, on_alarm)
    signal.setitimer(signal.ITIMER_REAL, 60)
    try:
        return fn()
    except _Diverges:
        return "DIVERGES"
    finally:
        signal.setitimer(signal.ITIMER_REAL, 0)
        signal.signal(signal.SIGALRM, old)
        _BUDGET[0] = _BUDGET[1] = None


def worker_init():
    global Perm, MeshPatt, Bij, PP, dihedral_group
    from permuta import Perm as P, MeshPatt as M
    from permuta.permutils.bijections import Bijections
    from permuta.bisc import perm_properties
    from permuta.permutils.groups import dihedral_group as dg
    Perm, MeshPatt, Bij, PP, dihedral_group = P, M, Bijections, perm_properties, dg
    # the counting wrapper below puts one extra frame on the stack for every level of the library's recursive
    # `_stack_sort` (depth = length for an increasing tail): without compensation a permutation of length ~480 would
    # hit the interpreter's default limit of 1000 HERE although the library alone copes with ~990.  The limit is raised
    # so that the wrapped library fails where the bare one does (about twice the frames + the harness' own).
    import sys
    if sys.getrecursionlimit() < 2100:
        sys.setrecursionlimit(2100)
    if not getattr(P, "_c12_wrapped", False):
        # counting wrappers only: behaviour is unchanged unless a budget set by `_bounded` runs out
        orig_pop, orig_stack = P.pop_stack_sort, getattr(P, "_stack_sort", None)

        def pop_stack_sort(self):
            _tick(0)
            return orig_pop(self)

        def _stack_sort(perm_slice):
            _tick(1)
            return orig_stack(perm_slice)
        P.pop_stack_sort = pop_stack_sort
        if orig_stack is not None:        # private recursive helper of the stack-sort family, when it exists
            P._stack_sort = staticmethod(_stack_sort)
        P._c12_wrapped = True


def translator_selfcheck():
    """Generated/Tables.lean (pure-ast extraction) must agree with the live module objects;
    also warms the avoider tables before the worker pool is forked."""
    import sys
    from core import VERIF, REPO
    sys.path.insert(0, os.path.join(VERIF, "tools"))
    import translate_c12
    try:
        consts, bindings = translate_c12.extract(REPO)
    except Exception as e:      # the translator already reported MISSING; nothing to cross-check
        return None
    from permuta import Perm as P, MeshPatt as M
    from permuta.bisc import perm_properties as pp
    for name, (_, patts) in consts.items():
        live = getattr(pp, name, None)
        if live is None:
            return "constant %s extracted from the source but absent from the live module" % name
        live = list(live) if isinstance(live, tuple) else [live]
        conv = []
        for q in live:
            if isinstance(q, M):
                conv.append((list(q.pattern), sorted(q.shading)))
            elif isinstance(q, P):
                conv.append((list(q), None))
            else:
                return "unexpected live object in %s: %r" % (name, q)
        if conv != [(list(a), b) for a, b in patts]:
            return "table %s disagrees with the live object: %r vs %r" % (name, patts, conv)
    for fn, (_, c) in bindings.items():
        if not hasattr(pp, fn):
            return "function %s absent from the live module" % fn
    tables = open(os.path.join(VERIF, "lean", "PermutaModel", "Generated", "Tables.lean")).read()
    for name in consts:
        if ("def pp%s " % name) not in tables:
            return "Generated/Tables.lean lacks pp%s (stale file?)" % name
    for n in range(10):
        _by_ltrmin(n, (0, 1, 2))
        _by_ltrmin(n, (0, 2, 1))
    return None


# =========================================================================== implementation side
_SORTS = {"stack": "stack_sort", "pop": "pop_stack_sort", "bubble": "bubble_sort", "quick": "quick_sort"}
_ABLE = {"stack": "stack_sortable", "pop": "pop_stack_sortable", "bubble": "bubble_sortable",
         "quick": "quick_sortable"}
_FAMS = ["smooth", "forest", "baxter", "simsun", "dihedral", "alt", "yt22", "yt32", "av231mesh", "hardmesh"]
_FAMFN = {"smooth": "smooth", "forest": "forest_like", "baxter": "baxter", "simsun": "simsun",
          "dihedral": "dihedral", "alt": "in_alternating_group", "yt22": "yt_perm_avoids_22",
          "yt32": "yt_perm_avoids_32", "av231mesh": "av_231_and_mesh", "hardmesh": "hard_mesh"}


def _sort_all_impl(p):
    outs = [fseq(getattr(p, _SORTS[k])()) for k in ("stack", "pop", "bubble", "quick")]
    outs += [fbool(getattr(p, _ABLE[k])()) for k in ("stack", "pop", "bubble", "quick")]
    outs += [fbool(p.west_2_stack_sortable()), fbool(p.west_3_stack_sortable()),
             str(p.count_stack_sorts()), str(p.count_pop_stack_sorts())]
    return "|".join(outs)


def _ss_chk_impl(s, inverse):
    """independent checks on the image (own containment test, own ltr-minima)"""
    t = tuple(Bij.simion_and_schmidt(Perm(s), inverse))
    back = tuple(Bij.simion_and_schmidt(Perm(t), not inverse))
    forb = (0, 1, 2) if inverse else (0, 2, 1)
    return "|".join([fbool(sorted(t) == list(range(len(s)))), fbool(_ltrmin(t) == _ltrmin(s)),
                     fbool(not _contains3(t, forb)), fbool(back == s)])


def _ss_bij_impl(n, inverse):
    dom = _avoiders(n, (0, 2, 1) if inverse else (0, 1, 2))
    cod = set(_avoiders(n, (0, 1, 2) if inverse else (0, 2, 1)))
    img = [tuple(Bij.simion_and_schmidt(Perm(s), inverse)) for s in dom]
    back = all(tuple(Bij.simion_and_schmidt(Perm(t), not inverse)) == s for s, t in zip(dom, img))
    return "%d|%d|%s|%s|%s" % (len(dom), len(set(img)), fbool(set(img) == cod), fbool(back),
                               fbool(all(_ltrmin(s) == _ltrmin(t) for s, t in zip(dom, img))))


# --------------------------------------------------------------------------- used objects
_DG = [0]
_NEIGH = ["stack_sort", "pop_stack_sort", "bubble_sort", "quick_sort", "stack_sortable", "pop_stack_sortable",
          "bubble_sortable", "quick_sortable", "west_2_stack_sortable", "count_inversions", "inverse", "is_increasing"]


def _warm12(p):
    """use the permutation object before the call under test: generic use plus neighbouring C12 operations on the
    SAME object (three sorting operators / predicates picked by the line's digest, one named family, both
    directions of the Simion-Schmidt map); results and exceptions are discarded"""
    used.warm_perm(p, 0)
    if not used.is_perm(p):
        return
    dg = _DG[0]
    saved = list(_BUDGET)
    _BUDGET[0] = _BUDGET[1] = None          # the warm-up does not draw on the pass budget of the call under test
    try:
        for s in (2, 7, 12):
            used.quiet(getattr(p, _NEIGH[(dg >> s) % len(_NEIGH)]))
        if len(p) <= 9:
            used.quiet(getattr(PP, _FAMFN[_FAMS[(dg >> 17) % len(_FAMS)]]), p)
        if len(p) <= 100:       # (its membership test alone needs 0.6 s on 231 + identity of length 400)
            used.quiet(Bij.simion_and_schmidt, p, bool(dg & 1))
            used.quiet(Bij.simion_and_schmidt, p, not dg & 1)
    finally:
        _BUDGET[0], _BUDGET[1] = saved


def _c12_use(p):
    """the sorting operators and predicates themselves, on an object a derived object is about to be made from"""
    saved = list(_BUDGET)
    _BUDGET[0] = _BUDGET[1] = None
    try:
        for g in ("stack_sort", "pop_stack_sort", "quick_sort", "stack_sortable"):
            used.quiet(getattr(p, g))
        if len(p) <= 9:
            used.quiet(PP._perm_to_yt, p)
    finally:
        _BUDGET[0], _BUDGET[1] = saved


def _UP(seq):
    seq = tuple(seq)
    # an object with a past (fresh / used / derived from a used object through another API route; beyond length 120
    # the routes cost too much: plain constructor), then used by the neighbouring C12 operations
    return used.obj(("P", seq), lambda: past.mkperm_u(seq, 2, _c12_use) if len(seq) <= 120 and used.is_perm(seq) else Perm(seq),
                    _warm12)


_NOTWICE = ("ss.bij", "ss.bijinv", "ss.bad", "dgroup", "dgroup.len")


def impl(op, a):
    """every line with a long permutation (random streams) and a deterministic fifth (a twelfth for the costly
    sort.all) of the short ones: the permutation is a used object and the line is evaluated twice on it"""
    if op in _NOTWICE or not a:
        return _impl(op, a, Perm)
    if not (len(a[0]) >= 19 or used.sel(op, a, 12 if op == "sort.all" else 5)):
        return _impl(op, a, Perm)
    used.begin()
    _DG[0] = used.digest(op, a)
    r1 = _impl(op, a, _UP)
    used.T.rewind()
    r2 = _impl(op, a, _UP)
    return r1 if r1 == r2 else used.unstable(r1, r2)


def _impl(op, a, P):
    if op.startswith("sort.") and op != "sort.all":
        return guarded(lambda: fseq(getattr(P(pseq(a[0])), _SORTS[op[5:]])()))
    if op.startswith("dev."):          # same observable; the Lean side answers with the Spec device
        return guarded(lambda: fseq(getattr(P(pseq(a[0])), _SORTS[op[4:]])()))
    if op.startswith("able."):
        return guarded(lambda: fbool(getattr(P(pseq(a[0])), _ABLE[op[5:]])()))
    if op == "west2":
        return guarded(lambda: fbool(P(pseq(a[0])).west_2_stack_sortable()))
    if op == "west3":
        return guarded(lambda: fbool(P(pseq(a[0])).west_3_stack_sortable()))
    if op == "cnt.stack":
        return _bounded(len(pseq(a[0])), lambda: guarded(lambda: str(P(pseq(a[0])).count_stack_sorts())))
    if op == "cnt.pop":
        return _bounded(len(pseq(a[0])), lambda: guarded(lambda: str(P(pseq(a[0])).count_pop_stack_sorts())))
    if op == "sort.all":
        return _bounded(len(pseq(a[0])), lambda: guarded(lambda: _sort_all_impl(P(pseq(a[0])))))
    if op == "ss.fwd":
        return guarded(lambda: fseq(Bij.simion_and_schmidt(P(pseq(a[0])))))
    if op == "ss.inv":
        return guarded(lambda: fseq(Bij.simion_and_schmidt(P(pseq(a[0])), True)))
    if op == "ss.chk":
        return guarded(lambda: _ss_chk_impl(pseq(a[0]), False))
    if op == "ss.chkinv":
        return guarded(lambda: _ss_chk_impl(pseq(a[0]), True))
    if op == "ss.bij":
        return guarded(lambda: _ss_bij_impl(int(a[0]), False))
    if op == "ss.bijinv":
        return guarded(lambda: _ss_bij_impl(int(a[0]), True))
    if op == "ss.bad":
        def f():
            k = a[0]
            if k == "tuple":
                return fseq(Bij.simion_and_schmidt((1, 0)))
            if k == "tupleinv":
                return fseq(Bij.simion_and_schmidt((1, 0), True))
            if k == "none":
                return fseq(Bij.simion_and_schmidt(None))
            if k == "emptytuple":        # n == 0 returns before any Perm method is used
                return fseq(Bij.simion_and_schmidt(()))
            return "?"
        return guarded(f)
    if op.startswith("fam.") and op != "fam.all":
        return guarded(lambda: fbool(getattr(PP, _FAMFN[op[4:]])(P(pseq(a[0])))))
    if op == "fam.all":
        return guarded(lambda: "".join(fbool(getattr(PP, _FAMFN[k])(P(pseq(a[0])))) for k in _FAMS))
    if op == "yt":
        def yt():
            rows = PP._perm_to_yt(P(pseq(a[0])))
            out = fseqs(rows)
            used.scrub(rows)          # the tableau that was handed out is destroyed (the line may be evaluated again)
            return out
        return guarded(yt)
    if op in ("dgroup", "dgroup.len"):
        n = int(a[0])
        # call history of the generator function: a larger and a smaller group started and abandoned, one of the
        # same size consumed half; then the listing under test, twice
        used.sip(lambda: dihedral_group(n + 1), 2)
        used.sip(lambda: dihedral_group(max(n - 1, 0)), 1)
        used.sip(lambda: dihedral_group(n), n)
        def listing():
            # two listings alive at once: one complete listing made while another is suspended half-way, and two
            # consumed in lockstep; every one of them has to be the same group
            full, pieced = used.interleaved(lambda: dihedral_group(n), n // 2 + 1)
            za, zb = [], []
            for x, y in zip(dihedral_group(n), dihedral_group(n)):
                za.append(x)
                zb.append(y)
            outs = [sorted(tuple(p) for p in g) for g in (dihedral_group(n), full, pieced, za, zb)]
            if any(o != outs[0] for o in outs[1:]):
                return "UNSTABLE-INTERLEAVED:" + "|".join(fseqs(o) for o in outs)
            return fseqs(outs[0]) if op == "dgroup" else str(len(outs[0]))
        return used.twice(lambda: guarded(listing))
    raise ValueError("unknown op " + op)


# =========================================================================== oracle side
def _is_perm(s):
    return sorted(s) == list(range(len(s)))


def _contains3(s, p):
    """classical containment of a length-3 pattern by brute force over index triples"""
    n = len(s)
    if n > 45:
        # LONG inputs (`large` stream): for every middle index j, is there a suitable entry on the left and one on the
        # right?  (same definition, quadratic instead of cubic)
        for j in range(1, n - 1):
            lo, hi = (None, None), (None, None)
            left = [s[i] for i in range(j) if (p[0] < p[1]) == (s[i] < s[j])]
            right = [s[k] for k in range(j + 1, n) if (p[2] < p[1]) == (s[k] < s[j])]
            if not left or not right:
                continue
            if p[0] < p[2]:
                if min(left) < max(right):
                    return True
            elif max(left) > min(right):
                return True
            del lo, hi
        return False
    for i in range(n):
        for j in range(i + 1, n):
            for k in range(j + 1, n):
                v = (s[i], s[j], s[k])
                if all((p[x] < p[y]) == (v[x] < v[y]) for x in range(3) for y in range(3)):
                    return True
    return False


def _occs(s, p):
    k = len(p)
    for c in itertools.combinations(range(len(s)), k):
        v = [s[i] for i in c]
        if all((p[x] < p[y]) == (v[x] < v[y]) for x in range(k) for y in range(k)):
            yield c


def _contains(s, p):
    return any(True for _ in _occs(s, p))


def _mesh_contains(s, p, shading):
    """mesh occurrence: an occurrence of p such that no other point of s lies in a shaded box
    (box (x, y) = strictly between the x-th and (x+1)-th chosen positions and the y-th and
    (y+1)-th chosen values, counting from 0 = before/below everything)"""
    for c in _occs(s, p):
        vals = sorted(s[i] for i in c)
        for i, v in enumerate(s):
            if i in c:
                continue
            x = sum(1 for j in c if j < i)
            y = sum(1 for w in vals if w < v)
            if (x, y) in shading:
                break
        else:
            return True
    return False


# ---- devices
def dev_stack(s):
    stack, out = [], []
    for x in s:
        while stack and stack[-1] < x:
            out.append(stack.pop())
        stack.append(x)
    while stack:
        out.append(stack.pop())
    return tuple(out)


def dev_pop(s):
    stack, out = [], []
    for x in s:
        if stack and stack[-1] < x:
            while stack:
                out.append(stack.pop())
        stack.append(x)
    while stack:
        out.append(stack.pop())
    return tuple(out)


def dev_bubble(s):
    arr = list(s)
    for i in range(len(arr) - 1):
        if arr[i] > arr[i + 1]:
            arr[i], arr[i + 1] = arr[i + 1], arr[i]
    return tuple(arr)


def dev_quick(s):
    """Claesson-Ulfarsson: if the word has strong fixed points (an entry larger than everything to its
    left and smaller than everything to its right) split at the rightmost one and recurse on both sides;
    otherwise partition around the first entry keeping relative order"""
    s = list(s)
    if not s:
        return ()
    if len(s) > 50:
        return _dev_quick_long(s)
    sfp = [i for i in range(len(s)) if all(s[j] < s[i] for j in range(i)) and all(s[j] > s[i] for j in range(i + 1, len(s)))]
    if sfp:
        m = sfp[-1]
        return dev_quick(s[:m]) + (s[m],) + dev_quick(s[m + 1:])
    f = s[0]
    return tuple(x for x in s if x < f) + (f,) + tuple(x for x in s if x > f)


def _dev_quick_long(s):
    """the same device for LONG words (`large` stream), where the definition above is cubic and recurses once per
    strong fixed point: strong fixed points are found with running prefix maxima / suffix minima, and the recursion
    is unrolled from the right - the part to the right of the rightmost strong fixed point has none of its own (one
    would be a strong fixed point of the whole word), so it is partitioned around its first entry at once"""
    def part(w):
        return [] if not w else [x for x in w if x < w[0]] + [w[0]] + [x for x in w if x > w[0]]
    cur, pieces = list(s), []
    while cur:
        n = len(cur)
        sufmin = [None] * (n + 1)
        for i in range(n - 1, -1, -1):
            sufmin[i] = cur[i] if sufmin[i + 1] is None else min(cur[i], sufmin[i + 1])
        m, premax = None, None
        for i in range(n):
            if (premax is None or premax < cur[i]) and (sufmin[i + 1] is None or sufmin[i + 1] > cur[i]):
                m = i
            premax = cur[i] if premax is None else max(premax, cur[i])
        if m is None:
            pieces.append(part(cur))
            break
        pieces.append([cur[m]] + part(cur[m + 1:]))
        cur = cur[:m]
    return tuple(x for piece in reversed(pieces) for x in piece)


_DEV = {"stack": dev_stack, "pop": dev_pop, "bubble": dev_bubble, "quick": dev_quick}


def _ident(n):
    return tuple(range(n))


def _char(kind, s):
    """pattern characterisation of `sortable`"""
    if kind == "stack":
        return not _contains3(s, (1, 2, 0))
    if kind == "bubble":
        return not _contains3(s, (1, 2, 0)) and not _contains3(s, (2, 1, 0))
    if kind == "pop":
        return not _contains3(s, (1, 2, 0)) and not _contains3(s, (2, 0, 1))
    if kind == "quick":
        return not (_contains3(s, (2, 1, 0)) or _contains(s, (1, 3, 0, 2)) or _mesh_contains(s, (1, 0, 3, 2), {(2, 2)}))
    if kind == "west2":
        return not (_contains(s, (1, 2, 3, 0)) or _mesh_contains(s, (2, 1, 3, 0), {(1, 4)}))
    raise KeyError(kind)


def _both(x, y):
    return fbool(x) if x == y else "SPEC-CONFLICT(device=%s,patterns=%s)" % (fbool(x), fbool(y))


def _able(kind, s):
    charcheck = len(s) <= 9
    d = _DEV[kind](s) == _ident(len(s))
    return _both(d, _char(kind, s)) if charcheck else fbool(d)


def _west(k, s):
    t = s
    for _ in range(k):
        t = dev_stack(t)
    d = t == _ident(len(s))
    if k == 2 and len(s) <= 9:
        return _both(d, _char("west2", s))
    return fbool(d)


def _count(dev, s):
    k, t = 0, tuple(s)
    while t != _ident(len(s)):
        t = dev(t)
        k += 1
        if k > len(s) * len(s) + 2:
            return "DIVERGES"
    return str(k)


# ---- Simion-Schmidt
def _ltrmin(s):
    res, m = [], None
    for i, v in enumerate(s):
        if m is None or v < m:
            m = v
            res.append((i, v))
    return tuple(res)


_AV = {}


def _avoiders(n, patt):
    """all permutations of length n avoiding the length-3 pattern, built by inserting the maximum"""
    key = (n, patt)
    if key not in _AV:
        if n == 0:
            _AV[key] = [()]
        else:
            res = []
            for s in _avoiders(n - 1, patt):
                for i in range(n):
                    t = s[:i] + (n - 1,) + s[i:]
                    if not _contains3(t, patt):
                        res.append(t)
            _AV[key] = sorted(res)
    return _AV[key]


_BYMIN = {}


def _by_ltrmin(n, patt):
    key = (n, patt)
    if key not in _BYMIN:
        d = {}
        for t in _avoiders(n, patt):
            k = _ltrmin(t)
            if k in d:
                raise RuntimeError("two %s-avoiders with equal left-to-right minima: %s %s" % (patt, d[k], t))
            d[k] = t
        _BYMIN[key] = d
    return _BYMIN[key]


def _ss_oracle(s, inverse):
    if not _is_perm(s):
        return None
    dom, cod = ((0, 2, 1), (0, 1, 2)) if inverse else ((0, 1, 2), (0, 2, 1))
    if _contains3(s, dom):
        return "ERR:ValueError"
    if len(s) > 10:
        return None
    t = _by_ltrmin(len(s), cod).get(_ltrmin(s))
    return "NO-IMAGE" if t is None else fseq(t)


def _catalan(n):
    c = 1
    for i in range(n):
        c = c * 2 * (2 * i + 1) // (i + 2)
    return c


# ---- families
def _baxter(s):
    """no i < j < j+1 < k with s[j+1] < s[i] < s[k] < s[j] (2-41-3) nor s[j] < s[k] < s[i] < s[j+1] (3-14-2)"""
    n = len(s)
    for j in range(n - 1):
        for i in range(j):
            for k in range(j + 2, n):
                if s[j + 1] < s[i] < s[k] < s[j] or s[j] < s[k] < s[i] < s[j + 1]:
                    return False
    return True


def _simsun(s):
    """for every k the restriction of s to the values < k has no double descent"""
    for k in range(len(s) + 1):
        r = [v for v in s if v < k]
        if any(r[i] > r[i + 1] > r[i + 2] for i in range(len(r) - 2)):
            return False
    return True


def _forest_like(s):
    """Bousquet-Melou & Butler: avoids 1324 and 21\\bar{3}54 (every 2143 extends to a 21354)"""
    if _contains(s, (0, 2, 1, 3)):
        return False
    for (a, b, c, d) in _occs(s, (1, 0, 3, 2)):
        if not any(s[a] < s[m] < s[d] for m in range(b + 1, c)):
            return False
    return True


def _dihedral(s):
    n = len(s)
    if n < 3:
        return False
    return any(all(s[i] == (a + i) % n for i in range(n)) or all(s[i] == (a - i) % n for i in range(n))
               for a in range(n))


def _rsk(s):
    rows = []
    for x in s:
        for row in rows:
            pos = bisect.bisect_right(row, x)
            if pos == len(row):
                row.append(x)
                x = None
                break
            row[pos], x = x, row[pos]
        if x is not None:
            rows.append([x])
    return rows


def _greene_shape2(s):
    """(lambda1, lambda1+lambda2) by Greene's theorem: longest increasing subsequence and largest union of two"""
    n = len(s)
    best1 = best2 = 0
    for mask in range(1 << n):
        sub = [s[i] for i in range(n) if mask >> i & 1]
        if len(sub) > best1 and all(sub[i] < sub[i + 1] for i in range(len(sub) - 1)):
            best1 = len(sub)
        if len(sub) > best2 and not _contains3(sub, (2, 1, 0)):
            best2 = len(sub)
    return best1, best2


def _yt_shape_contains(s, shape):
    rows = _rsk(s)
    lens = [len(r) for r in rows]
    res = len(lens) >= len(shape) and all(a <= b for a, b in zip(shape, lens))
    if len(s) <= 6:
        l1, l12 = _greene_shape2(s)
        g = [l1, l12 - l1] + [1] * 9          # only the first two rows matter for [2,2] / [3,2]
        res2 = (l12 - l1 >= shape[1]) and l1 >= shape[0]
        if res != res2:
            return None
        del g
    return res


def _fam(k, s):
    if k == "smooth":
        return not _contains(s, (0, 2, 1, 3)) and not _contains(s, (1, 0, 3, 2))
    if k == "forest":
        return _forest_like(s)
    if k == "baxter":
        return _baxter(s)
    if k == "simsun":
        return _simsun(s)
    if k == "dihedral":
        return _dihedral(s)
    if k == "alt":
        if len(s) < 3:
            # the library documents its own convention for the degenerate lengths < 3 (docstring of
            # in_alternating_group: "D1 and D2 are not subgroups of S1 and S2", pinned by its tests and by
            # the shipped data): lengths 0 and 1 belong, length 2 does not.  The property text does not
            # override a documented convention, so the oracle follows it there.
            return len(s) != 2
        return sum(1 for i in range(len(s)) for j in range(i + 1, len(s)) if s[i] > s[j]) % 2 == 0
    if k == "yt22":
        r = _yt_shape_contains(s, [2, 2])
        return None if r is None else not r
    if k == "yt32":
        r = _yt_shape_contains(s, [3, 2])
        return None if r is None else not r
    if k == "av231mesh":
        return not _contains3(s, (1, 2, 0)) and not _mesh_contains(s, (0, 1, 5, 2, 3, 4), {(1, 6), (4, 5), (4, 6)})
    if k == "hardmesh":
        return not _mesh_contains(s, (0, 1, 2), {(0, 0), (1, 1), (2, 2), (3, 3)}) and \
            not _mesh_contains(s, (0, 1, 2), {(0, 3), (1, 2), (2, 1), (3, 0)})
    raise KeyError(k)


def _ffam(k, s):
    r = _fam(k, s)
    return "SPEC-CONFLICT" if r is None else fbool(r)


def oracle(op, a):
    if op in ("ss.bij", "ss.bijinv"):
        n = int(a[0])
        return "%d|%d|T|T|T" % (_catalan(n), _catalan(n))
    if op == "ss.bad":
        return {"tuple": "ERR:AttributeError", "tupleinv": "ERR:AttributeError", "none": "ERR:TypeError",
                "emptytuple": "_"}.get(a[0])
    if op == "dgroup":
        n = int(a[0])
        return fseqs(sorted(s for s in itertools.permutations(range(n)) if _dihedral(s))) if n <= 8 else None
    if op == "dgroup.len":
        n = int(a[0])
        return str(2 * n if n >= 3 else 0)
    s = pseq(a[0])
    if not _is_perm(s):
        return None          # the property speaks about permutations only
    n = len(s)
    if op.startswith("sort.") and op != "sort.all":
        return fseq(_DEV[op[5:]](s))
    if op.startswith("dev."):
        return fseq(_DEV[op[4:]](s))
    if op.startswith("able."):
        return _able(op[5:], s)
    if op == "west2":
        return _west(2, s)
    if op == "west3":
        return _west(3, s)
    if op == "cnt.stack":
        return _count(dev_stack, s)
    if op == "cnt.pop":
        return _count(dev_pop, s)
    if op == "sort.all":
        outs = [fseq(_DEV[k](s)) for k in ("stack", "pop", "bubble", "quick")]
        outs += [_able(k, s) for k in ("stack", "pop", "bubble", "quick")]
        outs += [_west(2, s), _west(3, s), _count(dev_stack, s), _count(dev_pop, s)]
        return "|".join(outs)
    if op == "ss.fwd":
        return _ss_oracle(s, False)
    if op == "ss.inv":
        return _ss_oracle(s, True)
    if op in ("ss.chk", "ss.chkinv"):
        dom = (0, 2, 1) if op == "ss.chkinv" else (0, 1, 2)
        return "ERR:ValueError" if _contains3(s, dom) else "T|T|T|T"
    if op.startswith("fam.") and op != "fam.all":
        return _ffam(op[4:], s)
    if op == "fam.all":
        return "".join(_ffam(k, s) for k in _FAMS)
    if op == "yt":
        return fseqs(_rsk(s))
    return None


def nontrivial(op, a, out):
    if op in ("ss.bij", "ss.bijinv", "dgroup", "dgroup.len"):
        return int(a[0]) >= 3
    if op == "ss.bad":
        return False
    s = pseq(a[0])
    if op.startswith("ss."):
        return len(s) >= 3 and (out.startswith("ERR") or len(_ltrmin(s)) < len(s))
    return len(s) >= 3


# =========================================================================== generators
def perms(n):
    return itertools.permutations(range(n))


def rand_perm(rng, n):
    l = list(range(n))
    rng.shuffle(l)
    return tuple(l)


def rand_av231(rng, n, lo=0):
    """random 231-avoider (stack-sortable): L n R with L < R"""
    if n == 0:
        return ()
    k = rng.randrange(n)
    return rand_av231(rng, k, lo) + (lo + n - 1,) + rand_av231(rng, n - 1 - k, lo + k)


def rand_av132(rng, n, lo=0):
    """random 132-avoider: L n R with L > R"""
    if n == 0:
        return ()
    k = rng.randrange(n)
    return rand_av132(rng, k, lo + n - 1 - k) + (lo + n - 1,) + rand_av132(rng, n - 1 - k, lo)


def rand_av123(rng, n):
    """random 123-avoider: choose left-to-right minima, fill the rest in decreasing order (retry until valid)"""
    while True:
        t = rand_av132(rng, n)
        mins = dict(_ltrmin(t))
        rest = sorted((v for v in range(n) if v not in mins.values()), reverse=True)
        it = iter(rest)
        s = tuple(mins[i] if i in mins else next(it) for i in range(n))
        if _ltrmin(s) == _ltrmin(t) and not _contains3(s, (0, 1, 2)):
            return s


def rand_layered(rng, n, decreasing_blocks=True):
    res, lo = [], 0
    while lo < n:
        k = rng.randrange(1, min(5, n - lo) + 1)
        blk = list(range(lo, lo + k))
        res.extend(reversed(blk) if decreasing_blocks else blk)
        lo += k
    return tuple(res)


def rand_sum(rng, n):
    """direct sum of small random blocks: many strong fixed points / components"""
    res, lo = [], 0
    while lo < n:
        k = rng.randrange(1, min(6, n - lo) + 1)
        res.extend(lo + v for v in rand_perm(rng, k))
        lo += k
    return tuple(res)


def near_sorted(rng, n, dev, passes):
    """a preimage-like perturbation: start from the identity and apply a few random adjacent/long swaps"""
    l = list(range(n))
    for _ in range(passes):
        i, j = rng.randrange(n), rng.randrange(n)
        l[i], l[j] = l[j], l[i]
    return tuple(l)


def structured(rng, n):
    r = rng.randrange(9)
    if r == 0:
        return rand_av231(rng, n)
    if r == 1:
        return rand_layered(rng, n)
    if r == 2:
        return rand_sum(rng, n)
    if r == 3:
        k = rng.randrange(n + 1) if n else 0
        return tuple(range(k, n)) + tuple(range(k))          # rotation: needs many passes
    if r == 4:
        return near_sorted(rng, n, None, rng.randrange(1, 4))
    if r == 5:
        return rand_av132(rng, n)
    if r == 6:
        s = list(rand_av231(rng, n))                          # one planted 231 in a sortable permutation
        if n >= 3:
            i, j = sorted(rng.sample(range(n), 2))
            s[i], s[j] = s[j], s[i]
        return tuple(s)
    if r == 7:
        return tuple(reversed(rand_layered(rng, n)))
    return rand_perm(rng, n)


SORT_OPS = ["sort.stack", "sort.pop", "sort.bubble", "sort.quick", "able.stack", "able.pop", "able.bubble",
            "able.quick", "west2", "west3", "cnt.stack", "cnt.pop"]
DEV_OPS = ["dev.stack", "dev.pop", "dev.bubble", "dev.quick"]
FAM_OPS = ["fam." + k for k in _FAMS]


def run(ctx):
    rng = ctx.rng
    quick = ctx.tier == "quick"
    # `yt` lines look at the tableau built by the PRIVATE helper perm_properties._perm_to_yt (the public observables
    # are yt_perm_avoids_22/_32, ops fam.yt22 / fam.yt32): they are only run while that helper exists under this name
    try:
        from permuta.bisc import perm_properties as _pp
        has_yt = hasattr(_pp, "_perm_to_yt")
    except Exception:  # pylint: disable=broad-except
        has_yt = True
    if not has_yt:
        _cmp = ctx.compare
        ctx.compare = lambda stream, lines, *a, **kw: _cmp(stream, [ln for ln in lines if not ln.startswith("yt ")], *a, **kw)
        ctx.notes.append("yt lines skipped: perm_properties._perm_to_yt (a private helper) does not exist in this tree")
    N_each = 7                      # every op separately up to here
    N_all = 8                       # bundled line (all 12 observables) for the top length
    N_fam_each = 6
    N_fam = 7 if quick else 8
    N_ss, N_ss_err = 9, 6
    ctx.exhaustive = True
    ctx.exhaustive_bound = ("sort./able./west/cnt. ops: every permutation |s|<=%d op by op and |s|=%d as sort.all; "
                            "dev.* (Lean Spec devices): |s|<=%d; ss.fwd/ss.inv: every 123-/132-avoider |s|<=%d and every "
                            "non-member |s|<=%d; ss.bij/ss.bijinv: n<=%d; fam.*: every |s|<=%d op by op, |s|<=%d as "
                            "fam.all; yt: |s|<=%d; dgroup: n<=8"
                            % (N_each, N_all, N_each, N_ss, N_ss_err, N_ss, N_fam_each, N_fam, N_fam_each + 1))
    # ---- literal corpus: docstring / boundary / past cases
    ctx.compare("corpus", [
        "sort.stack _", "sort.stack 0", "sort.stack 1,0", "sort.stack 1,2,0", "sort.stack 2,0,1", "sort.pop 1,2,0",
        "sort.bubble 2,0,1", "sort.bubble 1,2,0", "sort.quick 1,0,2,4,3", "sort.quick 0,2,1", "sort.quick _",
        "able.quick 1,0,2,4,3", "able.quick 1,0,3,2", "west2 1,2,3,0", "west2 2,1,3,0", "west2 2,4,1,3,0",
        "cnt.stack 1,2,0", "cnt.stack 2,1,0", "cnt.stack _", "cnt.pop 4,0,2,1,3,5", "cnt.pop 5,1,4,3,0,2",
        "cnt.pop 4,3,2,1,0,5", "ss.fwd _", "ss.inv _", "ss.fwd 0", "ss.fwd 0,2,1", "ss.inv 0,1,2",
        "ss.fwd 5,7,2,1,6,0,4,3", "ss.inv 5,6,2,1,3,0,4,7", "ss.fwd 5,4,9,8,2,0,7,6,3,1",
        "ss.fwd 0,1,2", "ss.inv 0,2,1", "fam.alt _", "fam.alt 0", "fam.alt 0,1", "fam.alt 1,0", "fam.dihedral _",
        "fam.dihedral 0", "fam.dihedral 0,1", "fam.dihedral 1,0", "fam.dihedral 0,2,1", "yt 1,0,3,5,2,4",
        "yt 3,1,4,0,2", "yt _", "fam.yt22 _", "fam.yt32 0,1,2", "dgroup 4", "dgroup 0", "dgroup 2", "dgroup.len 3",
        "fam.simsun 2,1,0", "fam.simsun 1,2,0", "fam.baxter 1,3,0,2", "fam.baxter 2,0,3,1", "fam.baxter 1,4,2,0,3",
        "fam.forest 1,0,3,2", "fam.forest 1,0,2,4,3", "fam.smooth 0,3,5,1,2,4", "fam.av231mesh 0,1,5,2,3,4",
        "fam.hardmesh 0,1,2", "fam.hardmesh 1,0,3,2,4",
    ])
    # ---- exhaustive: sorting
    lines = []
    for n in range(N_each + 1):
        for s in perms(n):
            fs = fseq(s)
            for op in SORT_OPS:
                lines.append(op + " " + fs)
            for op in DEV_OPS:
                lines.append(op + " " + fs)
    ctx.compare("exhaustive-sorts", lines)
    ctx.compare("exhaustive-sorts-top", ["sort.all " + fseq(s) for s in perms(N_all)])
    if not quick:
        ctx.compare("exhaustive-dev-top", [op + " " + fseq(s) for s in perms(N_all) for op in DEV_OPS])
    # ---- exhaustive: Simion-Schmidt
    lines = []
    for n in range(N_ss + 1):
        for s in _avoiders(n, (0, 1, 2)):
            lines.append("ss.fwd " + fseq(s))
        for s in _avoiders(n, (0, 2, 1)):
            lines.append("ss.inv " + fseq(s))
    for n in range(N_ss_err + 1):
        for s in perms(n):
            if _contains3(s, (0, 1, 2)):
                lines.append("ss.fwd " + fseq(s))
            if _contains3(s, (0, 2, 1)):
                lines.append("ss.inv " + fseq(s))
    ctx.compare("exhaustive-ss", lines)
    ctx.compare("ss-bijectivity", ["%s %d" % (op, n) for n in range(N_ss + 1) for op in ("ss.bij", "ss.bijinv")])
    # ---- exhaustive: families
    lines = []
    for n in range(N_fam_each + 1):
        for s in perms(n):
            fs = fseq(s)
            for op in FAM_OPS:
                lines.append(op + " " + fs)
    for n in range(N_fam_each + 2):
        for s in perms(n):
            lines.append("yt " + fseq(s))
    for n in range(N_fam_each + 1, N_fam + 1):
        for s in perms(n):
            lines.append("fam.all " + fseq(s))
    lines += ["dgroup %d" % n for n in range(0, 9)] + ["dgroup.len %d" % n for n in range(0, 30)]
    ctx.compare("exhaustive-families", lines)
    # ---- random large, structured
    R = 2500 if quick else 30000
    lines = []
    for _ in range(R):
        n = rng.randrange(9, 41)
        s = structured(rng, n)
        r = rng.random()
        if r < 0.55:
            lines.append(rng.choice(SORT_OPS[:4] + DEV_OPS + ["cnt.stack", "cnt.pop"]) + " " + fseq(s))
        elif r < 0.75:
            # the pattern characterisations in the oracle are only evaluated for |s| <= 9
            s = structured(rng, rng.randrange(9, 15))
            lines.append(rng.choice(SORT_OPS[4:10]) + " " + fseq(s))
        elif r < 0.85:
            lines.append("sort.all " + fseq(structured(rng, rng.randrange(9, 13))))
        else:
            lines.append("yt " + fseq(s))
    ctx.compare("random-sorts", lines)
    lines = []
    for _ in range(R // 2):
        n = rng.randrange(10, 41)
        r = rng.random()
        if r < 0.4:
            lines.append("ss.chk " + fseq(rand_av123(rng, n)))
        elif r < 0.8:
            lines.append("ss.chkinv " + fseq(rand_av132(rng, n)))
        elif r < 0.9:
            lines.append("ss.chk " + fseq(structured(rng, rng.randrange(7, 20))))      # mostly the error branch
        else:
            lines.append("ss.chkinv " + fseq(structured(rng, rng.randrange(7, 20))))
    ctx.compare("random-ss", lines)
    lines = []
    for _ in range(R // 3):
        n = rng.randrange(8, 12)
        s = structured(rng, n)
        k = rng.choice(_FAMS)
        if k == "dihedral" and rng.random() < 0.7:      # plant members
            a = rng.randrange(n)
            s = tuple((a + i) % n for i in range(n)) if rng.random() < 0.5 else tuple((a - i) % n for i in range(n))
            if rng.random() < 0.3:
                l = list(s)
                l[0], l[1] = l[1], l[0]
                s = tuple(l)
        lines.append("fam.%s %s" % (k, fseq(s)))
    ctx.compare("random-families", lines)
    # ---- sizes the other streams never reach (they stop at 40): 64-70, ~200, around 400/401, ~600, 1000.
    # Measured limits (~0.2 s per line on implementation, oracle and model): count_stack_sorts on a random permutation
    # needs 4 s (implementation) at 400 -> only on permutations a few passes from sorted from 200 on; Simion-Schmidt
    # needs 4 s at 200 -> up to 70; at 1000 the model needs > 1 s for cnt.pop and dev.quick -> left out there.  The
    # pattern characterisations inside the oracle stop at length 9, the device simulation decides.
    lines = []

    def planted(n):
        """one occurrence of 231 / 312 / 321 / 2341 / 3241 in an otherwise increasing permutation: in the first
        entries, in the last entries, or spread over first / middle / last position"""
        patt = rng.choice([(1, 2, 0), (2, 0, 1), (2, 1, 0), (1, 2, 3, 0), (2, 1, 3, 0), (1, 0), (0, 1, 2)])
        k = len(patt)
        where = rng.randrange(3)
        fewp[0] = where < 2                  # at most three passes of a stack sort the first two shapes
        if where == 0:
            return patt + tuple(range(k, n))
        if where == 1:
            return tuple(range(n - k)) + tuple(n - k + v for v in patt)
        pos = sorted([0, n - 1] + rng.sample(range(1, n - 1), k - 2)) if k >= 2 else [0]
        vals = sorted(rng.sample(range(n), k)) if rng.random() < 0.5 else [pos[i] for i in range(k)]
        s_ = [None] * n
        for i, q in enumerate(pos):
            s_[q] = vals[patt[i]]
        it = iter(v for v in range(n) if v not in vals)
        return tuple(v if v is not None else next(it) for v in s_)
    few, fewp = ["cnt.stack"], [False]
    for lo, hi, cnt in ((64, 70, 16), (199, 202, 5), (398, 403, 8), (597, 602, 2), (1000, 1000, 2)):
        for j in range(cnt if quick else cnt * 5):
            n = rng.randrange(lo, hi + 1)
            near = j % 2 == 0 and n < 900
            # (at 1000 only shallow shapes: on a monotone run of ~995 entries the library's recursive _stack_sort hits
            # the interpreter's recursion limit - bare interpreter, identity of length 1000 -, a resource limit of the
            # implementation that is reported and not exercised; up to ~600 every shape is used)
            s = planted(n) if near else structured(rng, n) if n < 900 else rand_perm(rng, n)
            ops = SORT_OPS[:10] + DEV_OPS + ["cnt.pop", "yt", "fam.alt", "fam.dihedral", "fam.yt22", "fam.yt32"]
            if n >= 1000:
                ops = [o for o in ops if o not in ("cnt.pop", "dev.quick", "sort.quick", "able.quick")] + ["sort.quick"]
            if n <= 70 or (near and fewp[0]):
                ops = ops + few
            if not quick or n <= 70:
                pass
            else:
                ops = rng.sample(ops, 12)
            lines.extend(op + " " + fseq(s) for op in ops)
            if n <= 70:
                lines.append("ss.chk " + fseq(rand_av123(rng, n) if j % 3 else s))
                lines.append("ss.chkinv " + fseq(rand_av132(rng, n) if j % 3 else s))
    ctx.compare("large", lines)
    # ---- malformed / glue: non-standard tuples (legal for the constructor), wrong argument types
    # (tuples with repeated entries are left out: tie-breaking there is an implementation detail)
    mal = [(2, 1, 3), (1, 2), (5,), (3, 1), (1, 3), (0, 2), (4, 2, 0), (1, 3, 2), (1, 2, 3), (3, 2, 1), (9, 4, 6, 5)]
    lines = []
    for s in mal:
        for op in ("sort.stack", "sort.pop", "sort.bubble", "sort.quick", "dev.stack", "dev.pop", "dev.bubble",
                   "able.stack", "able.pop", "able.bubble", "able.quick", "west2", "west3",
                   "fam.dihedral", "yt", "fam.yt22", "fam.yt32"):
            # (the Simion-Schmidt maps are left out: they use the entries as indices into 0..n-1, so what they do with
            # a tuple that is not a permutation of 0..n-1 is an implementation detail the property does not pin)
            lines.append(op + " " + fseq(s))
    lines += ["ss.bad tuple", "ss.bad tupleinv", "ss.bad none", "ss.bad emptytuple", "dgroup.len 1", "dgroup.len 2"]
    ctx.compare("malformed", lines)
