"""Brute-force readings of the mesh-pattern definitions (oracle side) and structured generators,
shared by c03.py and c06.py.  Nothing here calls permuta."""
import itertools


def perms(n):
    return itertools.permutations(range(n))


def all_cells(k):
    return [(x, y) for x in range(k + 1) for y in range(k + 1)]


def is_perm(s):
    return sorted(s) == list(range(len(s)))


def classical_occs(p, s):
    """strictly increasing index tuples of s, order-isomorphic to p, in lexicographic order"""
    k = len(p)
    res = []
    for c in itertools.combinations(range(len(s)), k):
        vals = [s[i] for i in c]
        if all((p[a] < p[b]) == (vals[a] < vals[b]) for a in range(k) for b in range(k)):
            res.append(c)
    return res


def cell_of(s, c, i):
    """cell of the grid drawn through the occurrence c in which the point (i, s[i]) lies"""
    return (sum(1 for j in c if j < i), sum(1 for j in c if s[j] < s[i]))


def is_mesh_occ(p, shading, s, c):
    """c is a classical occurrence (assumed) and no other point of s lies in a shaded cell"""
    cs = set(c)
    return all(cell_of(s, c, i) not in shading for i in range(len(s)) if i not in cs)


def mesh_occs(p, shading, s):
    shading = set(shading)
    return [c for c in classical_occs(p, s) if is_mesh_occ(p, shading, s, c)]


def adjacency_occs(p, adj_idx, adj_val, s):
    """occurrences of the bivincular pattern read as adjacency requirements: with virtual boundary
    points (position -1 / n, value -1 / n), requirement j asks points j-1 and j to be adjacent"""
    n, k = len(s), len(p)
    res = []
    for c in classical_occs(p, s):
        pos = [-1] + list(c) + [n]
        val = [-1] + sorted(s[i] for i in c) + [n]
        if all(pos[j + 1] == pos[j] + 1 for j in adj_idx) and all(val[v + 1] == val[v] + 1 for v in adj_val):
            res.append(c)
    return res


def rand_perm(rng, n):
    l = list(range(n))
    rng.shuffle(l)
    return tuple(l)


def rand_shading(rng, k, mode=None):
    """random shading of a length-k pattern, biased towards boundary rows/columns"""
    cells = all_cells(k)
    mode = rng.randrange(6) if mode is None else mode
    if mode == 0:
        dens = rng.random()
        return sorted(c for c in cells if rng.random() < dens)
    if mode == 1:   # boundary ring only
        return sorted(c for c in cells if (c[0] in (0, k) or c[1] in (0, k)) and rng.random() < 0.6)
    if mode == 2:   # full columns / rows
        cols = [x for x in range(k + 1) if rng.random() < 0.35]
        rows = [y for y in range(k + 1) if rng.random() < 0.35]
        return sorted(set((x, y) for x in cols for y in range(k + 1)) | set((x, y) for y in rows for x in range(k + 1)))
    if mode == 3:   # everything except a few cells
        holes = set(rng.sample(cells, min(len(cells), rng.randrange(1, 4))))
        return sorted(c for c in cells if c not in holes)
    if mode == 4:   # few cells
        return sorted(set(rng.sample(cells, min(len(cells), rng.randrange(0, 4)))))
    # interior only
    return sorted(c for c in cells if 0 < c[0] < k and 0 < c[1] < k and rng.random() < 0.6)


def inflate(rng, p, shading, extra, cheat=0.0):
    """a permutation containing the mesh pattern (p, shading): `extra` further points are dropped
    into cells that are not shaded (with probability `cheat` a point goes into a shaded cell,
    giving a near miss).  Returns the permutation."""
    k = len(p)
    shading = set(shading)
    free = [c for c in all_cells(k) if c not in shading]
    shaded = sorted(shading)
    pts = [(i + 1.0, p[i] + 1.0) for i in range(k)]
    for _ in range(extra):
        pool = free
        if shaded and rng.random() < cheat:
            pool = shaded
        if not pool:
            break
        a, b = rng.choice(pool)
        pts.append((a + 0.05 + 0.9 * rng.random(), b + 0.05 + 0.9 * rng.random()))
    pts.sort()
    ys = sorted(y for _, y in pts)
    return tuple(ys.index(y) for _, y in pts)


# ----------------------------------------------------------------------------- pattern inside pattern
def standardize(vals):
    srt = sorted(vals)
    return tuple(srt.index(v) for v in vals)


def sub_shading_by_regions(p, shading, c):
    """property text: the sub-pattern on the points c shades exactly the cells whose whole region in
    the original is shaded and point free.  The region of sub-cell (x, y) consists of the cells (a, b)
    of the original whose column a has x chosen points to its left and whose row b has y chosen
    points below it."""
    n, k = len(p), len(c)
    shading = set(shading)
    cs = set(c)
    res = []
    for x in range(k + 1):
        for y in range(k + 1):
            region = [(a, b) for a in range(n + 1) for b in range(n + 1)
                      if sum(1 for j in c if j < a) == x and sum(1 for j in c if p[j] < b) == y]
            if all(cell in shading for cell in region) and \
                    all(cell_of(p, c, i) != (x, y) for i in range(n) if i not in cs):
                res.append((x, y))
    return res


_SEM_CACHE = {}


def mesh_occurrence_pairs(p, shading, maxlen):
    """all (s, d): s a permutation with len(p) <= |s| <= maxlen, d a mesh occurrence of (p, shading) in s"""
    key = (tuple(p), tuple(sorted(shading)), maxlen)
    if key not in _SEM_CACHE:
        if len(_SEM_CACHE) > 64:
            _SEM_CACHE.clear()
        res = []
        for n in range(len(p), maxlen + 1):
            for s in perms(n):
                for d in mesh_occs(p, shading, s):
                    res.append((s, d))
        _SEM_CACHE[key] = res
    return _SEM_CACHE[key]


def semantic_sub_shading(p, shading, c, maxlen):
    """the strongest shading on the points c implied by (p, shading): cell (x, y) is shaded iff in every
    permutation s (|s| <= maxlen) and every occurrence d of (p, shading) in s no point of s outside d.c lies
    in cell (x, y) of the grid through d.c"""
    k = len(c)
    bad = set()
    for s, d in mesh_occurrence_pairs(p, shading, maxlen):
        dc = [d[j] for j in c]
        dcs = set(dc)
        for i in range(len(s)):
            if i not in dcs:
                bad.add(cell_of(s, dc, i))
    return [(x, y) for x in range(k + 1) for y in range(k + 1) if (x, y) not in bad]


def semantic_occs_in_mesh(q, qsh, p, psh, maxlen):
    """index tuples c such that for EVERY permutation s (|s| <= maxlen) and every occurrence d of the mesh
    pattern (p, psh) in s, the corresponding points d.c form an occurrence of (q, qsh) in s"""
    k, n = len(q), len(p)
    qsh = set(qsh)
    res = []
    pairs = mesh_occurrence_pairs(p, psh, maxlen)
    for c in itertools.combinations(range(n), k):
        ok = True
        for s, d in pairs:
            dc = [d[j] for j in c]
            vals = [s[i] for i in dc]
            if not all((q[a] < q[b]) == (vals[a] < vals[b]) for a in range(k) for b in range(k)) \
                    or not is_mesh_occ(q, qsh, s, dc):
                ok = False
                break
        if ok:
            res.append(c)
    return res


# ----------------------------------------------------------------------------- large inputs (hardener hg1)
# Sizes the small streams never reach.  Every module using this adds a 'large' stream at the scales below.
BIG_SCALES = {"S": (9, 12), "M": (21, 40), "L": (64, 70), "X": (197, 204), "Y": (401, 406), "Z": (1001, 1030)}


def big_len(rng, scale):
    lo, hi = BIG_SCALES[scale]
    return rng.randint(lo, hi)


def classical_occs_big(p, s):
    """the same listing as classical_occs (lexicographic order) by extending index tuples one position at a
    time and comparing the new value with the values chosen so far - used for long inputs, where running
    through all of itertools.combinations is too slow; shares nothing with the floor/ceiling bounds of the code"""
    k, n = len(p), len(s)
    res = []
    c = []

    def ext():
        j = len(c)
        if j == k:
            res.append(tuple(c))
            return
        pj = p[j]
        for i in range(c[-1] + 1 if c else 0, n - (k - j) + 1):
            v = s[i]
            if all((p[a] < pj) == (s[c[a]] < v) for a in range(j)):
                c.append(i)
                ext()
                c.pop()
    ext()
    return res


def is_mesh_occ_big(shading, s, pos, c):
    """cell by cell: the open rectangle of every shaded cell contains no point of s (walks along the
    narrower side of the rectangle; pos is the inverse of s)"""
    n = len(s)
    cols = [-1] + list(c) + [n]
    rows = [-1] + sorted(s[i] for i in c) + [n]
    for (x, y) in shading:
        a, b, lo, hi = cols[x], cols[x + 1], rows[y], rows[y + 1]
        if b - a <= hi - lo:
            if any(lo < s[i] < hi for i in range(a + 1, b)):
                return False
        elif any(a < pos[v] < b for v in range(lo + 1, hi)):
            return False
    return True


def mesh_occs_big(p, shading, s):
    shading = sorted(set(shading))
    pos = [0] * len(s)
    for i, v in enumerate(s):
        pos[v] = i
    return [c for c in classical_occs_big(p, s) if is_mesh_occ_big(shading, s, pos, c)]


def mesh_occs_any(p, shading, s):
    """the brute force over all index subsets for short permutations, the incremental listing for long ones"""
    return mesh_occs(p, shading, s) if len(s) <= 14 else mesh_occs_big(p, shading, s)


def is_increasing(p):
    return all(p[i] < p[i + 1] for i in range(len(p) - 1))


def group_positions(rng, n, k, mode=None):
    """k increasing positions in range(n): hugging the start / the end, the first and the last positions
    together, around the middle, spread with a constant gap, or random"""
    if k > n:
        return list(range(n))
    mode = rng.randrange(7) if mode is None else mode
    if mode == 0:
        return list(range(k))
    if mode == 1:
        return list(range(n - k, n))
    if mode == 2:
        h = (k + 1) // 2
        return list(range(h)) + list(range(n - (k - h), n))
    if mode == 3:
        a = max(0, min(n - k, n // 2 - k // 2))
        return list(range(a, a + k))
    if mode == 4 and k >= 2:
        gap = max(1, (n - 1) // (k - 1))
        gap = rng.randint(1, gap)
        a = rng.choice([0, n - 1 - gap * (k - 1)])
        return [a + gap * j for j in range(k)]
    if mode == 5 and k >= 1:
        return sorted(rng.sample(range(n - 1), k - 1) + [n - 1]) if n > k else list(range(n))
    return sorted(rng.sample(range(n), k))


def sparse_target(rng, p, n, copies=1):
    """a permutation of length n with few occurrences of the classical pattern p: a monotone backbone that
    avoids p (increasing unless p is increasing) in which `copies` groups of |p| positions (group_positions)
    have their values rearranged into a copy of p"""
    k = len(p)
    s = list(range(n))
    if k >= 2 and is_increasing(p):
        s.reverse()
    if k > n:
        return tuple(s)
    for _ in range(copies):
        pos = group_positions(rng, n, k)
        vals = sorted(s[i] for i in pos)
        for j, i in enumerate(pos):
            s[i] = vals[p[j]]
    return tuple(s)


def perturbed(rng, s, swaps=1):
    """s with a few transpositions of entries (near misses / targets that differ only far from the start)"""
    s = list(s)
    n = len(s)
    for _ in range(swaps):
        if n < 2:
            break
        i = rng.choice([0, n - 2, rng.randrange(n - 1), n // 2])
        j = min(n - 1, i + rng.choice([1, 1, 2, max(1, n // 3)]))
        s[i], s[j] = s[j], s[i]
    return tuple(s)


def big_target(rng, p, shading, n, dense_ok):
    """a structured target of length n for the mesh pattern (p, shading): planted with the extra points in
    unshaded cells (`inflate`, only when dense_ok: the number of classical occurrences grows like n^|p|),
    sparse (few classical occurrences), or a sparse one with a transposition"""
    k = len(p)
    r = rng.random()
    if dense_ok and r < 0.5 and n >= k:
        return inflate(rng, p, shading, n - k, cheat=rng.choice([0.0, 0.0, 0.1, 0.3]))
    if dense_ok and r < 0.6:
        return rand_perm(rng, n)
    s = sparse_target(rng, p, n, copies=rng.choice([1, 1, 2, 3]))
    return perturbed(rng, s) if rng.random() < 0.3 else s


def sparse_shading(rng, k, count=None):
    """a few cells of a long pattern's grid, biased to the boundary rows / columns and the corners"""
    count = rng.randrange(1, 6) if count is None else count
    res = set()
    for _ in range(count):
        x = rng.choice([0, k, rng.randrange(k + 1), rng.randrange(k + 1)])
        y = rng.choice([0, k, rng.randrange(k + 1), rng.randrange(k + 1)])
        res.add((x, y))
    return sorted(res)


def classical_occs_any(p, s):
    return classical_occs(p, s) if len(s) <= 14 else classical_occs_big(p, s)


def adjacency_occs_any(p, adj_idx, adj_val, s):
    """adjacency_occs on top of classical_occs_any"""
    n = len(s)
    res = []
    for c in classical_occs_any(p, s):
        pos = [-1] + list(c) + [n]
        val = [-1] + sorted(s[i] for i in c) + [n]
        if all(pos[j + 1] == pos[j] + 1 for j in adj_idx) and all(val[v + 1] == val[v] + 1 for v in adj_val):
            res.append(c)
    return res


def sub_shading_big(p, shading, c):
    """the region reading of sub_shading_by_regions for long patterns, by marking: every cell (a, b) of the
    original belongs to the sub-cell (number of chosen indices < a, number of chosen values < b); a sub-cell is
    shaded iff none of its cells is unshaded and no point that was not chosen lies in it.  O(n^2)."""
    import bisect
    n, k = len(p), len(c)
    cs = sorted(c)
    vals = sorted(p[i] for i in cs)
    shading = set(shading)
    colx = [bisect.bisect_left(cs, a) for a in range(n + 1)]
    rowy = [bisect.bisect_left(vals, b) for b in range(n + 1)]
    bad = set()
    for a in range(n + 1):
        x = colx[a]
        for b in range(n + 1):
            if (a, b) not in shading:
                bad.add((x, rowy[b]))
    chosen = set(cs)
    for i in range(n):
        if i not in chosen:
            bad.add((bisect.bisect_left(cs, i), bisect.bisect_left(vals, p[i])))
    return [(x, y) for x in range(k + 1) for y in range(k + 1) if (x, y) not in bad]


def region_shaded_and_pointfree(p, shading, cs, vals, x, y):
    """one sub-cell of the pattern induced on the (sorted) indices cs with sorted values vals: its region consists
    of the columns cs[x-1]+1 .. cs[x] and the rows vals[y-1]+1 .. vals[y] of the original (cs[-1] = vals[-1] = -1,
    cs[k] = vals[k] = n); a point that was not chosen lies inside iff its index and value lie strictly between
    those bounds"""
    n, k = len(p), len(cs)
    a0, a1 = (cs[x - 1] if x > 0 else -1), (cs[x] if x < k else n)
    b0, b1 = (vals[y - 1] if y > 0 else -1), (vals[y] if y < k else n)
    if any(b0 < p[i] < b1 for i in range(a0 + 1, a1)):
        return False
    return all((a, b) in shading for a in range(a0 + 1, a1 + 1) for b in range(b0 + 1, b1 + 1))


def occs_in_mesh_big(q, qsh, p, psh):
    """classical occurrences of q in p whose induced sub-pattern (region reading) shades at least the cells of
    qsh - only the sub-cells named in qsh are examined"""
    psh = set(psh)
    qsh = sorted(set(qsh))
    res = []
    for c in classical_occs_any(q, p):
        vals = sorted(p[i] for i in c)
        if all(region_shaded_and_pointfree(p, psh, c, vals, x, y) for x, y in qsh):
            res.append(c)
    return res


def band_cases(rng, lengths=(10, 12, 22, 34, 40, 66, 70, 130, 200, 260)):
    """deterministic near misses that only show far from the start: for every length a band (two adjacent rows or
    columns over the whole width of the grid, or a boundary row / column) that is fully shaded except for one hole
    placed at the far end, one before the far end, or in the middle.  Yields (pattern, shading, rectangle, hole)."""
    for n in lengths:
        p = rand_perm(rng, n)
        for hole_at in (n, n - 1, n // 2 + 1, None):
            k = rng.choice([0, n - 1, rng.randrange(n)])
            horizontal = rng.random() < 0.5
            if horizontal:
                rect = (0, k, n, k + 1)
            else:
                rect = (k, 0, k + 1, n)
            cells = set((x, y) for x in range(rect[0], rect[2] + 1) for y in range(rect[1], rect[3] + 1))
            hole = None
            if hole_at is not None:
                hole = (hole_at, rng.choice([k, k + 1])) if horizontal else (rng.choice([k, k + 1]), hole_at)
                cells.discard(hole)
            yield p, sorted(cells), rect, hole
