"""Brute-force readings of the mesh-pattern definitions (oracle side) and structured generators,
shared by c03.py and c06.py.  Nothing here calls permuta."""
import itertools


def perms(n):
    return itertools.permutations(range(n))


def all_cells(k):
    return [(x, y) for x in range(k + 1) for y in range(k + 1)]


def is_perm(s):
    return sorted(s) == list(range(len(s)))


def classical_occs(p, s):
    """strictly increasing index tuples of s, order-isomorphic to p, in lexicographic order"""
    k = len(p)
    res = []
    for c in itertools.combinations(range(len(s)), k):
        vals = [s[i] for i in c]
        if all((p[a] < p[b]) == (vals[a] < vals[b]) for a in range(k) for b in range(k)):
            res.append(c)
    return res


def cell_of(s, c, i):
    """cell of the grid drawn through the occurrence c in which the point (i, s[i]) lies"""
    return (sum(1 for j in c if j < i), sum(1 for j in c if s[j] < s[i]))


def is_mesh_occ(p, shading, s, c):
    """c is a classical occurrence (assumed) and no other point of s lies in a shaded cell"""
    cs = set(c)
    return all(cell_of(s, c, i) not in shading for i in range(len(s)) if i not in cs)


def mesh_occs(p, shading, s):
    shading = set(shading)
    return [c for c in classical_occs(p, s) if is_mesh_occ(p, shading, s, c)]


def adjacency_occs(p, adj_idx, adj_val, s):
    """occurrences of the bivincular pattern read as adjacency requirements: with virtual boundary
    points (position -1 / n, value -1 / n), requirement j asks points j-1 and j to be adjacent"""
    n, k = len(s), len(p)
    res = []
    for c in classical_occs(p, s):
        pos = [-1] + list(c) + [n]
        val = [-1] + sorted(s[i] for i in c) + [n]
        if all(pos[j + 1] == pos[j] + 1 for j in adj_idx) and all(val[v + 1] == val[v] + 1 for v in adj_val):
            res.append(c)
    return res


def rand_perm(rng, n):
    l = list(range(n))
    rng.shuffle(l)
    return tuple(l)


def rand_shading(rng, k, mode=None):
    """random shading of a length-k pattern, biased towards boundary rows/columns"""
    cells = all_cells(k)
    mode = rng.randrange(6) if mode is None else mode
    if mode == 0:
        dens = rng.random()
        return sorted(c for c in cells if rng.random() < dens)
    if mode == 1:   # boundary ring only
        return sorted(c for c in cells if (c[0] in (0, k) or c[1] in (0, k)) and rng.random() < 0.6)
    if mode == 2:   # full columns / rows
        cols = [x for x in range(k + 1) if rng.random() < 0.35]
        rows = [y for y in range(k + 1) if rng.random() < 0.35]
        return sorted(set((x, y) for x in cols for y in range(k + 1)) | set((x, y) for y in rows for x in range(k + 1)))
    if mode == 3:   # everything except a few cells
        holes = set(rng.sample(cells, min(len(cells), rng.randrange(1, 4))))
        return sorted(c for c in cells if c not in holes)
    if mode == 4:   # few cells
        return sorted(set(rng.sample(cells, min(len(cells), rng.randrange(0, 4)))))
    # interior only
    return sorted(c for c in cells if 0 < c[0] < k and 0 < c[1] < k and rng.random() < 0.6)


def inflate(rng, p, shading, extra, cheat=0.0):
    """a permutation containing the mesh pattern (p, shading): `extra` further points are dropped
    into cells that are not shaded (with probability `cheat` a point goes into a shaded cell,
    giving a near miss).  Returns the permutation."""
    k = len(p)
    shading = set(shading)
    free = [c for c in all_cells(k) if c not in shading]
    shaded = sorted(shading)
    pts = [(i + 1.0, p[i] + 1.0) for i in range(k)]
    for _ in range(extra):
        pool = free
        if shaded and rng.random() < cheat:
            pool = shaded
        if not pool:
            break
        a, b = rng.choice(pool)
        pts.append((a + 0.05 + 0.9 * rng.random(), b + 0.05 + 0.9 * rng.random()))
    pts.sort()
    ys = sorted(y for _, y in pts)
    return tuple(ys.index(y) for _, y in pts)


# ----------------------------------------------------------------------------- pattern inside pattern
def standardize(vals):
    srt = sorted(vals)
    return tuple(srt.index(v) for v in vals)


def sub_shading_by_regions(p, shading, c):
    """property text: the sub-pattern on the points c shades exactly the cells whose whole region in
    the original is shaded and point free.  The region of sub-cell (x, y) consists of the cells (a, b)
    of the original whose column a has x chosen points to its left and whose row b has y chosen
    points below it."""
    n, k = len(p), len(c)
    shading = set(shading)
    cs = set(c)
    res = []
    for x in range(k + 1):
        for y in range(k + 1):
            region = [(a, b) for a in range(n + 1) for b in range(n + 1)
                      if sum(1 for j in c if j < a) == x and sum(1 for j in c if p[j] < b) == y]
            if all(cell in shading for cell in region) and \
                    all(cell_of(p, c, i) != (x, y) for i in range(n) if i not in cs):
                res.append((x, y))
    return res


_SEM_CACHE = {}


def mesh_occurrence_pairs(p, shading, maxlen):
    """all (s, d): s a permutation with len(p) <= |s| <= maxlen, d a mesh occurrence of (p, shading) in s"""
    key = (tuple(p), tuple(sorted(shading)), maxlen)
    if key not in _SEM_CACHE:
        if len(_SEM_CACHE) > 64:
            _SEM_CACHE.clear()
        res = []
        for n in range(len(p), maxlen + 1):
            for s in perms(n):
                for d in mesh_occs(p, shading, s):
                    res.append((s, d))
        _SEM_CACHE[key] = res
    return _SEM_CACHE[key]


def semantic_sub_shading(p, shading, c, maxlen):
    """the strongest shading on the points c implied by (p, shading): cell (x, y) is shaded iff in every
    permutation s (|s| <= maxlen) and every occurrence d of (p, shading) in s no point of s outside d.c lies
    in cell (x, y) of the grid through d.c"""
    k = len(c)
    bad = set()
    for s, d in mesh_occurrence_pairs(p, shading, maxlen):
        dc = [d[j] for j in c]
        dcs = set(dc)
        for i in range(len(s)):
            if i not in dcs:
                bad.add(cell_of(s, dc, i))
    return [(x, y) for x in range(k + 1) for y in range(k + 1) if (x, y) not in bad]


def semantic_occs_in_mesh(q, qsh, p, psh, maxlen):
    """index tuples c such that for EVERY permutation s (|s| <= maxlen) and every occurrence d of the mesh
    pattern (p, psh) in s, the corresponding points d.c form an occurrence of (q, qsh) in s"""
    k, n = len(q), len(p)
    qsh = set(qsh)
    res = []
    pairs = mesh_occurrence_pairs(p, psh, maxlen)
    for c in itertools.combinations(range(n), k):
        ok = True
        for s, d in pairs:
            dc = [d[j] for j in c]
            vals = [s[i] for i in dc]
            if not all((q[a] < q[b]) == (vals[a] < vals[b]) for a in range(k) for b in range(k)) \
                    or not is_mesh_occ(q, qsh, s, dc):
                ok = False
                break
        if ok:
            res.append(c)
    return res
