"""C16 - the 'finitely many simples' verdict (pin_words.py:398-476, permset.py:90-98, strategy, CLI body)."""
import argparse
import contextlib
import io
import itertools
from functools import lru_cache

import core
from core import fseq, fseqs, fbool, pseq, pseqs, guarded
import pinlib
import c15
import used
import past

PROP = "C16"
RULE = ("special/alt/w1/w2: every basis of <= 3 permutations of length <= 4 (quick: all of <= 2 and a sample of triples); "
        "verdict lines (hfs with all flag combinations, Av method, strategy, CLI body): sampled classes, each queried "
        "through every entry point, in several orders, with a repeated and with a redundant element, and in symmetric "
        "images (quick: two of these five variant groups per class, in rotation); long elements: the table tests on "
        "sub-patterns of family members of length 9-12, 21-40 (oracle by backtracking containment), 64-70 "
        "(model only), every entry point on long-element classes whose verdict needs no automaton, one group with "
        "elements of length 5 and 6 next to short ones; a third of the bases built from Perm objects with a past; "
        "selected lines after histories of short-lived class / strategy objects (dropped, collected) and with a list "
        "argument that held another basis in an earlier call; non-trivial = the basis has an element of length >= 3 (so the tables / the automaton are consulted); "
        "distinct = distinct op lines")
ASSUMPTIONS = [
    "model/implementation agreement outside the enumerated and sampled inputs is assumed",
    "the verdict of is_polynomial on the normalised basis is an input of the av/cli lines (property C13)",
    "the pin-sequence half of the decision uses the C15 model automaton pipeline (see C15 assumptions)",
    "oracle: simple permutations of Av(B) are counted by brute force up to length 9 (level cap 4000 permutations); "
    "'finitely many' is asserted only when two consecutive lengths n, n+1 (n >= 3) have no simple permutation "
    "(Schmerl-Trotter: then none is longer), 'infinitely many' only when an explicitly constructed family (parallel "
    "alternations, wedge simples of either kind, in one of the eight orientations; members checked to be simple) avoids "
    "the basis up to the length at which avoidance is decided; otherwise the oracle is silent",
]
PARTIAL = [
    'verdict_matches_simples (Brignall-Ruskuc-Vatter): has_finite_simples B <-> Av(B) has finitely many simple permutations is now PROVED in both directions, without hypothesis (Props/C16.lean: verdict_matches_simples, verdict_true_finitely_many_simples, verdict_false_correct, strategy_matches_simples; av_matches_simples for Av(B).has_finitely_many_simples() when the class is not recognised as finite and is_polynomial says no). Direction False => infinitely many simples: special_false_simples_one_parity/_consecutive/_unbounded, pin_false_infinitely_many_simples (strict pin words are proper pin sequences, C16P.pinSeq_of_run; proper pin sequences are almost simple, C16P.classify / pinSeq_simple_sub), verdict_false_simples_consecutive (a simple in one of every two consecutive lengths n, n+1, n >= 6). Direction True => finitely many simples: pinSeq_is_strict_word (every proper pin sequence is the run of a strict pin word), alt_table_is_basis / wedge1_table_is_basis / wedge2_table_is_basis (the generated tables are exactly the bases of the closures of the three families), special_true_excludes_families, pin_true_excludes_pin_sequences, and the unavoidable-substructures theorem of Brignall-Huczynska-Vatter (Combinatorica 2008, Thm 1.4) itself: unavoidable_substructures : Spec.C16.UnavoidableSubstructures, proved in Lemmas/C16Bhv*.lean (right-reaching proper pin sequences with maximality: C16P.max_extreme_reached; tree pigeonhole C16P.tree_branch; separation of converging sequences C16P.conv_sep; Erdos-Szekeres C16P.erdos_szekeres; parallel/wedge alternations C16P.alt_case; wedge permutations of both kinds from a right-reaching sequence started at the apex C16P.wedge_case; identification of the shapes with parAlt/wedge1/wedge2 up to the eight symmetries). Still only evaluated (against brute-force counts of simples up to length 9): the answer True of Av(B).has_finitely_many_simples() when it is caused by is_finite (needs Erdos-Szekeres for classes) or by is_polynomial (input, property C13); the Schmerl-Trotter refinement (simples in EVERY length of one parity / two consecutive lengths) is proved only in the form stated above',
    "pin_D8_invariant is now PROVED: C14.hasFinitePinperms_act (has_finite_pinperms (B.map g) = has_finite_pinperms B for the eight symmetries) and C14.hasFinitePinperms_class_only (bases with the same avoiders get the same verdict) - these discharge the hypothesis hpin of C16.hasFiniteSimples_act / hasFiniteSimples_class_only for dfa = none, and the hypothesis-free statements are PROVED in Props/C16.lean itself (it imports Props/C14; Props/C14 only imports Lemmas/C16Special): C16.hasFiniteSimples_act_all (has_finite_simples (B.map g) = has_finite_simples B for every flag combination, with or without a supplied automaton) and C16.hasFiniteSimples_class_only_all (bases with the same avoiders get the same verdict); C19.strategyApplies_act / C19.findStrategies_sym_full (Props/C19Ext.lean) use them for FinitelyManySimplesStrategy. Nothing of this item is left unproved",
]
TRUSTED = ["is_polynomial (C13) is taken as an input of Av.has_finitely_many_simples"]

worker_init_done = False


def worker_init():
    global Perm, PinWords, Av, Basis, Strat, cli_fn, worker_init_done
    c15.worker_init()
    from permuta import Perm as P, Av as A, Basis as Bs
    from permuta.permutils.pin_words import PinWords as PW
    from permuta.enumeration_strategies.finitely_many_simples import FinitelyManySimplesStrategy as S
    from permuta.cli import has_finitely_many_simples as cf
    Perm, PinWords, Av, Basis, Strat, cli_fn = P, PW, A, Bs, S, cf
    worker_init_done = True


def basis_of(s):
    """a deterministic third of the bases is built from Perm objects with a past (past.mkperm)"""
    ps = pseqs(s)
    if used.sel("basis16", [s], 3) and all(used.is_perm(p) and len(p) <= 410 for p in ps):
        return [past.mkperm(p, i) for i, p in enumerate(ps)]
    return [Perm(p) for p in ps]


class _Timeout(BaseException):
    pass


def _alarm(signum, frame):
    raise _Timeout()


LINE_SECONDS = 90


def _limited(fn):
    """lines with long basis elements run under a wall-clock limit: the verdict of such a basis is decided without
    the pin-word tables (exponential in the length) - if a regression made the library consult them the line must
    fail instead of hanging the run"""
    import signal
    old = signal.signal(signal.SIGALRM, _alarm)
    signal.alarm(LINE_SECONDS)
    try:
        return fn()
    except _Timeout:
        return "ERR:Timeout"
    finally:
        signal.alarm(0)
        signal.signal(signal.SIGALRM, old)


_FINITE_CLASSES = [((0, 1), (1, 0)), ((0, 1, 2), (1, 0)), ((0, 1), (2, 1, 0)), ((0, 1, 2), (2, 1, 0)), ((0, 1, 2, 3), (1, 0)),
                   ((0, 1, 2, 3), (2, 1, 0)), ((0, 1, 2), (3, 2, 1, 0)), ((0, 1), (3, 2, 1, 0)), ((0, 1, 2, 3), (3, 2, 1, 0)),
                   ((0, 1, 2, 3, 4), (1, 0)), ((0, 1), (4, 3, 2, 1, 0)), ((0, 1, 2, 3, 4), (2, 1, 0))]
# principal classes whose special simples (alternations / wedges) are infinite: verdict False without any automaton
_INFINITE_CLASSES = [((0, 1, 3, 2),), ((1, 2, 0, 3),), ((1, 2, 3, 0),), ((2, 0, 3, 1),), ((0, 2, 1, 3),), ((1, 3, 0, 2),),
                     ((3, 0, 1, 2),), ((0, 3, 2, 1),), ((2, 1, 0, 3),), ((3, 2, 0, 1),), ((1, 0, 3, 2),), ((0, 2, 3, 1),)]


def _churn_line(a):
    """the `av` lines evaluated after histories of short-lived class objects (a deterministic fifth); run() moves them
    into the LAST stream: those histories reset the library's instance cache, the other lines must keep accumulating
    class objects undisturbed"""
    return used.sel("av", list(a), 5)


def _churn_av(classes):
    """short-lived class objects: created, asked the verdict, dropped (instance cache reset, garbage collected)"""
    used.churn(lambda b: Av([Perm(p) for p in b]), [lambda c: c.has_finitely_many_simples()], classes, Av.clear_cache)


# classes of very short elements: the strategy's verdict is True and its automaton is tiny
_TINY_CLASSES = [((0, 1),), ((1, 0),), ((0, 1), (1, 0)), ((0,),), ((0, 1), (1, 0, 2)), ((1, 0), (0, 1))]


def _churn_strat(classes):
    used.churn(lambda b: Strat([Perm(p) for p in b]), [lambda t: t.applies()], classes)


def _long(a0):
    return any(len(p) >= 9 for p in pseqs(a0))


def pb(s):
    return s == "T"


# ----------------------------------------------------------------------------- implementation
def impl(op, a):
    if op == "alt":
        return guarded(lambda: fbool(PinWords.has_finite_alternations(basis_of(a[0]))))
    if op == "w1":
        return guarded(lambda: fbool(PinWords.has_finite_wedges_type_1(basis_of(a[0]))))
    if op == "w2":
        return guarded(lambda: fbool(PinWords.has_finite_wedges_type_2(basis_of(a[0]))))
    if op == "special":
        return guarded(lambda: fbool(PinWords.has_finite_special_simples(basis_of(a[0]))))
    if op == "hfs":
        def f():
            b = basis_of(a[0])
            u, c, d = pb(a[1]), pb(a[2]), pb(a[3])
            dfa = PinWords.make_dfa_for_basis(b, use_db=u) if d else None
            fn = lambda l: fbool(PinWords.has_finite_simples(l, use_db=u, check_all=c, dfa=dfa))    # noqa: E731
            if b and not d and used.sel(op, a, 4):
                # argument aliasing: the list handed over held only the first element in an earlier call
                return used.grown_list(fn, b, first=(b[:1] if len(b) > 1 else []))
            return fn(b)
        return guarded(lambda: _limited(f)) if _long(a[0]) else guarded(f)
    if op == "av":
        def f():
            make = lambda: fbool(Av(basis_of(a[0])).has_finitely_many_simples())        # noqa: E731
            if not _churn_line(a):
                return make()
            # the verdict after two different histories of short-lived class objects (finite classes: verdict True /
            # principal classes with infinitely many simples: verdict False; dropped and collected): a class object
            # at a recycled address must not inherit anything
            return used.after_histories(make, [lambda: _churn_av(_FINITE_CLASSES), lambda: _churn_av(_INFINITE_CLASSES)])
        return guarded(lambda: _limited(f)) if _long(a[0]) else guarded(f)
    if op == "strat":
        def f():
            make = lambda: fbool(Strat(basis_of(a[0])).applies())       # noqa: E731
            if not used.sel(op, a, 5):
                return make()
            return used.after_histories(make, [lambda: _churn_strat(_TINY_CLASSES), lambda: _churn_strat(_INFINITE_CLASSES)])
        return guarded(lambda: _limited(f)) if _long(a[0]) else guarded(f)
    if op == "cli":
        def f():
            buf = io.StringIO()
            with contextlib.redirect_stdout(buf):
                cli_fn(argparse.Namespace(basis=a[0]))
            return buf.getvalue().rstrip("\n")
        return guarded(f)
    if op == "basis":
        return guarded(lambda: fseqs(Basis(*basis_of(a[0]))))
    if op == "symsets":
        def f():
            from permuta.permutils.symmetry import all_symmetry_sets
            return "|".join(sorted(set(fseqs(sorted(s)) for s in all_symmetry_sets(basis_of(a[0])))))
        return guarded(f)
    raise ValueError("unknown op " + op)


# ----------------------------------------------------------------------------- oracle
def std(v):
    s = sorted(v)
    return tuple(s.index(x) for x in v)


def inv(p):
    r = [0] * len(p)
    for i, v in enumerate(p):
        r[v] = i
    return tuple(r)


def rev(p):
    return tuple(reversed(p))


def comp(p):
    n = len(p)
    return tuple(n - 1 - v for v in p)


D8 = [lambda p: p, rev, comp, lambda p: rev(comp(p)), inv, lambda p: rev(inv(p)), lambda p: comp(inv(p)),
      lambda p: rev(comp(inv(p)))]


def par_alt(m):
    """parallel alternation 2 4 .. 2m 1 3 .. 2m-1"""
    return tuple(list(range(1, 2 * m, 2)) + list(range(0, 2 * m, 2)))


def _wedge(m):
    out = []
    for i in range(m):
        out.append(m - 1 - i)
        out.append(m + i)
    return out                      # wedge alternation  m, m+1, m-1, m+2, ..., 1, 2m  (apex on the left)


def wedge_a(m):
    """wedge alternation plus one point in the mouth: far right, value between the two arms"""
    w = _wedge(m)
    return std([2 * x for x in w] + [2 * (m - 1) + 1])


def wedge_b(m):
    """wedge alternation plus one point beside the apex: just after the apex entry, above everything"""
    w = _wedge(m)
    return std([w[0], 10 ** 6] + w[1:])


FAMILIES = (("alt", par_alt), ("w1", wedge_a), ("w2", wedge_b))


@lru_cache(maxsize=None)
def family_patterns(name, k):
    """for the family's member with k+2 pairs (every pattern of length <= k occurring in any member occurs in it)
    and each of its eight orientations: the set of patterns of length <= k it contains"""
    fam = dict(FAMILIES)[name]
    mem = fam(k + 2)
    assert pinlib.is_simple(mem) and pinlib.contains(fam(k + 3), mem)
    out = []
    for g in sorted(set(f(mem) for f in D8)):
        pats = set()
        for r in range(0, k + 1):
            for c in itertools.combinations(range(len(g)), r):
                pats.add(std([g[i] for i in c]))
        out.append(frozenset(pats))
    return out


ORACLE_LONG = 40


def family_finite(name, bs):
    """no orientation of the family avoids the basis"""
    k = max([len(b) for b in bs] + [1])
    if k > 6:
        return family_finite_long(name, bs)
    return all(any(tuple(b) in pats for b in bs) for pats in family_patterns(name, k))


def family_finite_long(name, bs):
    """the same for LONG basis elements (the pattern sets above grow exponentially): an element b occurs in some
    member of the family iff it occurs in the member with |b|+2 pairs (the fact family_patterns is built on), decided
    by the backtracking containment pinlib.contains_long; agrees with the table-based reading on short elements
    (self-test at the start of run())"""
    fam = dict(FAMILIES)[name]
    bs = [tuple(b) for b in bs]
    unknown = False
    for g in D8:
        hit = False
        undecided = False
        for b in sorted(bs, key=len):
            try:
                if pinlib.contains_long(g(fam(len(b) + 2)), b):
                    hit = True
                    break
            except pinlib.Undecided:
                undecided = True
        if not hit:
            if not undecided:
                return False
            unknown = True
    if unknown:
        raise pinlib.Undecided()        # (the bounded search could not settle some orientation: the oracle is silent)
    return True


def special_oracle(bs):
    return all(family_finite(n, bs) for n, _ in FAMILIES)


def minimal_basis(bs):
    bs = sorted(set(tuple(b) for b in bs), key=lambda p: (len(p), p))
    out = []
    for b in bs:
        if not any(pinlib.contains(b, c) for c in out):
            out.append(b)
    return tuple(out)


def class_key(bs):
    m = minimal_basis(bs)
    return min(tuple(sorted((g(b) for b in m), key=lambda p: (len(p), p))) for g in D8)


LEVEL_CAP = 4000
MAXLEN = 9


@lru_cache(maxsize=512)
def simple_counts(key):
    """number of simple permutations of Av(key) of each length 4..n (n <= MAXLEN, levels capped)"""
    bs = list(key)
    k = max(len(b) for b in bs)
    level = {()}
    counts = {}
    for n in range(1, MAXLEN + 1):
        new = set()
        if n <= k:
            for p in itertools.permutations(range(n)):
                if not any(pinlib.contains(p, b) for b in bs):
                    new.add(p)
        else:
            for q in level:
                for i in range(n):
                    p = q[:i] + (n - 1,) + q[i:]
                    ok = True
                    for j in range(n):
                        v = p[j]
                        d = tuple(x - 1 if x > v else x for x in p[:j] + p[j + 1:])
                        if d not in level:
                            ok = False
                            break
                    if ok:
                        new.add(p)
        level = new
        if n >= 4:
            counts[n] = sum(1 for p in level if pinlib.is_simple(p))
        if not level:
            # the class has no permutation of this length, hence none longer
            for k in range(max(n, 4), MAXLEN + 1):
                counts.setdefault(k, 0)
            break
        if len(level) > LEVEL_CAP:
            break
    return counts


def verdict_oracle(bs):
    """'T' / 'F' when the class decides it unambiguously, else None (see ASSUMPTIONS)"""
    if not bs or not all(sorted(b) == list(range(len(b))) for b in bs):
        return None
    if any(len(b) <= 2 for b in bs):
        # Av contains only monotone permutations (or nothing): no simple permutation beyond length 2
        return "T"
    mono = lambda b, up: all((x < y) == up for x, y in zip(b, b[1:]))       # noqa: E731
    if any(mono(b, True) for b in bs) and any(mono(b, False) for b in bs):
        # a class without long increasing and without long decreasing permutations is finite (Erdos-Szekeres)
        return "T"
    if any(len(b) > 8 for b in bs):
        # long elements: no enumeration; a class containing one of the explicit infinite families of simples has
        # infinitely many
        if max(len(b) for b in bs) > ORACLE_LONG:
            return None
        try:
            if not special_oracle([tuple(b) for b in bs]):
                return "F"
        except pinlib.Undecided:
            pass
        return None
    counts = simple_counts(class_key(bs))
    ns = sorted(counts)
    for n in ns:
        if n + 1 in counts and counts[n] == 0 and counts[n + 1] == 0:
            return "T"
    if not special_oracle(minimal_basis(bs)):
        return "F"
    return None


def oracle(op, a):
    if op in ("alt", "w1", "w2", "special"):
        bs = pseqs(a[0])
        if not all(sorted(b) == list(range(len(b))) for b in bs):
            return None
        if any(len(b) > ORACLE_LONG for b in bs):
            return None             # (containment in a member of length > 80 by backtracking: model comparison only)
        try:
            if op == "special":
                return fbool(special_oracle(bs))
            return fbool(family_finite(op, bs))
        except pinlib.Undecided:
            return None
    if op == "hfs" or op == "strat":
        return verdict_oracle(pseqs(a[0]))
    if op == "av":
        bs = pseqs(a[0])
        if not bs or any(len(b) == 0 for b in bs):
            return "ERR:ValueError"
        return verdict_oracle(bs)
    if op == "cli":
        import re
        groups = re.findall(r"[0-9]+", a[0])
        if not groups:
            return "ERR:ValueError"
        bs = []
        for g in groups:
            order = sorted(range(len(g)), key=lambda i: (g[i], i))
            p = [0] * len(g)
            for r, i in enumerate(order):
                p[i] = r
            bs.append(tuple(p))
        v = verdict_oracle(bs)
        if v is None or any(len(b) > 10 for b in bs):
            return None
        name = "Av(%s)" % ",".join("".join(str(x) for x in b) for b in minimal_basis(bs))
        return ("The class %s has finitely many simples." if v == "T" else "The class %s has infinitely many simples") % name
    return None


def nontrivial(op, a, out):
    if op == "cli":
        return any(ch.isdigit() for ch in a[0]) and len(a[0]) >= 3
    if a[0] in ("-", "_"):
        return False
    return any(len(b) >= 3 for b in pseqs(a[0]))


# ----------------------------------------------------------------------------- translator self-check
def translator_selfcheck():
    import os
    import sys
    sys.path.insert(0, os.path.join(core.VERIF, "tools"))
    import importlib
    ti = importlib.import_module("translate_c15")
    from permuta.permutils.pin_words import PinWords as PW
    text = "\n".join(ti.c16_special_tables(core.REPO))
    for fn, lean in ((PW.has_finite_alternations, "c16_altBasis"), (PW.has_finite_wedges_type_1, "c16_wedge1"),
                     (PW.has_finite_wedges_type_2, "c16_wedge2")):
        live = [c for c in fn.__code__.co_consts if isinstance(c, tuple) and all(isinstance(x, int) for x in c)]
        want = "def %s : List (List Nat) := [%s]" % (lean, ", ".join("[%s]" % ", ".join(str(v) for v in p) for p in live))
        if want not in text:
            return "%s differs from the constants of the live function" % lean
    return c15.translator_selfcheck()


# ----------------------------------------------------------------------------- generation
def perms(n):
    return itertools.permutations(range(n))


def one_based(p):
    return "".join(str(v + 1) for v in p)


def _selftest():
    """the long-element readings of the oracle against the table-based / index-subset ones on short inputs"""
    for n in range(6):
        for sg in itertools.permutations(range(n)):
            for k in range(4):
                for pi in itertools.permutations(range(k)):
                    if pinlib.contains_long(sg, pi) != pinlib.contains(sg, pi):
                        raise AssertionError("oracle self-test: contains_long differs on %r %r" % (sg, pi))
    for n in (3, 4, 5):
        for b in itertools.permutations(range(n)):
            for name, _ in FAMILIES:
                for extra in ((), ((0, 1, 2),), ((2, 1, 0), (1, 3, 0, 2))):
                    bs = [b] + list(extra)
                    if family_finite_long(name, bs) != all(any(tuple(x) in pats for x in bs)
                                                          for pats in family_patterns(name, max(len(x) for x in bs))):
                        raise AssertionError("oracle self-test: family_finite_long differs on %s %r" % (name, bs))


def run(ctx):
    deferred = []
    orig = ctx.compare

    def compare(stream, lines, **kw):
        keep = []
        for l in list(lines):
            t = l.split(" ")
            (deferred if t[0] == "av" and _churn_line(t[1:]) else keep).append(l)
        orig(stream, keep, **kw)
    ctx.compare = compare
    try:
        _run(ctx)
    finally:
        ctx.compare = orig
    ctx.compare("class-object-histories", deferred)


def _run(ctx):
    rng = ctx.rng
    quick = ctx.tier == "quick"
    _selftest()
    from permuta import Perm as P, Basis as Bs
    from permuta.permutils import is_polynomial

    def poly(bs):
        if not bs or any(len(b) == 0 for b in bs):
            return "F"
        return fbool(is_polynomial(Bs(*[P(b) for b in bs])))
    small = [p for n in range(1, 5) for p in perms(n)]
    singles = [(p,) for p in small]
    pairs = list(itertools.combinations(small, 2))
    triples = list(itertools.combinations(small, 3))
    ctx.exhaustive = True
    ctx.exhaustive_bound = ("special/alt/w1/w2: all bases of <= %s permutations of length <= 4%s; verdict entry points on "
                            "sampled classes" % ("2" if quick else "3", " and 1500 random triples" if quick else ""))
    # -- corpus: the six bases of the test-suite and boundary cases
    corpus = ["special -", "special _", "hfs - F F F", "hfs - F T F", "hfs _ F F F", "av - F", "av _ F", "av 0 F", "strat -",
              "strat 0", "hfs 0 F F F", "hfs 0,1 F F F", "hfs 0,1;1,0 F T T", "av 0,1;1,0 T", "cli x F", "cli 1 F",
              "cli 12_21 T", "cli 231_4321 F", "cli 0132:43210 F", "cli 1324_2413_3142 F", "cli 2413 F", "cli 11 F",
              "cli 2413_3142 F", "hfs 1,3,0,2;2,0,3,1 F F F", "hfs 1,3,0,2 F F F", "hfs 0,1,2 F F F", "hfs 0,1,2 F T F",
              "hfs 1,3,0,2;2,0,3,1 T T T", "basis 0,1,2,3;0,1;1,0,2", "basis 0,1;0,1", "basis _;0,1", "basis -",
              "symsets 0,1,2;1,3,0,2;2,3,0,1", "symsets 0", "symsets -",
              "av 0,2,1,3;1,3,0,2;2,0,3,1 F", "strat 1,3,0,2;2,0,3,1;1,3,0,2", "av 2,1,0;1,2,3,0 F"]
    ctx.compare("corpus", corpus)
    # -- the table tests on every small basis
    lines = []
    dom = singles + pairs + (rng.sample(triples, 1500) if quick else triples)
    for b in dom:
        fb = fseqs(b)
        for op in ("alt", "w1", "w2", "special"):
            lines.append("%s %s" % (op, fb))
    for _ in range(300 if quick else 3000):
        # longer elements
        b = tuple(tuple(rng.sample(range(n), n)) for n in [rng.randrange(3, 7) for _ in range(rng.randrange(1, 4))])
        lines.append("special " + fseqs(b))
        lines.append(rng.choice(["alt ", "w1 ", "w2 "]) + fseqs(b))
    for b in rng.sample(pairs, 40):
        lines.append("symsets " + fseqs(b))
        lines.append("basis " + fseqs(b + (b[0],)))
    table_lines = lines
    # -- verdicts: sampled classes, every entry point, orders, repetitions, redundant elements, symmetric images.
    #    Every class gets the five entry points; the five VARIANT groups (other flag combinations, reversed order,
    #    repeated element, redundant element, symmetric images) are all applied in the thorough tier, in the quick
    #    tier each class gets two of them in rotation (a flag combination with check_all=T - which always builds the
    #    automaton - on every other class only).
    classes = []
    classes += rng.sample(singles[9:], 6 if quick else 24)                   # single patterns of length 4
    classes += rng.sample(pairs, 36 if quick else 528)
    classes += rng.sample(triples, 28 if quick else 600)
    long5 = [tuple(rng.sample(range(5), 5)) for _ in range(40)]
    for _ in range(6 if quick else 60):
        classes.append((rng.choice(small[9:]), rng.choice(long5)))
    # known interesting classes: separable-like, the wedge/alternation tables themselves
    classes += [((1, 3, 0, 2), (2, 0, 3, 1)), ((0, 1, 2), (1, 3, 0, 2), (2, 3, 0, 1)), ((0, 1, 2), (2, 1, 0)),
                ((1, 3, 0, 2),), ((0, 2, 1, 3), (1, 3, 0, 2), (2, 0, 3, 1)), ((0, 1, 2, 3), (3, 2, 1, 0))]
    units = []
    flag_sets = ["F F F", "F T F", "T F F", "F F T", "T T F", "T T T", "F T T", "T F T"]
    light_flags = [fl for fl in flag_sets[1:] if fl.split(" ")[1] == "F"]
    heavy_flags = [fl for fl in flag_sets[1:] if fl.split(" ")[1] == "T"]
    for ci, b in enumerate(classes):
        b = tuple(b)
        u = []
        fb = fseqs(b)
        u.append("special " + fb)
        u.append("hfs %s F F F" % fb)
        u.append("av %s %s" % (fb, poly(b)))
        u.append("strat " + fb)
        u.append("cli %s %s" % ("_".join(one_based(p) for p in b), poly(b)))
        groups = set(range(5)) if not quick else {ci % 5, (ci + 2) % 5}
        if 0 in groups:
            if quick:
                u.append("hfs %s %s" % (fb, rng.choice(light_flags)))
                if ci % 2 == 0:
                    u.append("hfs %s %s" % (fb, rng.choice(heavy_flags)))
            else:
                for fl in rng.sample(flag_sets[1:], 2):
                    u.append("hfs %s %s" % (fb, fl))
        sh = list(b)
        rng.shuffle(sh)
        dup = sh + [rng.choice(sh)]
        if 1 in groups:
            u.append("hfs %s F F F" % fseqs(sh[::-1]))
        if 2 in groups:
            u.append("strat " + fseqs(dup))
            u.append("av %s %s" % (fseqs(dup), poly(dup)))
        # a redundant element: a one-point extension of a basis element (same class)
        x = rng.choice(b)
        if len(x) <= 5 and 3 in groups:
            i, v = rng.randrange(len(x) + 1), rng.randrange(len(x) + 1)
            ext = tuple(y + 1 if y >= v else y for y in x[:i]) + (v,) + tuple(y + 1 if y >= v else y for y in x[i:])
            red = list(b) + [ext]
            rng.shuffle(red)
            u.append("hfs %s F F F" % fseqs(red))
            u.append("av %s %s" % (fseqs(red), poly(red)))
        if 4 in groups:
            for g in rng.sample(D8[1:], 1 if quick else 2):
                img = tuple(g(p) for p in b)
                u.append("hfs %s F F F" % fseqs(img))
                u.append("av %s %s" % (fseqs(img), poly(img)))
        units.append(u)
    # all eight images, all flag combinations on a few classes
    for b in rng.sample(pairs, 2 if quick else 30) + rng.sample(triples, 2 if quick else 30):
        u = []
        for g in D8:
            img = tuple(g(p) for p in b)
            u.append("hfs %s F T F" % fseqs(img))
            u.append("special " + fseqs(img))
        for fl in flag_sets:
            u.append("hfs %s %s" % (fseqs(b), fl))
        for perm_order in itertools.permutations(b):
            u.append("hfs %s F F F" % fseqs(perm_order))
        units.append(u)
    # -- sizes the streams above never reach.  (1) the table tests on bases with LONG elements (9-12, 21-40, a few
    #    64-70 for the model comparison): sub-patterns of family members (planted: every orientation is hit /
    #    all but one), long elements mixed with short ones, several long ones; (2) every entry point on classes whose
    #    verdict needs no automaton although an element is long (the special simples are infinite by construction, or the class is
    #    finite because it has a long increasing and a long decreasing element); (3) one unit that needs the automaton
    #    of elements of length 5 and 6, alone and next to short ones (the library's pin-word table of length 6 costs
    #    9 s per worker: one unit).
    def sub_of_member(name, orient, L):
        mem = D8[orient](dict(FAMILIES)[name](L + 2))
        idx = sorted(rng.sample(range(len(mem)), L))
        return std([mem[i] for i in idx])

    def rperm(n):
        return tuple(rng.sample(range(n), n))
    long_lines = []
    for lo, hi, cnt in ((9, 12, 70), (21, 40, 40), (64, 70, 8)) if quick else ((9, 12, 700), (21, 40, 400), (64, 70, 40)):
        for _ in range(cnt):
            name = rng.choice(["alt", "w1", "w2"])
            r = rng.random()
            if r < 0.45:
                # one element per orientation of the family (all eight hit) - or all but one
                b = [sub_of_member(name, o, rng.randrange(lo, hi + 1)) for o in range(8)]
                if rng.random() < 0.5:
                    b.pop(rng.randrange(len(b)))
                b = b[:rng.choice([8, 8, 4])] if hi > 60 else b
            elif r < 0.75:
                b = [sub_of_member(rng.choice(["alt", "w1", "w2"]), rng.randrange(8), rng.randrange(lo, hi + 1))
                     for _ in range(rng.randrange(1, 4))] + [rng.choice(small[3:]) for _ in range(rng.randrange(0, 3))]
            else:
                b = [rperm(rng.randrange(lo, hi + 1)) for _ in range(rng.randrange(1, 3))] + [rng.choice(small[9:])]
            rng.shuffle(b)
            fb = fseqs(b)
            long_lines.append("%s %s" % (name, fb))
            long_lines.append("special " + fb)
            if rng.random() < 0.5:
                # every entry point, on a basis whose verdict needs no automaton BY CONSTRUCTION: all its elements
                # contain 210 (resp. all contain 012), so the parallel alternations of one orientation - unions of two
                # increasing (decreasing) sequences - avoid the basis: infinitely many simples
                up = rng.random() < 0.5
                c = [x for x in b if (pinlib._lis(x) if up else pinlib._lis([-v for v in x])) >= 3]
                if c and any(len(x) >= 9 for x in c):
                    fc = fseqs(c)
                    long_lines.append("hfs %s F F F" % fc)
                    long_lines.append("strat " + fc)
                    if hi <= 12:
                        long_lines.append("av %s %s" % (fc, poly(c)))
            if hi <= 40 and rng.random() < 0.3:
                n1, n2 = rng.randrange(lo, hi + 1), rng.randrange(lo, hi + 1)
                fin = [tuple(range(n1)), tuple(range(n2 - 1, -1, -1)), rng.choice(small[9:])]
                rng.shuffle(fin)
                long_lines.append("av %s T" % fseqs(fin))
    units += [[l] for l in long_lines]
    mixed = []
    m5, m6 = rperm(5), rperm(6)
    for j, b in enumerate([((0, 1, 2), tuple(range(5, -1, -1))), ((2, 1, 0), tuple(range(6))), ((1, 3, 0, 2), (2, 0, 3, 1), m6),
                           (m5, inv(m5), rev(m5), comp(m5)),
                           # a short element next to a long one that is NOT a pin permutation (no pin word at all; the
                           # shortest such permutations have length 6): only the short element feeds the automaton
                           ((0, 2, 1), (3, 4, 5, 0, 1, 2)), ((2, 1, 0, 5, 4, 3), (1, 2, 0))] +
                          ([] if quick else [(m6, inv(m6), rev(m6), comp(m6)), (tuple(range(5)), tuple(range(5, -1, -1)))])):
        mixed.append("hfs %s F F F" % fseqs(b))
        mixed.append("strat " + fseqs(b))
        if j < 2 or not quick:
            mixed.append("hfs %s F T F" % fseqs(b[::-1]))
    units.append(mixed)
    ctx.extra["long_element_lines"] = len(long_lines) + len(mixed)
    units += [[l] for l in table_lines]
    rng.shuffle(units)
    lines = []
    seen = set()
    for u in units:
        for l in u:
            if l not in seen:
                seen.add(l)
                lines.append(l)
    ctx.extra["classes_sampled"] = len(classes)
    ctx.extra["table_lines"] = len(table_lines)
    ctx.compare("tables-and-verdicts", lines)
    # -- malformed
    ctx.compare("malformed", ["special 2,1,3", "hfs 2,1,3 F F F", "alt 0,0", "strat 0,0", "cli ___ F",
                              "cli 1a2b3 F", "cli 00 F", "av _;0,1 F", "av 0,1;_ F", "hfs _;0,1,2 F F F", "basis 2,1,3;0"])
