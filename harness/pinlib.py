"""Independent helpers shared by harness/c15.py and harness/c16.py (no use of permuta here):
geometric pin-word decoding, brute-force containment, simple permutations, canonical DFAs."""
import itertools
from functools import lru_cache

DIRS = "ULDR"
QUADS = "1234"
VERT = "UD"


# ----------------------------------------------------------------------------- words
def trie_words(d, x=""):
    """x and all its extensions by at most d letters, preorder, letters in the order of DIRS"""
    out = []

    def go(w, k):
        out.append(w)
        if k:
            for c in DIRS:
                go(w + c, k - 1)
    go(x, d)
    return out


def in_m(w):
    """pin-sequence language: letters of DIRS, no two consecutive letters on the same axis"""
    return all(c in DIRS for c in w) and all((w[i] in VERT) != (w[i + 1] in VERT) for i in range(len(w) - 1))


@lru_cache(maxsize=None)
def _m_words(maxlen, minlen):
    out = []

    def go(w, k):
        if len(w) >= minlen:
            out.append(w)
        if k:
            for c in DIRS:
                if not w or (w[-1] in VERT) != (c in VERT):
                    go(w + c, k - 1)
    go("", maxlen)
    return tuple(out)


def m_words(maxlen, minlen=2):
    """words of the pin-sequence language with minlen <= length <= maxlen, in trie preorder"""
    return list(_m_words(maxlen, minlen))


def bits_to_str(bits):
    bits = list(bits)
    out = []
    for i in range(0, len(bits), 4):
        ch = bits[i:i + 4]
        ch = ch + [False] * (4 - len(ch))
        out.append("%x" % (8 * ch[0] + 4 * ch[1] + 2 * ch[2] + ch[3]))
    return "%d:%s" % (len(bits), "".join(out))


# ----------------------------------------------------------------------------- geometry
def decode_pinword(word):
    """Permutation of the points p1..pk of the pin sequence described by `word` (p0 = origin):
    a numeral q puts an independent pin outside the bounding box of all earlier points in
    quadrant q; a direction puts a separating pin beyond the bounding box on that side whose
    other coordinate lies strictly between the last point and all the earlier ones.
    Points are kept as two order lists (by x, by y); returns None if some pin cannot be placed."""
    xs = [0]
    ys = [0]
    k = 0
    for ch in word:
        nid = k + 1
        if ch in QUADS:
            right = ch in "14"
            up = ch in "12"
            xs.insert(len(xs) if right else 0, nid)
            ys.insert(len(ys) if up else 0, nid)
        elif ch in DIRS:
            if k == 0:
                return None
            if ch in VERT:
                i = xs.index(k)
                if i == len(xs) - 1:
                    xs.insert(i, nid)
                elif i == 0:
                    xs.insert(1, nid)
                else:
                    return None
                ys.insert(len(ys) if ch == "U" else 0, nid)
            else:
                i = ys.index(k)
                if i == len(ys) - 1:
                    ys.insert(i, nid)
                elif i == 0:
                    ys.insert(1, nid)
                else:
                    return None
                xs.insert(len(xs) if ch == "R" else 0, nid)
        else:
            return None
        k = nid
    xs.remove(0)
    ys.remove(0)
    rank = {p: i for i, p in enumerate(ys)}
    return tuple(rank[p] for p in xs)


def pin_language(n):
    """pin words of length n: first letter a numeral, a direction never follows a letter of the
    same axis"""
    if n == 0:
        return [""]
    out = []
    for w in pin_language(n - 1):
        for c in QUADS + DIRS:
            if c in DIRS:
                if not w:
                    continue
                if w[-1] in DIRS and (w[-1] in VERT) == (c in VERT):
                    continue
            out.append(w + c)
    return out


def is_pin_word(u):
    """membership in the pin-word language described at `pin_language`"""
    for i, c in enumerate(u):
        if c in QUADS:
            continue
        if c not in DIRS or i == 0:
            return False
        if u[i - 1] in DIRS and (u[i - 1] in VERT) == (c in VERT):
            return False
    return True


@lru_cache(maxsize=None)
def pinword_table(n):
    t = {}
    for w in pin_language(n):
        p = decode_pinword(w)
        if p is not None:
            t.setdefault(p, []).append(w)
    return t


M_QUAD = {frozenset("RU"): "1", frozenset("LU"): "2", frozenset("LD"): "3", frozenset("RD"): "4"}


@lru_cache(maxsize=None)
def m_word_perm(w):
    """permutation encoded by a word of the pin-sequence language (|w| >= 2): its first two
    letters name the quadrant of p1, every further letter is a separating pin"""
    q = M_QUAD.get(frozenset(w[:2]))
    if q is None or len(w) < 2:
        return None
    return decode_pinword(q + w[2:])


# ----------------------------------------------------------------------------- patterns
@lru_cache(maxsize=200000)
def contains(sigma, pi):
    k = len(pi)
    if k > len(sigma):
        return False
    if len(sigma) > 12:
        return contains_long(sigma, pi, 10 ** 7)
    for c in itertools.combinations(range(len(sigma)), k):
        vals = [sigma[i] for i in c]
        if all((pi[a] < pi[b]) == (vals[a] < vals[b]) for a in range(k) for b in range(a + 1, k)):
            return True
    return False


class Undecided(Exception):
    """the bounded search of contains_long ran out of budget"""


def _lis(seq):
    import bisect
    tails = []
    for v in seq:
        i = bisect.bisect_left(tails, v)
        if i == len(tails):
            tails.append(v)
        else:
            tails[i] = v
    return len(tails)


def contains_long(sigma, pi, budget=60000):
    """containment for LONG permutations (the index-subset search above is hopeless beyond length ~12): the pattern's
    entries are placed from left to right, each new entry strictly right of the previous one with a value strictly
    between the values already given to its two neighbours in value among the earlier pattern entries; plain
    backtracking with the obvious room test, after the necessary condition that the pattern's longest increasing /
    decreasing subsequence is not longer than the text's; the search is bounded: `Undecided` is raised after `budget`
    placements.  Same relation as `contains` (checked against it on all pairs up to length 6 / 4 in c16.run's
    self-test)."""
    sigma, pi = tuple(sigma), tuple(pi)
    n, k = len(sigma), len(pi)
    if k > n:
        return False
    if k == 0:
        return True
    if _lis(pi) > _lis(sigma) or _lis([-v for v in pi]) > _lis([-v for v in sigma]):
        return False
    left = [budget]
    # for pattern index j: the earlier indices holding the closest smaller / larger pattern value
    lo, hi = [], []
    for j in range(k):
        below = [i for i in range(j) if pi[i] < pi[j]]
        above = [i for i in range(j) if pi[i] > pi[j]]
        lo.append(max(below, key=lambda i: pi[i]) if below else None)
        hi.append(min(above, key=lambda i: pi[i]) if above else None)
    val = [0] * k

    def go(j, start):
        if j == k:
            return True
        lo_v = val[lo[j]] if lo[j] is not None else -1
        hi_v = val[hi[j]] if hi[j] is not None else n
        # pattern values strictly below / above pi[j] still need room in value
        if hi_v - lo_v - 1 < 1:
            return False
        for pos in range(start, n - (k - j) + 1):
            v = sigma[pos]
            if lo_v < v < hi_v and v >= pi[j] and n - 1 - v >= k - 1 - pi[j]:
                left[0] -= 1
                if left[0] < 0:
                    raise Undecided()
                val[j] = v
                if go(j + 1, pos + 1):
                    return True
        return False
    return go(0, 0)


def contains_any(sigma, basis):
    return any(contains(tuple(sigma), tuple(b)) for b in basis)


def is_simple(p):
    """no proper interval: no block of 2 <= size < n consecutive positions with consecutive values"""
    n = len(p)
    for i in range(n):
        lo = hi = p[i]
        for j in range(i + 1, n):
            lo = min(lo, p[j])
            hi = max(hi, p[j])
            if hi - lo == j - i and (j - i + 1) < n:
                return False
    return True


def avoiding_m_word_counts(basis, maxlen):
    """number of words of the pin-sequence language of each length 2..maxlen whose permutation
    avoids the basis (prefix-closed, so only avoiding words are extended)"""
    basis = [tuple(b) for b in basis]
    cur = [w for w in m_words(2, 2) if not contains_any(m_word_perm(w), basis)]
    counts = {2: len(cur)}
    for n in range(3, maxlen + 1):
        nxt = []
        for w in cur:
            for c in DIRS:
                if (c in VERT) != (w[-1] in VERT):
                    v = w + c
                    if not contains_any(m_word_perm(v), basis):
                        nxt.append(v)
        cur = nxt
        counts[n] = len(cur)
        if not cur:
            break
    return counts


# ----------------------------------------------------------------------------- canonical DFA
def canonical_dfa(states, trans, init, finals):
    """canonical text of the minimal complete DFA equivalent to the given one (reachable part,
    Moore refinement, breadth-first numbering with letters in the order of DIRS):
    `size/acceptance bits/rows`"""
    reach = [init]
    seen = {init}
    i = 0
    while i < len(reach):
        q = reach[i]
        i += 1
        for c in DIRS:
            t = trans[q][c]
            if t not in seen:
                seen.add(t)
                reach.append(t)
    cls = {q: (1 if q in finals else 0) for q in reach}
    count = len(set(cls.values()))
    while True:
        sig = {}
        new = {}
        for q in reach:
            s = (cls[q],) + tuple(cls[trans[q][c]] for c in DIRS)
            if s not in sig:
                sig[s] = len(sig)
            new[q] = sig[s]
        cls = new
        if len(sig) == count:
            break
        count = len(sig)
    rep = {}
    for q in reach:
        rep.setdefault(cls[q], q)
    start = cls[init]
    num = {start: 0}
    order = [start]
    rows = []
    i = 0
    while i < len(order):
        c0 = order[i]
        i += 1
        row = []
        for c in DIRS:
            d = cls[trans[rep[c0]][c]]
            if d not in num:
                num[d] = len(order)
                order.append(d)
            row.append(num[d])
        rows.append(row)
    acc = "".join("1" if rep[c0] in finals else "0" for c0 in order)
    return "%d/%s/%s" % (len(order), acc, ";".join(",".join(str(x) for x in r) for r in rows))
