"""C08 - equality, hashing and ordering of permutations, patterns and bases are coherent
(perm.py 3018-3028, meshpatt.py 805-849, bivincularpatt.py 103-109, basis.py 38-42 / 93-97)."""
import gc
import itertools
import os
import subprocess
import sys

from core import fseq, fseqs, fcells, fbool, pseq, pseqs, pcells, guarded
import used

PROP = "C08"
RULE = ("objects are single tokens (P perm, M/B/V/C mesh-type pattern of that class, S Basis, T MeshBasis); "
        "exhaustive: every ordered pair of the pool (perms <=3, all meshes of length <=1, every bivincular/vincular/"
        "covincular object of length <=1, selected length-2 patterns, bases) under cmp/eqval/eqlaws/ordlaws/hashco/lookup, "
        "triples under trans; random: patterns up to length 6 with planted equal / one-cell-apart / prefix-shading partners; "
        "non-trivial = the two operands are of comparable kinds and not the identical token, or (hash ops) they are equal; "
        "distinct = distinct op lines")
ASSUMPTIONS = [
    "model/implementation agreement outside the enumerated and sampled inputs is assumed",
    "CPython's tuple/frozenset/int hashes are functions of the value (modelled as injective value keys)",
    "an identity-based hash would depend on the allocator state; the harness realises different allocator states by keeping "
    "objects of many size classes alive between two hash calls (this is what exposed hash(super()) before f15e7d9)",
    "list.sort is modelled for fewer than 64 elements (count_run + binary insertion), which fixes which comparisons are made",
]
PARTIAL = []
TRUSTED = ["pattern-against-basis comparisons (Perm vs Basis etc.) are outside the modelled universe"]

MESHK = "MBVC"


def worker_init():
    global Perm, MeshPatt, BivincularPatt, VincularPatt, CovincularPatt, Basis, MeshBasis
    from permuta import Perm, MeshPatt, BivincularPatt, VincularPatt, CovincularPatt
    from permuta.perm_sets.basis import Basis, MeshBasis


def translator_selfcheck():
    """the generated dunder table against the live classes: which class body defines which dunder, and the bases"""
    import ast
    import importlib.util
    import core
    spec = importlib.util.spec_from_file_location("translate_items_c08", os.path.join(core.VERIF, "tools", "translate_items.py"))
    ti = importlib.util.module_from_spec(spec)
    spec.loader.exec_module(ti)
    worker_init()
    live = {"Perm": Perm, "MeshPatt": MeshPatt, "BivincularPatt": BivincularPatt, "VincularPatt": VincularPatt,
            "CovincularPatt": CovincularPatt, "Basis": Basis, "MeshBasis": MeshBasis}
    names = {"__eq__", "__ne__", "__lt__", "__le__", "__gt__", "__ge__", "__hash__"}
    for cls, rel in ti._C08_CLASSES:
        try:
            node = ti._c08_classdef(core.REPO, cls, rel)
        except Exception as e:
            return "class %s not found by the translator: %s" % (cls, e)
        in_ast = {f.name for f in node.body if isinstance(f, ast.FunctionDef)} & names
        in_live = {n for n in names if n in vars(live[cls]) and vars(live[cls])[n] is not None}
        if in_ast != in_live:
            return "dunders of %s: source text %s, live class %s" % (cls, sorted(in_ast), sorted(in_live))
        bases = [b.__name__ for b in live[cls].__bases__]
        ast_bases = [ast.unparse(b).split("[")[0].replace("Tuple", "tuple") for b in node.bases]
        if [b for b in bases if b != "Generic"] != ast_bases:
            return "bases of %s: source text %s, live class %s" % (cls, ast_bases, bases)
    return None


# ----------------------------------------------------------------------------- objects
def build(tok):
    k, rest = tok[0], tok[1:]
    if k == "P":
        return Perm(pseq(rest))
    if k == "M":
        p, c = rest.split("/")
        return MeshPatt(Perm(pseq(p)), pcells(c))
    if k == "B":
        p, i, v = rest.split("/")
        return BivincularPatt(Perm(pseq(p)), pseq(i), pseq(v))
    if k == "V":
        p, i = rest.split("/")
        return VincularPatt(Perm(pseq(p)), pseq(i))
    if k == "C":
        p, v = rest.split("/")
        return CovincularPatt(Perm(pseq(p)), pseq(v))
    if k == "S":
        # the tuple object itself (C08 is about existing objects; construction is C05)
        return tuple.__new__(Basis, tuple(Perm(p) for p in pseqs(rest)))
    if k == "T":
        return tuple.__new__(MeshBasis, tuple(build(t) for t in rest.split("+")) if rest != "-" else ())
    raise ValueError("bad token " + tok)


def show(o):
    if isinstance(o, Perm):
        return "P" + fseq(o)
    if isinstance(o, MeshPatt):
        return "M%s/%s" % (fseq(o.pattern), fcells(o.shading))
    raise ValueError


def kind(tok):
    return "m" if tok[0] in MESHK else tok[0]


def supported(toks):
    ks = [kind(t) for t in toks]
    atoms = [k in "Pm" for k in ks]
    return all(atoms) or not any(atoms)


def value(tok):
    """the mathematical value a token denotes (independent of permuta): used by the oracle"""
    k, rest = tok[0], tok[1:]
    if k == "P":
        return ("P", pseq(rest))
    if k in MESHK:
        parts = rest.split("/")
        p = pseq(parts[0])
        n = len(p)
        if k == "M":
            cells = set(pcells(parts[1]))
        else:
            idx = pseq(parts[1]) if k in "BV" else ()
            vals = pseq(parts[2]) if k == "B" else (pseq(parts[1]) if k == "C" else ())
            cells = {(i, y) for i in idx for y in range(n + 1)} | {(x, v) for v in vals for x in range(n + 1)}
            if any(not 0 <= z <= n for z in tuple(idx) + tuple(vals)):
                return None
        if any(not (0 <= x <= n and 0 <= y <= n) for x, y in cells):
            return None
        return ("m", p, frozenset(cells))
    if k == "S":
        return ("S", tuple(pseqs(rest)))
    if k == "T":
        return ("T", tuple(value(t) for t in rest.split("+")) if rest != "-" else ())
    return None


# ----------------------------------------------------------------------------- allocation churn
class _S0:
    __slots__ = ()


class _S1:
    __slots__ = ("a",)


class _S2:
    __slots__ = ("a", "b")


class _S3:
    __slots__ = ("a", "b", "c")


class _S4:
    __slots__ = ("a", "b", "c", "d")


class _S6:
    __slots__ = ("a", "b", "c", "d", "e", "f")


class _S8:
    __slots__ = ("a", "b", "c", "d", "e", "f", "g", "h")


class _D:
    pass


_SLOTTED = (_S0, _S1, _S2, _S3, _S4, _S6, _S8, _D)


def churn(keep):
    """create objects of many size classes; keep some alive, drop the others"""
    d = _D()
    for cls in _SLOTTED:
        keep.append(cls())
        keep.append(cls())
    keep.append(super(_D, d))
    keep.append(d.__init__)
    keep.append([None] * (len(keep) % 7))
    keep.append({len(keep): None})
    keep.append(float(len(keep)) + 0.5)
    keep.append(10 ** 20 + len(keep))
    keep.append(object())
    tmp = [bytearray(k) for k in (1, 17, 33, 49, 65, 120, 250, 600)]
    tmp.append([cls() for cls in _SLOTTED])
    del tmp


def hashes_agree(a, b, trials=6):
    keep = []
    ok = True
    for t in range(trials):
        ha = hash(a)
        churn(keep)
        hb = hash(b)
        churn(keep)
        if t == 2:
            del keep[::2]
            gc.collect()
        ok = ok and ha == hb
    return ok


def hash_stable(a, rounds=50):
    keep = []
    first = hash(a)
    ok = True
    for t in range(rounds):
        churn(keep)
        if t % 16 == 7:
            del keep[::3]
            gc.collect()
        ok = ok and hash(a) == first
    return ok


def lookup_ok(a, b):
    """b is found in {a} and in {a: 1}, with other allocations going on in between"""
    keep = []
    ok = True
    for t in range(4):
        s = {a}
        d = {a: 1}
        churn(keep)
        ok = ok and (b in s)
        churn(keep)
        ok = ok and d.get(b) == 1
        churn(keep)
    return ok


# ----------------------------------------------------------------------------- implementation
def _r(f):
    return guarded(lambda: fbool(f()))


def _six(a, b):
    return [_r(lambda: a == b), _r(lambda: a != b), _r(lambda: a < b), _r(lambda: a <= b),
            _r(lambda: a > b), _r(lambda: a >= b)]


def _isb(s):
    return s in ("T", "F")


def impl_eqlaws(a, b):
    e1, e2, n1, n2 = _r(lambda: a == b), _r(lambda: b == a), _r(lambda: a != b), _r(lambda: b != a)
    if not all(map(_isb, (e1, e2, n1, n2))):
        return "raises"
    if e1 != e2:
        return "sym"
    if n1 == e1 or n2 == e2:
        return "ne"
    return "ok"


def impl_ordlaws(a, b):
    eq, _, lt, le, gt, ge = _six(a, b)
    lt2, le2 = _r(lambda: b < a), _r(lambda: b <= a)
    if not all(map(_isb, (lt, le, gt, ge, lt2, le2))):
        return "total"
    T = "T"
    if (lt == T) + (eq == T) + (gt == T) != 1:
        return "trich"
    if (le == T) != (lt == T or eq == T):
        return "le"
    if (ge == T) != (gt == T or eq == T):
        return "ge"
    if gt != lt2 or ge != le2:
        return "mirror"
    return "ok"


def impl_trans(a, b, c):
    l1, l2, l3 = _r(lambda: a < b), _r(lambda: b < c), _r(lambda: a < c)
    m1, m2, m3 = _r(lambda: a <= b), _r(lambda: b <= c), _r(lambda: a <= c)
    if not all(map(_isb, (l1, l2, l3, m1, m2, m3))):
        return "ERR:TypeError"
    if l1 == "T" and l2 == "T" and l3 != "T":
        return "trans"
    if m1 == "T" and m2 == "T" and m3 != "T":
        return "trans"
    if _r(lambda: a == b) == "T" and _r(lambda: b == c) == "T" and _r(lambda: a == c) != "T":
        return "trans"
    return "ok"


def impl_sortok(objs):
    s = sorted(objs)
    if len(s) != len(objs):
        return "F"
    rest = list(objs)
    for x in s:
        for i, y in enumerate(rest):
            if y is x:
                del rest[i]
                break
        else:
            return "F"
    return fbool(all(not (s[i + 1] < s[i]) for i in range(len(s) - 1)))


def _fresh(line):
    env = dict(os.environ)
    import core
    env["PERMUTA_REPO"] = core.REPO
    env["PYTHONHASHSEED"] = str(sum(map(ord, line)) % 1000 + 1)
    p = subprocess.run([sys.executable, os.path.abspath(__file__), "--eval", line], env=env,
                       stdout=subprocess.PIPE, stderr=subprocess.PIPE, timeout=120)
    if p.returncode != 0:
        raise RuntimeError("fresh interpreter failed: " + p.stderr.decode()[-500:])
    return p.stdout.decode().strip()


# ----------------------------------------------------------------------------- used objects
_CHEAP = ("cmp", "eqval", "eqlaws", "ordlaws", "trans", "sort", "sortok")


def warm_value(o):
    """use a value object before it is compared / hashed: hash it, compare it, print it, search with it
    (fills whatever an object memoises); equal objects must stay equal with equal hashes whether or not
    one of them has been used"""
    if isinstance(o, Perm):
        used.warm_perm(o, 1)
        used.quiet(o.inverse)
        used.quiet(lambda: o < Perm((0,)))
        used.quiet(repr, o)
    elif isinstance(o, MeshPatt):
        used.warm_mesh(o, 1)
        used.quiet(o.reverse)
        used.quiet(lambda: sorted([o, MeshPatt(Perm((0,)), [(0, 0)]), o]))
        used.quiet(lambda: o <= o)
        used.quiet(repr, o)
    else:       # Basis / MeshBasis tuples
        used.quiet(hash, o)
        used.quiet(lambda: o == tuple(o))
        used.quiet(lambda: [hash(x) for x in o])
        used.quiet(lambda: sorted(o))
        used.quiet(lambda: o < o)
    return o


def _ghost(tok):
    """before the operands of a hash line are built, a DIFFERENT nearby object of the same kind and size is built,
    hashed and dropped: a memo keyed by object identity would hand its hash to whatever is allocated at the freed
    address next (equal objects must hash equally whatever was allocated, and died, before them)"""
    try:
        o = build(tok)
        if isinstance(o, Perm):
            g = Perm(tuple(o)[::-1])
        elif isinstance(o, MeshPatt):
            g = MeshPatt(o.pattern, o.shading ^ {(0, 0)})
        else:
            g = tuple.__new__(type(o), tuple(o)[::-1])
        # a dozen of them, alive together: the blocks they free are handed out again to the next objects of
        # that size, some of them to the operands
        gs = [g] + [g.__class__(*a) for a in [(g.pattern, g.shading)] * 11] if isinstance(g, MeshPatt) else \
             [g] + [tuple.__new__(type(g), tuple(g)) for _ in range(11)]
        del o, g
        for x in gs:
            hash(x)
        del gs, x
    except Exception:  # pylint: disable=broad-except
        pass


def ubuild(i, tok):
    """the i-th operand of a line: operand 0 is a *used* object, the others are fresh"""
    return used.obj((i, tok), lambda: build(tok), warm_value if i == 0 and _HEAVY[0] else None)


_HEAVY = [False]


def impl(op, a):
    if op == "fresh":
        return _fresh(" ".join(a))
    if not supported(a):
        return "unsupported"
    used.begin()
    # a deterministic half of the lines (and every line with a big pattern) gets the used-object treatment
    _HEAVY[0] = used.sel(op, a, 2) or max([len(t) for t in a] + [0]) > 120
    if not _HEAVY[0]:
        return _impl(op, a)
    if op not in _CHEAP and a:
        _ghost(a[0])
    r1 = _impl(op, a)
    # the same line once more on the same (now used) objects; the allocation-heavy hash ops on a quarter of them
    if op not in _CHEAP and not used.sel(op, a, 8):
        return r1
    used.T.rewind()
    r2 = _impl(op, a)
    return r1 if r1 == r2 else used.unstable(r1, r2)


def _impl(op, a):
    def objs():
        return [ubuild(i, t) for i, t in enumerate(a)]
    if op == "cmp":
        return guarded(lambda: "|".join(_six(*objs())))
    if op == "eqval":
        return guarded(lambda: (lambda o: fbool(o[0] == o[1]))(objs()))
    if op == "eqlaws":
        return guarded(lambda: impl_eqlaws(*objs()))
    if op == "ordlaws":
        return guarded(lambda: impl_ordlaws(*objs()))
    if op == "trans":
        return guarded(lambda: impl_trans(*objs()))
    if op == "hashco":
        def f():
            x, y = objs()
            if not x == y:
                return "T"
            return fbool(hashes_agree(x, y))
        return guarded(f)
    if op == "hashstable":
        return guarded(lambda: fbool(hash_stable(objs()[0])))
    if op == "lookup":
        def g():
            x, y = objs()
            if not x == y:
                return "T"
            return fbool(lookup_ok(x, y))
        return guarded(g)
    if op == "lookupself":
        def h():
            x, = objs()
            return fbool(lookup_ok(x, x))
        return guarded(h)
    if op == "sort":
        return guarded(lambda: (lambda s: " ".join(show(x) for x in s) if s else "-")(sorted(objs())))
    if op == "sortok":
        return guarded(lambda: impl_sortok(objs()))
    raise ValueError("unknown op " + op)


# ----------------------------------------------------------------------------- oracle (property text)
def _permkey(p):
    return (len(p), tuple(p))


def oracle(op, a):
    if op == "fresh":
        return oracle(a[0], a[1:])
    if not supported(a):
        return "unsupported"
    vals = [value(t) for t in a]
    if any(v is None for v in vals):
        return None          # constructor arguments out of range: the property says nothing
    ks = [v[0] for v in vals]
    same_family = len(set(ks)) == 1
    if op == "cmp":
        if ks == ["P", "P"]:
            x, y = _permkey(vals[0][1]), _permkey(vals[1][1])
            return "|".join(fbool(b) for b in (x == y, x != y, x < y, x <= y, x > y, x >= y))
        return None
    if op == "eqval":
        # same kind of thing with the same value are equal - whatever the subclass
        if same_family:
            return fbool(vals[0] == vals[1])
        return None
    if op == "eqlaws":
        return "ok"
    if op in ("ordlaws", "trans"):
        # total order demanded for permutations, for every pair of mesh-type patterns, and (induced) for bases of perms
        if same_family and ks[0] in "PmS":
            return "ok"
        return None
    if op in ("hashco", "hashstable", "lookup", "lookupself"):
        return "T"
    if op == "sort":
        if set(ks) == {"P"}:
            s = sorted((v[1] for v in vals), key=_permkey)
            return " ".join("P" + fseq(p) for p in s) if s else "-"
        return None
    if op == "sortok":
        if same_family and ks[0] in "Pm":
            return "T"
        return None
    return None


def nontrivial(op, a, out):
    if op == "fresh":
        return nontrivial(a[0], a[1:], out)
    if not supported(a) or out.startswith("ERR:Assertion"):
        return False
    if op in ("hashco", "lookup"):
        v = [value(t) for t in a]
        return v[0] is not None and v[0] == v[1]
    if op in ("hashstable", "lookupself"):
        return True
    if op in ("sort", "sortok"):
        return len(set(a)) >= 2
    return len(set(a)) == len(a)


# ----------------------------------------------------------------------------- generators
def perms(n):
    return itertools.permutations(range(n))


def subsets(xs):
    xs = list(xs)
    for r in range(len(xs) + 1):
        yield from itertools.combinations(xs, r)


def mtok(p, cells):
    return "M%s/%s" % (fseq(p), fcells(cells))


def btok(p, idx, vals):
    return "B%s/%s/%s" % (fseq(p), fseq(idx), fseq(vals))


def vtok(p, idx):
    return "V%s/%s" % (fseq(p), fseq(idx))


def ctok(p, vals):
    return "C%s/%s" % (fseq(p), fseq(vals))


def pool(tier):
    P = ["P" + fseq(p) for n in range(4) for p in perms(n)]
    M = [mtok((), c) for c in subsets([(0, 0)])]
    M += [mtok((0,), c) for c in subsets([(0, 0), (0, 1), (1, 0), (1, 1)])]
    B = [btok((), i, v) for i in subsets([0]) for v in subsets([0])]
    B += [btok((0,), i, v) for i in subsets([0, 1]) for v in subsets([0, 1])]
    V = [vtok((), i) for i in subsets([0])] + [vtok((0,), i) for i in subsets([0, 1])]
    C = [ctok((), v) for v in subsets([0])] + [ctok((0,), v) for v in subsets([0, 1])]
    L2 = [mtok((0, 1), []), mtok((0, 1), [(1, 1)]), mtok((0, 1), [(0, 0), (1, 1)]), mtok((1, 0), [(0, 0)]),
          mtok((0, 1), [(1, 0), (1, 1), (1, 2)]), btok((0, 1), [1], []), vtok((0, 1), [1]), ctok((0, 1), [1]),
          mtok((0, 1), [(0, 1), (1, 1), (2, 1)]), vtok((1, 0), [0, 2]), btok((0, 1), [], []), vtok((0, 1), []),
          ctok((0, 1), []), mtok((1, 0), [(2, 2)])]
    S = ["S-", "S_", "S0", "S0,1", "S1,0", "S0,1;1,0", "S0,1,2", "S0,1;2,1,0", "S0,2,1;1,2,0", "S0,1,2;0,2,1"]
    T = ["T-", "TM_/_", "TM0/_", "TV0/1", "TM0/0.1,1.1", "TM0,1/1.1", "TM0,1/_", "TV0,1/1", "TB0,1/1/_",
         "TM0,1/1.0,1.1,1.2", "TM0/0.0+M0/1.1", "TV0/0+C0/1", "TM0,1/_+M1,0/_", "TB0,1/_/_+M1,0/_"]
    return P, M + B + V + C + L2, S + T


def rand_perm(rng, n):
    l = list(range(n))
    rng.shuffle(l)
    return tuple(l)


def rand_mesh_tok(rng, p=None):
    n = len(p) if p is not None else rng.randrange(0, 6)
    p = p if p is not None else rand_perm(rng, n)
    k = rng.choice("MMBVC")
    if k == "M":
        cells = [(x, y) for x in range(n + 1) for y in range(n + 1) if rng.random() < rng.choice((0.1, 0.3, 0.6))]
        return mtok(p, cells)
    idx = [i for i in range(n + 1) if rng.random() < 0.35]
    vals = [i for i in range(n + 1) if rng.random() < 0.35]
    if k == "B":
        return btok(p, idx, vals)
    if k == "V":
        return vtok(p, idx)
    return ctok(p, vals)


def partner(rng, tok):
    """a token related to `tok`: same value in another class, one cell apart, shading prefix, neighbouring perm"""
    v = value(tok)
    if v[0] == "P":
        p = list(v[1])
        mode = rng.randrange(4)
        if mode == 0 or len(p) < 2:
            return "P" + fseq(p)
        if mode == 1:
            p[-1], p[-2] = p[-2], p[-1]
            return "P" + fseq(p)
        if mode == 2:
            return "P" + fseq(rand_perm(rng, len(p) + rng.choice((-1, 1))))
        return mtok(p, [])
    _, p, cells = v
    n = len(p)
    mode = rng.randrange(6)
    cells = sorted(cells)
    if mode == 0:
        return mtok(p, cells)
    if mode == 1 and cells:
        return mtok(p, cells[:rng.randrange(len(cells))])
    if mode == 2:
        c = (rng.randrange(n + 1), rng.randrange(n + 1))
        s = set(cells) ^ {c}
        return mtok(p, s)
    # the same shading as a bivincular-type object when it has that shape
    cols = [i for i in range(n + 1) if all((i, y) in cells for y in range(n + 1))]
    rows = [j for j in range(n + 1) if all((x, j) in cells for x in range(n + 1))]
    full = {(i, y) for i in cols for y in range(n + 1)} | {(x, j) for j in rows for x in range(n + 1)}
    if full == set(cells):
        if not rows and mode == 3:
            return vtok(p, cols)
        if not cols and mode == 3:
            return ctok(p, rows)
        return btok(p, cols, rows)
    if mode == 5 and n >= 2:
        q = list(p)
        q[0], q[1] = q[1], q[0]
        return mtok(q, cells)
    return rand_mesh_tok(rng, p)


def run(ctx):
    rng = ctx.rng
    quick = ctx.tier == "quick"
    P, M, BS = pool(ctx.tier)
    atoms = P + M
    ctx.exhaustive = True
    ctx.exhaustive_bound = ("pool of %d objects (%d perms |p|<=3, %d mesh-type objects: all MeshPatt/Bivincular/Vincular/"
                            "Covincular of length <=1 + 14 of length 2, %d bases): every ordered pair of patterns and every "
                            "ordered pair of bases; every triple of perms; %s triples of mesh-type objects"
                            % (len(atoms) + len(BS), len(P), len(M), len(BS), "sampled" if quick else "all"))
    ctx.compare("corpus", [
        "cmp M0,1/1.0,1.1,1.2 B0,1/1/_", "cmp B0,1/1/_ M0,1/1.0,1.1,1.2", "cmp V0,1/1 C0,1/1", "cmp P0,1 M0,1/_",
        "cmp P0,1 P1,0", "cmp P_ P0", "cmp P1,0 P0,1,2", "cmp S- T-", "cmp S0,1 S0,1;1,0", "eqval B0,1/1/_ V0,1/1",
        "sort P1,0 P0 P0,1 P_ P0,1,2 P0", "sort M0,1/_ B0,1/1/_", "sort B0,1/1/_ M0,1/_", "sortok M0/0.0 M0/_ M_/_ M0/0.1",
        "hashstable P0,1,2", "hashstable M0,1/1.1", "hashstable S0,1;1,0", "lookup M0/_ M0/_", "lookup P0,1 P0,1",
        "lookup S0,1 S0,1", "lookup TM0/_ TM0/_", "lookupself M0/0.0", "lookupself P0",
        # regression lines of repaired defects (f15e7d9 hash, ac444da order guard, 69aebb7 __ne__)
        "hashco B0,1/1/_ M0,1/1.0,1.1,1.2", "hashstable V0,1/1", "lookup M0,1/1.0,1.1,1.2 B0,1/1/_", "lookupself C0/0",
        "hashco V0,1/1 V0,1/1", "hashstable TV0/1", "lookup TV0,1/1 TV0,1/1", "ordlaws V0,1/1 M0,1/_", "ordlaws V0,1/1 C0,1/1",
        "ordlaws M_/_ B_/_/_", "sortok M0,1/_ B0,1/1/_", "sortok C0/0 M0/_", "trans B0/1/0 B0/1/0 M0/0.0,1.0",
        "eqlaws S- T-", "eqlaws T- S-", "cmp S- T-",
    ])
    lines = []
    for group in (atoms, BS):
        for x in group:
            for y in group:
                for op in ("cmp", "eqval", "eqlaws", "ordlaws", "hashco", "lookup"):
                    lines.append("%s %s %s" % (op, x, y))
    ctx.compare("exhaustive-pairs", lines)
    lines = ["hashstable " + x for x in atoms + BS] + ["lookupself " + x for x in atoms + BS]
    ctx.compare("hash-stability", lines)
    # triples
    lines = ["trans %s %s %s" % t for t in itertools.product(P, repeat=3)]
    lines += ["trans %s %s %s" % t for t in itertools.product([b for b in BS if b[0] == "S"], repeat=3)]
    if quick:
        sub = rng.sample(M, 22)
        lines += ["trans %s %s %s" % t for t in itertools.product(sub, repeat=3)]
        lines += ["trans %s %s %s" % tuple(rng.choice(M) for _ in range(3)) for _ in range(20000)]
    else:
        lines += ["trans %s %s %s" % t for t in itertools.product(M, repeat=3)]
    ctx.compare("triples", lines)
    # sorting: all short lists over small sub-pools, in every order
    lines = []
    for k in range(0, 4):
        for t in itertools.product(P[:5], repeat=k):
            lines.append(("sort " + " ".join(t)).strip())
    msub = [mtok((), []), mtok((0,), []), mtok((0,), [(0, 0)]), mtok((0,), [(0, 0), (1, 1)]), mtok((0,), [(1, 1)]),
            vtok((0,), [0]), ctok((0,), [0]), btok((0,), [0], []), mtok((0, 1), [(1, 1)]), vtok((0, 1), [1])]
    for k in range(1, 4):
        for t in itertools.product(msub, repeat=k):
            lines.append("sort " + " ".join(t))
            lines.append("sortok " + " ".join(t))
    ctx.compare("exhaustive-sort", lines)
    # random large
    R = 6000 if quick else 60000
    lines = []
    for _ in range(R):
        r = rng.random()
        if r < 0.3:
            x = "P" + fseq(rand_perm(rng, rng.randrange(0, 9)))
        else:
            x = rand_mesh_tok(rng)
        y = partner(rng, x)
        if rng.random() < 0.5:
            x, y = y, x
        r = rng.random()
        if r < 0.6:
            for op in ("cmp", "eqval", "eqlaws", "ordlaws", "hashco", "lookup"):
                lines.append("%s %s %s" % (op, x, y))
        elif r < 0.8:
            z = partner(rng, rng.choice((x, y)))
            lines.append("trans %s %s %s" % (x, y, z))
            lines.append("trans %s %s %s" % (z, x, y))
        else:
            zs = [x, y] + [partner(rng, rng.choice((x, y))) for _ in range(rng.randrange(0, 6))]
            if any(t[0] == "P" for t in zs) and any(t[0] != "P" for t in zs):
                zs = [t for t in zs if t[0] == zs[0][0] or (t[0] != "P" and zs[0][0] != "P")]
            rng.shuffle(zs)
            lines.append("sort " + " ".join(zs))
            lines.append("sortok " + " ".join(zs))
    ctx.compare("random-partners", lines)
    # fresh interpreters (a different allocator state and hash seed per line)
    fl = ["fresh hashco B0,1/1/_ M0,1/1.0,1.1,1.2", "fresh hashco M0,1/1.1 M0,1/1.1", "fresh hashstable V0,1/1",
          "fresh hashstable M0,1/0.0,1.1", "fresh hashstable P0,2,1", "fresh hashstable S0,1;1,0", "fresh lookup P0,1 P0,1",
          "fresh lookup M0/0.0 M0/0.0", "fresh lookup C0/1 M0/0.1,1.1", "fresh cmp V0,1/1 M0,1/_", "fresh eqval B0,1/1/_ V0,1/1",
          "fresh lookupself TM0/_", "fresh hashco S0,1 S0,1", "fresh ordlaws P0,1 P1,0"]
    for _ in range(6 if quick else 40):
        x = rand_mesh_tok(rng)
        fl.append("fresh %s %s %s" % (rng.choice(("hashco", "lookup", "eqval")), x, partner(rng, x)))
    ctx.compare("fresh-interpreter", fl)
    ctx.compare("malformed", ["cmp M0/5.5 M0/_", "cmp B0/3/_ M0/_", "cmp V0,1/4 V0,1/1", "cmp C_/1 C_/0", "eqval M0/0.2 P0",
                              "cmp P0 S0", "cmp S0 M0/_", "hashstable M_/1.1", "sort M0/2.0"])
    # big patterns (length 5 and 6, almost completely shaded), each line an equal pair built separately: equal
    # objects hash equally whatever died at their address before (see _ghost)
    lines = []
    for n in (5, 6):
        full = [(x, y) for x in range(n + 1) for y in range(n + 1)]
        for j in range(12 if ctx.tier == "quick" else 60):
            p = list(range(n))
            rng.shuffle(p)
            drop = set(rng.sample(full, rng.randrange(0, 4)))
            tok = "M%s/%s" % (fseq(p), fcells([c for c in full if c not in drop]))
            lines.append("%s %s %s" % (("hashco", "lookup", "eqval")[j % 3], tok, tok))
            if j % 4 == 0:
                lines.append("hashstable " + tok)
        allidx = fseq(range(n + 1))
        lines.append("hashco B%s/%s/_ M%s/%s" % (fseq(range(n)), allidx, fseq(range(n)), fcells(full)))
        lines.append("lookup M%s/%s C%s/%s" % (fseq(range(n)), fcells(full), fseq(range(n)), allidx))
    ctx.compare("hash-big-patterns", lines)


if __name__ == "__main__":
    # `--eval "<op> <args>"`: one line evaluated in this (fresh) interpreter
    if len(sys.argv) == 3 and sys.argv[1] == "--eval":
        import core  # noqa: F401  (puts the repository on sys.path)
        worker_init()
        toks = sys.argv[2].split(" ")
        print(impl(toks[0], toks[1:]))
