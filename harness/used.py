"""Helpers that turn the objects under test into *used* objects.

A correspondence line is self-contained, and `impl` used to build fresh library objects and call the
method under test exactly once.  Regressions that live in state kept between calls (a memo filled by
an earlier call and mutated or returned stale, a scratch buffer shared by two lazily consumed listings,
a class-level table that is "complete as soon as it is non-empty", a verdict memo with too coarse a
key) are invisible to such a line.  The helpers here are used by the harness modules to

  * warm an object up with a few cheap, deterministic, unrelated-but-plausible calls (`warm_perm`,
    `warm_mesh`); exceptions of the warm-up never leak, and malformed objects are left alone;
  * create an iterator of the kind under test, take an item and abandon it (`sip`);
  * evaluate the call under test twice on the SAME objects (`Table` replays the constructions of the
    first evaluation) and demand the same answer (`twice` / `unstable`);
  * interleave a lazily consumed listing with a complete one on the same object (`interleaved`).

Nothing here changes the meaning of a line: the answer returned is the answer of the call under test;
only when two evaluations of the same call disagree the distinctive string `UNSTABLE:<a>|<b>` is
returned, which matches neither oracle nor model.
"""
import itertools
import zlib


def digest(op, a):
    return zlib.crc32((op + " " + " ".join(a)).encode())


def sel(op, a, k):
    """deterministic 1-in-k selection of lines (k <= 1: every line)"""
    return k <= 1 or digest(op, a) % k == 0


def quiet(fn, *args):
    """run a warm-up call; its result and its exceptions are discarded"""
    try:
        return fn(*args)
    except Exception:  # pylint: disable=broad-except
        return None


def sip(make_iter, k=1):
    """create one iterator, take k items, abandon it"""
    try:
        it = iter(make_iter())
        for _ in range(k):
            next(it)
    except StopIteration:
        pass
    except Exception:  # pylint: disable=broad-except
        pass


def unstable(r1, r2):
    return "UNSTABLE:%s|%s" % (r1, r2)


def twice(fn):
    r1 = fn()
    r2 = fn()
    return r1 if r1 == r2 else unstable(r1, r2)


def is_perm(t):
    try:
        return sorted(t) == list(range(len(t)))
    except Exception:  # pylint: disable=broad-except
        return False


def interleaved(make_iter, k=1):
    """list(make_iter()) computed while another listing of the same call is only partially consumed:
    g = make_iter(); first k items of g; a complete second listing; the rest of g.
    Returns (complete listing, listing pieced together from g)."""
    g = iter(make_iter())
    head = list(itertools.islice(g, k))
    full = list(make_iter())
    tail = list(g)
    return full, head + tail


def warm_perm(p, level=1):
    """use a Perm: as a value (hash, comparison), as a pattern (a partially consumed listing of its
    occurrences - this fills its memoised search table) and as a target"""
    if not is_perm(p):
        return p
    cls = type(p)
    quiet(hash, p)
    quiet(lambda: p == cls(p))
    # as a pattern, in itself and in a one-longer permutation; the listings are abandoned
    sip(lambda: p.occurrences_in(p))
    if level >= 1:
        sip(lambda: p.occurrences_in(cls(tuple(p) + (len(p),))), 2)
        quiet(lambda: p.contains(cls((0,))))
    if level >= 2:
        quiet(p.inverse)
        quiet(p.reverse)
        quiet(lambda: p.contains(cls((0, 1)), cls((1, 0))))
        quiet(lambda: str(p))
    return p


def warm_mesh(m, level=1):
    """use a mesh-type pattern: hash, a partially consumed listing of its occurrences in its own
    underlying permutation, a classical search with its underlying Perm object"""
    try:
        patt = m.pattern
        n = len(patt)
        if not is_perm(patt) or any(not (0 <= x <= n and 0 <= y <= n) for x, y in m.shading):
            return m
    except Exception:  # pylint: disable=broad-except
        return m
    quiet(hash, m)
    sip(lambda: m.occurrences_in(patt))
    sip(lambda: patt.occurrences_in(patt))
    if level >= 1:
        cls = type(patt)
        sip(lambda: m.occurrences_in(cls(tuple(patt) + (n,))), 2)
        quiet(lambda: m.is_shaded((0, 0)))
    if level >= 2:
        quiet(lambda: m == m.reverse().reverse())
        quiet(lambda: len(m))
        quiet(lambda: str(m))
    return m


class Table:
    """the objects built while a line is evaluated; `rewind` makes the next evaluation of the same line
    receive the SAME objects (in construction order), so the second evaluation runs on used objects"""

    def __init__(self):
        self.objs = []
        self.i = 0

    def rewind(self):
        self.i = 0

    def get(self, key, make, warm=None):
        i = self.i
        self.i += 1
        if i < len(self.objs) and self.objs[i][0] == key:
            return self.objs[i][1]
        o = make()
        del self.objs[i:]
        self.objs.append((key, o))
        if warm is not None:
            try:
                warm(o)
            except Exception:  # pylint: disable=broad-except
                pass
        return o


T = Table()


def begin():
    """start a new line: a fresh object table"""
    global T  # pylint: disable=global-statement
    T = Table()
    return T


def obj(key, make, warm=None):
    return T.get(key, make, warm)


# ----------------------------------------------------------------------------- neighbouring calls (hardener hg1)
def _is_seq_token(t):
    return t != "_" and all(ch.isdigit() or ch == "," for ch in t) and "," in t


def _is_cells_token(t):
    return "." in t and all(ch.isdigit() or ch in ".," for ch in t)


def _is_int_token(t):
    return t.lstrip("-").isdigit() and len(t) <= 6


def neighbours(a, limit=3):
    """argument lists that differ from `a` in exactly one token: a sequence token reversed, a cell-list token
    with its first cell dropped or cell 0.0 added, a small integer token increased by one.  They are evaluated
    (results and exceptions discarded, objects dropped) before the line itself on the selected lines: state
    keyed by id() of short-lived objects or by too coarse a key then answers the line from a neighbour"""
    res = []
    for i, t in enumerate(a):
        if _is_seq_token(t):
            nt = ",".join(reversed(t.split(",")))
        elif _is_cells_token(t):
            cs = t.split(",")
            nt = ",".join(cs[1:]) if len(cs) > 1 else (t + ",0.0" if t != "0.0" else "0.1")
        elif _is_int_token(t):
            nt = str(int(t) + 1)
        else:
            continue
        if nt != t:
            res.append(list(a[:i]) + [nt] + list(a[i + 1:]))
    if len(res) > limit:
        step = len(res) / float(limit)
        res = [res[int(j * step)] for j in range(limit)]
    return res


def prelude(op, a, evaluate, k=8, gc_every=64):
    """on a deterministic 1-in-k selection of lines: evaluate the neighbouring calls first (each with its own
    object table), drop everything (a full gc.collect() on 1 in gc_every of them)"""
    d = digest("n~" + op, a)
    if k > 1 and d % k:
        return False
    for nb in neighbours(a):
        begin()
        try:
            evaluate(op, nb)
        except Exception:  # pylint: disable=broad-except
            pass
    begin()
    if (d // max(k, 1)) % gc_every == 0:
        import gc
        gc.collect()
    return True


# ----------------------------------------------------------------------------- extension (hardener hg2)
def scrub(x, depth=3):
    """destroy a container the library returned (after its answer has been formatted): lists, dicts and sets
    are emptied, recursively through tuples; if the library handed out one of its own tables instead of a copy
    the next evaluation of the same call shows it.  Never raises."""
    try:
        if depth <= 0:
            return
        if isinstance(x, (list, tuple)):
            for y in list(x):
                scrub(y, depth - 1)
        if isinstance(x, dict):
            for y in list(x.values()):
                scrub(y, depth - 1)
        if isinstance(x, (list, dict, set)) and type(x) in (list, dict, set):
            x.clear()
    except Exception:  # pylint: disable=broad-except
        pass


def ghosts(objs, k=12, generation=0):
    """id()-keyed state: for every object of the line create k short-lived siblings of the same kind and size
    but with DIFFERENT values, use them (hash, rank, a search), drop them and collect (they hold no reference
    cycles, so reference counting frees them at once; the young-generation collection is for good measure, a
    full one costs milliseconds per line); whatever is allocated next may get their addresses.  Results and
    exceptions are discarded."""
    import gc
    for o in objs:
        try:
            cls = type(o)
            if hasattr(o, "shading") and hasattr(o, "pattern"):
                n = len(o.pattern)
                gs = [cls(o.pattern, frozenset(o.shading) ^ {(i % (n + 1), (i // (n + 1)) % (n + 1))}) for i in range(k)]
            elif is_perm(o) and len(o) >= 2:
                t = tuple(o)
                gs = [cls(t[i % len(t):] + t[:i % len(t)]) for i in range(1, k + 1)]
            else:
                continue
            for g in gs:
                quiet(hash, g)
                quiet(lambda g=g: g.rank() if len(g) <= 12 else None)
                sip(lambda g=g: g.occurrences_in(g if is_perm(g) else g.pattern))
                quiet(str, g)
            del gs, g
        except Exception:  # pylint: disable=broad-except
            pass
    gc.collect(generation)


# ----------------------------------------------------------------------------- call history on function-like objects (hardener hg3)
def churn(make, queries, args, drop=None):
    """id()-keyed state: create short-lived objects of the kind under test (`make(arg)` for every arg), ask each of
    them `queries` (callables taking the object; results and exceptions discarded), drop them all (`drop()` - e.g. a
    cache reset of the library - then gc.collect()), so that objects created afterwards are likely to be allocated
    at recycled addresses.  Nothing is returned: the caller creates and queries its own object afterwards."""
    import gc
    objs = []
    for x in args:
        o = quiet(make, x)
        if o is None:
            continue
        objs.append(o)
        for q in queries:
            quiet(q, o)
    del objs
    o = None
    if drop is not None:
        quiet(drop)
    gc.collect()


def after_histories(fn, histories):
    """the answer of fn() after each of several different histories (callables run before, exceptions discarded):
    all the answers must be the same (fn builds its own fresh objects each time)"""
    res = []
    for h in histories:
        quiet(h)
        res.append(fn())
    for r in res[1:]:
        if r != res[0]:
            return unstable(res[0], r)
    return res[0]


def grown_list(fn, items, first=None):
    """argument aliasing on a list argument: fn is first called with a list holding only part of the items (`first`,
    default: all but the last; when there is one item only, a list holding that item twice - an equal-length
    DIFFERENT list would need a foreign item), then THE SAME list object is changed in place to hold exactly `items`
    and fn is called with it again.  Returns that second answer - it must be the answer of a call with a fresh
    list.  Results/exceptions of the first call are discarded."""
    items = list(items)
    if first is None:
        first = items[:-1] if len(items) > 1 else items + items
    lst = list(first)
    quiet(fn, lst)
    lst[:] = items
    return fn(lst)


def shrunk_list(fn, items, extra):
    """as grown_list, but the first call sees the items plus `extra` appended, which are then removed in place"""
    lst = list(items) + list(extra)
    quiet(fn, lst)
    del lst[len(list(items)):]
    return fn(lst)


def spoil(result):
    """mutate a returned container in place as a caller might (clear lists/dicts/sets, nested one level);
    exceptions (immutable results) are ignored"""
    try:
        if isinstance(result, dict):
            for v in list(result.values()):
                if isinstance(v, (list, dict, set)):
                    quiet(v.clear)
            result.clear()
        elif isinstance(result, (list, set)):
            for v in list(result):
                if isinstance(v, (list, dict, set)):
                    quiet(v.clear)
            result.clear()
    except Exception:  # pylint: disable=broad-except
        pass


# ----------------------------------------------------------------------------- look-alike permutations
def _retokenise(s, n, budget=4000):
    """all ways (at most 4, search budget bounded) to read the digit string s as a permutation of 0..n-1"""
    out = []
    seen = [False] * n
    cur = []
    steps = [0]

    def go(i):
        steps[0] += 1
        if steps[0] > budget or len(out) >= 4:
            return
        if i == len(s):
            if len(cur) == n:
                out.append(tuple(cur))
            return
        if s[i] == "0":
            cands = [0]
        else:
            cands = []
            v = 0
            for j in range(i, min(i + 4, len(s))):
                v = v * 10 + int(s[j])
                if v >= n:
                    break
                cands.append(v)
        for v in cands:
            if not seen[v]:
                seen[v] = True
                cur.append(v)
                go(i + len(str(v)))
                cur.pop()
                seen[v] = False
    go(0)
    return out


def lookalikes(p, rng=None):
    """permutations of the same length as p, different from p, that a lossy key / a truncated comparison could
    confuse with p: the same decimal concatenation ''.join(map(str, p)) (length >= 11 only), the same first 8 / 10 /
    16 / 32 entries, the same last entries, the same entries modulo 10 / modulo 256 (two values that differ by 10 resp.
    256 exchanged), the same set of adjacent pairs up to one exchange of the two largest values, the same sum of
    position*value is not attempted.  Deterministic unless rng is given (then the exchanged values are drawn)."""
    p = tuple(p)
    n = len(p)
    res = []

    def add(q):
        q = tuple(q)
        if q != p and q not in res and sorted(q) == list(range(n)):
            res.append(q)
    if 11 <= n <= 80:
        for q in _retokenise("".join(map(str, p)), n):
            add(q)
    elif n > 80:
        # the same by construction: adjacent entries a, b and the entry whose decimal form is str(a) + str(b)
        # change places (... a b ... ab ...  <->  ... ab ... a b ...)
        pos = {v: i for i, v in enumerate(p)}
        for i in range(n - 1):
            a, b = p[i], p[i + 1]
            if b == 0 and a != 0:
                v = a * 10
            elif a != 0 and b != 0:
                v = int(str(a) + str(b))
            else:
                continue
            j = pos.get(v)
            if v < n and j is not None and j not in (i, i + 1):
                if j > i:
                    add(p[:i] + (v,) + p[i + 2:j] + (a, b) + p[j + 1:])
                else:
                    add(p[:j] + (a, b) + p[j + 1:i] + (v,) + p[i + 2:])
                if len(res) >= 2:
                    break

    def swap_vals(a, b):
        return tuple(b if v == a else a if v == b else v for v in p)
    for k in (8, 10, 16, 32, 64, 256):
        if n >= k + 2:
            # same first k entries: the last two entries exchanged; same last k entries: the first two exchanged
            add(p[:-2] + (p[-1], p[-2]))
            add((p[1], p[0]) + p[2:])
            # same first k entries, the entries at positions k and k+1 exchanged (just beyond the threshold)
            add(p[:k] + (p[k + 1], p[k]) + p[k + 2:])
    if n >= 12:
        a = rng.randrange(0, n - 10) if rng else 1
        add(swap_vals(a, a + 10))
    if n >= 258:
        a = rng.randrange(0, n - 256) if rng else 1
        add(swap_vals(a, a + 256))
    if n >= 3:
        add(swap_vals(n - 1, n - 2))
    return res
