import importlib
import os
import sys

sys.path.insert(0, os.path.dirname(os.path.abspath(__file__)))
import core  # noqa: E402


def main():
    if len(sys.argv) < 2:
        print("usage: check Cxx [--tier quick|thorough] [--replay path]")
        return 2
    prop = sys.argv[1].upper()
    mod = importlib.import_module(prop.lower())
    return core.run_check(mod, sys.argv[2:])


if __name__ == "__main__":
    sys.exit(main())
