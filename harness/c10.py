"""C10 - algebraic and structural operations of Perm (perm.py 301-451, 505-572, 705-736, 2182-2446)."""
import itertools

from core import fseq, fseqs, fbool, fcells, pseq, pseqs, guarded
import past
import used

PROP = "C10"


def _R(a, P):
    """the receiver of the call under test; the method is reached through one of its public aliases on a share of lines"""
    return past.ViaAlias(P(pseq(a[0])), tuple(a))

RULE = ("exhaustive: every permutation p with |p|<=N for every unary op; every argument (index, value, shift) in the "
        "stated integer window (valid, boundary, out-of-range and None); every pair/triple of short permutations for "
        "sums/compose; every component list (None / all perms of length <=2, some of length 3) for inflate with |p|<=3; "
        "random: structured permutations (sums, skew sums, inflations of simples, planted intervals, monotone runs) "
        "up to length 12; non-trivial = the permutation argument has length >= 2 and the call does not raise; "
        "distinct = distinct op lines"
        ' Hardening pass 2: stream `large` (lengths 21-40, 64-70, ~200, ~401, 1000; operations dropped per scale where a side needs > 0.2 s); operands of heavy lines are objects with a past (past.mkperm_u with the C10 operations as use); returned containers are destroyed and argument lists changed before the second evaluation.')
ASSUMPTIONS = [
    "model/implementation agreement outside the enumerated and sampled inputs is assumed",
    "operations are modelled on permutations (IsPerm) and the argument kinds listed in the protocol; behaviour on "
    "non-permutation tuples is not claimed",
    "insert(index=n+1) given explicitly is accepted by the code's assert (same as index n); the property text does not "
    "determine it, the oracle is silent there and the model mirrors the code",
]
PARTIAL = [
    # the five former entries (sumDecomposition_unique + skew analogue, skewDecomposition_via_complement,
    # children_eq_contained + coveredby_eq_containing, monoBlocks_left_maximal, sortDedup_sorted) are now
    # theorems of Props/C10.lean
]
TRUSTED = []

Perm = None


def worker_init():
    global Perm
    from permuta import Perm as P
    Perm = P


# ----------------------------------------------------------------------------- protocol helpers
def popt(s):
    return None if s == "N" else int(s)


def pcomps(s):
    if s == "-":
        return []
    return [None if t == "N" else pseq(t) for t in s.split(";")]


def fcomps(cs):
    cs = list(cs)
    if not cs:
        return "-"
    return ";".join("N" if c is None else fseq(c) for c in cs)


def fpairs(ps):
    return fcells(ps, sort=False)


def fset(ps):
    return fseqs(sorted((tuple(p) for p in ps), key=lambda t: (len(t), t)))


_KIND = {"both": "monotone_block_decomposition", "asc": "monotone_block_decomposition_ascending",
         "desc": "monotone_block_decomposition_descending"}
_CONTRACT = {"both": "contract_bonds", "asc": "contract_inc_bonds", "desc": "contract_dec_bonds"}


# ----------------------------------------------------------------------------- implementation
_HEAVY = [False]


def _warm_first(p):
    """use a permutation before the call under test: generic use (hash, comparison, abandoned occurrence listings)
    and the neighbouring C10 operations on the SAME object (results discarded)"""
    if len(p) > 120:
        # LONG permutations (`large` stream): the quadratic neighbours below would cost 0.2 s (400) to seconds (1000)
        # per line; the linear ones only
        used.warm_perm(p, 0)
        if used.is_perm(p):
            for f in (p.sum_decomposition, p.is_skew_decomposable, p.inverse, p.monotone_quotient,
                      lambda: p.shift_right(1), lambda: p.insert(0, 0), lambda: p.remove(0), lambda: p * p):
                used.quiet(f)
        return
    used.warm_perm(p, 1)
    if not used.is_perm(p):
        return
    q = used.quiet
    q(p.block_decomposition)
    q(p.maximum_block)
    q(p.is_simple)
    q(p.sum_decomposition)
    q(p.skew_decomposition)
    q(p.is_sum_decomposable)
    q(lambda: list(p.monotone_block_decomposition(True)))
    q(p.monotone_quotient)
    q(p.inverse)
    q(lambda: p.shift_right(1))
    q(lambda: p.shift_up(1))
    q(lambda: p.insert(0, 0))
    q(lambda: p.remove(0))
    q(lambda: p * p)
    q(lambda: p + p)
    used.sip(lambda: iter(p.children()))


def _c10_use(p):
    """the C10 operations themselves, on an object a derived object is about to be made from (past.mkperm_u)"""
    q = used.quiet
    q(p.sum_decomposition)
    q(p.skew_decomposition)
    q(p.monotone_quotient)
    q(lambda: list(p.monotone_block_decomposition(True)))
    q(lambda: p.contract_inc_bonds())
    if len(p) <= 40:
        q(p.block_decomposition)
        q(p.is_simple)
        used.sip(lambda: iter(p.children()))


def _UP(seq=()):
    """Perm constructor of the heavy lines: one object per construction site of the line (used.obj), the first
    one fully used, the others generically"""
    seq = tuple(seq)
    first = used.T.i == 0
    salt = used.T.i
    # an object with a past: fresh / used / derived from a used object through another API route (past.mkperm_u)
    return used.obj(("P", seq), lambda: past.mkperm_u(seq, salt, _c10_use) if len(seq) <= 120 and used.is_perm(seq) else Perm(seq),
                    _warm_first if first else (used.warm_perm if len(seq) <= 120 else (lambda p: used.warm_perm(p, 0))))


def _fin(r, fmt):
    """format a container the library returned; on heavy lines (which are evaluated twice on the same objects) the
    container is destroyed afterwards: the second evaluation must not notice"""
    out = fmt(r)
    if _HEAVY[0]:
        used.scrub(r)
    return out


def impl(op, a):
    # every line with a long argument (the random stream) and a deterministic fortieth of the short exhaustive
    # lines are evaluated on used objects and then once more on the same objects; the others as before
    # (of the `large` stream's lines - more than about 20 entries - a deterministic third: the warm-up is quadratic)
    _HEAVY[0] = (15 <= len(a[0]) < 60 or used.sel(op, a, 3 if len(a[0]) >= 60 else 40)) if a else False
    if not _HEAVY[0]:
        return _impl(op, a, Perm)
    used.begin()
    r1 = _impl(op, a, _UP)
    used.T.rewind()
    r2 = _impl(op, a, _UP)
    return r1 if r1 == r2 else used.unstable(r1, r2)


def _impl(op, a, P):
    if op == "dsum":
        return guarded(lambda: fseq(_R(a, P).direct_sum(*[P(q) for q in pseqs(a[1])])))
    if op == "ssum":
        return guarded(lambda: fseq(_R(a, P).skew_sum(*[P(q) for q in pseqs(a[1])])))
    if op == "add":
        return guarded(lambda: fseq(P(pseq(a[0])) + P(pseq(a[1]))))
    if op == "sub":
        return guarded(lambda: fseq(P(pseq(a[0])) - P(pseq(a[1]))))
    if op == "mul":
        return guarded(lambda: fseq(P(pseq(a[0])) * P(pseq(a[1]))))
    if op == "opbad":
        def f():
            p = P(pseq(a[0]))
            other = {"int": 3, "tuple": (0, 1), "none": None}[a[1].split(":")[1]]
            k = a[1].split(":")[0]
            return fseq(p + other if k == "add" else p - other if k == "sub" else p * other)
        return guarded(f)
    if op == "compose":
        return guarded(lambda: fseq(_R(a, P).compose(*[P(q) for q in pseqs(a[1])])))
    if op == "apply":
        def appl():
            arg = list(pseq(a[1])) if _HEAVY[0] else pseq(a[1])
            out = fseq(_R(a, P).apply(arg))
            if _HEAVY[0]:
                arg.clear()
            return out
        return guarded(appl)
    if op == "call":
        return guarded(lambda: str(P(pseq(a[0]))(int(a[1]))))
    if op == "insert":
        return guarded(lambda: fseq(_R(a, P).insert(popt(a[1]), popt(a[2]))))
    if op == "remove":
        return guarded(lambda: fseq(_R(a, P).remove(popt(a[1]))))
    if op == "remel":
        return guarded(lambda: fseq(_R(a, P).remove_element(popt(a[1]))))
    if op == "inflate":
        def infl():
            comps = [None if c is None else P(c) for c in pcomps(a[1])]
            if not _HEAVY[0]:
                return fseq(_R(a, P).inflate(iter(comps)))
            out = fseq(_R(a, P).inflate(comps))      # the list itself is passed and changed afterwards
            comps.reverse()
            comps.append(None)
            return out
        return guarded(infl)
    if op in ("shr", "shl", "shu", "shd"):
        name = {"shr": "shift_right", "shl": "shift_left", "shu": "shift_up", "shd": "shift_down"}[op]
        return guarded(lambda: fseq(getattr(_R(a, P), name)(int(a[1]))))
    if op == "issum":
        return guarded(lambda: fbool(_R(a, P).is_sum_decomposable()))
    if op == "isskew":
        return guarded(lambda: fbool(_R(a, P).is_skew_decomposable()))
    if op == "sumdec":
        return guarded(lambda: _fin(_R(a, P).sum_decomposition(), fseqs))
    if op == "skewdec":
        return guarded(lambda: _fin(_R(a, P).skew_decomposition(), fseqs))
    if op == "blocks":
        return guarded(lambda: _fin(_R(a, P).block_decomposition(), fseqs))
    if op == "blockpats":
        return guarded(lambda: _fin(_R(a, P).block_decomposition_as_pattern(), fset))
    if op == "mono":
        return guarded(lambda: _fin(getattr(P(pseq(a[1])), _KIND[a[0]])(a[2] == "T"), lambda r: fpairs(list(r))))
    if op == "contract":
        return guarded(lambda: fseq(getattr(P(pseq(a[1])), _CONTRACT[a[0]])()))
    if op == "mquot":
        return guarded(lambda: fseq(_R(a, P).monotone_quotient()))
    if op == "maxblock":
        return guarded(lambda: "%d.%d" % _R(a, P).maximum_block())
    if op == "simple":
        return guarded(lambda: fbool(_R(a, P).is_simple()))
    if op == "ssimple":
        return guarded(lambda: fbool(_R(a, P).is_strongly_simple()))
    if op == "children":
        return guarded(lambda: _fin(_R(a, P).children(), fset))
    if op == "coveredby":
        return guarded(lambda: _fin(_R(a, P).coveredby(), fset))
    # ---- composite operations: laws evaluated with the implementation on its own outputs
    if op == "rt_insrem":
        return guarded(lambda: fseq(_R(a, P).insert(popt(a[1]), popt(a[2])).remove(popt(a[1]))))
    if op == "rt_remins":
        def f():
            p = P(pseq(a[0]))
            i = int(a[1])
            q = p.remove(i)
            return fseq(q.insert(i, p[i]))
        return guarded(f)
    if op == "law_comp":
        def f():
            p, q, r = (P(pseq(x)) for x in a)
            ident = Perm.identity(len(p))
            outs = []
            for g in (lambda: (p * q) * r, lambda: p * (q * r), lambda: p.compose(q, r), lambda: p * ident,
                      lambda: ident * p, lambda: p * p.inverse(), lambda: p.inverse() * p,
                      lambda: (p * q).inverse(),
                      lambda: q.inverse() * p.inverse()):
                outs.append(guarded(lambda: fseq(g())))
            return "|".join(outs)
        return f()
    if op == "law_shift":
        def f():
            p = P(pseq(a[0]))
            s, t = int(a[1]), int(a[2])
            return "|".join(fseq(x) for x in (
                p.shift_right(t).shift_right(s), p.shift_right(s + t), p.shift_right(t).shift_left(t),
                p.shift_up(t).shift_up(s), p.shift_up(s + t), p.shift_up(t).shift_down(t),
                p.inverse().shift_right(t).inverse()))
        return guarded(f)
    if op == "law_sum":
        def f():
            p, q, r = (P(pseq(x)) for x in a)
            return "|".join(fseq(x) for x in (
                (p + q) + r, p + (q + r), p.direct_sum(q, r), (p - q) - r, p - (q - r), p.skew_sum(q, r),
                (p.complement() + q.complement()).complement()))
        return guarded(f)
    if op == "law_dec":
        def f():
            p = P(pseq(a[0]))
            sd, kd = p.sum_decomposition(), p.skew_decomposition()
            return "|".join((
                fseq(P().direct_sum(*sd)), fseq(P().skew_sum(*kd)),
                fbool(all(not c.is_sum_decomposable() for c in sd)),
                fbool(all(not c.is_skew_decomposable() for c in kd)),
                fseqs(c.complement() for c in p.complement().sum_decomposition())))
        return guarded(f)
    raise ValueError("unknown op " + op)


# ----------------------------------------------------------------------------- oracle (property text)
def _std(vals):
    """ranks of pairwise distinct comparable keys"""
    srt = sorted(vals)
    return tuple(srt.index(v) for v in vals)


def _is_perm(p):
    return sorted(p) == list(range(len(p)))


def _from_points(pts):
    """the permutation whose diagram is order-isomorphic to the point set (distinct x, distinct y)"""
    pts = sorted(pts)
    return _std([y for _, y in pts])


def _o_dsum(parts):
    pts, off = [], 0
    for q in parts:
        pts += [(off + i, off + v) for i, v in enumerate(q)]
        off += len(q)
    return _from_points(pts)


def _o_ssum(parts):
    pts, xoff, yoff = [], 0, sum(len(q) for q in parts)
    for q in parts:
        yoff -= len(q)
        pts += [(xoff + i, yoff + v) for i, v in enumerate(q)]
        xoff += len(q)
    return _from_points(pts)


def _o_compose(fs, n):
    """right-to-left functional composition of maps on range(n)"""
    res = []
    for i in range(n):
        x = i
        for f in reversed(fs):
            x = f[x]
        res.append(x)
    return tuple(res)


def _o_inverse(p):
    q = [0] * len(p)
    for i, v in enumerate(p):
        q[v] = i
    return tuple(q)


def _o_insert(p, i, v):
    """new point just left of position i and just below value v"""
    return _from_points([(2 * j + 1, 2 * w + 1) for j, w in enumerate(p)] + [(2 * i, 2 * v)])


def _o_delete(p, i):
    return _std([w for j, w in enumerate(p) if j != i])


def _o_inflate(p, comps):
    pts = []
    for j, c in enumerate(comps):
        if c is None:
            c = (0,)
        for k, w in enumerate(c):
            pts.append(((j, k), (p[j], w)))
    return _from_points(pts)


def _o_sum_cuts(p):
    """positions 0 < c < n where everything on the left is smaller than everything on the right"""
    n = len(p)
    return [c for c in range(1, n) if max(p[:c]) < min(p[c:])]


def _o_skew_cuts(p):
    n = len(p)
    return [c for c in range(1, n) if min(p[:c]) > max(p[c:])]


def _o_parts(p, cuts):
    if not p:
        return []
    b = [0] + cuts + [len(p)]
    return [_std(p[b[k]:b[k + 1]]) for k in range(len(b) - 1)]


def _o_is_interval(p, i, l):
    vals = sorted(p[i:i + l])
    return len(vals) == l and vals == list(range(vals[0], vals[0] + l))


def _o_blocks(p):
    n = len(p)
    return [[i for i in range(n - l + 1) if 2 <= l < n and _o_is_interval(p, i, l)] for l in range(n)]


def _o_simple(p):
    n = len(p)
    return not any(_o_is_interval(p, i, l) for l in range(2, n) for i in range(n - l + 1))


def _o_runs(p, kind):
    """maximal runs of adjacent positions whose values are adjacent with a constant step in `kind`"""
    n = len(p)
    steps = {"both": (1, -1), "asc": (1,), "desc": (-1,)}[kind]
    runs, s = [], 0
    while s < n:
        e = s
        if s + 1 < n and p[s + 1] - p[s] in steps:
            d = p[s + 1] - p[s]
            while e + 1 < n and p[e + 1] - p[e] == d:
                e += 1
        runs.append((s, e))
        s = e + 1
    return runs


def _o_children(p):
    return set(_std([p[j] for j in c]) for c in itertools.combinations(range(len(p)), len(p) - 1)) if p else set()


def _o_coveredby(p):
    n = len(p)
    if n <= 5:
        return set(q for q in itertools.permutations(range(n + 1)) if tuple(p) in _o_children(q))
    return set(_o_insert(p, i, v) for i in range(n + 1) for v in range(n + 1))


def oracle(op, a):
    if op in ("dsum", "ssum"):
        parts = [pseq(a[0])] + pseqs(a[1])
        return fseq(_o_dsum(parts) if op == "dsum" else _o_ssum(parts))
    if op == "add":
        return fseq(_o_dsum([pseq(a[0]), pseq(a[1])]))
    if op == "sub":
        return fseq(_o_ssum([pseq(a[0]), pseq(a[1])]))
    if op == "opbad":
        return "ERR:TypeError"
    if op in ("mul", "compose"):
        p = pseq(a[0])
        others = [pseq(a[1])] if op == "mul" else pseqs(a[1])
        if any(len(q) != len(p) for q in others):
            return "ERR:AssertionError"
        return fseq(_o_compose([p] + others, len(p)))
    if op == "apply":
        p, l = pseq(a[0]), pseq(a[1])
        if len(p) != len(l):
            return "ERR:AssertionError"
        return fseq(l[i] for i in p)
    if op == "call":
        p, v = pseq(a[0]), int(a[1])
        return str(p[v]) if 0 <= v < len(p) else "ERR:AssertionError"
    if op == "insert":
        p, i, v = pseq(a[0]), popt(a[1]), popt(a[2])
        n = len(p)
        if i == n + 1:
            # accepted by the code's assert; the documented range of an index is 0..n (None = right end)
            return None if (v is None or 0 <= v <= n) else "ERR:AssertionError"
        i = n if i is None else i
        v = n if v is None else v
        if not (0 <= i <= n and 0 <= v <= n):
            return "ERR:AssertionError"
        return fseq(_o_insert(p, i, v))
    if op == "remove":
        p, i = pseq(a[0]), popt(a[1])
        n = len(p)
        if i is None:
            return fseq(_o_delete(p, p.index(n - 1))) if n else "_"
        if not -n <= i < n:
            return "ERR:IndexError"
        return fseq(_o_delete(p, i % n))
    if op == "remel":
        p, s = pseq(a[0]), popt(a[1])
        n = len(p)
        if s is None:
            return fseq(_o_delete(p, p.index(n - 1))) if n else "_"
        if not 0 <= s < n:
            return "ERR:AssertionError"
        return fseq(_o_delete(p, p.index(s)))
    if op == "inflate":
        p, cs = pseq(a[0]), pcomps(a[1])
        if len(cs) != len(p):
            return "ERR:AssertionError"
        return fseq(_o_inflate(p, cs))
    if op in ("shr", "shl", "shu", "shd"):
        p, t = pseq(a[0]), int(a[1])
        n = len(p)
        if op in ("shl", "shd"):
            t = -t
        q = [None] * n
        for i, v in enumerate(p):
            if op in ("shr", "shl"):
                q[(i + t) % n] = v
            else:
                q[i] = (v + t) % n
        return fseq(q)
    if op == "issum":
        return fbool(bool(_o_sum_cuts(pseq(a[0]))))
    if op == "isskew":
        return fbool(bool(_o_skew_cuts(pseq(a[0]))))
    if op == "sumdec":
        p = pseq(a[0])
        return fseqs(_o_parts(p, _o_sum_cuts(p)))
    if op == "skewdec":
        p = pseq(a[0])
        return fseqs(_o_parts(p, _o_skew_cuts(p)))
    if op == "blocks":
        return fseqs(_o_blocks(pseq(a[0])))
    if op == "blockpats":
        p = pseq(a[0])
        n = len(p)
        return fset(set(_std(p[i:i + l]) for l in range(2, n) for i in range(n - l + 1) if _o_is_interval(p, i, l)))
    if op == "mono":
        p = pseq(a[1])
        runs = _o_runs(p, a[0])
        return fpairs(r for r in runs if a[2] == "T" or r[1] > r[0])
    if op in ("contract", "mquot"):
        kind, p = ("both", pseq(a[0])) if op == "mquot" else (a[0], pseq(a[1]))
        return fseq(_std([p[s] for s, _ in _o_runs(p, kind)]))
    if op == "maxblock":
        p = pseq(a[0])
        n = len(p)
        for l in range(n - 1, 1, -1):
            for i in range(n - l + 1):
                if _o_is_interval(p, i, l):
                    return "%d.%d" % (l, i)
        return "0.0"
    if op == "simple":
        return fbool(_o_simple(pseq(a[0])))
    if op == "ssimple":
        p = pseq(a[0])
        return fbool(_o_simple(p) and all(_o_simple(c) for c in _o_children(p)))
    if op == "children":
        return fset(_o_children(pseq(a[0])))
    if op == "coveredby":
        return fset(_o_coveredby(pseq(a[0])))
    if op == "rt_insrem":
        p, i, v = pseq(a[0]), popt(a[1]), popt(a[2])
        n = len(p)
        if i is None:
            # insert() appends, remove() deletes the largest value: the round trip is the identity only when the
            # appended value is the largest; otherwise determined by the two definitions
            v2 = n if v is None else v
            if not 0 <= v2 <= n:
                return "ERR:AssertionError"
            q = _o_insert(p, n, v2)
            return fseq(_o_delete(q, q.index(n)))
        if i == n + 1:
            return None
        if not (0 <= i <= n) or not (v is None or 0 <= v <= n):
            return "ERR:AssertionError"
        return fseq(p)
    if op == "rt_remins":
        p, i = pseq(a[0]), int(a[1])
        n = len(p)
        if not -n <= i < n:
            return "ERR:IndexError"
        if i < 0:
            return "ERR:AssertionError"  # insert has no negative indices
        return fseq(p)
    if op == "law_comp":
        p, q, r = (pseq(x) for x in a)
        n = len(p)
        if not (len(q) == n and len(r) == n):
            return None
        ident = tuple(range(n))
        pq = _o_compose([p, q], n)
        outs = [_o_compose([p, q, r], n)] * 3 + [p, p, ident, ident, _o_inverse(pq),
                                                   _o_compose([_o_inverse(q), _o_inverse(p)], n)]
        if outs[7] != outs[8]:
            return "LAW-FAILS"
        return "|".join(fseq(x) for x in outs)
    if op == "law_shift":
        p, s, t = pseq(a[0]), int(a[1]), int(a[2])
        n = len(p)
        r = [None] * n
        u = [None] * n
        for i, v in enumerate(p):
            r[(i + s + t) % n] = v
            u[i] = (v + s + t) % n
        ut = [(v + t) % n for v in p]
        return "|".join(fseq(x) for x in (r, r, p, u, u, p, ut))
    if op == "law_sum":
        p, q, r = (pseq(x) for x in a)
        d, s = _o_dsum([p, q, r]), _o_ssum([p, q, r])
        return "|".join(fseq(x) for x in (d, d, d, s, s, s, _o_ssum([p, q])))
    if op == "law_dec":
        p = pseq(a[0])
        return "|".join((fseq(p), fseq(p), "T", "T", fseqs(_o_parts(p, _o_skew_cuts(p)))))
    return None


def nontrivial(op, a, out):
    if out.startswith("ERR:"):
        return False
    if op in ("mono", "contract"):
        return len(pseq(a[1])) >= 2
    return len(pseq(a[0])) >= 2


# ----------------------------------------------------------------------------- generators
def perms(n):
    return itertools.permutations(range(n))


def rand_perm(rng, n):
    l = list(range(n))
    rng.shuffle(l)
    return tuple(l)


_SIMPLES = [(1, 3, 0, 2), (2, 0, 3, 1), (1, 3, 0, 4, 2), (2, 4, 1, 3, 0), (2, 0, 4, 1, 3), (3, 0, 2, 4, 1),
            (1, 4, 2, 0, 3), (2, 4, 0, 3, 1), (1, 3, 5, 0, 2, 4), (2, 5, 3, 0, 4, 1), (0, 1), (1, 0), (0, 2, 1), (1, 0, 2)]


def structured(rng, n):
    """permutations rich in intervals, sum/skew components and monotone runs"""
    mode = rng.randrange(7)
    if n <= 1 or mode == 0:
        return rand_perm(rng, n)
    if mode in (1, 2):
        parts, left = [], n
        while left > 0:
            k = rng.randrange(1, left + 1)
            parts.append(structured(rng, k) if k < n else rand_perm(rng, k))
            left -= k
        return _o_dsum(parts) if mode == 1 else _o_ssum(parts)
    if mode == 3:
        s = rng.choice([x for x in _SIMPLES if len(x) <= n])
        left = n - len(s)
        extra = [0] * len(s)
        for _ in range(left):
            extra[rng.randrange(len(s))] += 1
        if rng.random() < 0.3:
            extra = [0] * len(s)
            extra[rng.choice([0, len(s) - 1])] = left
        return _o_inflate(s, [structured(rng, k + 1) for k in extra])
    if mode == 4:
        # a monotone run planted at a boundary or in the middle
        k = rng.randrange(2, n + 1)
        base = rand_perm(rng, n - k + 1)
        j = rng.choice([0, len(base) - 1, rng.randrange(len(base))])
        run = tuple(range(k)) if rng.random() < 0.5 else tuple(range(k - 1, -1, -1))
        return _o_inflate(base, [run if x == j else None for x in range(len(base))])
    if mode == 5:
        # interval of length n-1 at either end
        q = structured(rng, n - 1)
        i = rng.choice([0, n - 1])
        v = rng.choice([0, n - 1])
        return _o_insert(q, i, v)
    p = list(range(n))
    for _ in range(rng.randrange(1, 3)):
        i, j = rng.randrange(n), rng.randrange(n)
        p[i], p[j] = p[j], p[i]
    return tuple(p)


UNARY = ["issum", "isskew", "sumdec", "skewdec", "blocks", "blockpats", "maxblock", "simple", "ssimple", "children",
         "coveredby", "mquot", "law_dec"]


def unary_lines(p):
    fp = fseq(p)
    lines = ["%s %s" % (op, fp) for op in UNARY]
    for k in ("both", "asc", "desc"):
        lines.append("contract %s %s" % (k, fp))
        lines.append("mono %s %s T" % (k, fp))
        lines.append("mono %s %s F" % (k, fp))
    lines.append("remove %s N" % fp)
    lines.append("remel %s N" % fp)
    lines.append("insert %s N N" % fp)
    lines.append("rt_insrem %s N N" % fp)
    return lines


def arg_lines(p, lo, hi, shifts):
    """index / value / shift arguments in the window lo..hi"""
    fp = fseq(p)
    n = len(p)
    lines = []
    rng_ = range(lo, hi + 1)
    for i in list(rng_) + ["N"]:
        for v in list(rng_) + ["N"]:
            lines.append("insert %s %s %s" % (fp, i, v))
            if v == "N" or (isinstance(v, int) and -1 <= v <= n + 1):
                lines.append("rt_insrem %s %s %s" % (fp, i, v))
    for i in rng_:
        lines.append("remove %s %d" % (fp, i))
        lines.append("remel %s %d" % (fp, i))
        lines.append("rt_remins %s %d" % (fp, i))
        lines.append("call %s %d" % (fp, i))
    for t in shifts:
        for op in ("shr", "shl", "shu", "shd"):
            lines.append("%s %s %d" % (op, fp, t))
    return lines


def run(ctx):
    rng = ctx.rng
    quick = ctx.tier == "quick"
    N = 6
    NW = 6                          # full -2n-1..2n+1 window up to this length (boundary window above)
    ctx.exhaustive = True
    ctx.exhaustive_bound = (
        "unary ops (decompositions, blocks, simplicity, children, coveredby, monotone blocks, contractions): all |p|<=%d "
        "(thorough 7); insert/remove/remove_element/call/shift arguments: all integers in -2n..2n (+None) for |p|<=%d and "
        "in -2..n+2 (+None) for |p|<=%d; sums/compose: all pairs |p|,|q|<=4 (compose incl. unequal lengths), all triples <=3; "
        "inflate: |p|<=3 with every component list over {None} u {perms of length <=2} u {perms of length 3}"
        % (7 if quick else 8, NW, N))
    ctx.compare("corpus", [
        "insert 0,1 N N", "insert 0,1 0 N", "insert 2,0,1 2 1", "insert 0,1 3 0", "insert 0,1 4 0", "insert _ N N",
        "insert _ 1 0", "insert _ 0 1", "remove 2,0,1 N", "remove 3,0,1,2 0", "remove 2,0,1 2", "remove 0 0",
        "remove _ N", "remove _ 0", "remove 0,1 -1", "remove 0,1 -2", "remove 0,1 -3", "remel _ N", "remel 0 0",
        "remel 0 1", "remel 0 -1", "inflate 0,1 1,0;2,1,0", "inflate 1,0,2 N;0,1;0,1", "inflate 0,1 _;_",
        "inflate _ -", "inflate 0 -", "inflate _ N", "inflate 0,1 N", "shr 0,1,2 -4", "shr _ 3", "shu 0 1234",
        "shu 0,1,2,3 -7", "shd 0,1,2,3 -7", "sumdec 1,2,0,4,3", "skewdec 5,3,4,1,0,2", "skewdec 5,1,2,0,3,4",
        "blocks 5,3,0,1,2,4,7,6", "blockpats 4,1,0,5,2,3", "maxblock 0,2,1,5,6,7,4,3", "simple 2,0,3,1",
        "simple 2,0,1", "ssimple 4,1,6,3,0,7,2,5", "children 2,0,1", "coveredby 0,1", "coveredby _", "children _",
        "mono both 2,6,3,7,4,5,1,0 F", "mono both 2,6,3,4,5,1,0 T", "mono both 0,1,2,3,4,5 F", "mono asc 1,0,2,3 T",
        "mono desc 0,2,1 F", "contract asc 1,0,5,3,4,2", "contract desc 1,0,5,3,4,2", "contract both 1,0,5,3,4,2",
        "mquot 0,2,1,5,6,4,3", "dsum 0 1,0;2,1,0", "ssum 0 0,1;2,1,0", "dsum _ -", "ssum _ -", "dsum 0 _;_;0",
        "compose 1,0,2 0,1,2;2,1,0", "compose 0,3,1,2 2,1,0,3", "compose 0,1 -", "compose 0,1 0", "compose _ _;_",
        "apply 4,1,2,0,3 1,2,3,4,5", "apply 0,1 5", "call 0,1 2", "call 0,1 -1", "blocks _", "blocks 0", "blocks 0,1",
        "blocks 0,1,2", "maxblock 0,1", "simple _", "simple 0", "simple 0,1", "law_dec _", "law_dec 0",
    ])
    # ---------------- exhaustive unary
    lines = []
    for n in range((7 if quick else 8) + 1):
        for p in perms(n):
            lines.extend(unary_lines(p))
    ctx.compare("exhaustive-unary", lines)
    # ---------------- exhaustive arguments
    lines = []
    for n in range(N + 1):
        for p in perms(n):
            if n <= NW:
                lines.extend(arg_lines(p, -2 * n - 1, 2 * n + 1, range(-2 * n - 1, 2 * n + 2)))
            else:
                lines.extend(arg_lines(p, -2, n + 2, list(range(-n - 1, n + 2)) + [2 * n, -2 * n, 2 * n + 1, -2 * n - 1]))
    ctx.compare("exhaustive-args", lines)
    # ---------------- shift laws
    lines = []
    for n in range(5 if quick else 6):
        for p in perms(n):
            for s in range(-n - 1, n + 2):
                for t in range(-n - 1, n + 2):
                    lines.append("law_shift %s %d %d" % (fseq(p), s, t))
    ctx.compare("exhaustive-shift-laws", lines)
    # ---------------- sums and composition
    upto4 = [p for k in range(5) for p in perms(k)]
    upto3 = [p for k in range(4) for p in perms(k)]
    lines = []
    for p in upto4:
        for q in upto4:
            fp, fq = fseq(p), fseq(q)
            lines.append("add %s %s" % (fp, fq))
            lines.append("sub %s %s" % (fp, fq))
            lines.append("mul %s %s" % (fp, fq))
            lines.append("dsum %s %s" % (fp, fseqs([q])))
            lines.append("ssum %s %s" % (fp, fseqs([q])))
            if len(p) == len(q):
                lines.append("apply %s %s" % (fp, fseq([3 * x + 1 for x in q])))
        lines.append("dsum %s -" % fseq(p))
        lines.append("ssum %s -" % fseq(p))
        lines.append("compose %s -" % fseq(p))
        lines.append("apply %s %s" % (fseq(p), fseq(range(len(p) + 1))))
    for p in upto3:
        for q in upto3:
            for r in upto3:
                lines.append("law_sum %s %s %s" % (fseq(p), fseq(q), fseq(r)))
                lines.append("dsum %s %s" % (fseq(p), fseqs([q, r])))
                lines.append("ssum %s %s" % (fseq(p), fseqs([q, r])))
                lines.append("compose %s %s" % (fseq(p), fseqs([q, r])))
    for n in range(5 if quick else 6):
        ps = list(perms(n))
        if n == 5:
            ps = rng.sample(ps, 40)
        for p in ps:
            for q in ps:
                for r in (ps if n <= 3 else rng.sample(ps, 6)):
                    lines.append("law_comp %s %s %s" % (fseq(p), fseq(q), fseq(r)))
    ctx.compare("exhaustive-sums-compose", lines)
    # ---------------- inflate
    comps2 = [None] + [p for k in range(3) for p in perms(k)]
    comps3 = comps2 + list(perms(3))
    lines = []
    for n in range(4):
        for p in perms(n):
            pool = comps3
            for cs in itertools.product(pool, repeat=n):
                lines.append("inflate %s %s" % (fseq(p), fcomps(cs)))
            # wrong number of components
            for m in (n - 1, n + 1):
                if m >= 0:
                    lines.append("inflate %s %s" % (fseq(p), fcomps([None] * m)))
                    lines.append("inflate %s %s" % (fseq(p), fcomps([(0,)] * m)))
    ctx.compare("exhaustive-inflate", lines)
    # ---------------- random structured
    R = 2500 if quick else 30000
    lines = []
    for _ in range(R):
        n = rng.randrange(5, 13)
        p = structured(rng, n)
        assert len(p) == n and _is_perm(p)
        fp = fseq(p)
        r = rng.random()
        if r < 0.35:
            for op in rng.sample(UNARY, 4):
                if op == "coveredby" and n > 9:
                    op = "children"
                lines.append("%s %s" % (op, fp))
            k = rng.choice(["both", "asc", "desc"])
            lines.append("mono %s %s %s" % (k, fp, rng.choice("TF")))
            lines.append("contract %s %s" % (k, fp))
        elif r < 0.55:
            i = rng.choice([0, n, n + 1, n - 1, rng.randrange(-2, n + 3), "N"])
            v = rng.choice([0, n, n - 1, rng.randrange(-2, n + 3), "N"])
            lines.append("insert %s %s %s" % (fp, i, v))
            lines.append("rt_insrem %s %s %s" % (fp, i, v))
            j = rng.choice([0, n - 1, -1, -n, n, -n - 1, rng.randrange(-n, n)])
            lines.append("remove %s %d" % (fp, j))
            lines.append("rt_remins %s %d" % (fp, j))
            lines.append("remel %s %d" % (fp, rng.choice([0, n - 1, n, -1, rng.randrange(n)])))
        elif r < 0.7:
            s = rng.choice([0, 1, -1, n, -n, n - 1, 1 - n, 2 * n + 1, -2 * n - 1, rng.randrange(-40, 40), 10 ** 12 + 7])
            t = rng.choice([0, 1, -1, n, -n, rng.randrange(-40, 40)])
            lines.append("law_shift %s %d %d" % (fp, s, t))
            lines.append("%s %s %d" % (rng.choice(["shr", "shl", "shu", "shd"]), fp, s))
        elif r < 0.85:
            q = structured(rng, n if rng.random() < 0.8 else rng.randrange(0, 8))
            u = structured(rng, n if rng.random() < 0.8 else rng.randrange(0, 8))
            if len(q) == n and len(u) == n:
                lines.append("law_comp %s %s %s" % (fp, fseq(q), fseq(u)))
            lines.append("compose %s %s" % (fp, fseqs([q, u][:rng.randrange(0, 3)])))
            lines.append("law_sum %s %s %s" % (fp, fseq(q), fseq(u)))
            lines.append("dsum %s %s" % (fp, fseqs([q, (), u, q][:rng.randrange(0, 5)])))
            lines.append("ssum %s %s" % (fp, fseqs([u, q, (), u][:rng.randrange(0, 5)])))
        else:
            m = rng.randrange(1, 7)
            base = structured(rng, m)
            cs = [rng.choice([None, (), (0,), structured(rng, rng.randrange(0, 5))]) for _ in range(m)]
            lines.append("inflate %s %s" % (fseq(base), fcomps(cs)))
    ctx.compare("random-structured", lines)
    # ---------------- sizes the other streams never reach (they stop at 12): 21-40, 64-70 and a handful of lines
    # around 200, 401 and 1000.  Left out where a side needs more than ~0.2 s a line (measured): coveredby from 64 on
    # (model 2 s at 70), the interval scans blocks / blockpats / maxblock / simple / ssimple from 200 on (model > 1 s),
    # children and the decomposition predicates (issum, isskew, law_dec: model 1.4-3.3 s) at 1000.
    lines = []
    for lo, hi, cnt in ((21, 40, 9), (64, 70, 4), (199, 202, 2), (400, 403, 1), (1000, 1000, 1)):
        for _ in range(cnt if quick else cnt * 6):
            n = rng.randrange(lo, hi + 1)
            p = structured(rng, n)
            fp = fseq(p)
            drop = set()
            if n > 40:
                drop |= {"coveredby"}
            if n > 150:
                drop |= {"blocks", "blockpats", "maxblock", "simple", "ssimple"}
            if n > 600:
                drop |= {"children", "issum", "isskew", "law_dec"}
            lines.extend(l for l in unary_lines(p) if l.split(" ")[0] not in drop)
            for i, v in ((0, 0), (n, n), (n + 1, 0), (n - 1, "N"), ("N", n - 1), (n // 2, n // 3), (n + 2, 0), (0, n + 1),
                         (-1, 0)):
                lines.append("insert %s %s %s" % (fp, i, v))
                lines.append("rt_insrem %s %s %s" % (fp, i, v))
            for j in (0, n - 1, -1, -n, n, -n - 1, n // 2):
                lines.append("remove %s %d" % (fp, j))
                lines.append("rt_remins %s %d" % (fp, j))
                lines.append("remel %s %d" % (fp, j))
                lines.append("call %s %d" % (fp, j))
            for t in (1, -1, n - 1, n, n + 1, -2 * n - 1, 10 ** 12 + 7):
                lines.append("%s %s %d" % (rng.choice(["shr", "shl", "shu", "shd"]), fp, t))
                lines.append("law_shift %s %d %d" % (fp, t, rng.choice([0, 1, -n, 7])))
            q, u = structured(rng, n), rand_perm(rng, n)
            short = structured(rng, rng.randrange(0, 6))
            lines.append("law_comp %s %s %s" % (fp, fseq(q), fseq(u)))
            lines.append("compose %s %s" % (fp, fseqs([q, u])))
            lines.append("compose %s %s" % (fp, fseqs([q, short])))
            lines.append("mul %s %s" % (fp, fseq(u)))
            lines.append("law_sum %s %s %s" % (fp, fseq(short), fseq(q)))
            lines.append("dsum %s %s" % (fp, fseqs([short, (), q])))
            lines.append("ssum %s %s" % (fp, fseqs([u, short])))
            lines.append("add %s %s" % (fseq(short), fp))
            lines.append("sub %s %s" % (fp, fseq(short)))
            lines.append("apply %s %s" % (fp, fseq([3 * x + 1 for x in u])))
            lines.append("apply %s %s" % (fp, fseq(range(n - 1))))
            # inflations: a long permutation with short components, a short one with long components
            lines.append("inflate %s %s" % (fp, fcomps(rng.choice([None, (), (0,), (1, 0), (0, 2, 1)]) for _ in range(n))))
            base = structured(rng, rng.randrange(2, 6))
            lines.append("inflate %s %s" % (fseq(base), fcomps(structured(rng, max(1, n // len(base))) for _ in base)))
            lines.append("inflate %s %s" % (fp, fcomps([None] * (n - 1))))
    ctx.compare("large", lines)
    # ---------------- malformed / glue
    lines = []
    for p in [(), (0,), (1, 0, 2)]:
        for k in ("add", "sub", "mul"):
            for o in ("int", "tuple", "none"):
                lines.append("opbad %s %s:%s" % (fseq(p), k, o))
        lines.append("compose %s %s" % (fseq(p), fseqs([p, p + (len(p),)])))
        lines.append("compose %s %s" % (fseq(p), fseqs([p + (len(p),), p])))
        lines.append("insert %s %d %d" % (fseq(p), len(p) + 2, 0))
        lines.append("insert %s %d %d" % (fseq(p), 0, len(p) + 1))
        lines.append("insert %s %d %d" % (fseq(p), -1, -1))
        lines.append("remove %s %d" % (fseq(p), len(p)))
        lines.append("remel %s %d" % (fseq(p), len(p)))
        lines.append("apply %s %s" % (fseq(p), fseq(range(len(p) + 2))))
        lines.append("call %s %d" % (fseq(p), len(p)))
    ctx.compare("malformed", lines)
