"""C17 - BiSC output describes its input: sound up to n, complete up to m, irredundant
(permuta/bisc/bisc.py, permuta/bisc/bisc_subfunctions.py)."""
import contextlib
import io
import itertools
from collections import defaultdict

from core import fseq, fseqs, fcells, fbool, pseq, pseqs, pcells, guarded
import used
import past

PROP = "C17"
RULE = ("exhaustive: every subset A of S_0..S_3 (2^10) x every 1<=m<=n<=3 x the three input representations "
        "(list/dict/predicate); random: A inside S_0..S_5 (densities 0.1-0.9, down-closed, avoidance classes, "
        "up-closed, classes of short mesh patterns, shipped families with a few members flipped; 30% shuffled) "
        "with m<=3 (4 thorough), n<=5, a few with n=6; the containment tests and maximal_mesh_pattern_of_occurrence also on "
        "permutations of length 9-12, 21-40, 64-70, ~200 (~401, ~1000) with occurrences planted at the ends; half of the "
        "bisc lines after a call with the same input object and a smaller n, then a larger n, then the caller's list "
        "changed in place and the returned dictionary emptied; every bisc line is judged by the brute-force oracle (sound/complete/"
        "irredundant on the implementation's own output, representation independence); judge/suff/cleanup lines "
        "carry the implementation's output and perturbed variants of it so that every verdict is seen False too; "
        "auto_bisc: properties 'avoids these 1-2 mesh patterns of length 2' given as functions (3 literal + 7 random, 40 "
        "thorough), each evaluated once on the implementation, judged by the oracle on S_0..S_8 and compared with the "
        "Lean model of auto_bisc under the choices of bases[0] that reproduce the answer; auto_bisc on LISTS (avoiders "
        "of 1-2 short patterns up to length N in 6..8, plus extra/repeated members, reversed) and on PAIRS of dictionaries "
        "(keys 0..NA, 0..NB, NA, NB in 0..8) including every way of returning None, compared the same way; "
        "non-trivial: bisc = the output has a learned pattern, mine = some recorded set is non-empty, judge/suff = "
        "the dictionary has a pattern, cleanup = a basis is returned, pcont/mcont = some shading is given; "
        "distinct = distinct op lines")
ASSUMPTIONS = [
    "model/implementation agreement outside the enumerated and sampled inputs is assumed",
    "CPython's iteration order of a set (`for b in lst0` in rec_w_reduce_pattern_pos) is not modelled: the model "
    "takes the first cell in list order; the canonicalised output is compared, which does not depend on the choice",
    "the dict representation is the plain dict {k: members of length k} for k = 0..max(n, longest member)",
    "stdout chatter of bisc/mine/clean_up/auto_bisc is discarded",
    "auto_bisc: which of the bases returned by clean_up the implementation takes (bases[0], CPython set order) is not "
    "predicted: the model is run under the choice function that makes it return the implementation's answer, if one "
    "exists (otherwise under 'always the first basis', and the line fails)",
    "clean_up is modelled on dictionaries whose shading lists are duplicate-free (as produced by forb); the "
    "numbering (length, pattern number, shading number) is replaced by the mesh pattern it denotes",
]
PARTIAL = [
    "auto_bisc for a property given as a FUNCTION is modelled (Model/C17Auto.lean: autoBisc fuel ch A B, the choice "
    "`bases[0]` - the only place where CPython's set order decides - is a parameter `ch`) and PROVED for every choice "
    "function: a returned description has passed both sanity checks up to the final L >= 8, hence avoiding it coincides "
    "with the property on every permutation of length <= 8 (C17.auto_bisc_returns_checked, auto_bisc_sound, auto_bisc_sound_from, "
    "auto_bisc_sound_spec with the specification's MeshContains, auto_bisc_returns_permutation_patterns); the only outcomes are such a description or a loop that is still running "
    "(auto_bisc_function_input_outcomes), more fuel never changes an answer (auto_bisc_fuel_independent), the Python "
    "loop does not terminate for the always-true property (auto_bisc_true_property_diverges; observed on the "
    "implementation too).  NOT proved: termination of auto_bisc for properties with a finite mesh-pattern description "
    "(the model is fuel-bounded; in particular that `ib += 1` / `n += 1; continue` cannot repeat for ever), and that "
    "CPython's bases[0] is one of the bases of the model's clean_up (the set of bases as sets of mesh patterns does "
    "not depend on the order of the shadings) - the latter is what the quick-tier stream auto-bisc-functions "
    "evaluates: the implementation's answer must be returned by the model under SOME choice function (the driver "
    "searches the choices and prints autoBisc under them)",
    "auto_bisc for a LIST and for a PAIR of dictionaries is modelled (Model/C17AutoSrc.lean: autoBiscSrc/autoBiscList/"
    "autoBiscPair with Source = function | list maxA | pair maxA maxB; the function source is proved equal to the old "
    "model, C17.auto_bisc_src_function) and compared with the implementation (streams auto-bisc-lists, auto-bisc-pairs); "
    "proved: a returned description passed both checks on the data present up to the final L >= 8 "
    "(auto_bisc_src_returns_checked, auto_bisc_list_sound, auto_bisc_pair_returns_checked), the outcomes "
    "(auto_bisc_src_outcomes: description / None at the start iff 8 is no key / None from the growth step only for "
    "list or pair / still running / exception), list source = function source on the same dictionaries unless the "
    "'longer list' exit is taken (auto_bisc_list_agrees_with_function).  NOT proved: that for the concrete list of all "
    "permutations of length <= N satisfying P the dictionaries listA/listB may be replaced by goodOf P/badOf P (they agree "
    "on the lengths <= N, the only ones read; needs a congruence of mine/clean_up in the dictionary); absence of "
    "run_clean_up exceptions for list/pair inputs; the pair source ASSUMES contiguous keys 0..maxA, 0..maxB (plain "
    "dictionaries with missing keys raise KeyError in the implementation, not modelled); the file-name (str) branch is "
    "not modelled; the shipped properties (`auto smooth` ...) are judged by the brute-force oracle only, thorough tier",
    "order independence is PROVED for the model (C17.list_order_independence, forb_mine_order_independence, "
    "hitting_order_independence, forb_choice_independence: every execution of forb - any free cell branched on in "
    "any call - on any rearrangement of the input prints the same canonical line); what stays correspondence-only is "
    "that CPython's actual choices are among the runs of the relation Model.C17.HitRun (B is some cell of lst0 outside "
    "forb) - evaluated on shuffled lists and on the implementation's real set order",
    "to_sg_format / run_clean_up error branches - correspondence only",
]
TRUSTED = [
    "Model.containsMesh (Model/Mesh.lean) is the mesh containment used by the Spec deciders; its agreement with "
    "the mesh-occurrence definition is C03's theorem, and the harness oracle re-derives it by brute force",
]

Perm = None
B = None  # module permuta.bisc.bisc
S = None  # module permuta.bisc.bisc_subfunctions
MeshPatt = None


def worker_init():
    global Perm, B, S, MeshPatt, PP
    from permuta import Perm as P, MeshPatt as MP
    import importlib
    b = importlib.import_module("permuta.bisc.bisc")
    s = importlib.import_module("permuta.bisc.bisc_subfunctions")
    pp = importlib.import_module("permuta.bisc.perm_properties")
    Perm, B, S, MeshPatt, PP = P, b, s, MP, pp


@contextlib.contextmanager
def quiet():
    with contextlib.redirect_stdout(io.StringIO()):
        yield


# ----------------------------------------------------------------------------- formats
def fshs(Rs):
    Rs = [sorted(tuple(c) for c in R) for R in Rs]
    return "-" if not Rs else "+".join(fcells(R) for R in sorted(Rs))


def pshs(s):
    return [] if s == "-" else [set(map(tuple, pcells(t))) for t in s.split("+")]


def flevel(d):
    items = sorted((tuple(p), v) for p, v in d.items())
    return "-" if not items else ";".join("%s/%s" % (fseq(p), fshs(v)) for p, v in items)


def fdict(SG):
    return "-" if not SG else "|".join("%d:%s" % (k, flevel(SG[k])) for k in sorted(SG))


def pdict(s, mk=tuple):
    SG = {}
    if s == "-":
        return SG
    for t in s.split("|"):
        k, l = t.split(":")
        lv = {}
        if l != "-":
            for e in l.split(";"):
                p, r = e.split("/")
                lv[mk(pseq(p))] = pshs(r)
        SG[int(k)] = lv
    return SG


def meshes(SG):
    return [(tuple(p), frozenset(R)) for k in sorted(SG) for p, Rs in SG[k].items() for R in Rs]


# ----------------------------------------------------------------------------- implementation side
def make_input(rep, A, n):
    if rep == "list":
        return list(A)
    if rep == "dict":
        K = max([n or 0] + [len(p) for p in A])
        return {k: [p for p in A if len(p) == k] for k in range(K + 1)}
    if rep == "pred":
        s = set(A)
        return lambda p: p in s
    if rep == "tuple":
        return tuple(A)              # not a list / function / dict: bisc asserts False
    raise ValueError(rep)


_cache = {}


def impl_bisc(rep, m, n, Atok):
    key = (rep, m, n, Atok)
    if key in _cache:
        return _cache[key]
    used.begin()
    box = {}

    def f(spoil=False):
        A = _PL(Atok)
        inp = used.obj(("input", rep), lambda: make_input(rep, A, n))
        box["inp"] = inp
        with quiet():
            res = B.bisc(inp, m, n)
        out = fdict(res)
        if spoil:
            used.spoil(res)         # the caller empties the dictionary it was handed
        return out
    hist = n is not None and n >= 1 and used.sel("bisc", [rep, str(m), str(n), Atok], 2)
    if hist and n >= 2:
        # call history on the SAME input object (the same function object / list / dictionary): first a call with
        # a smaller n ...
        used.T.rewind()
        A0 = _PL(Atok)
        inp0 = used.obj(("input", rep), lambda: make_input(rep, A0, n))
        with quiet():
            used.quiet(B.bisc, inp0, max(1, min(m, n - 1)), n - 1)
        used.T.rewind()
    r = guarded(lambda: f(spoil=hist))
    if hist:
        inp = box.get("inp")
        with quiet():
            if n <= 4 and inp is not None:
                used.quiet(B.bisc, inp, m, n + 1)          # ... then one with a larger n ...
            if isinstance(inp, list):
                # ... and the caller's list changed in place, passed again, changed back
                extra = Perm((0, 1)) if not any(tuple(p) == (0, 1) for p in inp) else Perm((1, 0, 2, 3, 4))
                inp.append(extra)
                used.quiet(B.bisc, inp, m, n)
                inp.pop()
    used.T.rewind()
    r2 = guarded(f)             # once more on the same permutation objects and the same input container
    if r2 != r:
        r = "ERR:" + used.unstable(r, r2)      # (an ERR: answer: run() and the oracle parse the answers of bisc lines)
    if len(_cache) > 64:
        _cache.clear()
    _cache[key] = r
    return r


def pn(tok):
    return None if tok == "N" else int(tok)


def _mk(p, salt):
    return past.mkperm(p, salt) if used.is_perm(p) and len(p) <= 410 else Perm(p)


def _PL(tok):
    """the permutations of a token as *used* objects (hashed, compared, searched with), built once per line; for a
    deterministic sixth of the tokens they have a longer past (used / derived from a used object by another API
    route: past.mkperm)"""
    if used.sel("PL", [tok], 6):
        return [used.obj(("P", i, p), lambda p=p, i=i: _mk(p, i)) for i, p in enumerate(pseqs(tok))]
    return [used.obj(("P", i, p), lambda p=p: Perm(p), lambda o: used.warm_perm(o, 0)) for i, p in enumerate(pseqs(tok))]


def _P1(tok):
    if used.sel("P1", [tok], 2):
        return used.obj(("P1", tok), lambda: _mk(pseq(tok), 7))
    return used.obj(("P1", tok), lambda: Perm(pseq(tok)), lambda o: used.warm_perm(o, 1))


def _SG(tok, reorder=False):
    """the learned patterns as the dictionary the token denotes; with reorder, on every second token the EQUAL
    dictionary whose length keys (and the patterns of each length) were inserted in the opposite order - a caller may
    have merged or re-keyed it, and the sanity checks may not depend on the insertion order (seed C17-11)"""
    def make():
        d = pdict(tok, mk=Perm)
        if reorder and used.digest("SG", [tok]) % 2 == 1:
            d = {k: dict(reversed(list(d[k].items()))) for k in reversed(list(d))}
        return d
    return used.obj(("SG", tok, reorder), make)


def impl(op, a):
    if op == "bisc":
        return impl_bisc(a[0], int(a[1]), pn(a[2]), a[3])
    if op in ("autolist", "autolistm", "autopair", "autopairm"):
        # `autolistm <patterns> <N> <rev> <extra> <answer>` / `autopairm <patterns> <NA> <NB> <answer>`: the same call
        # as `autolist` / `autopair` without the last token (only the Lean side reads the answer)
        base = op[:-1] if op.endswith("m") else op
        args = a[:4] if base == "autolist" else a[:3]
        key = (base,) + tuple(args)
        if key not in _auto_cache:
            if len(_auto_cache) > 32:
                _auto_cache.clear()
            _auto_cache[key] = _limited(lambda: _impl(base, args))
        return _auto_cache[key]
    if op in ("auto", "autom", "automodel"):
        # (the oracle judges the implementation's own answer: one evaluation per line and worker process)
        # `automodel <patterns> <answer>`: the same call as `autom <patterns>`; the second token is the answer the
        # implementation gave when the line was generated - only the Lean side reads it (it looks for choices of
        # `bases[0]` under which the model returns that answer)
        key = ("autom" if op == "automodel" else op, a[0])
        if key not in _auto_cache:
            if len(_auto_cache) > 32:
                _auto_cache.clear()
            _auto_cache[key] = _limited(lambda: _impl(key[0], a[:1]))
        return _auto_cache[key]
    used.begin()
    r1 = _impl(op, a)
    used.T.rewind()
    r2 = _impl(op, a)           # once more on the same permutation objects, dictionaries and learned patterns
    return r1 if r1 == r2 else "ERR:" + used.unstable(r1, r2)


_auto_cache = {}
AUTO_SECONDS = 600


class _Timeout(BaseException):
    pass


def _alarm(signum, frame):
    raise _Timeout()


def _limited(fn):
    """auto_bisc repeats learning and clean-up until a description fits: a regression in either can make it run for
    ever; the line then fails (ERR:Timeout, which the oracle rejects) instead of hanging the run.  A line takes a
    few seconds on the unchanged library."""
    import signal
    old = signal.signal(signal.SIGALRM, _alarm)
    signal.alarm(AUTO_SECONDS)
    try:
        return fn()
    except _Timeout:
        return "ERR:Timeout"
    finally:
        signal.alarm(0)
        signal.signal(signal.SIGALRM, old)


def _impl(op, a):
    if op == "mine":
        def f():
            A = _PL(a[2])

            def mk():
                D = defaultdict(list)
                for p in A:
                    D[len(p)].append(p)
                return D
            D = used.obj(("D",), mk)
            with quiet():
                ci, gp = S.mine(D, int(a[0]), int(a[1]))
            return "%s#%s" % (fseq(ci), fdict(gp))
        return guarded(f)
    if op == "judge":
        # the implementation's own sanity checkers / private containment tests
        def f():
            m, n = int(a[0]), int(a[1])
            A = _PL(a[2])
            SG = _SG(a[3])
            Ad = used.obj(("Ad",), lambda: {k: [p for p in A if len(p) == k] for k in range(n + 1)})
            As = set(A)
            Bd = used.obj(("Bd",), lambda: {k: [p for p in Perm.of_length(k) if p not in As] for k in range(m + 1)})
            with quiet():
                s = S.patterns_suffice_for_good(SG, n, Ad)[0]
                c = S.patterns_suffice_for_bad(SG, m, Bd)[0]
            irr = True
            for k in SG:
                for p, Rs in SG[k].items():
                    for R in Rs:
                        for r in R:
                            Q = set(R) - {r}
                            ok = any(S.perm_contains_cl_patt_many_shadings(s_, p, [Q])
                                     for kk in range(n + 1) for s_ in Ad[kk])
                            if not ok:
                                ok = any(S.mesh_contains_cl_patt_many_shadings(p, Q, p2, SG[k2][p2])
                                         for k2 in SG if k2 < k for p2 in SG[k2])
                            irr = irr and ok
            return fbool(s) + fbool(c) + fbool(irr)
        return guarded(f)
    if op == "pcont":
        return guarded(lambda: fbool(S.perm_contains_cl_patt_many_shadings(
            _P1(a[0]), _P1(a[1]), used.obj(("sh",), lambda: pshs(a[2])))))
    if op == "mcont":
        return guarded(lambda: fbool(S.mesh_contains_cl_patt_many_shadings(
            _P1(a[0]), pcells(a[1]), _P1(a[2]), used.obj(("sh",), lambda: pshs(a[3])))))
    if op == "maxmesh":
        return guarded(lambda: fcells(S.maximal_mesh_pattern_of_occurrence(_P1(a[0]), pseq(a[1]))))
    if op == "suff":
        def f():
            A = _PL(a[3])
            K = max([0] + [len(p) for p in A])
            D = used.obj(("D",), lambda: {k: [p for p in A if len(p) == k] for k in range(K + 1)})
            fn = S.patterns_suffice_for_good if a[0] == "good" else S.patterns_suffice_for_bad
            with quiet():
                val, lst = fn(_SG(a[4], True), int(a[1]), D, stop_on_failure=(a[2] == "T"))
            return "%s:%s" % (fbool(val), fseqs(lst))
        return guarded(f)
    if op == "cleanup":
        def f():
            bm, lim = int(a[0]), int(a[1])
            As = set(_PL(a[2]))
            Bd = used.obj(("Bd",), lambda: {k: [p for p in Perm.of_length(k) if p not in As] for k in range(bm + 1)})
            with quiet():
                bases, d = S.run_clean_up(_SG(a[3]), Bd, bm, limit_monitors=lim)
                res = sorted(fdict(S.to_sg_format(b, d)) for b in bases)
            return "&".join(res) or "none"
        return guarded(f)
    if op == "auto":
        def f():
            with quiet():
                r = B.auto_bisc(getattr(PP, a[0]))
            return "None" if r is None else fdict(r)
        return guarded(f)
    if op == "autom":
        # the automatic driver on a property given as a function: "avoids these mesh patterns"
        # (decided by the oracle's own brute-force containment, memoised per permutation)
        def f():
            prop = _mesh_prop(a[0])
            with quiet():
                r = B.auto_bisc(lambda perm: prop(tuple(perm)))
            return "None" if r is None else fdict(r)
        return guarded(f)
    if op == "autolist":
        # auto_bisc on a LIST: all avoiders of the mesh patterns of length <= N (Perm.of_length order), then `extra`
        def f():
            prop = _mesh_prop(a[0])
            lst = [p for k in range(int(a[1]) + 1) for p in Perm.of_length(k) if prop(tuple(p))]
            lst += [Perm(q) for q in pseqs(a[3])]
            if a[2] == "T":
                lst.reverse()
            with quiet():
                r = B.auto_bisc(lst)
            return "None" if r is None else fdict(r)
        return guarded(f)
    if op == "autopair":
        # auto_bisc on a PAIR of plain dictionaries with the keys 0..NA (avoiders) and 0..NB (the others)
        def f():
            prop = _mesh_prop(a[0])
            Ad = {k: [p for p in Perm.of_length(k) if prop(tuple(p))] for k in range(int(a[1]) + 1)}
            Bd = {k: [p for p in Perm.of_length(k) if not prop(tuple(p))] for k in range(int(a[2]) + 1)}
            with quiet():
                r = B.auto_bisc((Ad, Bd))
            return "None" if r is None else fdict(r)
        return guarded(f)
    raise ValueError("unknown op " + op)


_PROPS = {}


def _mesh_prop(spec):
    """spec: `perm/cells;perm/cells` -> memoised predicate 'avoids all of them' on tuples"""
    if spec not in _PROPS:
        ms = []
        for e in spec.split(";"):
            q, c = e.split("/")
            ms.append((pseq(q), frozenset(pcells(c))))
        memo = {}

        def prop(s):
            r = memo.get(s)
            if r is None:
                r = not any(len(q) <= len(s) and contains_mesh(s, q, R) for q, R in ms)
                memo[s] = r
            return r
        _PROPS[spec] = prop
    return _PROPS[spec]


# ----------------------------------------------------------------------------- oracle (property text, brute force)
def occs(p, s):
    """all occurrences of the classical pattern p in s: increasing index tuples, order-isomorphic"""
    k = len(p)
    for c in itertools.combinations(range(len(s)), k):
        if all((p[x] < p[y]) == (s[c[x]] < s[c[y]]) for x in range(k) for y in range(k)):
            yield c


def hit(s, c):
    """cells of the occurrence's grid that hold a point of s"""
    cs = set(c)
    return {(sum(1 for j in c if j < i), sum(1 for j in c if s[j] < s[i])) for i in range(len(s)) if i not in cs}


def contains_mesh(s, p, R):
    return any(not (hit(s, c) & R) for c in occs(p, s))


def mesh_in_mesh(p, Sh, q, R):
    """(p, Sh) contains (q, R): an occurrence of q in p such that the rectangle of p's grid under every cell of R
    is entirely shaded and holds no point of p"""
    N, k = len(p), len(q)
    for c in occs(q, p):
        cols = [-1] + list(c) + [N]
        vals = [-1] + sorted(p[i] for i in c) + [N]
        ok = True
        for (x, y) in R:
            if x > k or y > k:
                ok = False
                break
            c0, c1 = cols[x] + 1, cols[x + 1]   # grid columns c0..c1
            r0, r1 = vals[y] + 1, vals[y + 1]
            if any((u, v) not in Sh for u in range(c0, c1 + 1) for v in range(r0, r1 + 1)):
                ok = False
                break
            if any(c0 <= i < c1 and r0 <= p[i] < r1 for i in range(N)):
                ok = False
                break
        if ok:
            return True
    return False


def guarantees(A, m, n, SG):
    """(sound, complete, irredundant, witness) of the learned dictionary SG for the input set A"""
    ms = meshes(SG)
    As = set(A)
    good = [s for s in A if len(s) <= n]
    wit = ""
    sound = True
    for s in good:
        for (p, R) in ms:
            if contains_mesh(s, p, R):
                sound = False
                wit = wit or "unsound:%s contains %s/%s" % (fseq(s), fseq(p), fcells(R))
    complete = True
    for k in range(m + 1):
        for s in itertools.permutations(range(k)):
            if s not in As and not any(contains_mesh(s, p, R) for (p, R) in ms):
                complete = False
                wit = wit or "incomplete:%s" % fseq(s)
    irr = True
    for (p, R) in ms:
        for r in R:
            Q = R - {r}
            if any(contains_mesh(s, p, Q) for s in good):
                continue
            if any(len(q) < len(p) and mesh_in_mesh(p, Q, q, R2) for (q, R2) in ms):
                continue
            irr = False
            wit = wit or "redundant:%s/%s cell %d.%d" % (fseq(p), fcells(R), r[0], r[1])
    return sound, complete, irr, wit


def oracle(op, a):
    if op == "bisc":
        rep, m, n = a[0], int(a[1]), pn(a[2])
        out = impl_bisc(rep, m, n, a[3])
        A = [tuple(p) for p in pseqs(a[3])]
        wellformed = rep in ("list", "dict", "pred") and n is not None and 1 <= m <= n and len(set(A)) == len(A)
        if not wellformed:
            return None
        if out.startswith("ERR:"):
            return "a learned dictionary (the call must not raise for a finite set and 1<=m<=n)"
        s, c, i, wit = guarantees(A, m, n, pdict(out))
        if not (s and c and i):
            return "VIOLATES sound=%s complete=%s irredundant=%s %s" % (fbool(s), fbool(c), fbool(i), wit)
        if rep != "list":
            ref = impl_bisc("list", m, n, a[3])
            if ref != out:
                return "same output as the list representation: " + ref
        return out
    if op == "judge":
        A = [tuple(p) for p in pseqs(a[2])]
        s, c, i, _ = guarantees(A, int(a[0]), int(a[1]), pdict(a[3]))
        return fbool(s) + fbool(c) + fbool(i)
    if op == "pcont":
        s, p = pseq(a[0]), pseq(a[1])
        return fbool(any(contains_mesh(s, p, frozenset(R)) for R in pshs(a[2])))
    if op == "mcont":
        p, Sh, q = pseq(a[0]), set(pcells(a[1])), pseq(a[2])
        return fbool(any(mesh_in_mesh(p, Sh, q, R) for R in pshs(a[3])))
    if op == "maxmesh":
        s, c = pseq(a[0]), pseq(a[1])
        if list(c) != sorted(set(c)) or any(i >= len(s) for i in c):
            return None
        k = len(c)
        return fcells({(x, y) for x in range(k + 1) for y in range(k + 1)} - hit(s, c))
    if op in ("autolist", "autolistm", "autopair", "autopairm"):
        # a description can only be returned after it was checked against good AND bad permutations of every length
        # up to 8: without them the answer is None; a returned description must separate the given good permutations
        # from the others on S_0..S_8
        out = impl(op, a)
        if out == "ERR:Timeout":
            return "auto_bisc terminates (limit %d s)" % AUTO_SECONDS
        mp = _mesh_prop(a[0])
        if op.startswith("autolist"):
            N = int(a[1])
            extra = [tuple(q) for q in pseqs(a[3])]
            good = lambda s: (len(s) <= N and mp(tuple(s))) or tuple(s) in extra  # noqa: E731
            if not any(len(s) == 8 and good(s) for s in itertools.permutations(range(8))):
                return "None"
        else:
            good = lambda s: mp(tuple(s))  # noqa: E731
            if int(a[1]) < 8 or int(a[2]) < 8:
                return "None"
        if out == "None" or out.startswith("ERR:"):
            return None
        ms = meshes(pdict(out))
        for k in range(9):
            for s in itertools.permutations(range(k)):
                av = not any(len(q) <= k and contains_mesh(s, q, R) for q, R in ms)
                if av != bool(good(s)):
                    return "VIOLATES on %s: avoids returned patterns=%s, given as good=%s" % (fseq(s), fbool(av), fbool(not av))
        return out
    if op in ("auto", "autom", "automodel"):
        # "avoiding the returned patterns coincides with the property on every permutation up to length 8"
        out = impl(op, a)
        if out == "ERR:Timeout":
            return "auto_bisc terminates (a few seconds on the unchanged library; limit %d s)" % AUTO_SECONDS
        if out == "None" or out.startswith("ERR:"):
            return None
        ms = meshes(pdict(out))
        if op in ("autom", "automodel"):
            mp = _mesh_prop(a[0])
            prop = lambda perm: mp(tuple(perm))  # noqa: E731
        else:
            prop = getattr(PP, a[0])
        for k in range(9):
            for s in itertools.permutations(range(k)):
                av = not any(len(q) <= k and contains_mesh(s, q, R) for q, R in ms)
                if av != bool(prop(Perm(s))):
                    return "VIOLATES on %s: avoids returned patterns=%s, property=%s" % (fseq(s), fbool(av), fbool(not av))
        return out
    if op == "suff":
        kind, L, stop = a[0], int(a[1]), a[2] == "T"
        A = [tuple(p) for p in pseqs(a[3])]
        K = max([0] + [len(p) for p in A])
        if L > K:
            return None
        ms = meshes(pdict(a[4]))
        for k in range(L + 1):
            off = [p for p in A if len(p) == k and
                   (any(contains_mesh(p, q, R) for q, R in ms) == (kind == "good"))]
            if off:
                return "F:" + fseqs(off[:1] if stop else off)
        return "T:-"
    if op == "cleanup":
        out = impl(op, a)
        if out.startswith("ERR:") or out == "none":
            return None
        bm = int(a[0])
        As = set(tuple(p) for p in pseqs(a[2]))
        SG = pdict(a[3])
        lo = min(SG)
        for btok in out.split("&"):
            basis = meshes(pdict(btok))
            for L in range(lo + 1, bm + 1):
                for s in itertools.permutations(range(L)):
                    if s not in As and not any(contains_mesh(s, q, R) for q, R in basis):
                        return "VIOLATES basis %s has no pattern occurring in the tested bad perm %s" % (btok, fseq(s))
        return out
    if op == "mine":
        # A3 evaluated: every occurrence of every pattern in the mined range is covered by a recorded set,
        # and every recorded set is the hit set of a real occurrence (or the empty set of a member of A)
        m, n = int(a[0]), int(a[1])
        A = [tuple(p) for p in pseqs(a[2])]
        out = impl(op, a)
        if out.startswith("ERR:") or len(set(A)) != len(A):
            return None
        ci_tok, gp_tok = out.split("#")
        ci = list(pseq(ci_tok))
        if not ci:
            return out
        gp = pdict(gp_tok)
        lo, hi = min(ci), max(ci)
        for s in A:
            if not 1 <= len(s) <= n:
                continue
            for j in range(lo, min(hi, len(s)) + 1):
                for c in itertools.combinations(range(len(s)), j):
                    vals = [s[i] for i in c]
                    srt = sorted(vals)
                    p = tuple(srt.index(v) for v in vals)
                    h = hit(s, c)
                    if not any(R <= h for R in gp.get(j, {}).get(p, [])):
                        return "UNCOVERED occurrence %s of %s in %s" % (fseq(c), fseq(p), fseq(s))
        return out
    return None


def nontrivial(op, a, out):
    if op == "bisc":
        return "/" in out
    if op == "mine":
        return "." in out
    if op == "judge":
        return "/" in a[3]
    if op in ("pcont", "mcont"):
        return a[-1] != "-"
    if op == "cleanup":
        return out != "none" and not out.startswith("ERR:")
    if op == "suff":
        return "/" in a[4]
    return True


# ----------------------------------------------------------------------------- generators
def all_perms(k):
    return list(itertools.permutations(range(k)))


def contains_cl(s, p):
    return next(occs(p, s), None) is not None


def rand_set(rng, N, dens):
    return [p for k in range(N + 1) for p in all_perms(k) if rng.random() < dens]


def down_closed(rng, N):
    seeds = [p for k in range(N + 1) for p in all_perms(k) if rng.random() < rng.choice([0.02, 0.05, 0.15])]
    return [p for k in range(N + 1) for p in all_perms(k) if any(contains_cl(s, p) for s in seeds)]


def avoid_class(rng, N):
    basis = [tuple(rng.sample(range(k), k)) for k in [rng.randrange(2, 5) for _ in range(rng.randrange(1, 4))]]
    return [p for k in range(N + 1) for p in all_perms(k) if not any(contains_cl(p, b) for b in basis)]


def mesh_class(rng, N):
    pats = []
    for _ in range(rng.randrange(1, 3)):
        k = rng.randrange(1, 4)
        p = tuple(rng.sample(range(k), k))
        R = frozenset((x, y) for x in range(k + 1) for y in range(k + 1) if rng.random() < 0.3)
        pats.append((p, R))
    return [p for k in range(N + 1) for p in all_perms(k) if not any(contains_mesh(p, q, R) for q, R in pats)]


SHIPPED = ["smooth", "forest_like", "baxter", "simsun", "dihedral", "in_alternating_group", "yt_perm_avoids_22",
           "yt_perm_avoids_32", "av_231_and_mesh", "hard_mesh", "stack_sortable", "west_2_stack_sortable",
           "quick_sortable"]


def shipped_family(name, N):
    import importlib
    pp = importlib.import_module("permuta.bisc.perm_properties")
    from permuta import Perm as P
    f = getattr(pp, name, None)
    if f is None:
        return None
    return [p for k in range(N + 1) for p in all_perms(k) if f(P(p))]


def perturb(rng, SG):
    """a slightly wrong variant of a learned dictionary (cells stay inside the grid)"""
    SG = {k: {p: [set(R) for R in Rs] for p, Rs in lv.items()} for k, lv in SG.items()}
    entries = [(k, p, i) for k in SG for p in SG[k] for i in range(len(SG[k][p]))]
    if not entries:
        k = rng.randrange(1, 4)
        p = tuple(rng.sample(range(k), k))
        SG.setdefault(k, {})[p] = [set()]
        return SG
    k, p, i = rng.choice(entries)
    R = SG[k][p][i]
    mode = rng.randrange(4)
    if mode == 0 and R:
        R.discard(rng.choice(sorted(R)))
    elif mode == 1:
        R.add((rng.randrange(k + 1), rng.randrange(k + 1)))
    elif mode == 2:
        del SG[k][p][i]
        if not SG[k][p]:
            del SG[k][p]
    else:
        q = tuple(rng.sample(range(k), k))
        if set(R) not in SG[k].get(q, []):           # never the same shading twice under one pattern
            SG[k].setdefault(q, []).append(set(R))
    # a Python set cannot hold duplicates, the list of shadings of a pattern must not either
    for k in SG:
        for p in SG[k]:
            uniq = []
            for R in SG[k][p]:
                if R not in uniq:
                    uniq.append(R)
            SG[k][p] = uniq
    return SG


def monitors0(SG):
    """number of initial monitors clean_up would create"""
    if not SG:
        return 0
    n = 1
    for Rs in SG[min(SG)].values():
        n *= len(Rs)
    return n if SG[min(SG)] else 0


def cleanup_lines(rng, t, o, nmax):
    """clean-up and sanity-check lines for the input t = (m, n, A) with learned dictionary o"""
    res = []
    SG = pdict(o)
    n = int(t[1])
    for SGv in (SG, perturb(rng, SG)):
        entries = len(meshes(SGv))
        if monitors0(SGv) > 64 or entries > 16:
            continue                                  # clean_up is exponential in the number of shadings
        tok = fdict(SGv)
        ib = len(SGv[min(SGv)]) if SGv else 0
        bm = min(nmax, n + rng.randrange(0, 2))
        lim = rng.choice([0, 0, ib, ib + 1, 1, 2])
        if entries > 8 and (lim == 0 or lim > 3):
            lim = rng.choice([1, 2, 3])
        res.append("cleanup %d %d %s %s" % (bm, lim, t[2], tok))
        A = pseqs(t[2])
        As = set(A)
        comp = [p for k in range(bm + 1) for p in all_perms(k) if p not in As]
        res.append("suff good %d %s %s %s" % (rng.randrange(0, bm + 2), rng.choice("TF"), t[2], tok))
        res.append("suff bad %d %s %s %s" % (rng.randrange(0, bm + 2), rng.choice("TF"), fseqs(comp), tok))
    return res


AUTO_MODEL_SECONDS = 900


def _auto_model(line):
    """one `automodel` line on the Lean driver, in a process of its own (a line takes seconds: the standard path
    would evaluate the few lines of the stream one after the other in a single driver process)"""
    import subprocess
    import core
    try:
        p = subprocess.run([core.DRIVER], input=("%s %s\n" % (PROP, line)).encode(), stdout=subprocess.PIPE,
                           stderr=subprocess.PIPE, timeout=AUTO_MODEL_SECONDS)
    except subprocess.TimeoutExpired:
        return "model-timeout(%d s)" % AUTO_MODEL_SECONDS
    if p.returncode != 0:
        return "driver-crashed:rc=%s" % p.returncode
    return p.stdout.decode().rstrip("\n")


def auto_stream(ctx, stream, specs, op="autom", opm="automodel"):
    """auto_bisc on properties given as functions: each property is evaluated ONCE on the implementation (and judged by
    the oracle), the answer is put into the line `automodel <patterns> <answer>` and the Lean model says whether some
    choice of `bases[0]` makes it return that answer (it prints what it returns under those choices)."""
    import core
    import os
    import sys
    import time
    t0 = time.time()
    pre = [op + " " + sp for sp in specs]
    res = [r[0] for r in ctx.pool.map(core._eval_chunk, [[l] for l in pre])]
    t1 = time.time()
    lines = []
    for sp, (io, oo, nt) in zip(specs, res):
        lines.append("%s %s %s" % (opm, sp, io if (" " not in io and io) else "?"))
    mos = None
    if ctx.model_ok and core.driver_available():
        mos = list(ctx.pool.map(_auto_model, lines))
    if os.environ.get("VERIF_PROGRESS"):
        sys.stderr.write("[%6.0fs] stream %-32s %7d lines  impl+oracle %.0fs  model %.0fs\n" % (
            time.time() - ctx.t0, stream, len(lines), t1 - t0, time.time() - t1))
    for idx, (line, (io, oo, nt)) in enumerate(zip(lines, res)):
        ctx.record(stream, line, io, oo, nt, mos[idx] if mos is not None else None, sample=(idx % 4 == 0))


def _bisc_out(line):
    toks = line.split(" ")
    return impl("bisc", toks[1:])


def run(ctx):
    rng = ctx.rng
    thorough = ctx.tier == "thorough"
    ctx.exhaustive = True
    ctx.exhaustive_bound = ("op bisc: all 1024 subsets A of S_0..S_3 x all 1<=m<=n<=3 x {list, dict, pred}; "
                            "op judge: the implementation's output for each of them (list representation); "
                            "streams small-mine / small-cleanup sample the same domain")
    ctx.compare("corpus", [
        "bisc list 3 3 0;0,1;0,1,2;0,2,1", "bisc list 2 N 0;0,1;0,1,2", "bisc list 1 N -", "bisc dict 1 N -",
        "bisc dict 3 N 0;0,1", "bisc pred 2 N _;0;0,1;1,0;0,1,2", "bisc list 2 2 0;0;0,1", "bisc list 1 1 _;_",
        "bisc list 3 2 _;0;0,1;2,1,0", "bisc pred 3 2 _;0;0,1;2,1,0", "bisc dict 3 2 _;0;0,1;2,1,0",
        "bisc dict 4 2 _;0;0,1;2,1,0", "bisc list 0 3 0;0,1", "bisc list 0 0 -", "bisc list 2 3 _;0;0,1;1,0",
        "mine 3 3 0;0,1;0,1,2;0,2,1", "mine 2 4 _;0;0,1;0,1,2;0,1,2,3",
        "maxmesh 0 0", "maxmesh 0,1 0", "maxmesh 0,1 1", "maxmesh 1,0 0", "maxmesh 1,0 1", "maxmesh _ _",
        "pcont 0,2,1 1,0 0.0", "pcont 0,2,1 1,0 -", "pcont 0,2,1 1,0 _", "pcont _ _ 0.0", "pcont 0 _ 0.0+_",
        "cleanup 3 0 0;0,1;0,1,2;0,2,1 -", "cleanup 3 0 0;0,1 1:-|2:-", "cleanup 4 1 _;0;0,1;0,1,2;0,1,2,3 2:1,0/_",
        "cleanup 4 0 _;0;0,1;1,0;0,1,2;0,2,1;1,0,2;2,0,1;2,1,0 3:1,2,0/_|4:-",
        "suff good 2 F _;0;0,1 2:1,0/_", "suff good 3 F _;0;0,1 2:1,0/_", "suff bad 2 T 1,0;0,1 2:1,0/_",
        "mcont 1,0,2 _ 1,0 0.0", "mcont 1,0,2 0.0,0.1 1,0 0.0", "mcont 0,1 0.0 _ 0.0", "mcont _ 0.0 _ 0.0",
    ])
    # ---- exhaustive: all subsets of S_0..S_3
    S3 = [p for k in range(4) for p in all_perms(k)]
    lines = []
    for mask in range(1 << len(S3)):
        A = fseqs([S3[i] for i in range(len(S3)) if mask >> i & 1])
        for n in range(1, 4):
            for m in range(1, n + 1):
                for rep in ("list", "dict", "pred"):
                    lines.append("bisc %s %d %d %s" % (rep, m, n, A))
    ctx.compare("exhaustive-bisc", lines)
    jl = [l for l in lines if l.startswith("bisc list")]
    outs = list(ctx.pool.map(_bisc_out, jl, chunksize=64))
    judge = []
    for l, o in zip(jl, outs):
        t = l.split(" ")
        if o.startswith("ERR:"):
            continue
        judge.append("judge %s %s %s %s" % (t[2], t[3], t[4], o))
        if rng.random() < 0.25:
            judge.append("judge %s %s %s %s" % (t[2], t[3], t[4], fdict(perturb(rng, pdict(o)))))
    ctx.compare("exhaustive-judge", judge)
    cl = []
    for l, o in zip(jl, outs):
        t = l.split(" ")
        if not o.startswith("ERR:") and rng.random() < (0.5 if thorough else 0.12):
            cl.extend(cleanup_lines(rng, t[2:], o, 4))
    ctx.compare("small-cleanup", cl)
    ctx.compare("small-mine", ["mine %d %d %s" % (m, n, fseqs([S3[i] for i in range(10) if mask >> i & 1]))
                                    for mask in range(0, 1024, 1 if thorough else 3)
                                    for n in range(1, 4) for m in range(1, n + 1)])
    # ---- random: arbitrary sets inside S_0..S_5
    R = 700 if not thorough else 5000
    mmax = 4 if thorough else 3
    lines = []
    fams = []
    for name in SHIPPED:
        try:
            f = shipped_family(name, 5)
        except Exception:
            f = None
        if f is not None:
            fams.append(f)
    for f in fams:
        for n in (4, 5):
            for m in range(2, mmax + 1):
                if m <= n:
                    lines.append("bisc list %d %d %s" % (m, n, fseqs(f)))
    for idx in range(R):
        N = rng.choice([4, 5, 5])
        kind = rng.choice([0, 1, 2, 3, 4, 5, 6, 6, 6, 7])
        if kind <= 2:
            A = rand_set(rng, N, rng.choice([0.1, 0.2, 0.3, 0.5, 0.7, 0.8, 0.9]))
        elif kind == 3:
            A = down_closed(rng, N)
        elif kind == 4:
            A = avoid_class(rng, N)
        elif kind == 5:
            Dn = set(down_closed(rng, N) if rng.random() < 0.5 else avoid_class(rng, N))
            A = [p for k in range(N + 1) for p in all_perms(k) if p not in Dn]       # up-closed
        elif kind == 6:
            A = mesh_class(rng, N)
        else:
            # a family with a few members flipped: almost a class
            A = set(rng.choice(fams)) if fams else set(avoid_class(rng, N))
            A = {p for p in A if len(p) <= N}
            for _ in range(rng.randrange(1, 4)):
                k = rng.randrange(0, N + 1)
                A ^= {tuple(rng.sample(range(k), k))}
            A = sorted(A, key=lambda p: (len(p), p))
        if rng.random() < 0.3:
            A = list(A)
            rng.shuffle(A)
        n = rng.randrange(2, N + 1)
        m = rng.randrange(1, min(mmax, n) + 1)
        if kind == 6:
            # classes of short mesh patterns: the branch pruning by shorter learned patterns fires here
            n = rng.randrange(3, N + 1)
            m = rng.randrange(3, min(mmax, n) + 1)
        rep = rng.choice(["list", "list", "dict", "pred"])
        lines.append("bisc %s %d %d %s" % (rep, m, n, fseqs(A)))
    ctx.compare("random-bisc", lines)
    jl = [l for l in lines]
    outs = list(ctx.pool.map(_bisc_out, jl, chunksize=4))
    judge, mine = [], []
    for l, o in zip(jl, outs):
        t = l.split(" ")
        if o.startswith("ERR:"):
            continue
        judge.append("judge %s %s %s %s" % (t[2], t[3], t[4], o))
        judge.append("judge %s %s %s %s" % (t[2], t[3], t[4], fdict(perturb(rng, pdict(o)))))
        if rng.random() < 0.5:
            mine.append("mine %s %s %s" % (t[2], t[3], t[4]))
    ctx.compare("random-judge", judge)
    ctx.compare("random-mine", mine)
    cl = []
    for l, o in zip(jl, outs):
        t = l.split(" ")
        if not o.startswith("ERR:"):
            cl.extend(cleanup_lines(rng, t[2:], o, 5))
    ctx.compare("random-cleanup", cl)
    # ---- private containment tests and maximal_mesh_pattern_of_occurrence
    lines = []
    for n in range(0, 5):
        for s in all_perms(n):
            for k in range(0, min(n, 3) + 1):
                for c in itertools.combinations(range(n), k):
                    lines.append("maxmesh %s %s" % (fseq(s), fseq(c)))
    for _ in range(800 if not thorough else 8000):
        k = rng.randrange(0, 4)
        p = tuple(rng.sample(range(k), k))
        n = rng.randrange(k, 7)
        s = tuple(rng.sample(range(n), n))
        Rs = [{(x, y) for x in range(k + 1) for y in range(k + 1) if rng.random() < rng.choice([0.1, 0.3, 0.6])}
              for _ in range(rng.randrange(0, 4))]
        lines.append("pcont %s %s %s" % (fseq(s), fseq(p), fshs(Rs)))
        n2 = rng.randrange(k, 6)
        s2 = tuple(rng.sample(range(n2), n2))
        Sh = {(x, y) for x in range(n2 + 1) for y in range(n2 + 1) if rng.random() < rng.choice([0.3, 0.6, 0.9])}
        Rs2 = [{(x, y) for x in range(k + 1) for y in range(k + 1) if rng.random() < rng.choice([0.1, 0.3])}
               for _ in range(rng.randrange(1, 3))]
        lines.append("mcont %s %s %s %s" % (fseq(s2), fcells(Sh), fseq(p), fshs(Rs2)))
    ctx.compare("containment-tests", lines)
    # ---- sizes the streams above never reach: the containment tests and the maximal mesh pattern of an occurrence in
    #      LONG permutations (9-12, 21-40, 64-70, ~200; the maximal mesh pattern also ~401 and ~1000): occurrences planted
    #      at the very beginning / end, shaded cells in the boundary rows and columns, one point put into / just outside
    #      a shaded cell near an end; and BiSC itself on a few sets inside S_0..S_6 (n = 6)
    lines = []
    f = 1 if not thorough else 8
    for lo, hi, cnt in ((9, 12, 250 * f), (21, 40, 160 * f), (64, 70, 60 * f), (190, 210, 24 * f), (395, 405, 8 * f), (995, 1005, 4 * f)):
        for _ in range(cnt):
            n = rng.randrange(lo, hi + 1)
            k = rng.randrange(1, 4) if hi <= 40 else rng.randrange(1, 3) if hi <= 70 else 1   # (cubic in the length for three points)
            s = list(rng.sample(range(n), n))
            # an occurrence with prescribed ends
            c = sorted(rng.sample(range(n), k))
            r = rng.random()
            if r < 0.3:
                c[0] = 0
            elif r < 0.6:
                c[-1] = n - 1
            c = sorted(set(c))
            k = len(c)
            vals = [s[i] for i in c]
            srt = sorted(vals)
            p = tuple(srt.index(v) for v in vals)
            lines.append("maxmesh %s %s" % (fseq(s), fseq(c)))
            if hi > 210:
                continue
            full = {(x, y) for x in range(k + 1) for y in range(k + 1)}
            free = full - hit(s, c)
            border = {(x, y) for (x, y) in full if x in (0, k) or y in (0, k)}
            Rs = []
            for _ in range(rng.randrange(1, 4)):
                q = rng.random()
                if q < 0.35:
                    R = set(free)                              # the maximal shading of this occurrence: contained
                elif q < 0.6 and free != full:
                    R = set(free) | {rng.choice(sorted(full - free))}       # one cell too many for THIS occurrence
                elif q < 0.8:
                    R = {x for x in border if rng.random() < 0.5}
                else:
                    R = {x for x in full if rng.random() < 0.3}
                Rs.append(R)
            lines.append("pcont %s %s %s" % (fseq(s), fseq(p), fshs(Rs)))
            if hi <= 40 and (n <= 24 or k <= 2) and rng.random() < 0.4:
                Sh = {(x, y) for x in range(n + 1) for y in range(n + 1) if rng.random() < rng.choice([0.6, 0.9, 0.97])}
                Rs2 = [{x for x in full if rng.random() < 0.2} for _ in range(rng.randrange(1, 3))]
                lines.append("mcont %s %s %s %s" % (fseq(s), fcells(Sh), fseq(p), fshs(Rs2)))
    for _ in range(10 if not thorough else 120):
        A = rng.choice([avoid_class, mesh_class, down_closed])(rng, 6)
        if rng.random() < 0.3:
            A = list(A)
            rng.shuffle(A)
        m = rng.randrange(2, 4)
        lines.append("bisc %s %d 6 %s" % (rng.choice(["list", "dict", "pred"]), m, fseqs(A)))
    rng.shuffle(lines)
    ctx.compare("large", lines)
    # ---- the automatic driver on cheap shipped properties (not modelled in Lean: oracle only)
    if thorough:
        ctx.compare("auto-bisc", ["auto smooth", "auto forest_like", "auto baxter", "auto simsun"], use_model=False)
    # properties given as functions ("avoids these short mesh patterns"), including ones where a basis chosen
    # from the bad permutations seen so far is insufficient for a longer bad permutation
    lines = ["autom 1,0/0.0,0.1,1.1,2.2;1,0/0.0,1.2,2.1,2.2", "autom 0,1/0.0,1.1;1,0/2.2", "autom 0,1/1.1"]
    for _ in range(7 if not thorough else 40):
        ms = []
        for _ in range(rng.randrange(1, 3)):
            q = rng.choice([(0, 1), (1, 0)])
            cells = [(x, y) for x in range(3) for y in range(3) if rng.random() < rng.choice((0.3, 0.45))]
            ms.append("%s/%s" % (fseq(q), fcells(cells)))
        lines.append("autom " + ";".join(ms))
    auto_stream(ctx, "auto-bisc-functions", [l.split(" ", 1)[1] for l in lines])
    # ---- the automatic driver on a LIST and on a PAIR of dictionaries (the inputs that can give up with None);
    # the good sets are kept small: line 75 of bisc.py tests `perm not in A[i]` for every permutation of length i
    L = ["1,0/_ 8 F -", "1,0/_ 8 T -", "0,1/1.1 8 F -", "1,0/_ 7 F -", "0,1/0.0,1.1;1,0/2.2 8 F -",
         "1,0/_ 8 F 1,0,2,3,4,5,6,7", "1,0/_ 8 T 0,1", "1,0/_ 8 F 1,0;0,1,2", "1,0/_ 7 F 1,0,2,3,4,5,6,7",
         "0,1/_ 8 F 0,1,2,3,4,5,6,7,8", "0,1/_ 6 F 7,6,5,4,3,2,1,0;7,6,5,4,3,2,1,0"]
    P = ["1,0/0.0,1.1,2.2 8 8", "0,1/0.0,1.1;1,0/2.2 8 8", "1,0/_ 8 8", "1,0/_ 7 8",
         "1,0/_ 8 3", "1,0/_ 8 7", "0,1/1.1 8 0", "0,1/_;1,0/_ 8 8", "1,0/_ 0 0"]
    for _ in range(2 if not thorough else 12):
        q = rng.choice([(0, 1), (1, 0)])
        cells = [(x, y) for x in range(3) for y in range(3) if rng.random() < 0.3]
        P.append("%s/%s %d %d" % (fseq(q), fcells(cells), rng.choice((8, 8, 7)), rng.choice((8, 8, 8, 5))))
    if thorough:
        L += ["1,0/0.0,0.1,1.1,2.2;1,0/0.0,1.2,2.1,2.2 8 F -", "1,0/0.1 8 F -"]
        P += ["1,0/0.0,0.1,1.1,2.2;1,0/0.0,1.2,2.1,2.2 8 8"]
    auto_stream(ctx, "auto-bisc-lists", L, op="autolist", opm="autolistm")
    auto_stream(ctx, "auto-bisc-pairs", P, op="autopair", opm="autopairm")
    # ---- malformed / outside the stated precondition (model correspondence only)
    lines = []
    for _ in range(60 if not thorough else 400):
        A = rand_set(rng, 3, rng.choice([0.3, 0.6]))
        if A and rng.random() < 0.5:
            A = A + [rng.choice(A)]                     # duplicate member in a list
        m = rng.randrange(0, 5)
        n = rng.choice(["N", "0", "1", "2", "3"])
        rep = rng.choice(["list", "dict", "pred"]) if n != "N" else rng.choice(["list", "dict"])
        lines.append("bisc %s %d %s %s" % (rep, m, n, fseqs(A)))
    lines += ["bisc tuple 1 1 0", "bisc tuple 2 N -", "maxmesh 0,1 1,0", "maxmesh 0,1 0,0", "maxmesh 1,0,2 2,0",
              "maxmesh 0 0,0,0", "cleanup 3 0 0 -", "cleanup 3 2 0 1:-", "suff good 9 T 0;0,1 2:1,0/_",
              "suff bad 0 F - -", "pcont 0,1 0,1,2 _", "mcont 0 _ 0,1 _", "judge 0 0 - -", "mine 0 0 _", "mine 3 1 0;0,1,2"]
    ctx.compare("malformed", lines)
