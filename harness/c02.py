"""C02 - Av(basis) reports exactly the avoiders, independent of query history (permset.py, basis.py).

One line = one process history: `avhist op|op|...`, ops:
  N:<c>:<basis>   create class <c> from patterns (';'-separated; 'perm/cells' = mesh pattern)
  S:<c>:<digits_digits>  Av.from_string
  X               Av.clear_cache()
  C:<c>:<n> count   L:<c>:<n> of_length   I:<c>:<perm> membership   U:<c>:<n> up_to_length
  E:<c>:<n> enumeration   F:<c>:<k> first k   B:<a>:<b> a.is_subclass(b)   K:<c> cache keys per level
  O:<it>:<c>:<L|U|F>:<arg> open iterator   T:<it>:<k> take k   D:<it> drain (reports everything it ever yielded)
"""
import itertools

from core import fseq, fseqs, fbool, pseq, guarded, ferr

PROP = "C02"
SHRINK_SEP = "|"
RULE = ("histories of class constructions, queries and partially consumed iterators; exhaustive family: every basis of 1-2 "
        "patterns of length<=3 x every order of 3 query lengths in 0..6; random histories of <=30 ops over <=3 live classes "
        "(equal bases given in different orders/with redundant elements, from_string 0-/1-based, clear_cache, mesh bases) with "
        "<=4 open iterators; non-trivial = the history queries some level >= 2 of a class; distinct = distinct history lines")
ASSUMPTIONS = [
    "model/implementation agreement outside the enumerated and sampled histories is assumed",
    "for mesh bases the line carries the RAW input patterns: the implementation builds its MeshBasis, the model goes through the C05 model of that construction, the oracle avoids the raw patterns",
    "order of permutations inside one level is not compared (canonical forms sort complete levels)",
]
PARTIAL = ["the driver's string layer and iterator registry (parsing, canonical printing, St.yielded) is glue: the Proc-level "
           "statements (av_refines_spec, first_correct, upTo_iter_correct, iterTake_pieces) are proved, the glue is evaluated"]
TRUSTED = ["dict insertion order / frozenset iteration order are not relied on: outputs are order-insensitive canonical forms"]

MAXLEN_ORACLE = 9


def worker_init():
    global Perm, MeshPatt, Av, Basis, MeshBasis
    from permuta import Av as A, Basis as B, MeshBasis as MB, MeshPatt as M, Perm as P
    Perm, MeshPatt, Av, Basis, MeshBasis = P, M, A, B, MB


# ------------------------------------------------------------------ canonical forms
def runs(items):
    out = []
    for p in items:
        if out and len(out[-1][0]) == len(p):
            out[-1].append(p)
        else:
            out.append([p])
    return out


def canon_full(items):
    items = [tuple(p) for p in items]
    if not items:
        return "-"
    return "/".join(fseqs(sorted(r)) for r in runs(items))


def canon_partial(items, member):
    items = [tuple(p) for p in items]
    rs = runs(items)
    if not rs:
        return "-"
    last = rs[-1]
    flag = len(set(last)) == len(last) and all(member(p) for p in last)
    return "/".join([fseqs(sorted(r)) for r in rs[:-1]] + ["%d*%d!%s" % (len(last[0]), len(last), fbool(flag))])


def canon_counts(items, member):
    items = [tuple(p) for p in items]
    if not items:
        return "-"
    flag = len(set(items)) == len(items) and all(member(p) for p in items)
    return "/".join("%d*%d" % (len(r[0]), len(r)) for r in runs(items)) + "!" + fbool(flag)


# ------------------------------------------------------------------ independent oracle
def parse_basis(s):
    """-> list of ('c', perm) / ('m', perm, frozenset(cells))"""
    out = []
    if s == "-":
        return out
    for e in s.split(";"):
        if "/" in e:
            p, c = e.split("/")
            cells = frozenset() if c == "_" else frozenset(tuple(int(z) for z in t.split(".")) for t in c.split(","))
            out.append(("m", pseq(p), cells))
        else:
            out.append(("c", pseq(e)))
    return out


def _argsort(v):
    return tuple(sorted(range(len(v)), key=v.__getitem__))


def contains_patt(s, patt):
    """from the definition (classical or mesh): search for indices i_0 < ... < i_{k-1} such that the
    chosen entries are order-isomorphic to the pattern (checked pairwise as the tuple grows) and, for a
    mesh pattern, no other point lies in a shaded cell"""
    p = patt[1]
    k = len(p)
    n = len(s)
    if k > n:
        return False
    shading = patt[2] if patt[0] == "m" else None
    idx = [0] * k

    def ok_mesh():
        cset = set(idx)
        svals = sorted(s[i] for i in idx)
        for j in range(n):
            if j in cset:
                continue
            x = sum(1 for i in idx if i < j)
            y = sum(1 for v in svals if v < s[j])
            if (x, y) in shading:
                return False
        return True

    def rec(j, start):
        if j == k:
            return True if not shading else ok_mesh()
        for i in range(start, n - (k - j) + 1):
            v = s[i]
            good = True
            for a in range(j):
                if (p[a] < p[j]) != (s[idx[a]] < v):
                    good = False
                    break
            if good:
                idx[j] = i
                if rec(j + 1, i + 1):
                    return True
        return False

    return rec(0, 0)


_LEVELS = {}


def level(bkey, basis, n):
    key = (bkey, n)
    r = _LEVELS.get(key)
    if r is None:
        if len(_LEVELS) > 4000:
            _LEVELS.clear()
        allc = all(b[0] == "c" for b in basis)
        if allc and n > 0 and (bkey, n - 1) in _LEVELS and n >= 1:
            # classical classes are closed under deletion: candidates are one-point extensions at
            # the end of avoiders of length n-1 (an independent shortcut of the brute force, used
            # only to keep the oracle fast; membership is still decided by brute-force containment)
            cands = []
            for q in _LEVELS[(bkey, n - 1)]:
                for v in range(n):
                    cands.append(tuple(x if x < v else x + 1 for x in q) + (v,))
        else:
            cands = itertools.permutations(range(n))
        r = sorted(p for p in cands if not any(contains_patt(p, b) for b in basis))
        _LEVELS[key] = r
    return r


def level_seq(bkey, basis, n):
    for i in range(n + 1):
        level(bkey, basis, i)
    return level(bkey, basis, n)


class OracleClass:
    def __init__(self, basis_str, basis):
        self.key = basis_str
        self.basis = basis

    def level(self, n):
        return level_seq(self.key, self.basis, n)

    def member(self, p):
        return not any(contains_patt(tuple(p), b) for b in self.basis)


def std_digits(g):
    vals = [int(c) for c in g]
    srt = sorted(range(len(vals)), key=lambda i: (vals[i], i))
    res = [0] * len(vals)
    for r, i in enumerate(srt):
        res[i] = r
    return tuple(res)


def oracle_hist(ops):
    classes = {}
    iters = {}
    outs = []
    for op in ops:
        f = op.split(":")
        k = f[0]
        try:
            if k in ("N", "S"):
                if k == "N":
                    basis = parse_basis(f[2])
                else:
                    basis = [("c", std_digits(g)) for g in f[2].split("_") if g]
                if not basis or any(len(b[1]) == 0 and b[0] == "c" for b in basis):
                    # an empty basis / a basis containing the empty permutation is rejected
                    outs.append("ERR:ValueError")
                    continue
                classes[f[1]] = OracleClass(";".join(sorted(repr(b) for b in basis)), basis)
                outs.append("ok")
            elif k == "X":
                outs.append("ok")
            elif k == "C":
                outs.append(str(len(classes[f[1]].level(int(f[2])))))
            elif k == "L":
                outs.append(canon_full(classes[f[1]].level(int(f[2]))))
            elif k == "I":
                outs.append(fbool(classes[f[1]].member(pseq(f[2]))))
            elif k == "U":
                c = classes[f[1]]
                outs.append(canon_full([p for i in range(int(f[2]) + 1) for p in c.level(i)]))
            elif k == "E":
                c = classes[f[1]]
                outs.append(fseq(len(c.level(i)) for i in range(int(f[2]) + 1)))
            elif k == "F":
                c = classes[f[1]]
                outs.append(canon_partial(first_k(c, int(f[2])), c.member))
            elif k == "B":
                a, b = classes[f[1]], classes[f[2]]
                if any(x[0] == "m" for x in a.basis):
                    # subclass tests with a mesh basis on the left are declared unsupported
                    outs.append("ERR:NotImplementedError")
                    continue
                bound = max([len(x[1]) for x in a.basis + b.basis] + [5])
                ok = all(b.member(p) for n in range(bound + 1) for p in a.level(n))
                outs.append(fbool(ok))
            elif k == "K":
                outs.append(None)   # introspection: the property does not determine how far the cache extends
            elif k == "O":
                c = classes[f[2]]
                arg = int(f[4])
                if f[3] == "L":
                    seq = list(c.level(arg))
                elif f[3] == "U":
                    seq = [p for i in range(arg + 1) for p in c.level(i)]
                else:
                    seq = first_k(c, arg)
                iters[f[1]] = [c, seq, 0]
                outs.append("ok")
            elif k == "T":
                it = iters[f[1]]
                n = int(f[2])
                chunk = it[1][it[2]:it[2] + n]
                it[2] += len(chunk)
                outs.append(canon_counts(chunk, it[0].member))
            elif k == "D":
                it = iters[f[1]]
                it[2] = len(it[1])
                outs.append(canon_partial(it[1], it[0].member))
            else:
                outs.append("?")
        except KeyError:
            outs.append("ERR:KeyError")
    return outs


MESH_FIRST_BOUND = 6


def first_k(c, k):
    """the k smallest members in (length, lex) order.  A classical class is closed under deletion, so
    an empty level ends it; a mesh class may have an empty level followed by non-empty ones, so the
    search continues (up to MESH_FIRST_BOUND, which the generators respect)"""
    res = []
    n = 0
    mesh = any(b[0] == "m" for b in c.basis)
    while len(res) < k:
        lv = c.level(n)
        if not lv:
            if not mesh or n >= MESH_FIRST_BOUND:
                break
        res.extend(lv)
        n += 1
    return res[:k]


def mesh_gap(basis_str, upto=5):
    """does this mesh class have an empty level followed by a non-empty one (within `upto`)?"""
    basis = parse_basis(basis_str)
    oc = OracleClass(";".join(sorted(repr(b) for b in basis)), basis)
    sizes = [len(oc.level(i)) for i in range(upto + 1)]
    seen_empty = False
    for s in sizes:
        if s == 0:
            seen_empty = True
        elif seen_empty:
            return True
    return False


# ------------------------------------------------------------------ implementation side
def to_patt(b):
    if b[0] == "c" or not b[2]:
        return Perm(b[1])          # an element without shading is a classical pattern of the (mixed) input
    return MeshPatt(Perm(b[1]), b[2])


def impl_hist(ops):
    Av.clear_cache()
    classes = {}
    members = {}
    iters = {}
    outs = []
    for op in ops:
        f = op.split(":")
        k = f[0]

        def run():
            if k == "N":
                basis = parse_basis(f[2])
                patts = [to_patt(b) for b in basis]
                mode = sum(len(x[1]) for x in basis) % 3
                if mode == 0 or any(b[0] == "m" for b in basis):
                    arg = list(patts)
                    av = Av.from_iterable(arg)
                    arg.append(Perm((0,)))      # the caller's list changes afterwards: the class must not
                    arg.clear()
                elif mode == 1:
                    av = Av(Basis(*patts))
                else:
                    av = Av(tuple(patts))
                classes[f[1]] = av
                members[f[1]] = OracleClass("", basis).member
                return "ok"
            if k == "S":
                av = Av.from_string(f[2])
                classes[f[1]] = av
                members[f[1]] = OracleClass("", [("c", std_digits(g)) for g in f[2].split("_") if g]).member
                return "ok"
            if k == "X":
                Av.clear_cache()
                return "ok"
            if k == "C":
                return str(classes[f[1]].count(int(f[2])))
            if k == "L":
                return canon_full(classes[f[1]].of_length(int(f[2])))
            if k == "I":
                return fbool(Perm(pseq(f[2])) in classes[f[1]])
            if k == "U":
                return canon_full(classes[f[1]].up_to_length(int(f[2])))
            if k == "E":
                # the caller empties the returned list; a repeated call must not be affected
                r1 = classes[f[1]].enumeration(int(f[2]))
                keep = list(r1)
                r1.clear()
                r2 = classes[f[1]].enumeration(int(f[2]))
                return fseq(keep) if list(r2) == keep else "UNSTABLE:%s|%s" % (fseq(keep), fseq(r2))
            if k == "F":
                return canon_partial(classes[f[1]].first(int(f[2])), members[f[1]])  # f[3] (tag) unused
            if k == "B":
                return fbool(classes[f[1]].is_subclass(classes[f[2]]))
            if k == "K":
                # introspection of the level cache.  HOW FAR the cache extends after a history is the implementation's
                # business (a fast path may answer without building a level): what is compared with the model is that
                # every level that IS there is right - level i holds permutations of length i, no repetition, members
                # only, and (i <= 7) all of them
                member = members[f[1]]
                ok = True
                for i, lv in enumerate(classes[f[1]].cache):
                    keys = [tuple(p) for p in lv]
                    ok = ok and len(set(keys)) == len(keys) and all(len(q) == i and member(q) for q in keys)
                    if ok and i <= 7:
                        ok = len(keys) == sum(1 for q in itertools.permutations(range(i)) if member(q))
                return "K!" + fbool(ok)
            if k == "O":
                av = classes[f[2]]
                arg = int(f[4])
                if f[3] == "L":
                    it = iter(av.of_length(arg))
                elif f[3] == "U":
                    it = iter(av.up_to_length(arg))
                else:
                    it = iter(av.first(arg))
                iters[f[1]] = [it, [], members[f[2]]]
                return "ok"
            if k == "T":
                it = iters[f[1]]
                chunk = list(itertools.islice(it[0], int(f[2])))
                it[1].extend(chunk)
                return canon_counts(chunk, it[2])
            if k == "D":
                it = iters[f[1]]
                it[1].extend(it[0])
                return canon_partial(it[1], it[2])
            return "?"
        outs.append(guarded(run))
    return outs


def impl(op, a):
    if op == "basis":
        from core import pseqs
        return guarded(lambda: fseqs(Basis(*[Perm(p) for p in pseqs(a[0])])))
    ops = a[0].split("|")
    iouts = impl_hist(ops)
    return "|".join(iouts)


def oracle(op, a):
    if op == "basis":
        return None
    ops = a[0].split("|")
    oouts = oracle_hist(ops)
    iouts = impl_hist(ops) if any(o is None for o in oouts) else None
    # ops whose answer the property does not determine (K) are filled from the implementation
    return "|".join(o if o is not None else iouts[i] for i, o in enumerate(oouts))


def nontrivial(op, a, out):
    if op == "basis":
        return ";" in a[0]
    for o in a[0].split("|"):
        f = o.split(":")
        if f[0] in ("C", "L", "U", "E") and int(f[2]) >= 2:
            return True
        if f[0] == "I" and len(pseq(f[2])) >= 2:
            return True
        if f[0] in ("F",) and int(f[2]) >= 3:
            return True
        if f[0] == "O":
            return True
    return False


# ------------------------------------------------------------------ generators
def perms(n):
    return list(itertools.permutations(range(n)))


def rand_perm(rng, n):
    l = list(range(n))
    rng.shuffle(l)
    return tuple(l)


def rand_classical_basis(rng, maxlen=4, maxk=3):
    k = rng.randrange(1, maxk + 1)
    b = []
    for _ in range(k):
        b.append(rand_perm(rng, rng.randrange(1 if rng.random() < 0.05 else 2, maxlen + 1)))
    if rng.random() < 0.2:
        b.append(b[0])                       # repeated element
    if rng.random() < 0.2:                   # redundant element containing another
        p = b[0]
        v = rng.randrange(len(p) + 1)
        i = rng.randrange(len(p) + 1)
        q = [x if x < v else x + 1 for x in p]
        q.insert(i, v)
        b.append(tuple(q))
    rng.shuffle(b)
    return b


def fbasis(b):
    return ";".join(fseq(p) if not isinstance(p, tuple) or not p or not isinstance(p[0], str) else p for p in b)


def mesh_elem(p, cells):
    from core import fcells
    return "%s/%s" % (fseq(p), fcells(cells))


def rand_mesh_basis_line(rng):
    """a RAW mixed input for Av(...): mesh patterns and classical ones, with redundant elements planted
    (a longer pattern whose underlying permutation contains an earlier one, a super-shading, a repeat);
    the implementation builds its MeshBasis from it, the model goes through the C05 model of that
    construction and the oracle avoids the raw patterns"""
    k = rng.randrange(1, 3)
    els = []          # (perm, cells or None for a classical pattern)
    for _ in range(k):
        n = rng.randrange(1, 4) if rng.random() < 0.93 else 0
        p = rand_perm(rng, n)
        dens = rng.choice([0.1, 0.3, 0.6, 1.0])
        cells = [(x, y) for x in range(n + 1) for y in range(n + 1) if rng.random() < dens]
        els.append((p, None) if rng.random() < 0.3 else (p, cells))
    if rng.random() < 0.45 and els:
        p, cells = els[rng.randrange(len(els))]
        r = rng.random()
        if r < 0.5 and len(p) <= 2:
            # a longer element whose underlying permutation contains p (as a permutation)
            v = rng.randrange(len(p) + 1)
            i = rng.randrange(len(p) + 1)
            q = [x if x < v else x + 1 for x in p]
            q.insert(i, v)
            qc = [(x, y) for x in range(len(q) + 1) for y in range(len(q) + 1) if rng.random() < 0.15]
            els.append((tuple(q), None if rng.random() < 0.5 else qc))
        elif r < 0.8 and cells is not None:
            n = len(p)
            extra = [(x, y) for x in range(n + 1) for y in range(n + 1) if rng.random() < 0.3]
            els.append((p, sorted(set(cells) | set(extra))))
        else:
            els.append((p, cells))
    if not any(c for _, c in els):
        p, _ = els[0]
        els[0] = (p, [(0, 0)])
    rng.shuffle(els)
    return ";".join(mesh_elem(p, c) if c is not None else fseq(p) + "/_" for p, c in els)


def random_history(rng, maxlen, allow_mesh=True):
    ops = []
    names = []
    ismesh = {}
    gap = {}
    iters = []
    nclasses = rng.randrange(1, 4)
    bases = []
    for _ in range(nclasses):
        if allow_mesh and rng.random() < 0.25:
            bl = rand_mesh_basis_line(rng)
            if bl is None:
                bl = fseqs(rand_classical_basis(rng))
            bases.append(bl)
        else:
            bases.append(fseqs(rand_classical_basis(rng)))
    nops = rng.randrange(3, 31)
    for _ in range(nops):
        r = rng.random()
        if not names or r < 0.12:
            name = "c%d" % len(names)
            if names and rng.random() < 0.4:
                # an equal basis written differently (shuffled) - must denote the same class object
                b = bases[rng.randrange(len(bases))]
                els = b.split(";")
                rng.shuffle(els)
                b = ";".join(els)
            else:
                b = bases[rng.randrange(len(bases))]
            if "/" not in b and rng.random() < 0.2 and all(len(e.split(",")) <= 9 and e != "_" for e in b.split(";")):
                shift = rng.randrange(2)
                s = "_".join("".join(str(int(x) + shift) for x in e.split(",")) for e in b.split(";"))
                ops.append("S:%s:%s" % (name, s))
            else:
                ops.append("N:%s:%s" % (name, b))
            names.append(name)
            ismesh[name] = "/" in b
            gap[name] = ismesh[name] and mesh_gap(b)
            continue
        c = rng.choice(names)
        # mesh classes are built by filtering all n! permutations: keep their lengths small
        ml = min(maxlen, 5) if ismesh[c] else maxlen
        kmax = 6 if ismesh[c] else 40
        n = rng.randrange(0, ml + 1)
        if r < 0.30:
            ops.append("C:%s:%d" % (c, n))
        elif r < 0.42:
            ops.append("L:%s:%d" % (c, n))
        elif r < 0.54:
            ops.append("I:%s:%s" % (c, fseq(rand_perm(rng, n))))
        elif r < 0.60:
            ops.append("U:%s:%d" % (c, min(n, ml - 1)))
        elif r < 0.65:
            ops.append("E:%s:%d" % (c, min(n, ml - 1)))
        elif r < 0.71:
            if gap[c]:      # first() on a mesh class with a gap: only in the dedicated stream (known finding)
                ops.append("C:%s:%d" % (c, n))
            else:
                ops.append("F:%s:%d" % (c, rng.randrange(0, kmax)))
        elif r < 0.76:
            ops.append("B:%s:%s" % (c, rng.choice(names)))
        elif r < 0.79:
            ops.append("X")
        elif r < 0.82:
            ops.append("K:%s" % c)
        elif r < 0.90 and len(iters) < 4:
            it = "i%d" % len(iters)
            kind = rng.choice("LU" if gap[c] else "LUF")
            arg = n if kind == "L" else (min(n, ml - 1) if kind == "U" else rng.randrange(0, kmax))
            ops.append("O:%s:%s:%s:%d" % (it, c, kind, arg))
            iters.append(it)
        elif iters:
            it = rng.choice(iters)
            if rng.random() < 0.75:
                ops.append("T:%s:%d" % (it, rng.randrange(0, 12)))
            else:
                ops.append("D:%s" % it)
        else:
            ops.append("C:%s:%d" % (c, n))
    for it in iters:
        if rng.random() < 0.7:
            ops.append("D:%s" % it)
    return "avhist " + "|".join(ops)


def run(ctx):
    rng = ctx.rng
    quick = ctx.tier == "quick"
    ctx.exhaustive = True
    ctx.exhaustive_bound = ("every basis of 1-2 classical patterns of length 1..3 x every order of 3 query lengths in 0..6 "
                            "(quick: every 2nd order) with count/of_length/membership ops")
    ctx.compare("corpus", [
        "avhist N:a:0,1,2|C:a:5|C:a:3|L:a:4|K:a",
        "avhist N:a:0|C:a:0|C:a:1|C:a:3|K:a",
        "avhist N:a:_|C:a:0",
        "avhist N:a:-|C:a:0",
        "avhist N:a:0,1;1,0|E:a:5|F:a:10",
        "avhist N:a:0,2,1|O:i:a:U:5|T:i:3|C:a:7|T:i:4|X|N:b:0,2,1|C:b:2|D:i|K:a|K:b",
        "avhist N:a:0,1,2;0,1|N:b:0,1|B:a:b|B:b:a|K:a",
        "avhist S:a:123_321|S:b:012_210|C:a:4|C:b:4|E:b:6",
        "avhist N:a:1,0/0.0,1.1|C:a:4|L:a:3|I:a:1,0,2",
        "avhist N:a:0,1,2|F:a:0|F:a:1|F:a:7|O:i:a:F:9|T:i:2|C:a:6|D:i",
        "avhist N:a:1,0,2;2,0,1|C:a:6|C:a:2|C:a:7|C:a:3|I:a:0,1,2,3,4,5,6,7",
        "basis 0,1,2;0,1;1,0,2,3", "basis 0;0,1", "basis _;0", "basis 0,1;0,1",
    ])
    small = [p for k in (1, 2, 3) for p in perms(k)]
    bases = [[p] for p in small] + [list(c) for c in itertools.combinations(small, 2)]
    lines = []
    idx = 0
    for b in bases:
        fb = fseqs(b)
        for qs in itertools.product(range(7), repeat=3):
            idx += 1
            if quick and idx % 2:
                continue
            ops = ["N:a:" + fb]
            for j, n in enumerate(qs):
                kind = (idx + j) % 3
                if kind == 0:
                    ops.append("C:a:%d" % n)
                elif kind == 1:
                    ops.append("L:a:%d" % n)
                else:
                    # membership of a permutation built deterministically from (idx, n)
                    l = list(range(n))
                    r = (idx * 7919 + j) % max(1, n)
                    l = l[r:] + l[:r]
                    if (idx + j) % 2 and n >= 2:
                        l[0], l[-1] = l[-1], l[0]
                    ops.append("I:a:%s" % fseq(l))
            lines.append("avhist " + "|".join(ops))
    ctx.compare("exhaustive-histories", lines)
    lines = []
    for b in itertools.chain(itertools.combinations(small[1:], 3)):
        if rng.random() < (0.25 if quick else 1.0):
            lines.append("basis " + fseqs(rng.sample(list(b), 3) + ([b[0]] if rng.random() < 0.3 else [])))
    ctx.compare("basis-construction", lines)
    R = 1500 if quick else 6000
    maxlen = 7 if quick else 8
    ctx.compare("random-histories", [random_history(rng, maxlen) for _ in range(R)])
    # first() on mesh classes with an empty level followed by non-empty ones (dedicated stream)
    lines = []
    gapbases = ["0/0.0,0.1,1.0,1.1", "0,1/0.0,0.1,0.2,1.0,1.1,1.2,2.0,2.1,2.2;1,0/0.0,0.1,0.2,1.0,1.1,1.2,2.0,2.1,2.2"]
    tries = 0
    while len(gapbases) < (6 if quick else 30) and tries < 400:
        tries += 1
        b = rand_mesh_basis_line(rng)
        if b and b not in gapbases and mesh_gap(b):
            gapbases.append(b)
    for b in gapbases:
        for k in (1, 2, 4, 7):
            lines.append("avhist N:c0:%s|F:c0:%d:g" % (b, k))
    ctx.compare("mesh-gap-first", lines)
    # levels well beyond the lengths the other streams reach (10..12), on slowly growing classes
    lines = []
    len3 = perms(3)
    pairs = [list(c) for c in itertools.combinations(len3, 2)]
    rng.shuffle(pairs)
    for b in pairs[:(8 if quick else 15)]:
        top = rng.randrange(10, 12 if quick else 13)
        lines.append("avhist N:a:%s|C:a:%d|E:a:%d|I:a:%s" % (fseqs(b), top, top - 1, fseq(rand_perm(rng, top))))
    lines.append("avhist N:a:2,0,1;1,2,0|C:a:10|I:a:5,4,3,2,1,0,9,7,6,8")
    lines.append("avhist N:a:0,2,1;3,2,1,0|C:a:10")
    ctx.compare("long-levels", lines)
    # longer jumps back and forth on one class (compaction / spots still needed)
    lines = []
    for _ in range(300 if quick else 1500):
        b = fseqs(rand_classical_basis(rng, maxlen=5 if not quick else 4))
        ops = ["N:a:" + b]
        for _ in range(rng.randrange(4, 12)):
            ops.append(rng.choice(["C:a:%d", "L:a:%d", "C:a:%d"]) % rng.randrange(0, maxlen + 1))
        ops.append("K:a")
        lines.append("avhist " + "|".join(ops))
    ctx.compare("jump-histories", lines)
