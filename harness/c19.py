"""C19 - reported enumeration strategies follow their stated conditions and symmetries
(permuta/enumeration_strategies/*.py)."""
import itertools
import os
import re

import core
from core import fseq, fseqs, fbool, pseq, pseqs, guarded
import used
import past
import pinlib
import c13 as _c13

PROP = "C19"
RULE = ("exhaustive: every set of <=3 permutations of length 1-4 (6017 bases): quick search on each (quick tier: on every "
        "2nd, two strategies' applies() on the others), each of the nine "
        "fast strategies' applies() on a rotating selection, reordered / repeated variants, all eight symmetric "
        "images (quick: every 24th basis), the slow search (with the implementation's has_finite_simples verdict as an "
        "opaque input of the model line) on every 60th basis (thorough: every 8th); is_valid_extension of the eight core "
        "strategies on all permutations of length 1-6; the bases of the paper used in the test-suite; random: bases "
        "built from the needed patterns of a strategy (or a symmetric image) plus 0-3 extensions of length 3-7 that "
        "have / narrowly miss the prescribed shape; long elements: the same with extensions of length 9-12, 21-40, 64-70, "
        "~200 (defects planted at the very beginning / end) and the finitely-many-simples strategy on finite classes mixing "
        "elements of length 3-4 and 6; a quarter of the bases built from Perm objects with a past, the caller's list "
        "changed after every search / construction, selected strategies asked after short-lived strategy objects of the "
        "same class were dropped and collected; non-trivial = at least one strategy is reported or the basis has "
        ">=2 elements; distinct = distinct op lines")
ASSUMPTIONS = [
    "model/implementation agreement outside the enumerated and sampled inputs is assumed",
    "`p in Av(B)` is modelled as `p avoids every element of Basis(B)` (C02 proves the level builder equal to that)",
    "PinWords.has_finite_simples (C16) is an opaque input: the harness passes the implementation's verdict into the "
    "model line and checks the strategy logic around it",
    "iteration order of frozensets is not modelled (it could only matter if an exception competed with a False; "
    "no exception is possible for bases of non-empty permutations - coreApplies_total)",
]
PARTIAL = [
    "A1 shapes: nothing left unproved - every is_valid_extension is PROVED equal to an index-free definition for "
    "permutations of every length (valid_iff_shape_def: all eight strategies against Shape s; coreApplies_iff_shape: "
    "the reported strategy against needed patterns + Shape over the D8 orbit).  Pieces: sum/skew (in)decomposable and "
    "'1 plus q' (isSumDecomposable_iff_def, isSkewDecomposable_iff_def, zeroPlusSumind_iff_def, zeroPlusSkewind_iff_def, "
    "zeroPlusPerm_iff_def); bstrip = 'r if p = r (+) 1 else p' (bstrip_iff_def), RdCdCu = '1 (+) q (+) 1 or 1 (+) q, q "
    "non-empty, q sum-indecomposable' (validRdCdCu_iff_def), RdCu (validRdCu_iff_def, validRdCu_iff_joint); the mesh "
    "patterns _M_PATT via the proved mesh-occurrence semantics (C04.containsMesh_iff; the same through C03's "
    "mem_meshOccInPerm_iff / mem_meshOccs_iff, incl. the full occurrence list, in Lemmas/C19MeshC03.lean): box "
    "form (meshRd_iff_boxes, meshRu_iff_boxes), 'max immediately followed by second max' resp. the reverse "
    "(meshRd_iff_adjacent, meshRu_iff_adjacent, meshRd_iff_factor, meshRu_iff_factor); last_sum_component / "
    "last_skew_component = the unique c with q = a (+) c resp. a (-) c, c non-empty indecomposable "
    "(lastSumComponent_iff_def, lastSkewComponent_iff_def, lastComponent_unique); 'in Av(12)/Av(21)' = "
    "decreasing/increasing (inAv_iff_monotone, notInAv_iff_def); Rd2134 / Ru2143 assembled "
    "(validRd2134_iff_shape_def, validRu2143_iff_shape_def).  Only evaluated (oracle, all permutations of length <= 6): "
    "that the Python functions compute what the Lean model computes (the correspondence itself); inputs that are not "
    "permutations are outside the theorems (IsPerm hypothesis)",
    "A1 `p not in Av(B)` is modelled as `p avoids Basis(B)` (C02); proved from there: appliesToSym_iff, coreApplies_iff",
    "A2 invariance under the eight symmetries is PROVED for every strategy and both searches (coreApplies_sym, "
    "insEnc_applies_sym, appliesByName_sym, findStrategies_sym, findStrategies_quick_sym) with has_finite_simples as "
    "the opaque input it is in the model: the slow search is invariant GIVEN the same verdict for the basis and its "
    "image (findStrategies_sym_of_verdict).  The hypothesis is now DISCHARGED in Props/C19Ext.lean: with the input "
    "instantiated by C16's model of FinitelyManySimplesStrategy(basis).applies() (Model.C16.strategyApplies B = "
    "has_finite_simples(frozenset(B))), strategyApplies_act proves that verdict invariant under the eight symmetries "
    "(from C16.hasFiniteSimples_act_all + hasFiniteSimples_class_only_all, i.e. the Bassino-Bouvel-Pierrot-Rossin theorem "
    "of C14) and findStrategies_sym_full proves find_strategies(g.B, long) = find_strategies(B, long) for both searches "
    "with no hypothesis on the verdict.  Only evaluated: that the verdict the implementation returns is the one "
    "Model.C16 computes (the C16 correspondence; in the C19 driver lines the verdict is still an input token)",
]
TRUSTED = ["has_finite_simples verdict taken from the implementation (C16 models it)",
           "Basis(*perms) is modelled by sort + prune with the C01 containment model"]

CORE = ["RuCuCoreStrategy", "RdCdCoreStrategy", "RuCuRdCdCoreStrategy", "RuCuCdCoreStrategy", "RdCdCuCoreStrategy",
        "RdCuCoreStrategy", "Rd2134CoreStrategy", "Ru2143CoreStrategy"]
FAST = ["InsertionEncodingStrategy"] + CORE
SLOW = ["FinitelyManySimplesStrategy"]


# ----------------------------------------------------------------------------- implementation side
def worker_init():
    global Perm, ES, CS, PinWords
    from permuta import Perm
    import permuta.enumeration_strategies as ES
    import importlib
    CS = importlib.import_module("permuta.enumeration_strategies.core_strategies")
    from permuta.permutils.pin_words import PinWords


def _names(strats):
    l = sorted(type(s).__name__ for s in strats)
    return "+".join(l) if l else "-"


def _cls(name):
    for c in ES.all_enumeration_strategies:
        if c.__name__ == name:
            return c
    raise KeyError(name)


def hfs_of(B):
    """the implementation's has_finite_simples verdict (opaque input of the model)"""
    try:
        return bool(PinWords.has_finite_simples(frozenset(Perm(p) for p in B)))
    except Exception:
        return False


def _hfs_chunk(bases):
    return [hfs_of(B) for B in bases]


def _B(tok):
    """the basis of a line as a list of *used* Perm objects (hashed, compared, searched with), built once per line;
    for a deterministic quarter of the bases the objects have a longer past: used, or derived from a used object
    through another API route (past.mkperm)"""
    if used.sel("basis19", [tok], 4):
        return [used.obj((i, p), lambda p=p, i=i: past.mkperm(p, i) if used.is_perm(p) and len(p) <= 410 else Perm(p))
                for i, p in enumerate(pseqs(tok))]
    return [used.obj((i, p), lambda p=p: Perm(p), lambda o: used.warm_perm(o, 0)) for i, p in enumerate(pseqs(tok))]


_OTHER_BASES = [((1, 2, 0, 3), (2, 0, 1, 3)), ((1, 3, 0, 2), (2, 0, 3, 1)), ((0, 1, 2),), ((1, 3, 0, 2), (1, 0, 2, 3)),
                ((1, 2, 0, 3), (1, 0, 3, 2)), ((0, 2, 1),), ((1, 2, 0, 3), (2, 0, 1, 3), (0, 1, 2, 3)), ((2, 1, 0), (0, 1, 2))]


def _churn(cls):
    """short-lived strategy objects of the same class on other bases: created, asked, dropped, collected"""
    used.churn(lambda b: cls([Perm(p) for p in b]), [lambda t: t.applies()], _OTHER_BASES)


def _again(strats, long):
    """the strategy objects a search returned are asked again: each of them must still apply (the slow one is
    not asked again)"""
    for s in strats:
        if type(s).__name__ == "FinitelyManySimplesStrategy":
            continue
        if s.applies() is not True:
            return "UNSTABLE:returned-strategy-no-longer-applies:" + type(s).__name__
    return None


def impl(op, a):
    used.begin()
    if op == "find":
        long = a[0] == "T"

        def f():
            lst = _B(a[2])
            strats = ES.find_strategies(lst, long)
            res = _names(strats)
            # the caller's list changes after the search: the returned strategy objects describe the basis searched
            lst.append(Perm((0, 1, 2, 3, 4, 5)))
            lst.reverse()
            del lst[1:]
            bad = _again(strats, long)
            if bad:
                return bad
            if long and ("FinitelyManySimplesStrategy" in res) != (a[1] == "T"):
                return "HFS-INPUT-STALE " + res
            return res
        r1 = guarded(f)
        # a deterministic tenth (slow search: eighth) of the searches is run once more on the same basis objects
        if not used.sel(op, a, 8 if long else 10):
            return r1
        used.T.rewind()
        r2 = guarded(f)
        return r1 if r1 == r2 else used.unstable(r1, r2)
    if op == "applies":
        def g():
            if a[0] != "FinitelyManySimplesStrategy" and used.sel(op, a, 40):
                _churn(_cls(a[0]))
            lst = _B(a[2])
            s = _cls(a[0])(lst)
            lst.append(Perm((1, 0)))            # the caller's list changes after the construction
            lst.reverse()
            r = fbool(s.applies())
            if a[0] != "FinitelyManySimplesStrategy":
                # the same strategy object asked again, and a second object on the same basis objects
                r2 = fbool(s.applies())
                r3 = fbool(_cls(a[0])(list(s.basis)).applies())
                if not r == r2 == r3:
                    return used.unstable(r, r2 + "|" + r3)
            return r
        return guarded(g)
    if op == "valid":
        def h():
            fn = getattr(CS, a[0]).is_valid_extension
            p = used.obj(("P", a[1]), lambda: Perm(pseq(a[1])), lambda o: used.warm_perm(o, 1))
            if len(p) >= 1 and used.is_perm(p):
                used.quiet(fn, p.reverse())              # a DIFFERENT nearby argument first
                used.quiet(fn, Perm(tuple(p) + (len(p),)))
            return used.twice(lambda: fbool(fn(p)))
        return guarded(h)
    if op == "sym8find":
        B = pseqs(a[2])
        long = a[0] == "T"
        return "|".join(guarded(lambda k=k: _names(ES.find_strategies([Perm(_c13._SYMS[k](p)) for p in B], long)))
                        for k in range(8))
    raise ValueError("unknown op " + op)


# ----------------------------------------------------------------------------- independent definitions (oracle)
def _occs(pat, s):
    k = len(pat)
    for c in itertools.combinations(range(len(s)), k):
        if _c13._std([s[i] for i in c]) == tuple(pat):
            yield c


_CONT = {}


def _contains(s, pat):
    key = (s, pat)
    if key not in _CONT:
        if len(_CONT) > 200000:
            _CONT.clear()
        # long permutations: backtracking instead of all index subsets (pinlib.contains_long, an independent
        # implementation of the same relation, checked against the subset search in c16's self-test)
        _CONT[key] = pinlib.contains_long(s, pat, 10 ** 7) if len(s) > 10 else any(True for _ in _occs(pat, s))
    return _CONT[key]


def _sum_cuts(q):
    """cut points of the finest direct-sum decomposition: 0 < i <= n with {q[0..i-1]} = {0..i-1}"""
    return [i for i in range(1, len(q) + 1) if sorted(q[:i]) == list(range(i))]


def _skew_cuts(q):
    n = len(q)
    return [i for i in range(1, n + 1) if sorted(q[:i]) == list(range(n - i, n))]


def _sum_decomposable(q):
    return any(i < len(q) for i in _sum_cuts(q))


def _skew_decomposable(q):
    return any(i < len(q) for i in _skew_cuts(q))


def _last_block(q, cuts):
    inner = [i for i in cuts if i < len(q)]
    start = inner[-1] if inner else 0
    return _c13._std(q[start:])


def _one_plus(p):
    """q with p = 1 (+) q, or None"""
    if len(p) >= 1 and p[0] == 0:
        return tuple(v - 1 for v in p[1:])
    return None


def _strip_last_max(p):
    return p[:-1] if len(p) >= 1 and p[-1] == len(p) - 1 else p


M_SHADING = {(0, 1), (0, 2), (1, 0), (1, 1), (1, 2), (2, 1), (2, 2)}


def _contains_mesh(q, pat, shading):
    """brute force: an occurrence such that no other point of q lies in a shaded cell"""
    for c in _occs(pat, q):
        vals = sorted(q[i] for i in c)
        ok = True
        for i, v in enumerate(q):
            if i in c:
                continue
            x = sum(1 for j in c if j < i)
            y = sum(1 for w in vals if w < v)
            if (x, y) in shading:
                ok = False
                break
        if ok:
            return True
    return False


def _shape(name, p):
    """the prescribed form of an extra basis element, per strategy: every form is `1 (+) q` (the property's
    'one plus ...') with a strategy-specific condition on q"""
    p = tuple(p)
    q = _one_plus(p)
    if name in ("RuCuCoreStrategy", "RuCuCdCoreStrategy"):
        return q is not None and not _skew_decomposable(q)
    if name == "RdCdCoreStrategy":
        return q is not None and not _sum_decomposable(q)
    if name == "RuCuRdCdCoreStrategy":
        return q is not None
    if name == "RdCdCuCoreStrategy":
        r = _one_plus(_strip_last_max(p))
        return r is not None and not _sum_decomposable(r)
    if name == "RdCuCoreStrategy":
        return _shape("RuCuCoreStrategy", p) and _shape("RdCdCuCoreStrategy", p)
    if name == "Rd2134CoreStrategy":
        if q is None:
            return False
        if _contains_mesh(q, (1, 0), M_SHADING):
            return False
        last = _last_block(q, _sum_cuts(q))      # the empty permutation: no component of length one, vacuously decreasing
        return len(last) == 1 or not _c13._is_dec(last)
    if name == "Ru2143CoreStrategy":
        if q is None:
            return False
        r = q
        if _contains_mesh(r, (0, 1), M_SHADING):
            return False
        last = _last_block(r, _skew_cuts(r))     # the empty permutation is vacuously increasing
        return not _c13._is_inc(last)
    raise KeyError(name)


_TOK = {"Ru": (1, 2, 0, 3), "Cu": (2, 0, 1, 3), "Rd": (1, 3, 0, 2), "Cd": (2, 0, 3, 1),
        "2134": (1, 0, 2, 3), "2143": (1, 0, 3, 2)}     # 2314, 3124, 2413, 3142 in one-based notation


def _needed(name):
    return {_TOK[t] for t in re.findall(r"Ru|Cu|Rd|Cd|2134|2143", name[:-len("CoreStrategy")])}


def _core_applies(name, B):
    need = _needed(name)
    for g in _c13._SYMS:
        b = {g(p) for p in B}
        if all(any(_contains(p, q) for q in b) for p in need) and all(_shape(name, q) for q in b - need):
            return True
    return False


def _ins_applies(B):
    return any(_c13._v_insr(img) or _c13._v_insm(img) for img in ([g(p) for p in B] for g in _c13._SYMS))


def _o_applies(name, B, hfs):
    B = [tuple(p) for p in B]
    if name == "InsertionEncodingStrategy":
        return _ins_applies(B)
    if name == "FinitelyManySimplesStrategy":
        return hfs
    return _core_applies(name, B)


def _o_find(B, long, hfs):
    l = sorted(n for n in (FAST + (SLOW if long else [])) if _o_applies(n, B, hfs))
    return "+".join(l) if l else "-"


def _in_domain(B):
    """the property speaks about bases of non-empty permutations; Av itself refuses the empty basis / the
    empty permutation with a documented ValueError"""
    return len(B) > 0 and all(len(p) > 0 for p in B)


def oracle(op, a):
    if op == "find":
        B = pseqs(a[2])
        return _o_find(B, a[0] == "T", a[1] == "T") if _in_domain(B) else None
    if op == "applies":
        B = pseqs(a[2])
        return fbool(_o_applies(a[0], B, a[1] == "T")) if _in_domain(B) else None
    if op == "valid":
        p = pseq(a[1])
        return fbool(_shape(a[0], p)) if len(p) > 0 else None
    if op == "sym8find":
        B = pseqs(a[2])
        if not _in_domain(B):
            return None
        long = a[0] == "T"
        # invariance: all eight answers are the answer for B (the slow strategy with each image's own input)
        base = [n for n in FAST if _o_applies(n, B, False)]
        outs = []
        for k in range(8):
            l = sorted(base + (SLOW if long and a[1][k] == "T" else []))
            outs.append("+".join(l) if l else "-")
        return "|".join(outs)
    return None


def nontrivial(op, a, out):
    if op == "valid":
        return len(pseq(a[1])) >= 3
    B = pseqs(a[2])
    return len(B) >= 2 or (out not in ("-", "F") and not out.startswith("ERR"))


# ----------------------------------------------------------------------------- translator self-check
def translator_selfcheck():
    worker_init()
    src = open(os.path.join(core.LEAN, "PermutaModel", "Generated", "Tables.lean")).read()
    if "c19_tables_MISSING" in src:
        return None            # already reported by the translator as a broken obligation
    m = re.search(r"def coreStrategies : [^\n]*:= \[\n(.*?)\n\]", src, flags=re.S)
    if not m:
        return "coreStrategies missing"
    rows = re.findall(r'\("(\w+)", \[(.*?)\]\)', m.group(1))
    live = [(c.__name__, sorted(tuple(p) for p in c.patterns_needed)) for c in CS.core_strategies]
    gen = [(n, sorted(tuple(int(x) for x in t.split(",")) for t in re.findall(r"\[([\d, ]+)\]", ps))) for n, ps in rows]
    if gen != live:
        return "coreStrategies differs from the live classes: %r vs %r" % (gen, live)
    for lean, obj in (("fastStrategies", ES.fast_enumeration_strategies), ("longStrategies", ES.long_enumeration_strategies),
                      ("allStrategies", ES.all_enumeration_strategies)):
        m = re.search(r"def %s : List String := \[(.*?)\]" % lean, src)
        if not m or [s.strip('"') for s in m.group(1).split(", ") if s] != [c.__name__ for c in obj]:
            return "%s differs from the live list" % lean
    return None


# ----------------------------------------------------------------------------- generators
RU, CU, RD, CD = (1, 2, 0, 3), (2, 0, 1, 3), (1, 3, 0, 2), (2, 0, 3, 1)
P2134, P2143 = (1, 0, 2, 3), (1, 0, 3, 2)
PAPER = [
    [(0, 1, 2)], [(0, 1, 2, 3), (2, 0, 1)], [(0, 1, 2), (2, 0, 1)], [(0, 2, 1, 3)], [(1, 3, 0, 2)], [(2, 0, 3, 1)], [(0, 2, 1)],
    [RD, CD], [(0, 1, 2, 3, 4)], [RU, CU], [RU, CU, (1, 4, 0, 2, 3)], [RU, (0, 1, 2, 3)], [RU, CU, (0, 1, 2, 3, 4)],
    [RU, CU, (0, 1, 2, 3)], [RU, CU, (0, 2, 4, 1, 3), (0, 1, 3, 2, 4)], [(0, 2, 3, 1), (0, 3, 1, 2)],
    [(0, 2, 3, 1), (0, 3, 1, 2), (0, 1, 2, 3)], [RU, CU, (3, 0, 1, 2)], [RU, CU, (0, 3, 2, 1)],
    [RD, CD, (0, 1, 2, 3, 4)], [RD, (0, 3, 2, 1)], [RD, CD, (0, 4, 1, 2, 3)], [RD, CD, RU, (0, 3, 2, 1)], [RD, CD, RU, CU],
    [RD, CD, RU, CU, (0, 1, 2, 3)], [(0, 2, 3, 1), (0, 3, 1, 2), (1, 3, 0, 2), (2, 0, 3, 1)], [CD, RU, CU],
    [RU, CU, CD, (0, 1, 2, 3)], [RU, CU, RD], [RU, CU, RD, (0, 2, 1, 3)], [(0, 2, 3, 1), (0, 3, 1, 2), (1, 3, 0, 2)],
    [(0, 2, 3, 1), (0, 3, 1, 2), (1, 3, 0, 2), (0, 1, 2, 3)], [RD, (0, 1, 2)], [RD, CD, CU], [RD, CD, CU, (0, 1, 2, 3)],
    [RD, CD, CU, (0, 2, 1, 3)], [RD, CD, CU, (0, 3, 2, 1)], [RD, CD, RU], [(1, 0, 2), (0, 3, 1, 2)], [RD, CU],
    [RD, CU, (0, 1, 2, 3)], [RD, CU, (0, 3, 2, 1)], [RD, CU, (0, 2, 1, 3)], [RD, CU, (0, 3, 1, 2, 4)], [RU, CD],
    [RD, P2134], [RD, P2134, (0, 4, 3, 1, 2)], [RD, P2134, (0, 3, 4, 2, 1)], [RD, P2134, (0, 3, 2, 4, 1)],
    [RD, P2134, (0, 1, 2, 3)], [RD, P2134, (0, 2, 1, 3), (0, 1, 4, 2, 3)], [CD, P2134], [(0, 1, 3, 2), (1, 3, 0, 2), (3, 2, 0, 1, 4)],
    [RU, P2143], [RU], [RU, P2143, (0, 2, 1, 3, 4)], [RU, P2143, (0, 4, 3, 1, 2)], [RU, P2143, (0, 2, 4, 1, 3)],
    [RU, P2143, (0, 1, 2, 4, 3)], [CU, P2143], [(0, 2, 3, 1), (1, 0, 3, 2), (0, 3, 1, 2, 4)],
]


def _rand_shape_perm(rng, n):
    """a permutation of length n that has, or narrowly misses, one of the prescribed shapes"""
    def rp(k):
        l = list(range(k))
        rng.shuffle(l)
        return tuple(l)
    r = rng.random()
    if r < 0.55:
        q = rp(n - 1)
        p = (0,) + tuple(v + 1 for v in q)
    elif r < 0.7:
        q = rp(n - 2)
        p = (0,) + tuple(v + 1 for v in q) + (n - 1,)
    elif r < 0.8:                      # sum of two blocks after the leading 1
        k = rng.randrange(1, max(2, n - 1))
        a, b = rp(k), rp(max(0, n - 1 - k))
        q = a + tuple(v + len(a) for v in b) if rng.random() < 0.5 else tuple(v + len(b) for v in a) + b
        p = (0,) + tuple(v + 1 for v in q)
    else:
        p = rp(n)
    if rng.random() < 0.15 and n >= 2:
        i = rng.randrange(n - 1)
        p = p[:i] + (p[i + 1], p[i]) + p[i + 2:]
    return p


def run(ctx):
    rng = ctx.rng
    quick = ctx.tier == "quick"
    worker_init()
    ctx.exhaustive = True
    ctx.exhaustive_bound = ("all sets of <=3 permutations of length 1-4 (6017): quick search + one fast strategy's applies() + "
                            "a reordered/repeated variant (quick: the search on every 2nd basis, two strategies' applies() on the others, the variant on every 8th); eight images on every %s basis; slow search on every %s "
                            "basis; is_valid_extension of the 8 core strategies on all permutations of length 1-%d"
                            % ("24th" if quick else "", "60th" if quick else "8th", 6 if quick else 7))
    # ---- corpus: paper bases from the tests, both searches, all strategies, several orders
    lines = []
    hf = list(ctx.pool.map(_hfs_chunk, [[B] for B in PAPER]))
    for B, (h,) in zip(PAPER, hf):
        fb = fseqs(B)
        lines.append("find T %s %s" % (fbool(h), fb))
        lines.append("find F F %s" % fb)
        lines.append("find F F %s" % fseqs(B[::-1] + B[:1]))
        for n in FAST:
            lines.append("applies %s F %s" % (n, fb))
        if len(B) <= 2:
            lines.append("applies FinitelyManySimplesStrategy %s %s" % (fbool(h), fb))
        lines.append("sym8find F FFFFFFFF %s" % fb)
    ctx.compare("corpus-paper", lines)
    # ---- bases outside Av's domain; the length-one permutation (AssertionError before 74c8f6b)
    ctx.compare("malformed", ["find F F -", "find T F -", "find F F _", "find F F _;0,1", "applies RuCuCoreStrategy F -",
                              "applies InsertionEncodingStrategy F -", "applies RdCdCoreStrategy F _;1,3,0,2"]
                + ["valid %s _" % n for n in CORE])
    ctx.compare("length-one", ["find F F 0", "find T T 0", "find F F 0;0", "find F F 0;1,3,0,2", "find F F 1,3,0,2;0",
                               "find F F 0;1,3,0,2;2,0,3,1"] + ["applies %s F 0" % n for n in FAST] +
                ["applies %s F 0;1,3,0,2" % n for n in CORE] + ["valid %s 0" % n for n in CORE])
    # ---- is_valid_extension on all small permutations
    L = 6 if quick else 7
    lines = []
    for n in range(1, L + 1):
        for p in itertools.permutations(range(n)):
            for name in CORE:
                lines.append("valid %s %s" % (name, fseq(p)))
    ctx.compare("exhaustive-valid", lines)
    # ---- exhaustive small bases
    perms = [p for k in (1, 2, 3, 4) for p in itertools.permutations(range(k))]
    sets = [c for k in (1, 2, 3) for c in itertools.combinations(perms, k)]
    lines = []
    long_sets = []
    for idx, B in enumerate(sets):
        fb = fseqs(B)
        if not quick or idx % 2 == 0:
            lines.append("find F F %s" % fb)
        lines.append("applies %s F %s" % (FAST[idx % len(FAST)], fb))
        if quick and idx % 2 == 1:
            lines.append("applies %s F %s" % (FAST[(idx // 2 + 4) % len(FAST)], fb))
        if not quick:
            for n in FAST:
                lines.append("applies %s F %s" % (n, fb))
        arr = [B[::-1], B + B[:1], B[1:] + B[:1] + B[1:]][idx % 3]
        if not quick or idx % 8 == 1:
            lines.append("find F F %s" % fseqs(arr))
        if not quick or idx % 24 == 0:
            lines.append("sym8find F FFFFFFFF %s" % fb)
        if idx % (60 if quick else 8) == 0:
            long_sets.append(B)
    # the finitely-many-simples strategy on FINITE classes (a long increasing and a long decreasing element, lengths
    # mixed: 3 next to 6, ...): its verdict is True by Erdos-Szekeres, no verdict of the implementation is needed as
    # input.  The library's pin-word table of length 6 costs 9 s per worker: the block goes to the front of this
    # (the longest) stream, inside one chunk, so that one worker pays once and the others work meanwhile.
    block = []
    for b in [((0, 1, 2), (5, 4, 3, 2, 1, 0)), ((0, 1, 2, 3), (5, 4, 3, 2, 1, 0), (1, 3, 0, 2))] + \
            ([] if quick else [((2, 1, 0), (0, 1, 2, 3, 4, 5)), ((0, 1, 2, 3, 4, 5), (5, 4, 3, 2, 1, 0)),
                               ((0, 1, 2, 3, 4), (5, 4, 3, 2, 1, 0), (2, 4, 0, 3, 1, 5))]):
        block.append("applies FinitelyManySimplesStrategy T %s" % fseqs(b))
        block.append("applies FinitelyManySimplesStrategy T %s" % fseqs(b[::-1]))
    block.append("find T T 2,1,0;0,1,2,3,4,5")
    lines = block + lines
    ctx.compare("exhaustive-small", lines)
    hf = []
    chunks = [long_sets[i:i + 8] for i in range(0, len(long_sets), 8)]
    for r in ctx.pool.map(_hfs_chunk, chunks):
        hf.extend(r)
    lines = []
    for B, h in zip(long_sets, hf):
        lines.append("find T %s %s" % (fbool(h), fseqs(B)))
        if not quick:
            lines.append("applies FinitelyManySimplesStrategy %s %s" % (fbool(h), fseqs(B)))
    ctx.compare("exhaustive-small-slow-search", lines)
    # ---- random structured
    lines = []
    R = 1200 if quick else 8000
    for _ in range(R):
        name = rng.choice(CORE)
        need = sorted(_needed(name))
        B = list(need)
        if rng.random() < 0.25:
            B.pop(rng.randrange(len(B)))                       # a needed pattern missing ...
            if rng.random() < 0.5:
                B.append(rng.choice([(0, 1, 2), (2, 1, 0), (1, 0, 2), (0, 2, 1), (1, 2, 0), (2, 0, 1)]))   # ... or implied
        for _ in range(rng.randrange(0, 4)):
            B.append(_rand_shape_perm(rng, rng.randrange(3, 8)))
        g = _c13._SYMS[rng.randrange(8)]
        B = [g(p) for p in B]
        rng.shuffle(B)
        if rng.random() < 0.2:
            B.append(B[0])
        r = rng.random()
        if r < 0.5:
            lines.append("find F F %s" % fseqs(B))
        elif r < (0.93 if quick else 0.85):
            lines.append("applies %s F %s" % (name if rng.random() < 0.7 else rng.choice(FAST), fseqs(B)))
        else:
            lines.append("sym8find F FFFFFFFF %s" % fseqs(B))
    ctx.compare("random-structured", lines)
    # ---- sizes the streams above never reach: extensions of length 9-12, 21-40, 64-70, ~200 and ~400 that have / narrowly
    #      miss (a defect planted at the very beginning or the very end) the prescribed shape, next to the needed
    #      patterns and to short extensions
    def end_miss(p):
        n = len(p)
        i = rng.choice([0, n - 2])
        return p[:i] + (p[i + 1], p[i]) + p[i + 2:]
    #      (the model prunes a basis with the C01 containment model, which is exponential on long elements: searches
    #      with elements longer than 30 are compared with the oracle only; is_valid_extension at every scale with both)
    lines, nomodel = [], []
    for lo, hi, cnt in ((9, 12, 260), (21, 40, 160), (64, 70, 60), (190, 210, 16), (395, 405, 6)) if quick else \
            ((9, 12, 2600), (21, 40, 1600), (64, 70, 400), (190, 210, 60), (395, 405, 20)):
        for _ in range(cnt):
            name = rng.choice(CORE)
            B = sorted(_needed(name))
            if rng.random() < 0.15:
                B.pop(rng.randrange(len(B)))
            longs = []
            for _ in range(rng.choice([1, 1, 2]) if hi <= 40 else 1):
                q = _rand_shape_perm(rng, rng.randrange(lo, hi + 1))
                if rng.random() < 0.2:
                    q = end_miss(q)
                longs.append(q)
            B += longs
            if rng.random() < 0.4:
                B.append(_rand_shape_perm(rng, rng.randrange(3, 7)))
            for q in longs:
                lines.append("valid %s %s" % (name if rng.random() < 0.6 else rng.choice(CORE), fseq(q)))
            g = _c13._SYMS[rng.randrange(8)]
            B = [g(q) for q in B]
            rng.shuffle(B)
            r = rng.random()
            dest = lines if max(len(q) for q in B) <= 30 else nomodel
            if r < 0.5:
                dest.append("find F F %s" % fseqs(B))
            elif r < 0.95 or hi > 12:
                dest.append("applies %s F %s" % (name if rng.random() < 0.7 else rng.choice(FAST), fseqs(B)))
            else:
                dest.append("sym8find F FFFFFFFF %s" % fseqs(B))
    ctx.compare("long-elements", lines)
    ctx.compare("long-elements-oracle-only", nomodel, use_model=False)
    # slow search with all eight images' own inputs on a few bases
    few = [sets[rng.randrange(len(sets))] for _ in range(2 if quick else 40)]
    imgs = [[[_c13._SYMS[k](p) for p in B] for k in range(8)] for B in few]
    flat = [[im] for B8 in imgs for im in B8]
    hf = [h for (h,) in ctx.pool.map(_hfs_chunk, flat)]
    lines = ["sym8find T %s %s" % ("".join(fbool(h) for h in hf[8 * i:8 * i + 8]), fseqs(B)) for i, B in enumerate(few)]
    ctx.compare("slow-search-eight-images", lines)
