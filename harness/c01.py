"""C01 - classical occurrences, containment, counts (perm.py 2481-2638, patt.py)."""
import itertools

from core import fseq, fseqs, fbool, pseq, pseqs, guarded

PROP = "C01"
RULE = ("exhaustive: every (pattern, permutation) pair with |pattern|<=K, |perm|<=N (bounds in exhaustive_bound); "
        "random: planted occurrences in permutations up to length 14; histories: one Perm object searched repeatedly; "
        "non-trivial = the pattern is non-empty, not longer than the permutation and (for occ/count) at least one "
        "position is pruned or accepted by a bound test, i.e. |perm| >= 2; distinct = distinct op lines")
ASSUMPTIONS = [
    "model/implementation agreement outside the enumerated and sampled inputs is assumed",
    "colour lists have one entry per element (a shorter list makes the code raise IndexError; the model reads "
    "with a default and the theorems state the length hypotheses)",
]
PARTIAL = []
TRUSTED = []


def worker_init():
    global Perm
    from permuta import Perm as P
    Perm = P


from past import mkperm
import past  # noqa: E402  (objects with a past: fresh / used / derived from a used object)


def impl(op, a):
    if op in ("occ", "occspec", "occdq"):
        return guarded(lambda: fseqs(mkperm(pseq(a[0])).occurrences_in(mkperm(pseq(a[1]), 1))))
    if op == "occof":
        return guarded(lambda: fseqs(Perm(pseq(a[1])).occurrences_of(Perm(pseq(a[0])))))
    if op in ("occc", "occcspec"):
        return guarded(lambda: fseqs(mkperm(pseq(a[0])).occurrences_in(mkperm(pseq(a[1]), 1), pseq(a[2]), pseq(a[3]))))
    if op == "contains":
        return guarded(lambda: fbool(mkperm(pseq(a[0]), 1).contains(*[mkperm(p) for p in pseqs(a[1])])))
    if op == "avoids":
        return guarded(lambda: fbool(mkperm(pseq(a[0]), 1).avoids(*[mkperm(p) for p in pseqs(a[1])])))
    if op == "avoidsset":
        return guarded(lambda: fbool(Perm(pseq(a[0])).avoids_set(iter([Perm(p) for p in pseqs(a[1])]))))
    if op == "in":
        return guarded(lambda: fbool(mkperm(pseq(a[0])) in mkperm(pseq(a[1]), 1)))
    if op == "containedin":
        return guarded(lambda: fbool(Perm(pseq(a[0])).contained_in(*[Perm(p) for p in pseqs(a[1])])))
    if op == "avoidedby":
        return guarded(lambda: fbool(Perm(pseq(a[0])).avoided_by(*[Perm(p) for p in pseqs(a[1])])))
    if op == "count":
        return guarded(lambda: str(mkperm(pseq(a[0])).count_occurrences_in(mkperm(pseq(a[1]), 1))))
    if op == "countof":
        return guarded(lambda: str(getattr(Perm(pseq(a[1])), past.alias("count_occurrences_of", tuple(a)))(Perm(pseq(a[0])))))
    if op in ("lfc", "lfcspec"):
        return guarded(lambda: ";".join("%d,%d" % x for x in Perm(pseq(a[0])).left_floor_and_ceiling()))
    if op == "hist":
        # the same pattern object searched repeatedly (its table is memoised on first use)
        def f():
            p = Perm(pseq(a[0]))
            outs = []
            for s in pseqs(a[1]):
                outs.append(fseqs(p.occurrences_in(Perm(s))))
                outs.append(fbool(Perm(s).contains(p)))
            return "|".join(outs)
        return guarded(f)
    if op == "lazy":
        # a lazily consumed listing interrupted by other searches with the SAME pattern object
        def h():
            import itertools as it
            p = Perm(pseq(a[0]))
            s1, s2 = Perm(pseq(a[1])), Perm(pseq(a[3]))
            g1 = p.occurrences_in(s1)
            first = list(it.islice(g1, int(a[2])))
            mid = list(p.occurrences_in(s2))
            c = s2.contains(p)
            rest = list(g1)
            return fseqs(first + rest) + "|" + fseqs(mid) + "|" + fbool(c)
        return guarded(h)
    if op == "badarg":
        def g():
            s = Perm(pseq(a[0]))
            k = a[1]
            if k == "contains":
                return fbool(s.contains(5))
            if k == "avoids":
                return fbool(s.avoids((0, 1)))
            if k == "in":
                return fbool((0, 1) in s)
            return "?"
        return guarded(g)
    raise ValueError("unknown op " + op)


def _std(vals):
    srt = sorted(vals)
    return tuple(srt.index(v) for v in vals)


def _occs(p, s, cp=None, cs=None):
    n = len(p)
    res = []
    for c in itertools.combinations(range(len(s)), n):
        vals = [s[i] for i in c]
        if all((p[x] < p[y]) == (vals[x] < vals[y]) for x in range(n) for y in range(n)):
            if cp is None or all(cs[c[k]] == cp[k] for k in range(n)):
                res.append(c)
    return res


def oracle(op, a):
    """brute force from the property text: strictly increasing index tuples, order-isomorphic, lexicographic"""
    if op in ("occ", "occof", "occspec", "occdq"):
        return fseqs(_occs(pseq(a[0]), pseq(a[1])))
    if op in ("occc", "occcspec"):
        return fseqs(_occs(pseq(a[0]), pseq(a[1]), pseq(a[2]), pseq(a[3])))
    if op == "contains":
        return fbool(all(_occs(p, pseq(a[0])) for p in pseqs(a[1])))
    if op in ("avoids", "avoidsset"):
        return fbool(all(not _occs(p, pseq(a[0])) for p in pseqs(a[1])))
    if op == "in":
        return fbool(bool(_occs(pseq(a[0]), pseq(a[1]))))
    if op == "containedin":
        return fbool(all(_occs(pseq(a[0]), s) for s in pseqs(a[1])))
    if op == "avoidedby":
        return fbool(all(not _occs(pseq(a[0]), s) for s in pseqs(a[1])))
    if op in ("count", "countof"):
        return str(len(_occs(pseq(a[0]), pseq(a[1]))))
    if op == "hist":
        outs = []
        for s in pseqs(a[1]):
            o = _occs(pseq(a[0]), s)
            outs.append(fseqs(o))
            outs.append(fbool(bool(o)))
        return "|".join(outs)
    if op in ("lfc", "lfcspec"):
        p = pseq(a[0])
        if sorted(p) != list(range(len(p))):
            # not a permutation: the property says nothing; the deque model is still compared with the code
            return None
        res = []
        for k, v in enumerate(p):
            lo = [j for j in range(k) if p[j] < v]
            hi = [j for j in range(k) if p[j] > v]
            res.append("%d,%d" % (max(lo, key=lambda j: p[j]) if lo else -1, min(hi, key=lambda j: p[j]) if hi else -1))
        return ";".join(res)
    if op == "lazy":
        o1 = _occs(pseq(a[0]), pseq(a[1]))
        o2 = _occs(pseq(a[0]), pseq(a[3]))
        return fseqs(o1) + "|" + fseqs(o2) + "|" + fbool(bool(o2))
    if op == "badarg":
        return "ERR:TypeError"
    return None


def nontrivial(op, a, out):
    if op in ("lfc", "lfcspec"):
        return len(pseq(a[0])) >= 3
    if op == "badarg":
        return False
    p = pseq(a[0])
    if op in ("contains", "avoids", "avoidsset"):
        return len(p) >= 2 and any(1 <= len(q) <= len(p) for q in pseqs(a[1]))
    if op == "lazy":
        return len(p) >= 1 and len(pseq(a[1])) >= 2
    if op in ("containedin", "avoidedby", "hist"):
        return len(p) >= 1 and any(len(s) >= max(2, len(p)) for s in pseqs(a[1]))
    s = pseq(a[1])
    return 1 <= len(p) <= len(s) and len(s) >= 2


def perms(n):
    return itertools.permutations(range(n))


def rand_perm(rng, n):
    l = list(range(n))
    rng.shuffle(l)
    return tuple(l)


def planted(rng, p, n):
    """a permutation of length n containing p, with the planted copy hugging the boundary"""
    k = len(p)
    if n < k:
        return rand_perm(rng, n)
    mode = rng.randrange(4)
    if mode == 0:
        pos = sorted(rng.sample(range(n), k))
    elif mode == 1:
        pos = list(range(n - k, n))
    elif mode == 2:
        pos = list(range(k))
    else:
        pos = sorted(rng.sample(range(n), k - 1) + [n - 1]) if k else []
        pos = sorted(set(pos))
        while len(pos) < k:
            x = rng.randrange(n)
            if x not in pos:
                pos.append(x)
        pos.sort()
    vals = sorted(rng.sample(range(n), k))
    if rng.random() < 0.3 and k:
        vals = list(range(k)) if rng.random() < 0.5 else list(range(n - k, n))
    s = [None] * n
    for j, i in enumerate(pos):
        s[i] = vals[p[j]]
    rest = [v for v in range(n) if v not in vals]
    rng.shuffle(rest)
    it = iter(rest)
    return tuple(v if v is not None else next(it) for v in s)


def run(ctx):
    rng = ctx.rng
    K, N = (4, 7) if ctx.tier == "quick" else (5, 8)
    ctx.exhaustive = True
    ctx.exhaustive_bound = ("op occ/count: all pairs |pattern|<=%d x |perm|<=%d; lfc: all |p|<=%d and all sequences "
                            "over {0,1,2} of length <=5; occc: all 2-colourings for (|pattern|,|perm|) in "
                            "(1,1..3),(2,2..4),(3,3)" % (K, N, N))
    # corpus of past disagreements / boundary cases first
    ctx.compare("corpus", [
        "occ 2,0,1 5,3,0,4,2,1", "occ _ 1,2,3,0", "occ 0 _", "occ _ _", "occ 0,1 0", "count _ _",
        "occ 0,1,2 0,1,2", "occ 1,0 1,2,3,0", "contains 0,1,2 -", "avoids 0,1,2 -", "avoids _ _",
        "contains _ _", "in _ _", "in 0 _", "hist 0,1 0,1;1,0;0,1,2;_", "occc 0,1 0,1,2 0,1 0,0,1",
        "occcspec 0,1 0,1,2 0,1 0,0,1", "occc _ 0,1 _ 0,0", "occc 0,1 0 0,0 1", "occdq 2,0,1 5,3,0,4,2,1",
        "occdq _ 1,0", "occdq 0,1 0", "lfc 2,5,0,3,6,4,7,1", "lfcspec 2,5,0,3,6,4,7,1", "lfc _", "lfc 0",
        "lfc 1,1,2,1,0,1,2,0,3,1", "lfc 3,3,3", "lfc 5,2", "lfc 0,2,2,1,1,0",
    ])
    pats = [p for k in range(K + 1) for p in perms(k)]
    lines = []
    for n in range(N + 1):
        for s in perms(n):
            fs = fseq(s)
            for p in pats:
                lines.append("occ %s %s" % (fseq(p), fs))
    ctx.compare("exhaustive-occ", lines)
    # derived operations on a thinner exhaustive grid
    lines = []
    small = [p for k in range(4) for p in perms(k)]
    for n in range(6):
        for s in perms(n):
            fs = fseq(s)
            for p in small:
                fp = fseq(p)
                lines.append("count %s %s" % (fp, fs))
                lines.append("in %s %s" % (fp, fs))
                lines.append("occof %s %s" % (fp, fs))
                lines.append("occdq %s %s" % (fp, fs))
            for q in itertools.combinations(small[1:], 2):
                if rng.random() < 0.15:
                    lines.append("contains %s %s" % (fs, fseqs(q)))
                    lines.append("avoids %s %s" % (fs, fseqs(q)))
                    lines.append("avoidsset %s %s" % (fs, fseqs(q)))
    ctx.compare("exhaustive-derived", lines)
    ctx.compare("lfc", ["%s %s" % (op, fseq(p)) for n in range(N + 1) for p in perms(n) for op in ("lfc", "lfcspec")])
    # the deque algorithm on sequences with repeated / out-of-range entries (Perm() does not validate):
    # no oracle (the property speaks of permutations), model against code only
    lines = ["lfc %s" % fseq(s) for n in range(1, 6) for s in itertools.product(range(3), repeat=n)]
    for _ in range(300):
        n = rng.randrange(2, 14)
        lines.append("lfc %s" % fseq(tuple(rng.randrange(0, rng.choice([2, 4, 20])) for _ in range(n))))
    ctx.compare("lfc-nonperm", lines)
    # colourings, exhaustive: every pattern/permutation pair below with every 2-colouring of both
    lines = []
    for k, n in ((1, 1), (1, 2), (1, 3), (2, 2), (2, 3), (2, 4), (3, 3)):
        for p in perms(k):
            for s in perms(n):
                for cp in itertools.product(range(2), repeat=k):
                    for cs in itertools.product(range(2), repeat=n):
                        lines.append("occc %s %s %s %s" % (fseq(p), fseq(s), fseq(cp), fseq(cs)))
    ctx.compare("exhaustive-coloured", lines)
    # random large with planted occurrences
    R = 3000 if ctx.tier == "quick" else 40000
    lines = []
    for _ in range(R):
        k = rng.randrange(1, 7)
        n = rng.randrange(k, 15)
        p = rand_perm(rng, k)
        s = planted(rng, p, n)
        r = rng.random()
        if r < 0.5:
            lines.append("%s %s %s" % ("occdq" if rng.random() < 0.3 else "occ", fseq(p), fseq(s)))
        elif r < 0.6:
            lines.append("count %s %s" % (fseq(p), fseq(s)))
        elif r < 0.7:
            qs = [p] + [rand_perm(rng, rng.randrange(1, 5)) for _ in range(rng.randrange(0, 3))]
            rng.shuffle(qs)
            lines.append("%s %s %s" % (rng.choice(["contains", "avoids", "avoidsset"]), fseq(s), fseqs(qs)))
        elif r < 0.8:
            ss = [s] + [planted(rng, p, rng.randrange(0, 10)) for _ in range(rng.randrange(0, 3))]
            lines.append("%s %s %s" % (rng.choice(["containedin", "avoidedby"]), fseq(p), fseqs(ss)))
        elif r < 0.9:
            # colourings: planted matching colours or random
            nc = rng.randrange(1, 3)
            cp = tuple(rng.randrange(nc + 1) for _ in range(k))
            cs = tuple(rng.randrange(nc + 1) for _ in range(n))
            if rng.random() < 0.5:
                # plant a matching colouring on one occurrence (if any) so that the filter keeps something
                o = _occs(p, s)
                if o:
                    c = rng.choice(o)
                    cs = list(cs)
                    for j, i in enumerate(c):
                        cs[i] = cp[j]
                    cs = tuple(cs)
            lines.append("%s %s %s %s %s" % ("occcspec" if rng.random() < 0.2 else "occc", fseq(p), fseq(s), fseq(cp), fseq(cs)))
        else:
            ss = [planted(rng, p, rng.randrange(0, 11)) for _ in range(rng.randrange(2, 6))]
            if rng.random() < 0.5:
                ss.append(ss[0])
            lines.append("hist %s %s" % (fseq(p), fseqs(ss)))
    ctx.compare("random-planted", lines)
    # sizes beyond the other streams: targets of length 21..24, 33..36 and 65..66 (short patterns, so that
    # the brute-force oracle stays cheap), planted occurrences hugging both ends
    lines = []
    for n in ([21, 22, 24, 33, 36, 65] if ctx.tier == "quick" else [21, 22, 23, 24, 33, 34, 36, 40, 65, 66, 130]):
        for _ in range(6):
            k = rng.randrange(1, 4 if n <= 40 else 3)
            p = rand_perm(rng, k)
            s = planted(rng, p, n)
            lines.append("occ %s %s" % (fseq(p), fseq(s)))
            lines.append("count %s %s" % (fseq(p), fseq(s)))
            q = rand_perm(rng, rng.randrange(2, 5))
            lines.append("contains %s %s" % (fseq(s), fseqs([p, q])))
            lines.append("avoids %s %s" % (fseq(s), fseqs([q])))
            cp = tuple(rng.randrange(2) for _ in range(k))
            cs = tuple(rng.randrange(2) for _ in range(n))
            lines.append("occc %s %s %s %s" % (fseq(p), fseq(s), fseq(cp), fseq(cs)))
        mono = tuple(range(n)) if n % 2 else tuple(range(n - 1, -1, -1))
        lines.append("contains %s %s" % (fseq(mono), fseqs([(0, 1, 2), (2, 1, 0)])))
        lines.append("lfc %s" % fseq(rand_perm(rng, n)))
    ctx.compare("large-targets", lines)
    # interleaved lazy listings with one pattern object
    lines = ["lazy 0,1 0,1,2 1 2,0,1", "lazy 0,1 0,1,2 0 0,1", "lazy 1,0 2,1,0 2 1,0,2"]
    for _ in range(600 if ctx.tier == "quick" else 6000):
        k = rng.randrange(1, 5)
        p = rand_perm(rng, k)
        s1 = planted(rng, p, rng.randrange(k, 9))
        s2 = planted(rng, p, rng.randrange(0, 9))
        lines.append("lazy %s %s %d %s" % (fseq(p), fseq(s1), rng.randrange(0, 5), fseq(s2)))
    ctx.compare("lazy-interleaved", lines)
    ctx.compare("malformed", ["badarg %s %s" % (fseq(s), k) for s in [(), (0,), (1, 0, 2)] for k in ("contains", "avoids", "in")])
    lines = ["%s %s" % (rng.choice(["lfc", "lfc", "lfcspec"]), fseq(rand_perm(rng, rng.randrange(9, 40)))) for _ in range(300)]
    ctx.compare("lfc-random", lines)
