"""Prototype: deterministic scheduler for real threads running permuta.Av queries.
Each thread stops at every 'line' event inside permset.py; the scheduler releases one at a time."""
import sys, threading, random, itertools
from permuta import Av, Basis, Perm
import permuta.perm_sets.permset as PS

class SchedLock:
    """Scheduler-aware replacement for Av._CACHE_LOCK (same with-interface)."""
    def __init__(self, sch): self.owner=None; self.sch=sch
    def __enter__(self):
        me=threading.get_ident()
        while self.owner is not None:
            self.sch.yield_point(blocked=True)
        self.owner=me; self.sch.log(("acquire",))
    def __exit__(self,*a):
        self.owner=None; self.sch.log(("release",)); return False

class Scheduler:
    def __init__(self, schedule_rng):
        self.rng=schedule_rng; self.cv=threading.Condition(); self.current=None
        self.state={}   # tid -> 'ready'|'blocked'|'done'
        self.trace=[]; self.names={}
    def log(self, ev): self.trace.append((self.names[threading.get_ident()],)+ev)
    def yield_point(self, blocked=False):
        me=threading.get_ident()
        with self.cv:
            self.state[me]='blocked' if blocked else 'ready'
            self.current=None; self.cv.notify_all()
            while self.current!=me: self.cv.wait()
            self.state[me]='running'
    def tracer(self, frame, event, arg):
        if frame.f_code.co_filename.endswith("permset.py"):
            if event=='line': self.yield_point()
            return self.tracer
        return None
    def run(self, jobs):
        results={}; errors={}
        def worker(name, fn):
            me=threading.get_ident(); self.names[me]=name
            with self.cv:
                self.state[me]='ready'; self.cv.notify_all()
                while self.current!=me: self.cv.wait()
            sys.settrace(self.tracer)
            try: results[name]=fn()
            except BaseException as e: errors[name]=repr(e)
            finally:
                sys.settrace(None)
                with self.cv: self.state[me]='done'; self.current=None; self.cv.notify_all()
        ths=[threading.Thread(target=worker,args=(n,f)) for n,f in jobs]
        for t in ths: t.start()
        steps=0
        with self.cv:
            while len(self.state)<len(ths): self.cv.wait()
            while True:
                while self.current is not None: self.cv.wait()
                live=[t for t,s in self.state.items() if s!='done']
                if not live: break
                cand=[t for t in live if self.state[t]=='ready'] or live  # blocked ones re-check the lock
                self.current=self.rng.choice(sorted(cand)); steps+=1
                self.cv.notify_all()
        for t in ths: t.join()
        return results, errors, steps

def spec(basis,n): return sorted(p for p in Perm.of_length(n) if p.avoids(*basis))

def trial(seed, use_lock=True):
    rng=random.Random(seed)
    Av.clear_cache()
    basis=[Perm((0,2,1))] if seed%2 else [Perm((0,1,2)),Perm((2,0,1,3))]
    av=Av(Basis(*basis))
    sch=Scheduler(rng)
    if use_lock: PS.Av._CACHE_LOCK=SchedLock(sch)
    else:
        class NoLock:
            def __enter__(s): pass
            def __exit__(s,*a): return False
        PS.Av._CACHE_LOCK=NoLock()
    qs=[rng.randint(0,6) for _ in range(3)]
    jobs=[(f"T{i}", (lambda n=n: sorted(av.of_length(n)))) for i,n in enumerate(qs)]
    res,err,steps=sch.run(jobs)
    bad=[(k,qs[int(k[1:])]) for k in res if res[k]!=spec(basis,qs[int(k[1:])])]
    return bad,err,steps,qs

if __name__=="__main__":
    import time
    for use_lock in (True, False):
        t0=time.time(); nb=ne=0; first=None
        for seed in range(60):
            bad,err,steps,qs=trial(seed,use_lock)
            if bad or err:
                nb+=bool(bad); ne+=bool(err)
                if first is None: first=(seed,qs,bad,err)
        print("lock" if use_lock else "NO lock","trials 60 wrong-results",nb,"exceptions",ne,"first",first,"time %.1fs"%(time.time()-t0))
