/-! Spike: C01 model + spec, executable, import-free -/
abbrev NSeq := List Nat

namespace Spec

def subLen : Nat → List Nat → List (List Nat)
  | 0, _ => [[]]
  | _+1, [] => []
  | k+1, x :: xs => (subLen k xs).map (x :: ·) ++ subLen (k+1) xs

def combos (n k : Nat) : List (List Nat) := subLen k (List.range n)

def pick (σ : NSeq) (c : List Nat) : NSeq := c.map (fun i => σ.getD i 0)

/-- boolean order isomorphism of two sequences of equal length -/
def orderIsoB (a b : NSeq) : Bool :=
  a.length == b.length &&
  (List.range a.length).all fun i =>
    (List.range a.length).all fun j =>
      (decide (a.getD i 0 < a.getD j 0) == decide (b.getD i 0 < b.getD j 0))

def occurrences (π σ : NSeq) : List (List Nat) :=
  (combos σ.length π.length).filter fun c => orderIsoB π (pick σ c)

end Spec

namespace Model

structure Details where
  lfi : Option Nat
  lci : Option Nat
  lbp : Nat
  ubp : Nat
deriving Repr, DecidableEq

/-- spec-level left floor: index `j < k` with the largest `π[j] < π[k]` -/
def leftFloor (π : NSeq) (k : Nat) : Option Nat :=
  (List.range k).foldl (fun best j =>
    if π.getD j 0 < π.getD k 0 then
      match best with
      | none => some j
      | some b => if π.getD b 0 < π.getD j 0 then some j else some b
    else best) none

def leftCeil (π : NSeq) (k : Nat) : Option Nat :=
  (List.range k).foldl (fun best j =>
    if π.getD k 0 < π.getD j 0 then
      match best with
      | none => some j
      | some b => if π.getD j 0 < π.getD b 0 then some j else some b
    else best) none

def patternDetails (π : NSeq) : List Details :=
  (List.range π.length).map fun k =>
    let v := π.getD k 0
    let f := leftFloor π k
    let c := leftCeil π k
    { lfi := f, lci := c,
      lbp := match f with | none => v | some j => v - π.getD j 0,
      ubp := match c with | none => π.length - v | some j => π.getD j 0 - v }

def lowerBound (σ : NSeq) (d : Details) (occ : List Nat) : Int :=
  match d.lfi with
  | none => d.lbp
  | some f => (σ.getD (occ.getD f 0) 0 : Int) + d.lbp

def upperBound (σ : NSeq) (d : Details) (occ : List Nat) : Int :=
  match d.lci with
  | none => (σ.length : Int) - d.ubp
  | some c => (σ.getD (occ.getD c 0) 0 : Int) - d.ubp

/-- the generator `occurrences(i, k)` of perm.py:2587-2636; `occ` = indices chosen so far -/
def fits (σ : NSeq) (det : List Details) (i k : Nat) (occ : List Nat) : Prop :=
  lowerBound σ (det.getD k ⟨none, none, 0, 0⟩) occ ≤ (σ.getD i 0 : Int) ∧
    (σ.getD i 0 : Int) ≤ upperBound σ (det.getD k ⟨none, none, 0, 0⟩) occ

instance (σ det i k occ) : Decidable (fits σ det i k occ) := by unfold fits; infer_instance

/-- the generator `occurrences(i, k)` of perm.py:2587-2636 in branch-normal form;
    `occ` = indices chosen so far -/
def go (σ : NSeq) (det : List Details) (n : Nat) (i k : Nat) (occ : List Nat) : List (List Nat) :=
  if σ.length - i < n - k then []
  else if i < σ.length then
    if fits σ det i k occ then
      if n - k = 1 then (occ ++ [i]) :: go σ det n (i+1) k occ
      else go σ det n (i+1) (k+1) (occ ++ [i]) ++ go σ det n (i+1) k occ
    else go σ det n (i+1) k occ
  else []
termination_by σ.length - i

def occurrencesIn (π σ : NSeq) : List (List Nat) :=
  if π.length = 0 then [[]]
  else if π.length > σ.length then []
  else go σ (patternDetails π) π.length 0 0 []

end Model

#eval Model.occurrencesIn [2,0,1] [5,3,0,4,2,1]
#eval Spec.occurrences [2,0,1] [5,3,0,4,2,1]
#eval Model.patternDetails [2,5,0,3,6,4,7,1]
