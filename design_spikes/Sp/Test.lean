import Sp.Basic
def insertAll (x : Nat) : List Nat → List (List Nat)
  | [] => [[x]]
  | y :: ys => (x :: y :: ys) :: (insertAll x ys).map (y :: ·)
def perms : Nat → List (List Nat)
  | 0 => [[]]
  | n+1 => (perms n).flatMap (insertAll n)
#eval (perms 3).length
#eval ((List.range 4).flatMap perms).all fun π =>
  ((List.range 7).flatMap perms).all fun σ => Model.occurrencesIn π σ == Spec.occurrences π σ
