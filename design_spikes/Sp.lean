import Sp.Basic
import Sp.Lfc
import Sp.Sound
import Sp.Complete
import Sp.GoSound
import Sp.Crit
