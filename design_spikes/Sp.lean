import Sp.Basic
import Sp.Lfc
import Sp.Ceil
import Sp.Sound
import Sp.Complete
import Sp.GoSound
import Sp.Main
import Sp.Crit
