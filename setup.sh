#!/bin/bash
# offline build of the Lean project (model, lemmas, property theorems, compiled driver)
set -e
cd "$(dirname "$0")"
python3 tools/translate.py /repo lean
cd lean
lake build 2>&1 | grep -v "^warning\|^Note\|^Hint\|^$\|\[apply\]\|linter\|^  " | tail -40
test -x .lake/build/bin/driver
