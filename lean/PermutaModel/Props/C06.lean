import PermutaModel.Props.C03
import PermutaModel.Lemmas.C06Filter
import PermutaModel.Lemmas.C06Sound
import PermutaModel.Lemmas.C06Std
import PermutaModel.Lemmas.C06Strong
import Mathlib.Tactic.IntervalCases

/-!
# C06 — pattern-inside-pattern containment implies containment in every permutation

Property theorems only (helpers in `Lemmas/C06Sub`, `C06Eval`, `C06Sound`, `C06Std`, `C06Filter`).
`Model.subMeshPattern` mirrors `MeshPatt.sub_mesh_pattern`, `Model.meshOccInMesh` mirrors
`MeshPatt._occurrences_in_mesh`; `Spec.SubShaded` is "the whole region is shaded and point free",
`MeshOcc` / `MeshContains` are occurrence / containment of a mesh pattern in a permutation,
`Spec.compose d c` are "the corresponding points".
-/
open Model MeshLemmas C06Lemmas

namespace C06

/-- `sub_mesh_pattern` sorts its indices first: only the set of chosen points matters -/
theorem subMesh_sorted_indices (μ : Mesh) (idxs : List Nat) :
    Model.subMeshPattern μ idxs = Model.subMeshPattern μ (idxs.mergeSort (· ≤ ·)) := by
  have hs : (idxs.mergeSort (· ≤ ·)).mergeSort (· ≤ ·) = idxs.mergeSort (· ≤ ·) := by
    apply List.mergeSort_of_pairwise
    apply List.pairwise_mergeSort
    · intro a b c h1 h2; simp only [decide_eq_true_eq] at *; omega
    · intro a b; simp only [Bool.or_eq_true, decide_eq_true_eq]; omega
  unfold Model.subMeshPattern
  rw [hs, List.length_mergeSort]

/-- **A1, the induced sub-pattern shades exactly the cells whose whole region is shaded and point
    free**: for every mesh pattern `μ` over a permutation and every strictly increasing in-range choice
    of points `c` (the empty choice included), `sub_mesh_pattern` raises nothing, its pattern is the
    standardisation of the chosen values and cell `(x, y)` is shaded iff `Spec.SubShaded μ c x y`. -/
theorem subMesh_shading_iff (μ : Mesh) (c : List Nat) (hπ : IsPerm μ.pattern) (hc : StrictInc c)
    (hr : ∀ i ∈ c, i < μ.pattern.length) :
    ∃ sub, Model.subMeshPattern μ c = .ok sub ∧ sub.pattern = standardize (Spec.pick μ.pattern c) ∧
      ∀ x y, (x, y) ∈ sub.shading ↔ Spec.SubShaded μ c x y := by
  obtain ⟨sh, h1, h2⟩ := subMesh_eval μ c hπ hc hr
  exact ⟨_, h1, rfl, h2⟩

/-- regression of a repaired defect: choosing no point of the empty pattern whose only cell is shaded
    induces that pattern itself (the code used to return the unshaded empty pattern here) -/
theorem subMesh_empty_shaded :
    Spec.SubShaded ⟨[], [(0,0)]⟩ [] 0 0 ∧
    ∃ sub, Model.subMeshPattern ⟨[], [(0,0)]⟩ [] = .ok sub ∧ sub.pattern = [] ∧ (0, 0) ∈ sub.shading := by
  have hs : Spec.SubShaded ⟨[], [(0,0)]⟩ [] 0 0 := by
    refine ⟨Nat.le_refl _, Nat.le_refl _, ?_, ?_⟩
    · intro a b ha hb _ _
      have ha' : a = 0 := by simpa using ha
      have hb' : b = 0 := by simpa using hb
      subst ha'; subst hb'; simp
    · intro idx hidx; simp at hidx
  obtain ⟨sub, h1, h2, h3⟩ := subMesh_shading_iff ⟨[], [(0,0)]⟩ [] (by decide) List.Pairwise.nil (by simp)
  exact ⟨hs, sub, h1, by rw [h2]; rfl, (h3 0 0).mpr hs⟩

/-- the pattern of an induced sub-pattern is a permutation -/
theorem subMesh_pattern_isPerm (μ : Mesh) (c : List Nat) (hπ : IsPerm μ.pattern) (hc : StrictInc c)
    (hr : ∀ i ∈ c, i < μ.pattern.length) : IsPerm (standardize (Spec.pick μ.pattern c)) :=
  standardize_isPerm (pick_nodup hπ (strictInc_nodup hc) hr)

/-- **A2, soundness of the induced sub-pattern**: if `d` is an occurrence of the mesh pattern `μ` in a
    permutation `σ` then, for every choice `c` of points of `μ`, the corresponding points `d ∘ c` form
    an occurrence of `sub_mesh_pattern μ c` in `σ` (for all `σ`, `μ`, `d`, `c`) -/
theorem subMesh_sound (μ : Mesh) (σ : NSeq) (d c : List Nat) (sub : Mesh) (hπ : IsPerm μ.pattern)
    (hd : MeshOcc μ σ d) (hc : StrictInc c) (hr : ∀ i ∈ c, i < μ.pattern.length)
    (hsub : Model.subMeshPattern μ c = .ok sub) : MeshOcc sub σ (Spec.compose d c) := by
  have hdl : d.length = μ.pattern.length := hd.occ.len
  obtain ⟨sh, h1, h2⟩ := subMesh_eval μ c hπ hc hr
  rw [h1] at hsub
  simp only [Except.ok.injEq] at hsub
  subst hsub
  have hnd := pick_nodup hπ (strictInc_nodup hc) hr
  have hpl : (Spec.pick μ.pattern c).length = c.length := by simp [Spec.pick]
  refine ⟨⟨?_, ?_, ?_, ?_⟩, ?_⟩
  · show (Spec.compose d c).length = (standardize (Spec.pick μ.pattern c)).length
    rw [compose_length, standardize_length, hpl]
  · exact compose_strictInc hd.occ.inc hc (by rw [hdl]; exact hr)
  · exact compose_rng hd.occ.rng (by rw [hdl]; exact hr)
  · intro a b ha hb
    have ha' : a < c.length := by
      have : a < (standardize (Spec.pick μ.pattern c)).length := ha
      rw [standardize_length, hpl] at this; exact this
    have hb' : b < c.length := by
      have : b < (standardize (Spec.pick μ.pattern c)).length := hb
      rw [standardize_length, hpl] at this; exact this
    show (standardize (Spec.pick μ.pattern c)).getD a 0 < (standardize (Spec.pick μ.pattern c)).getD b 0 ↔ _
    rw [standardize_lt_iff hnd (by rw [hpl]; exact ha') (by rw [hpl]; exact hb'),
      C01.pick_getD _ _ _ ha', C01.pick_getD _ _ _ hb', compose_getD d c ha', compose_getD d c hb']
    exact hd.occ.iso _ _ (hr _ (getD_mem ha')) (hr _ (getD_mem hb'))
  · intro i hi hic hmem
    have hs := (h2 _ _).mp hmem
    exact cell_transfer μ σ d c _ _ hπ hd hr hs i hi hic rfl

/-- **A3, the heart of C06 — mesh-in-mesh containment is sound for every permutation**: whenever
    `ν.occurrences_in(μ)` reports the index tuple `c`, then for *every* permutation `σ` and *every*
    occurrence `d` of the mesh pattern `μ` in `σ`, the corresponding points `d ∘ c` form an occurrence
    of the mesh pattern `ν` in `σ` -/
theorem meshInMesh_sound (ν μ : Mesh) (hν : IsPerm ν.pattern) (hμ : IsPerm μ.pattern)
    (l : List (List Nat)) (h : Model.meshOccInMesh ν μ = .ok l) (c : List Nat) (hc : c ∈ l)
    (σ : NSeq) (d : List Nat) (hd : MeshOcc μ σ d) : MeshOcc ν σ (Spec.compose d c) := by
  unfold Model.meshOccInMesh at h
  obtain ⟨hcand, sub, hsub, hss⟩ := (mem_inMeshFilter ν μ _ l h c).mp hc
  have hocc : IsOcc ν.pattern μ.pattern c := ((C03.mem_meshOccInPerm_iff ν μ.pattern hν hμ c).mp hcand).occ
  rw [shadingSubset_iff] at hss
  refine ⟨isOcc_compose hocc hd.occ, ?_⟩
  intro i hi hic hmem
  exact (subMesh_sound μ σ d c sub hμ hd hocc.inc hocc.rng hsub).free i hi hic (hss _ hmem)

/-- on mesh patterns over permutations `_occurrences_in_mesh` raises nothing -/
theorem meshInMesh_total (ν μ : Mesh) (hν : IsPerm ν.pattern) (hμ : IsPerm μ.pattern) :
    ∃ l, Model.meshOccInMesh ν μ = .ok l := by
  unfold Model.meshOccInMesh
  apply inMeshFilter_ok
  intro c hc
  have hocc := ((C03.mem_meshOccInPerm_iff ν μ.pattern hν hμ c).mp hc).occ
  obtain ⟨sh, h1, _⟩ := subMesh_eval μ c hμ hocc.inc hocc.rng
  exact ⟨_, h1⟩

/-- **reported containment between mesh patterns transfers to every permutation**:
    if `μ.contains(ν)` is reported then every permutation containing `μ` contains `ν` -/
theorem meshContains_sound (ν μ : Mesh) (hν : IsPerm ν.pattern) (hμ : IsPerm μ.pattern)
    (h : Model.meshContainsItem μ (.mesh ν) = .ok true) (σ : NSeq) (hσ : MeshContains σ μ) :
    MeshContains σ ν := by
  obtain ⟨l, hl⟩ := meshInMesh_total ν μ hν hμ
  have hany : Model.inMeshAny ν μ (Model.meshOccInPerm ν μ.pattern) = .ok true := h
  rw [inMeshAny_eq ν μ _ l hl] at hany
  simp only [Except.ok.injEq, Bool.not_eq_true', List.isEmpty_eq_false_iff] at hany
  obtain ⟨c, hc⟩ := List.exists_mem_of_ne_nil _ hany
  obtain ⟨d, hd⟩ := hσ
  exact ⟨_, meshInMesh_sound ν μ hν hμ l hl c hc σ d hd⟩

/-- the same on the executable side: whatever `Perm.contains` answers for `μ`, it answers for `ν` -/
theorem meshContains_sound_model (ν μ : Mesh) (hν : IsPerm ν.pattern) (hμ : IsPerm μ.pattern)
    (h : Model.meshContainsItem μ (.mesh ν) = .ok true) (σ : NSeq) (hσ : IsPerm σ)
    (hc : Model.containsMesh σ μ = true) : Model.containsMesh σ ν = true :=
  (C03.containsMesh_iff σ ν hν hσ).mpr
    (meshContains_sound ν μ hν hμ h σ ((C03.containsMesh_iff σ μ hμ hσ).mp hc))

/-- avoidance version: if `ν` is reported inside `μ`, every permutation avoiding `ν` avoids `μ` -/
theorem meshAvoids_transfer (ν μ : Mesh) (hν : IsPerm ν.pattern) (hμ : IsPerm μ.pattern)
    (h : Model.meshContainsItem μ (.mesh ν) = .ok true) (σ : NSeq) (hσ : ¬ MeshContains σ ν) :
    ¬ MeshContains σ μ :=
  fun hc => hσ (meshContains_sound ν μ hν hμ h σ hc)

/-- **A5, classical pattern inside a mesh pattern** (`Perm.occurrences_in(MeshPatt)`, the classical
    pattern viewed as unshaded): every reported tuple `c` transfers to every permutation containing `μ` -/
theorem permInMesh_sound (p : NSeq) (μ : Mesh) (hp : IsPerm p) (hμ : IsPerm μ.pattern) (c : List Nat)
    (hc : c ∈ Model.occurrencesIn p μ.pattern) (σ : NSeq) (d : List Nat) (hd : MeshOcc μ σ d) :
    IsOcc p σ (Spec.compose d c) :=
  isOcc_compose ((C01.mem_occurrencesIn_iff p μ.pattern hp hμ c).mp hc) hd.occ

/-- **A5, mesh pattern inside a classical pattern viewed as unshaded** (`ν.occurrences_in(MeshPatt(π))`):
    reported tuples transfer to every permutation containing `π` classically -/
theorem meshInUnshaded_sound (ν : Mesh) (π : NSeq) (hν : IsPerm ν.pattern) (hπ : IsPerm π)
    (l : List (List Nat)) (h : Model.meshOccInMesh ν ⟨π, []⟩ = .ok l) (c : List Nat) (hc : c ∈ l)
    (σ : NSeq) (d : List Nat) (hd : IsOcc π σ d) : MeshOcc ν σ (Spec.compose d c) :=
  meshInMesh_sound ν ⟨π, []⟩ hν hπ l h c hc σ d ⟨hd, by intro i _ _; simp⟩

/-- `MeshPatt.contains(*patts)`: a reported `True` transfers, pattern by pattern, to every permutation -/
theorem meshContainsAll_sound (μ : Mesh) (hμ : IsPerm μ.pattern) (items : List Item)
    (hwf : ∀ it ∈ items, C03.ItemWF it) (h : Model.meshContainsAll μ items = .ok true)
    (σ : NSeq) (hσ : MeshContains σ μ) : ∀ it ∈ items, C03.ItemHolds σ it := by
  induction items with
  | nil => intro it hit; simp at hit
  | cons it rest ih =>
    unfold Model.meshContainsAll at h
    cases hi : Model.meshContainsItem μ it with
    | error e => simp [hi] at h
    | ok b =>
      cases b with
      | false => simp [hi] at h
      | true =>
        simp only [hi] at h
        intro it' hit'
        rcases List.mem_cons.mp hit' with rfl | hmem
        · have hw := hwf it' List.mem_cons_self
          cases it' with
          | bad => exact absurd hw (by simp [C03.ItemWF])
          | mesh ν => exact meshContains_sound ν μ hw hμ hi σ hσ
          | perm p =>
            simp only [Model.meshContainsItem, Except.ok.injEq] at hi
            have hcp : Contains μ.pattern p := (C01.containsOne_iff μ.pattern p hw hμ).mp hi
            obtain ⟨c, hc⟩ := hcp
            obtain ⟨d, hd⟩ := hσ
            exact ⟨_, isOcc_compose hc hd.occ⟩
        · exact ih (fun x hx => hwf x (List.mem_cons_of_mem _ hx)) h it' hmem

/-- **B, the induced sub-pattern is the strongest pattern on the chosen points that `μ` implies**
    (witness form): whenever cell `(x, y)` of the grid through the chosen points `c` is *not* shaded
    by the induced sub-pattern, there are a permutation `σ`, an occurrence `d` of `μ` in `σ` and a
    point of `σ` outside `d ∘ c` lying in cell `(x, y)` — so no pattern on those points that follows
    from `μ` may shade `(x, y)`.  The witness is `μ`'s own pattern (an unchosen point lies in the
    cell) or its inflation by one point placed in an unshaded cell of the region. -/
theorem subMesh_strongest (μ : Mesh) (c : List Nat) (hπ : IsPerm μ.pattern)
    (hr : ∀ j ∈ c, j < μ.pattern.length) (x y : Nat) (hx : x ≤ c.length) (hy : y ≤ c.length)
    (hns : ¬ Spec.SubShaded μ c x y) :
    ∃ σ d i, IsPerm σ ∧ MeshOcc μ σ d ∧ i < σ.length ∧ i ∉ Spec.compose d c ∧
      Spec.cellOf σ (Spec.compose d c) i = (x, y) := by
  by_cases h1 : ∃ idx, idx < μ.pattern.length ∧ idx ∉ c ∧ Spec.cellOf μ.pattern c idx = (x, y)
  · obtain ⟨idx, hidx, hic, hcell⟩ := h1
    refine ⟨μ.pattern, List.range μ.pattern.length, idx, hπ, idOcc μ, hidx, ?_, ?_⟩
    · rw [compose_range hr]; exact hic
    · rw [compose_range hr]; exact hcell
  · by_cases h2 : ∃ a b, a ≤ μ.pattern.length ∧ b ≤ μ.pattern.length ∧ Spec.countLt c a = x ∧
        Spec.countLt (Spec.pick μ.pattern c) b = y ∧ (a, b) ∉ μ.shading
    · obtain ⟨a, b, ha, hb, hca, hcb, hab⟩ := h2
      refine ⟨insertAt μ.pattern a b, skipOcc μ.pattern.length a, a, insertAt_isPerm hπ hb,
        inflateOcc μ hπ ha hb hab, by rw [insertAt_length]; omega, not_mem_compose_skip c hr, ?_⟩
      rw [inflate_cell μ ha c hr, hca, hcb]
    · exfalso
      apply hns
      refine ⟨hx, hy, ?_, ?_⟩
      · intro a b ha hb hca hcb
        by_contra hab
        exact h2 ⟨a, b, ha, hb, hca, hcb, hab⟩
      · intro idx hidx hic hcell
        exact h1 ⟨idx, hidx, hic, hcell⟩

/-- **B, shading form**: any shading `R'` on the standardised chosen points such that every occurrence
    of `μ` (in every permutation) induces an occurrence of `(std, R')` on the corresponding points is
    contained in the shading computed by `sub_mesh_pattern` (cells of the grid only) -/
theorem subMesh_strongest_shading (μ : Mesh) (c : List Nat) (hπ : IsPerm μ.pattern) (hc : StrictInc c)
    (hr : ∀ j ∈ c, j < μ.pattern.length) (R' : List Cell)
    (hR' : ∀ σ d, IsPerm σ → MeshOcc μ σ d →
      MeshOcc ⟨standardize (Spec.pick μ.pattern c), R'⟩ σ (Spec.compose d c))
    (sub : Mesh) (hsub : Model.subMeshPattern μ c = .ok sub) (x y : Nat) (hx : x ≤ c.length)
    (hy : y ≤ c.length) (hxy : (x, y) ∈ R') : (x, y) ∈ sub.shading := by
  obtain ⟨sub', h1, _, h3⟩ := subMesh_shading_iff μ c hπ hc hr
  rw [hsub] at h1
  simp only [Except.ok.injEq] at h1
  subst h1
  by_contra hn
  have hns : ¬ Spec.SubShaded μ c x y := fun h => hn ((h3 x y).mpr h)
  obtain ⟨σ, d, i, hσ, hd, hi, hic, hcell⟩ := subMesh_strongest μ c hπ hr x y hx hy hns
  have := (hR' σ d hσ hd).free i hi hic
  rw [hcell] at this
  exact this hxy

/-- **completeness of mesh-in-mesh occurrences**: an index tuple `c` whose corresponding points carry
    an occurrence of `ν` in *every* permutation and for *every* occurrence of `μ` is reported by
    `ν.occurrences_in(μ)` (so, with `meshInMesh_sound`, the reported tuples are exactly the
    semantically valid ones) -/
theorem meshInMesh_complete (ν μ : Mesh) (hν : IsPerm ν.pattern) (hμ : IsPerm μ.pattern)
    (hνs : ∀ cell ∈ ν.shading, cell.1 ≤ ν.pattern.length ∧ cell.2 ≤ ν.pattern.length)
    (l : List (List Nat)) (h : Model.meshOccInMesh ν μ = .ok l) (c : List Nat)
    (hr : ∀ j ∈ c, j < μ.pattern.length)
    (hsem : ∀ σ d, IsPerm σ → MeshOcc μ σ d → MeshOcc ν σ (Spec.compose d c)) : c ∈ l := by
  unfold Model.meshOccInMesh at h
  rw [mem_inMeshFilter ν μ _ l h c]
  have hself : MeshOcc ν μ.pattern c := by
    have := hsem μ.pattern _ hμ (idOcc μ)
    rwa [compose_range hr] at this
  have hc : StrictInc c := hself.occ.inc
  refine ⟨(C03.mem_meshOccInPerm_iff ν μ.pattern hν hμ c).mpr hself, ?_⟩
  obtain ⟨sub, h1, _, h3⟩ := subMesh_shading_iff μ c hμ hc hr
  refine ⟨sub, h1, ?_⟩
  rw [shadingSubset_iff]
  rintro ⟨x, y⟩ hxy
  by_contra hn
  have hb := hνs _ hxy
  have hlen : c.length = ν.pattern.length := hself.occ.len
  have hns : ¬ Spec.SubShaded μ c x y := fun hs => hn ((h3 x y).mpr hs)
  obtain ⟨σ, d, i, hσ, hd, hi, hic, hcell⟩ :=
    subMesh_strongest μ c hμ hr x y (by rw [hlen]; exact hb.1) (by rw [hlen]; exact hb.2) hns
  have := (hsem σ d hσ hd).free i hi hic
  rw [hcell] at this
  exact this hxy

/-- non-vacuity (doctest of `sub_mesh_pattern`): a strictly increasing in-range choice, and a cell that
    is shaded because its merged region is fully shaded and point free -/
example : IsPerm [3,2,1,0] ∧ StrictInc [0,1,3] ∧
    Spec.SubShaded ⟨[3,2,1,0], [(3,2),(1,3),(4,2),(0,3),(1,2),(4,3)]⟩ [0,1,3] 3 2 := by
  refine ⟨by decide, by unfold StrictInc; decide, ⟨by decide, by decide, ?_, ?_⟩⟩
  · intro a b ha hb h1 h2
    have ha' : a ≤ 4 := ha
    have hb' : b ≤ 4 := hb
    interval_cases a <;> interval_cases b <;> revert h1 h2 <;> decide
  · intro idx hidx hic
    have : idx < 4 := hidx
    interval_cases idx <;> revert hic <;> decide

/-- non-vacuity of `meshInMesh_sound`: the unshaded point occurs inside `(0 1, {(1,1)})`, and that
    mesh pattern occurs in a permutation -/
example : MeshOcc ⟨[0,1], [(1,1)]⟩ [0,2,1] [0,1] ∧ MeshOcc ⟨[0], []⟩ [0,2,1] (Spec.compose [0,1] [1]) :=
  ⟨(C03.mem_meshOccs_iff _ _ _).mp (by decide), (C03.mem_meshOccs_iff _ _ _).mp (by decide)⟩

/-- non-vacuity of `subMesh_strongest`: in `(0 1, {(1,1)})` with the first point chosen, cell `(1, 1)`
    is not shaded by the induced sub-pattern (the second point lies in it) -/
example : ¬ Spec.SubShaded ⟨[0,1], [(1,1)]⟩ [0] 1 1 :=
  fun h => h.pointfree 1 (by decide) (by decide) (by decide)

/-- `Patt.contained_in(*patts)` with mesh-pattern targets (`all(patt.contains(self) for patt in patts)`): a reported
    `True` transfers to every permutation containing ANY ONE of the targets -/
theorem containedInMeshes_sound (it : Item) (hw : C03.ItemWF it) (μs : List Mesh)
    (hμ : ∀ μ ∈ μs, IsPerm μ.pattern) (h : Model.containedInMeshes it μs = .ok true)
    (μ : Mesh) (hmem : μ ∈ μs) (σ : NSeq) (hσ : MeshContains σ μ) : C03.ItemHolds σ it := by
  induction μs with
  | nil => simp at hmem
  | cons ν rest ih =>
    unfold Model.containedInMeshes at h
    cases hi : Model.meshContainsAll ν [it] with
    | error e => simp [hi] at h
    | ok b =>
      cases b with
      | false => simp [hi] at h
      | true =>
        simp only [hi] at h
        rcases List.mem_cons.mp hmem with heq | hm
        · subst heq
          exact meshContainsAll_sound μ (hμ μ List.mem_cons_self) [it]
            (by intro x hx; rw [List.mem_singleton.mp hx]; exact hw) hi σ hσ it List.mem_cons_self
        · exact ih (fun x hx => hμ x (List.mem_cons_of_mem _ hx)) h hm

/-- `Patt.avoided_by(*patts)` with mesh-pattern targets answers `True` exactly when no target is reported to
    contain the item, i.e. it is the negation of `contained_in` target by target -/
theorem avoidedByMeshes_iff (it : Item) (μs : List Mesh) :
    Model.avoidedByMeshes it μs = .ok true → ∀ μ ∈ μs, Model.meshContainsItem μ it = .ok false := by
  induction μs with
  | nil => intro _ μ hμ; simp at hμ
  | cons ν rest ih =>
    intro h μ hmem
    unfold Model.avoidedByMeshes at h
    cases hi : Model.meshContainsItem ν it with
    | error e => simp [Model.meshAvoidsAll, hi] at h
    | ok b =>
      cases b with
      | true => simp [Model.meshAvoidsAll, hi] at h
      | false =>
        simp only [Model.meshAvoidsAll, hi] at h
        rcases List.mem_cons.mp hmem with heq | hm
        · subst heq; exact hi
        · exact ih h μ hm

/-- non-vacuity of `containedInMeshes_sound`: the unshaded point is inside both targets; the fully shaded point is
    inside itself but not inside the unshaded `0 1` (the call the transitivity shortcut of seed C06-11 got wrong) -/
example : Model.containedInMeshes (.mesh ⟨[0], []⟩) [⟨[0], [(0,0),(0,1),(1,0),(1,1)]⟩, ⟨[0,1], []⟩] = .ok true ∧
    Model.containedInMeshes (.mesh ⟨[0], [(0,0),(0,1),(1,0),(1,1)]⟩)
      [⟨[0], [(0,0),(0,1),(1,0),(1,1)]⟩, ⟨[0,1], []⟩] = .ok false ∧
    Model.avoidedByMeshes (.mesh ⟨[0], [(0,0),(0,1),(1,0),(1,1)]⟩) [⟨[0,1], []⟩] = .ok true := by
  refine ⟨by decide +kernel, by decide +kernel, by decide +kernel⟩

end C06
