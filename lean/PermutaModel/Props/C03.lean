import PermutaModel.Props.C01
import PermutaModel.Lemmas.C03Biv

/-!
# C03 — mesh, bivincular, vincular and covincular occurrences in permutations are exact

Property theorems only (helpers in `Lemmas/MeshScan`, `MeshCount`, `MeshValues`, `C03Biv`).
`Model.meshOccInPerm` mirrors `MeshPatt._occurrences_in_perm`, `Model.bivincular` the constructor
of `BivincularPatt` with `_to_shading`; `MeshOcc` / `Spec.AdjOcc` are the property's wording.
-/
open Model MeshLemmas

namespace C03

/-- **Main theorem**: for all permutations `σ` and all mesh patterns `(π, R)` the model of
    `MeshPatt.occurrences_in(Perm)` returns exactly the classical occurrences (in lexicographic
    order) for which no point of `σ` outside the occurrence lies in a shaded cell, the cell of
    position `i` being (number of occurrence indices `< i`, number of occurrence values `< σ[i]`) -/
theorem meshOcc_eq_spec (m : Mesh) (σ : NSeq) (hπ : IsPerm m.pattern) (hσ : IsPerm σ) :
    Model.meshOccInPerm m σ = Spec.meshOccs m σ := by
  unfold Model.meshOccInPerm Spec.meshOccs
  rw [C01.occurrencesIn_eq_spec _ _ hπ hσ]
  apply List.filter_congr
  intro c hc
  have := (C01.mem_spec_iff _ _ _).mp hc
  exact meshScan_eq_meshOk _ _ _ hσ this.inc this.rng

/-- the specification list is the set of mesh occurrences in the property's wording -/
theorem mem_meshOccs_iff (m : Mesh) (σ : NSeq) (c : List Nat) : c ∈ Spec.meshOccs m σ ↔ MeshOcc m σ c := by
  unfold Spec.meshOccs
  rw [List.mem_filter, C01.mem_spec_iff]
  have : Spec.meshOk m.shading σ c = true ↔
      ∀ i, i < σ.length → i ∉ c → Spec.cellOf σ c i ∉ m.shading := by
    unfold Spec.meshOk
    simp only [List.all_eq_true, List.mem_range, Bool.or_eq_true,
      Bool.not_eq_true', List.contains_eq_mem, decide_eq_false_iff_not, decide_eq_true_eq]
    constructor
    · intro h i hi hic
      rcases h i hi with h | h
      · exact absurd h hic
      · exact h
    · intro h i hi
      by_cases hic : i ∈ c
      · exact Or.inl hic
      · exact Or.inr (h i hi hic)
  rw [this]
  exact ⟨fun ⟨a, b⟩ => ⟨a, b⟩, fun ⟨a, b⟩ => ⟨a, b⟩⟩

/-- every reported tuple is a mesh occurrence and every mesh occurrence is reported -/
theorem mem_meshOccInPerm_iff (m : Mesh) (σ : NSeq) (hπ : IsPerm m.pattern) (hσ : IsPerm σ) (c : List Nat) :
    c ∈ Model.meshOccInPerm m σ ↔ MeshOcc m σ c := by
  rw [meshOcc_eq_spec m σ hπ hσ, mem_meshOccs_iff]

/-- each mesh occurrence is reported once -/
theorem meshOcc_nodup (m : Mesh) (σ : NSeq) (hπ : IsPerm m.pattern) (hσ : IsPerm σ) :
    (Model.meshOccInPerm m σ).Nodup :=
  (C01.occurrencesIn_nodup _ _ hπ hσ).filter _

/-- mesh occurrences are reported in lexicographic order -/
theorem meshOcc_lex_sorted (m : Mesh) (σ : NSeq) (hπ : IsPerm m.pattern) (hσ : IsPerm σ) :
    (Model.meshOccInPerm m σ).Pairwise (fun a b => lexLt a b = true) :=
  (C01.occurrencesIn_lex_sorted _ _ hπ hσ).filter _

/-- with no shaded cell a mesh pattern is its underlying classical pattern -/
theorem unshaded_eq_classical (π σ : NSeq) : Model.meshOccInPerm ⟨π, []⟩ σ = Model.occurrencesIn π σ := by
  unfold Model.meshOccInPerm
  rw [List.filter_eq_self]
  intro c _
  suffices h : ∀ (cand l : List Nat) (x : Nat), Model.meshScan [] cand l x = true from h _ _ _
  intro cand l
  induction l with
  | nil => intro x; rfl
  | cons e r ih =>
    intro x
    unfold Model.meshScan
    simp only [List.contains_nil, Bool.false_eq_true, if_false]
    split <;> exact ih _

/-- containment of a mesh pattern agrees with the occurrence set -/
theorem containsMesh_iff (σ : NSeq) (m : Mesh) (hπ : IsPerm m.pattern) (hσ : IsPerm σ) :
    Model.containsMesh σ m = true ↔ MeshContains σ m := by
  unfold Model.containsMesh MeshContains
  constructor
  · intro h
    cases hl : Model.meshOccInPerm m σ with
    | nil => simp [hl] at h
    | cons c t => exact ⟨c, (mem_meshOccInPerm_iff m σ hπ hσ c).mp (by simp [hl])⟩
  · rintro ⟨c, hc⟩
    have := (mem_meshOccInPerm_iff m σ hπ hσ c).mpr hc
    cases hl : Model.meshOccInPerm m σ with
    | nil => simp [hl] at this
    | cons c t => simp

/-- occurrence count = size of the specification list -/
theorem meshCount_eq (m : Mesh) (σ : NSeq) (hπ : IsPerm m.pattern) (hσ : IsPerm σ) :
    Model.meshCount m σ = (Spec.meshOccs m σ).length := by
  unfold Model.meshCount; rw [meshOcc_eq_spec m σ hπ hσ]

/-- the `BivincularPatt` constructor succeeds exactly when all requirements lie in `0 … |π|`;
    otherwise it raises `AssertionError` (never anything else) -/
theorem bivincular_ok_iff (π : NSeq) (I V : List Int) :
    ((∃ m, Model.bivincular π I V = .ok m) ↔ ∀ x ∈ I ++ V, 0 ≤ x ∧ x ≤ (π.length : Int)) ∧
    (∀ e, Model.bivincular π I V = .error e → e = .assertion) := by
  unfold Model.bivincular
  cases h : toShading π.length I V with
  | ok R =>
    obtain ⟨h1, h2, _⟩ := toShading_ok _ I V R h
    simp only [mkMesh_of_toShading h]
    refine ⟨⟨fun _ x hx => ?_, fun _ => ⟨_, rfl⟩⟩, fun e he => by simp at he⟩
    rcases List.mem_append.mp hx with hx | hx
    · exact h1 x hx
    · exact h2 x hx
  | error e =>
    obtain ⟨he, x, hx, hx2⟩ := toShading_error _ I V e h
    refine ⟨⟨fun ⟨m, hm⟩ => by simp at hm, fun hall => ?_⟩, fun e' he' => ?_⟩
    · have := hall x hx; omega
    · simp only [Except.error.injEq] at he'; rw [← he', he]

/-- **bivincular patterns are their adjacency requirements**: for every pattern `π`, requirement
    lists `I` (positions) and `V` (values) accepted by the constructor, and every permutation `σ`,
    the mesh pattern built by `_to_shading` occurs at `c` iff `c` is an occurrence of `π` whose
    points satisfy every position requirement (`j = 0`: first point at position `0`; `j = |π|`: last
    point at position `|σ|-1`; else points `j-1`, `j` at adjacent positions) and every value
    requirement (same on values, through the pattern's values) -/
theorem bivincular_iff_adjacent (π σ : NSeq) (I V : List Int) (m : Mesh)
    (hm : Model.bivincular π I V = .ok m) (hπ : IsPerm π) (hσ : IsPerm σ) (c : List Nat) :
    c ∈ Model.meshOccInPerm m σ ↔ Spec.AdjOcc π (I.map Int.toNat) (V.map Int.toNat) σ c := by
  unfold Model.bivincular at hm
  cases h : toShading π.length I V with
  | error e => simp [h] at hm
  | ok R =>
    simp only [h, mkMesh_of_toShading h, Except.ok.injEq] at hm
    subst hm
    obtain ⟨hI, hV, hR⟩ := toShading_ok _ I V R h
    rw [mem_meshOccInPerm_iff _ σ hπ hσ c]
    have hnat : ∀ j : Int, 0 ≤ j → j ≤ (π.length : Int) → j.toNat ≤ π.length := by intro j h0 h1; omega
    constructor
    · rintro ⟨hocc, hfree⟩
      have hocc' : IsOcc π σ c := hocc
      refine ⟨hocc', ?_, ?_⟩
      · intro j hj
        obtain ⟨j', hj', rfl⟩ := List.mem_map.mp hj
        have hb := hI j' hj'
        apply (column_free_iff hocc' _ (hnat j' hb.1 hb.2)).mp
        intro i hi hic hcell
        apply hfree i hi hic
        show Spec.cellOf σ c i ∈ R.eraseDups
        rw [List.mem_eraseDups]
        have hle := (cellOf_le (σ := σ) (c := c) i).2
        rw [hocc'.len] at hle
        exact (hR _ _).mpr (Or.inl ⟨⟨j', hj', hcell.symm⟩, hle⟩)
      · intro v hv
        obtain ⟨v', hv', rfl⟩ := List.mem_map.mp hv
        have hb := hV v' hv'
        apply (row_free_iff hπ hσ hocc' _ (hnat v' hb.1 hb.2)).mp
        intro i hi hic hcell
        apply hfree i hi hic
        show Spec.cellOf σ c i ∈ R.eraseDups
        rw [List.mem_eraseDups]
        have hle := (cellOf_le (σ := σ) (c := c) i).1
        rw [hocc'.len] at hle
        exact (hR _ _).mpr (Or.inr ⟨⟨v', hv', hcell.symm⟩, hle⟩)
    · rintro ⟨hocc, hpos, hval⟩
      refine ⟨hocc, ?_⟩
      intro i hi hic hmem
      have hmem' : Spec.cellOf σ c i ∈ R := List.mem_eraseDups.mp hmem
      rcases (hR _ _).mp hmem' with ⟨⟨j, hj, hje⟩, _⟩ | ⟨⟨v, hv, hve⟩, _⟩
      · have hb := hI j hj
        have := (column_free_iff hocc _ (hnat j hb.1 hb.2)).mpr (hpos _ (List.mem_map.mpr ⟨j, hj, rfl⟩))
        exact this i hi hic hje.symm
      · have hb := hV v hv
        have := (row_free_iff hπ hσ hocc _ (hnat v hb.1 hb.2)).mpr (hval _ (List.mem_map.mpr ⟨v, hv, rfl⟩))
        exact this i hi hic hve.symm

/-- vincular patterns: position requirements only -/
theorem vincular_iff_adjacent (π σ : NSeq) (I : List Int) (m : Mesh)
    (hm : Model.vincular π I = .ok m) (hπ : IsPerm π) (hσ : IsPerm σ) (c : List Nat) :
    c ∈ Model.meshOccInPerm m σ ↔ IsOcc π σ c ∧ ∀ j ∈ I, Spec.AdjPos c σ.length j.toNat := by
  rw [bivincular_iff_adjacent π σ I [] m hm hπ hσ c]
  constructor
  · rintro ⟨h1, h2, _⟩
    exact ⟨h1, fun j hj => h2 _ (List.mem_map.mpr ⟨j, hj, rfl⟩)⟩
  · rintro ⟨h1, h2⟩
    refine ⟨h1, ?_, by simp⟩
    intro j hj
    obtain ⟨j', hj', rfl⟩ := List.mem_map.mp hj
    exact h2 j' hj'

/-- covincular patterns: value requirements only -/
theorem covincular_iff_adjacent (π σ : NSeq) (V : List Int) (m : Mesh)
    (hm : Model.covincular π V = .ok m) (hπ : IsPerm π) (hσ : IsPerm σ) (c : List Nat) :
    c ∈ Model.meshOccInPerm m σ ↔ IsOcc π σ c ∧ ∀ v ∈ V, Spec.AdjVal π σ c v.toNat := by
  rw [bivincular_iff_adjacent π σ [] V m hm hπ hσ c]
  constructor
  · rintro ⟨h1, _, h3⟩
    exact ⟨h1, fun j hj => h3 _ (List.mem_map.mpr ⟨j, hj, rfl⟩)⟩
  · rintro ⟨h1, h2⟩
    refine ⟨h1, by simp, ?_⟩
    intro j hj
    obtain ⟨j', hj', rfl⟩ := List.mem_map.mp hj
    exact h2 j' hj'

/-- what the property says about one argument of `contains` / `avoids` -/
def ItemHolds (σ : NSeq) : Item → Prop
  | .perm p => Contains σ p
  | .mesh m => MeshContains σ m
  | .bad => False

/-- a well-formed argument: a classical or mesh-type pattern over a permutation -/
def ItemWF : Item → Prop
  | .perm p => IsPerm p
  | .mesh m => IsPerm m.pattern
  | .bad => False

theorem containsItem_iff (σ : NSeq) (hσ : IsPerm σ) (it : Item) (hwf : ItemWF it) :
    ∃ b, Model.containsItem σ it = .ok b ∧ (b = true ↔ ItemHolds σ it) := by
  cases it with
  | perm p => exact ⟨_, rfl, C01.containsOne_iff σ p hwf hσ⟩
  | mesh m => exact ⟨_, rfl, containsMesh_iff σ m hwf hσ⟩
  | bad => exact absurd hwf (by simp [ItemWF])

/-- **mixed containment**: `Perm.contains` of any list of classical and mesh-type patterns is the
    conjunction of the specification containments -/
theorem contains_mixed (σ : NSeq) (hσ : IsPerm σ) (items : List Item) (hwf : ∀ it ∈ items, ItemWF it) :
    ∃ b, Model.containsMixed σ items = .ok b ∧ (b = true ↔ ∀ it ∈ items, ItemHolds σ it) := by
  induction items with
  | nil => exact ⟨true, rfl, by simp⟩
  | cons it rest ih =>
    obtain ⟨b, hb, hbi⟩ := containsItem_iff σ hσ it (hwf it List.mem_cons_self)
    obtain ⟨b', hb', hbi'⟩ := ih (fun x hx => hwf x (List.mem_cons_of_mem _ hx))
    unfold Model.containsMixed
    cases b with
    | true =>
      refine ⟨b', by simp only [hb]; exact hb', ?_⟩
      rw [hbi']
      simp only [List.mem_cons, forall_eq_or_imp]
      exact ⟨fun h => ⟨hbi.mp rfl, h⟩, fun h => h.2⟩
    | false =>
      refine ⟨false, by simp only [hb], ?_⟩
      simp only [List.mem_cons, forall_eq_or_imp, Bool.false_eq_true, false_iff, not_and]
      intro h; exact absurd (hbi.mpr h) (by simp)

/-- **mixed avoidance**: `Perm.avoids` / `avoids_set` of any list of classical and mesh-type patterns
    holds iff none of them is contained -/
theorem avoids_mixed (σ : NSeq) (hσ : IsPerm σ) (items : List Item) (hwf : ∀ it ∈ items, ItemWF it) :
    ∃ b, Model.avoidsMixed σ items = .ok b ∧ (b = true ↔ ∀ it ∈ items, ¬ ItemHolds σ it) := by
  induction items with
  | nil => exact ⟨true, rfl, by simp⟩
  | cons it rest ih =>
    obtain ⟨b, hb, hbi⟩ := containsItem_iff σ hσ it (hwf it List.mem_cons_self)
    obtain ⟨b', hb', hbi'⟩ := ih (fun x hx => hwf x (List.mem_cons_of_mem _ hx))
    unfold Model.avoidsMixed
    cases b with
    | false =>
      refine ⟨b', by simp only [hb]; exact hb', ?_⟩
      rw [hbi']
      simp only [List.mem_cons, forall_eq_or_imp]
      exact ⟨fun h => ⟨fun hh => absurd (hbi.mpr hh) (by simp), h⟩, fun h => h.2⟩
    | true =>
      refine ⟨false, by simp only [hb], ?_⟩
      simp only [List.mem_cons, forall_eq_or_imp, Bool.false_eq_true, false_iff, not_and]
      intro h; exact absurd (hbi.mp rfl) h

/-- a non-pattern argument is the only source of an exception, and it is a `TypeError` -/
theorem contains_mixed_error (σ : NSeq) (items : List Item) (e : Proto.Err)
    (h : Model.containsMixed σ items = .error e) : e = .typeError ∧ Item.bad ∈ items := by
  induction items with
  | nil => simp [Model.containsMixed] at h
  | cons it rest ih =>
    unfold Model.containsMixed at h
    cases it with
    | bad => simp only [Model.containsItem, Except.error.injEq] at h; exact ⟨h.symm, List.mem_cons_self⟩
    | perm p =>
      simp only [Model.containsItem] at h
      cases hc : containsOne σ p <;> simp only [hc] at h
      · simp at h
      · exact ⟨(ih h).1, List.mem_cons_of_mem _ (ih h).2⟩
    | mesh m =>
      simp only [Model.containsItem] at h
      cases hc : containsMesh σ m <;> simp only [hc] at h
      · simp at h
      · exact ⟨(ih h).1, List.mem_cons_of_mem _ (ih h).2⟩

/-- **history independence**: after any sequence of earlier searches with the same mesh-pattern
    object (its underlying `Perm` memoises the search table) the next search returns what a fresh
    computation returns -/
theorem mesh_search_history_independent (m : Mesh) (hist : List NSeq) (σ : NSeq) :
    ((hist.foldl (fun (o : MeshObj) s => (o.search s).1) ⟨⟨m.pattern, none⟩, m.shading⟩).search σ).2
      = Model.meshOccInPerm m σ := by
  suffices h : ∀ (o : MeshObj), C01.CacheInv o.patt →
      ((hist.foldl (fun (o : MeshObj) s => (o.search s).1) o).search σ).2
        = Model.meshOccInPerm ⟨o.patt.perm, o.shading⟩ σ from
    h ⟨⟨m.pattern, none⟩, m.shading⟩ (Or.inl rfl)
  induction hist with
  | nil =>
    intro o ho
    simp only [List.foldl_nil, MeshObj.search, Model.meshOccInPerm, (C01.search_preserves o.patt σ ho).2.2]
  | cons s t ih =>
    intro o ho
    have hp := C01.search_preserves o.patt s ho
    simp only [List.foldl_cons]
    rw [ih _ (by simpa [MeshObj.search] using hp.1)]
    simp only [MeshObj.search, hp.2.1]

/-- non-vacuity: the doctest instance of `MeshPatt.occurrences_in` -/
example : IsPerm [1,0,2] ∧ IsPerm [3,1,0,2,4] ∧
    Spec.meshOccs ⟨[1,0,2], [(1,2),(2,2),(2,3)]⟩ [3,1,0,2,4] = [[0,1,4],[0,2,4],[0,3,4],[1,2,3]] := by
  decide

/-- non-vacuity: `0 1` with adjacent positions in `0 2 1` -/
example : Model.bivincular [0,1] [1] [] = .ok ⟨[0,1], [(1,0),(1,1),(1,2)]⟩ ∧
    Spec.AdjOcc [0,1] [1] [] [0,2,1] [0,1] ∧ ¬ Spec.AdjOcc [0,1] [1] [] [0,2,1] [0,2] ∧
    Spec.AdjPos [0,2] 3 0 ∧ ¬ Spec.AdjPos [0,1] 3 2 ∧ Spec.AdjVal [0,1] [0,2,1] [0,2] 1 :=
  ⟨by decide, ⟨(C01.mem_spec_iff _ _ _).mp (by decide), by decide, by decide⟩,
    fun h => absurd (h.pos 1 (by simp)) (by decide), by decide, by decide, by decide⟩

/-- mesh containment can be decided on the specification list -/
theorem meshContains_iff_spec (σ : NSeq) (m : Mesh) : MeshContains σ m ↔ Spec.meshOccs m σ ≠ [] := by
  unfold MeshContains
  constructor
  · rintro ⟨c, hc⟩ h
    have := (mem_meshOccs_iff m σ c).mpr hc
    rw [h] at this; simp at this
  · intro h
    obtain ⟨c, hc⟩ := List.exists_mem_of_ne_nil _ h
    exact ⟨c, (mem_meshOccs_iff m σ c).mp hc⟩

/-- non-vacuity: well-formed mixed arguments, one contained and one not -/
example : ItemWF (.perm [0,1]) ∧ ItemWF (.mesh ⟨[0,1], [(1,2),(2,1)]⟩) ∧ IsPerm [0,2,1] ∧
    ItemHolds [0,2,1] (.mesh ⟨[0,1], [(1,0)]⟩) ∧ ¬ ItemHolds [0,2,1] (.mesh ⟨[0,1], [(1,2),(2,1)]⟩) :=
  ⟨by show IsPerm [0,1]; decide, by show IsPerm [0,1]; decide, by decide, (meshContains_iff_spec _ _).mpr (by decide),
    fun h => absurd ((meshContains_iff_spec _ _).mp h) (by decide)⟩

end C03
