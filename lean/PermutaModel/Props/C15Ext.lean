import PermutaModel.Props.C14
import PermutaModel.Lemmas.C15MToSp
import PermutaModel.Driver.C15
/-! # C15 – property theorems that rest on C14's Theorem 3.13 (proved later in the import order)

`Props/C14.lean` imports `Props/C15.lean` (its cross-consistency theorems talk about the C15 NFA), so the
semantic statements of C15 that are consequences of `C14.pinword_contains_iff` live here.  They are
proof obligations of the C15 check like those of `Props/C15.lean` (harness/core.py `prop_modules`). -/
open Model.C15 Spec.C15 Spec

namespace C15

/-- **accepts_iff_contains** (Bassino–Bouvel–Pierrot–Rossin): for every basis `B` and every pin sequence
    `m ∈ L(M)` with at least two letters, the basis automaton that `make_dfa_for_basis(B)` builds accepts `m`
    **iff** the permutation of the strict pin word `m_to_sp(m)` contains a basis element. -/
theorem accepts_iff_contains (B : List NSeq) (hB : ∀ p ∈ B, IsPerm p) (m : List Char)
    (hm : InM m) (hlen : 2 ≤ m.length) :
    ∃ w σ, Model.C14.mToSp (m.map Model.C14.Letter.ofChar) = .ok w ∧ Model.C14.isStrict w = true
      ∧ Model.C14.pinwordToPerm w = .ok σ
      ∧ ((dfaForBasis B).accepts m = true ↔ ∃ p ∈ B, Contains σ p) := by
  obtain ⟨w, σ, h1, h2, h3, h4⟩ := C14.basisAccepts_iff_contains B hB m hm hlen
  refine ⟨w, σ, h1, h2, h3, ?_⟩
  rw [pipeline_language, h4]
  exact ⟨fun h => h.2, fun h => ⟨hm.1, h⟩⟩

/-- **has_finite_pinperms, semantically**: the verdict is `True` iff the permutations of strict pin words that
    avoid the basis have bounded length (i.e. `Av(B)` contains finitely many of them) -/
theorem has_finite_pinperms_iff_finitely_many (B : List NSeq) (hB : ∀ p ∈ B, IsPerm p) :
    hasFinitePinperms B = true ↔
      ∃ N, ∀ w σ, Model.C14.isStrict w = true → Model.C14.pinwordToPerm w = .ok σ →
        (∀ p ∈ B, ¬ Contains σ p) → σ.length ≤ N :=
  C14.hasFinitePinperms_iff B hB

/-- the verdict depends only on the class `Av(B)` … -/
theorem has_finite_pinperms_class_only (B B' : List NSeq) (hB : ∀ x ∈ B, IsPerm x) (hB' : ∀ x ∈ B', IsPerm x)
    (h : ∀ σ, IsPerm σ → ((∀ x ∈ B, ¬ Contains σ x) ↔ (∀ x ∈ B', ¬ Contains σ x))) :
    hasFinitePinperms B = hasFinitePinperms B' :=
  C14.hasFinitePinperms_class_only B B' hB hB' h

/-- … and is invariant under the eight symmetries of the square -/
theorem has_finite_pinperms_act (B : List NSeq) (hB : ∀ x ∈ B, IsPerm x) (g : D8) :
    hasFinitePinperms (B.map g.act) = hasFinitePinperms B :=
  C14.hasFinitePinperms_act B hB g

/-- non-vacuity: `Av(12)` (decreasing permutations) has finitely many pin permutations, `Av(123)` does not;
    the automaton of `{12}` accepts `UR` (the pin permutation of `1UR`… contains `12`) -/
example : hasFinitePinperms [[0, 1]] = hasFinitePinperms ([[0, 1]].map (⟨false, false, false⟩ : D8).act) :=
  (has_finite_pinperms_act _ (by decide) _).symm

/-! ## C15's own helper copies are C14's (so the theorems above can be read on the functions the C15 driver runs) -/

/-- **`m_to_sp` bridge**: for EVERY word (any characters, any length) C15's copy of `m_to_sp` (op `mtosp`) and
    C14's agree: the same strict pin word, or `KeyError` on both sides -/
theorem mToSp_bridge (m : List Char) :
    Model.C14.mToSp (m.map Model.C14.Letter.ofChar) =
      match mToSp m with
      | some v => .ok (v.map Model.C14.Letter.ofChar)
      | none => .error .keyError :=
  C14C15.mToSp_bridge m

/-- `is_strict_pinword` bridge (op `strict`), for every word -/
theorem isStrict_bridge (w : List Char) :
    Model.C14.isStrict (w.map Model.C14.Letter.ofChar) = isStrict w := C14C15.isStrict_bridge w

/-- non-vacuity of the bridges: a word of `M`, and a word both copies reject -/
example : mToSp "ULULD".toList = some "2ULD".toList ∧ mToSp "UD".toList = none
    ∧ Model.C14.mToSp ("UD".toList.map Model.C14.Letter.ofChar) = .error .keyError := by decide

/-- **accepts_iff_contains, entirely on C15's own functions**: for every basis `B` and every pin sequence
    `m ∈ L(M)` with at least two letters, `Model.C15.mToSp m` is a strict pin word `w` (`Model.C15.isStrict`),
    `Model.C15.pinwordToPerm w` is a permutation `σ`, and the automaton `dfaForBasis B` accepts `m` **iff**
    `σ` contains a basis element. -/
theorem accepts_iff_contains_own (B : List NSeq) (hB : ∀ p ∈ B, IsPerm p) (m : List Char)
    (hm : InM m) (hlen : 2 ≤ m.length) :
    ∃ w σ, mToSp m = some w ∧ isStrict w = true ∧ pinwordToPerm w = .ok σ
      ∧ ((dfaForBasis B).accepts m = true ↔ ∃ p ∈ B, Contains σ p) := by
  obtain ⟨w, σ, h1, h2, h3, h4⟩ := accepts_iff_contains B hB m hm hlen
  rw [mToSp_bridge] at h1
  cases hv : mToSp m with
  | none => rw [hv] at h1; cases h1
  | some v =>
    rw [hv] at h1
    simp only [Except.ok.injEq] at h1
    subst h1
    exact ⟨v, σ, rfl, (isStrict_bridge v).symm.trans h2, C14C15.decode_bridge v σ h3, h4⟩

/-- non-vacuity: `UR ∈ L(M)`; the automaton of the basis `{1}` accepts it, so the permutation that C15's own
    `m_to_sp` / `pinword_to_perm` give for `UR` contains `1` -/
example : ∃ w σ, mToSp "UR".toList = some w ∧ pinwordToPerm w = .ok σ ∧ ∃ p ∈ [[0]], Contains σ p := by
  have hm : InM "UR".toList := (dfaM_language _).mp (by decide +kernel)
  obtain ⟨w, σ, h1, _, h3, h4⟩ := accepts_iff_contains_own [[0]] (by decide) "UR".toList hm (by decide)
  exact ⟨w, σ, h1, h3, h4.mp (by decide +kernel)⟩

/-- **has_finite_pinperms on C15's own functions**: the verdict is `True` iff the permutations of the strict
    pin words `m_to_sp(m)`, `m ∈ L(M)`, that avoid the basis come from boundedly long `m` -/
theorem has_finite_pinperms_iff_own (B : List NSeq) (hB : ∀ p ∈ B, IsPerm p) :
    hasFinitePinperms B = true ↔
      ∃ N, ∀ m w σ, InM m → mToSp m = some w → pinwordToPerm w = .ok σ →
        (∀ p ∈ B, ¬ Contains σ p) → m.length ≤ N := by
  rw [has_finite_pinperms_iff_bounded]
  constructor
  · rintro ⟨N, hN⟩
    refine ⟨N, fun m w σ hm hw hσ hav => ?_⟩
    by_cases hlen : 2 ≤ m.length
    · obtain ⟨w', σ', h1, _, h3, h4⟩ := accepts_iff_contains_own B hB m hm hlen
      rw [hw] at h1; cases h1
      rw [hσ] at h3; cases h3
      apply hN m hm
      cases hb : basisAccepts B m with
      | false => rfl
      | true =>
        obtain ⟨p, hp, hc⟩ := h4.mp ((pipeline_language B m).mpr ⟨hm.1, hb⟩)
        exact absurd hc (hav p hp)
    · cases m with
      | nil => simp [mToSp, Generated.c15_mLetterDict] at hw
      | cons a t =>
        cases t with
        | nil => simp [mToSp, Generated.c15_mLetterDict] at hw
        | cons b t => simp at hlen
  · rintro ⟨N, hN⟩
    refine ⟨max N 1, fun m hm hb => ?_⟩
    by_cases hlen : 2 ≤ m.length
    · obtain ⟨w, σ, h1, _, h3, h4⟩ := accepts_iff_contains_own B hB m hm hlen
      have := hN m w σ hm h1 h3 (fun p hp hc => by
        have hacc := h4.mpr ⟨p, hp, hc⟩
        rw [pipeline_language] at hacc
        rw [hacc.2] at hb; cases hb)
      omega
    · omega

/-! ## the verdict the driver prints -/

/-- ops `finpin` / `finpindfa` / `finpindb`: the driver tests the run-time certificate before printing; it
    always holds (`finpin_certificate`), so what is printed is `hasFinitePinperms B` – the function of
    `has_finite_pinperms_iff_bounded` / `has_finite_pinperms_iff_finitely_many` -/
theorem finpin_eq (B : List NSeq) : Driver.C15.finpin B = Proto.showBool (hasFinitePinperms B) := by
  unfold Driver.C15.finpin
  simp only [finpin_certificate, if_true]
  rfl

/-- op `accs`: the driver's `wordsAccept (pinwordsForBasis B)` is `basisAccepts B` -/
theorem accs_eq (B : List NSeq) (w : List Char) : wordsAccept (pinwordsForBasis B) w = basisAccepts B w := rfl

example : Driver.C15.finpin [[0]] = Proto.showBool true ∧ Driver.C15.finpin [] = Proto.showBool false := by
  have h1 : hasFinitePinperms [[0]] = true := by decide +kernel
  have h2 : hasFinitePinperms [] = false := by decide +kernel
  rw [finpin_eq, finpin_eq, h1, h2]
  exact ⟨rfl, rfl⟩

end C15
