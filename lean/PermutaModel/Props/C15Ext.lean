import PermutaModel.Props.C14
/-! # C15 – property theorems that rest on C14's Theorem 3.13 (proved later in the import order)

`Props/C14.lean` imports `Props/C15.lean` (its cross-consistency theorems talk about the C15 NFA), so the
semantic statements of C15 that are consequences of `C14.pinword_contains_iff` live here.  They are
proof obligations of the C15 check like those of `Props/C15.lean` (harness/core.py `prop_modules`). -/
open Model.C15 Spec.C15 Spec

namespace C15

/-- **accepts_iff_contains** (Bassino–Bouvel–Pierrot–Rossin): for every basis `B` and every pin sequence
    `m ∈ L(M)` with at least two letters, the basis automaton that `make_dfa_for_basis(B)` builds accepts `m`
    **iff** the permutation of the strict pin word `m_to_sp(m)` contains a basis element. -/
theorem accepts_iff_contains (B : List NSeq) (hB : ∀ p ∈ B, IsPerm p) (m : List Char)
    (hm : InM m) (hlen : 2 ≤ m.length) :
    ∃ w σ, Model.C14.mToSp (m.map Model.C14.Letter.ofChar) = .ok w ∧ Model.C14.isStrict w = true
      ∧ Model.C14.pinwordToPerm w = .ok σ
      ∧ ((dfaForBasis B).accepts m = true ↔ ∃ p ∈ B, Contains σ p) := by
  obtain ⟨w, σ, h1, h2, h3, h4⟩ := C14.basisAccepts_iff_contains B hB m hm hlen
  refine ⟨w, σ, h1, h2, h3, ?_⟩
  rw [pipeline_language, h4]
  exact ⟨fun h => h.2, fun h => ⟨hm.1, h⟩⟩

/-- **has_finite_pinperms, semantically**: the verdict is `True` iff the permutations of strict pin words that
    avoid the basis have bounded length (i.e. `Av(B)` contains finitely many of them) -/
theorem has_finite_pinperms_iff_finitely_many (B : List NSeq) (hB : ∀ p ∈ B, IsPerm p) :
    hasFinitePinperms B = true ↔
      ∃ N, ∀ w σ, Model.C14.isStrict w = true → Model.C14.pinwordToPerm w = .ok σ →
        (∀ p ∈ B, ¬ Contains σ p) → σ.length ≤ N :=
  C14.hasFinitePinperms_iff B hB

/-- the verdict depends only on the class `Av(B)` … -/
theorem has_finite_pinperms_class_only (B B' : List NSeq) (hB : ∀ x ∈ B, IsPerm x) (hB' : ∀ x ∈ B', IsPerm x)
    (h : ∀ σ, IsPerm σ → ((∀ x ∈ B, ¬ Contains σ x) ↔ (∀ x ∈ B', ¬ Contains σ x))) :
    hasFinitePinperms B = hasFinitePinperms B' :=
  C14.hasFinitePinperms_class_only B B' hB hB' h

/-- … and is invariant under the eight symmetries of the square -/
theorem has_finite_pinperms_act (B : List NSeq) (hB : ∀ x ∈ B, IsPerm x) (g : D8) :
    hasFinitePinperms (B.map g.act) = hasFinitePinperms B :=
  C14.hasFinitePinperms_act B hB g

/-- non-vacuity: `Av(12)` (decreasing permutations) has finitely many pin permutations, `Av(123)` does not;
    the automaton of `{12}` accepts `UR` (the pin permutation of `1UR`… contains `12`) -/
example : hasFinitePinperms [[0, 1]] = hasFinitePinperms ([[0, 1]].map (⟨false, false, false⟩ : D8).act) :=
  (has_finite_pinperms_act _ (by decide) _).symm

end C15
