import PermutaModel.Lemmas.C02Iter

/-!
# C02 — `Av(basis)` reports exactly the avoiders, independent of query history

Property theorems only (helpers in `Lemmas/C02*.lean`, `Lemmas/SContains.lean`).  All statements are
about the definitions of `Model/C02.lean` (and `Model/C07.lean` for the traces) that the driver executes.

* `Spec.C02.level b n` / `Spec.C02.meshLevel b n` – "all permutations of length `n`, filtered by
  avoidance" (no cache, no insertion encoding);
* `C02L.ValidBasis b` – `b ≠ []`, every element a permutation of length `≥ 1` (what `Basis(...)` +
  the `ValueError` guard of `Av.__new__` give); mesh bases need no hypothesis at all (every list of mesh
  patterns: `Av.__new__` starts the cache with `{(): [0]}` iff the empty permutation avoids the basis);
  `C02L.ValidBasisV` is `ValidBasis` for a classical basis and `True` for a mesh basis;
* `C02L.CacheInv b c` – the cache invariant: every level has the spec keys (as a `List.Perm`, hence
  duplicate-free), the last level's values are lists being filled, the level before it holds exactly
  the valid end-insertions (`C02L.SpotsOK`, with the level-0 quirk `{(): [0]}` carried honestly);
  `C02L.ObjInv o` – the same for an object with either kind of basis; `C02L.ObjExt o w` – `w` is a
  later state of `o` (same basis, invariant, no level lost, keys of the old levels unchanged).
-/
open Model Model.C02 Model.C07 C02L

namespace C02

/-! ## A1/A2  the combinatorial core -/

/-- **Insertion criterion** (the combinatorial core of `valid_insertions`): for `π` avoiding `B`
    whose elements have length `≤ m`, the extension `π·v` avoids `B` iff it is not itself
    (order-isomorphic to) a basis element and every one-point deletion at one of the last `m`
    positions of `π` avoids `B`. -/
theorem insertion_criterion (B : List (List Nat)) (m : Nat) (π : List Nat) (v : Nat)
    (hm : ∀ b ∈ B, b.length ≤ m) (hπ : Avoids B π) :
    Avoids B (π ++ [v]) ↔
      (∀ b ∈ B, ¬ OIso b (π ++ [v])) ∧
      (∀ i, π.length - m ≤ i → i < π.length → Avoids B ((π ++ [v]).eraseIdx i)) :=
  _root_.insertion_criterion B m π v hm hπ

/-- the criterion for the model's own operations and the executable avoidance test: for a class
    member `π` and `v ≤ |π|`, `π.insert(n+1, v)` is in the class iff it is not a basis element and,
    for every window position `i`, the end-insertion of the re-indexed value into `π.remove(i)` is
    in the class -/
theorem insertion_criterion_model {b : List NSeq} (hb : ValidBasis b) {π : NSeq} (h : InAv b π) {v : Nat}
    (hv : v ≤ π.length) :
    InAv b (appendValue π v) ↔
      appendValue π v ∉ b ∧
      (∀ i, π.length - maxSize b ≤ i → i < π.length →
        InAv b (appendValue (removeAt π i) (shiftVal v (π.getD i 0)))) :=
  InAv_appendValue_iff hb h hv

/-- **`acceptable` is the re-indexing** (permset.py:164-165): deleting position `i` of `π·v` gives
    `(del_i π)·v'` with `v' = v` if `v ≤ π[i]` else `v-1`, and `v` is in the `acceptable` list built
    from `spots` iff `v'` is a spot -/
theorem acceptable_correct (π : NSeq) (v i : Nat) (hi : i < π.length) (spots : List Nat) :
    removeAt (appendValue π v) i = appendValue (removeAt π i) (shiftVal v (π.getD i 0)) ∧
    (v ∈ acceptable spots (π.getD i 0) ↔ shiftVal v (π.getD i 0) ∈ spots) :=
  ⟨removeAt_appendValue hi, mem_acceptable spots _ v⟩

/-! ## A3  the cache invariant -/

/-- the initial cache `[{(): [0]}]` satisfies the invariant -/
theorem cacheInv_fresh {b : List NSeq} (hb : ValidBasis b) : CacheInv b (freshObj (.classical b)).cache :=
  CacheInv.fresh hb

/-- levels under the invariant are duplicate-free -/
theorem cacheInv_keys_nodup {b : List NSeq} {c : List Level} (h : CacheInv b c) (i : Nat) (hi : i < c.length) :
    ((c.getD i []).keys).Nodup := h.keys_nodup hi

/-- **T1** one round of `_ensure_level_classical_pattern_basis` succeeds (no `KeyError`, no
    `AssertionError`), appends exactly the next level, keeps the invariant and the keys of all
    existing levels -/
theorem buildOne_correct {b : List NSeq} (hb : ValidBasis b) {c : List Level} (h : CacheInv b c) :
    ∃ c', buildOne b c = .ok c' ∧ CacheInv b c' ∧ c'.length = c.length + 1 ∧
      ∀ i, i < c.length → (c'.getD i []).keys = (c.getD i []).keys :=
  C02L.buildOne_correct hb h

/-- **T2** `_ensure_level(n)` for a classical basis and **every** `n` (also `n < len(cache)`: no-op):
    succeeds, keeps the invariant, makes level `n` available, loses no level and changes no key -/
theorem ensureLevel_correct {b : List NSeq} (hb : ValidBasis b) (o : AvObj) (hob : o.basis = .classical b)
    (h : CacheInv b o.cache) (n : Nat) :
    ∃ o', ensureLevel o n = .ok o' ∧ o'.basis = o.basis ∧ CacheInv b o'.cache ∧ n < o'.cache.length ∧
      o.cache.length ≤ o'.cache.length ∧
      ∀ i, i < o.cache.length → (o'.cache.getD i []).keys = (o.cache.getD i []).keys := by
  obtain ⟨o', _, h1, _, h3, h4, h5, _, _⟩ := ensureLevel_classical hb o hob h n
  exact ⟨o', h1, h3, h4.inv, h5, h4.len, h4.keys⟩

/-- **T3** (trace form used by C07): every intermediate state of `_ensure_level(n)` - after each
    appended level and after each compaction write - satisfies the full invariant (in particular every
    level has the spec keys), has lost no level, and the last state is the result of `ensureLevel` -/
theorem ensureTrace_correct {b : List NSeq} (hb : ValidBasis b) (o : AvObj) (hob : o.basis = .classical b)
    (h : CacheInv b o.cache) (n : Nat) :
    ∃ o' tr, ensureLevel o n = .ok o' ∧ ensureTrace o n = .ok tr ∧ tr.getLastD o = o' ∧
      ∀ w ∈ tr, w.basis = o.basis ∧ CacheInv b w.cache ∧ o.cache.length ≤ w.cache.length ∧
        (∀ i, i < w.cache.length → ((w.cache.getD i []).keys).Perm (Spec.C02.level b i)) ∧
        ∀ i, i < o.cache.length → (w.cache.getD i []).keys = (o.cache.getD i []).keys := by
  obtain ⟨o', tr, h1, h2, _, _, _, h6, h7⟩ := ensureLevel_classical hb o hob h n
  exact ⟨o', tr, h1, h2, h6, fun w hw =>
    ⟨(h7 w hw).1, (h7 w hw).2.inv, (h7 w hw).2.len, (h7 w hw).2.inv.keys, (h7 w hw).2.keys⟩⟩

/-- **T4** the same three statements for a mesh basis (levels are filters of `Perm.of_length`) -/
theorem ensureLevel_correct_mesh {b : List Mesh} (o : AvObj) (hob : o.basis = .mesh b)
    (h : MeshInv b o.cache) (n : Nat) :
    ∃ o' tr, ensureLevel o n = .ok o' ∧ ensureTrace o n = .ok tr ∧ tr.getLastD o = o' ∧
      o'.basis = o.basis ∧ MeshInv b o'.cache ∧ n < o'.cache.length ∧ o.cache.length ≤ o'.cache.length ∧
      (o'.cache.getD n []).keys = Spec.C02.meshLevel b n ∧
      ∀ w ∈ tr, w.basis = o.basis ∧ MeshInv b w.cache ∧ o.cache.length ≤ w.cache.length ∧
        ∀ i, i < w.cache.length → (w.cache.getD i []).keys = Spec.C02.meshLevel b i := by
  obtain ⟨o', tr, h1, h2, h3, h4, h5, h6, h7⟩ := ensureLevel_mesh o hob h n
  exact ⟨o', tr, h1, h2, h6, h3, h4.inv, h5, h4.len, h4.inv.keys n h5, fun w hw =>
    ⟨(h7 w hw).1, (h7 w hw).2.inv, (h7 w hw).2.len, (h7 w hw).2.inv.keys⟩⟩

/-- the initial cache of a mesh-basis class satisfies the mesh invariant - for **every** list of mesh
    patterns (`{(): [0]}` if `ε` avoids the basis, `{}` if some pattern has the empty underlying
    permutation and is contained in `ε`) -/
theorem meshInv_fresh (b : List Mesh) : MeshInv b (freshObj (.mesh b)).cache :=
  MeshInv.fresh b

/-- **T2–T4 in one statement** (either kind of basis): `_ensure_level(n)` succeeds from every state
    satisfying the object invariant, the result and every state of the trace are later states of `o` -/
theorem ensureLevel_correct_obj (o : AvObj) (h : ObjInv o) (n : Nat) :
    ∃ o' tr, ensureLevel o n = .ok o' ∧ ensureTrace o n = .ok tr ∧ ObjExt o o' ∧
      n < o'.cache.length ∧ tr.getLastD o = o' ∧ ∀ w ∈ tr, ObjExt o w :=
  C02L.ensureLevel_correct o h n

/-- `_get_level(n)` returns the spec level (as a `List.Perm`: nothing omitted, nothing repeated) -/
theorem getLevel_spec (o : AvObj) (h : ObjInv o) (n : Nat) :
    ∃ o' ks, getLevel o n = .ok (o', ks) ∧ ObjExt o o' ∧ ks.Perm (specLevel o.basis n) :=
  C02L.getLevel_spec o h n

/-! ## A4  history independence -/

/-- **history independence**: whatever levels were requested before (any list `hist`, any order,
    repetitions allowed) on a fresh class object, every one of these requests and the next request
    `n` succeed and return the spec level (`ValidBasisV` is `True` for a mesh basis) -/
theorem levels_history_independent (b : BasisV) (hb : ValidBasisV b) (hist : List Nat) (n : Nat) :
    ∃ o₁ outs o₂ ks, runLevels (freshObj b) hist = .ok (o₁, outs) ∧
      List.Forall₂ (fun m out => out.Perm (specLevel b m)) hist outs ∧
      getLevel o₁ n = .ok (o₂, ks) ∧ ks.Perm (specLevel b n) := by
  obtain ⟨o₁, outs, h1, hext, hall⟩ := runLevels_spec hist (freshObj b) (ObjInv.fresh hb)
  obtain ⟨o₂, ks, h2, _, hks⟩ := C02L.getLevel_spec o₁ hext.inv n
  rw [hext.basis] at hks
  rw [freshObj_basis] at hall hks
  exact ⟨o₁, outs, o₂, ks, h1, hall, h2, hks⟩

/-- the same from an arbitrary reachable state: two objects of the same class that both satisfy the
    invariant (e.g. one fresh after `clear_cache`, one with a long history and compacted levels)
    answer every request with the same set of permutations -/
theorem levels_state_independent (o o' : AvObj) (h : ObjInv o) (h' : ObjInv o') (hb : o.basis = o'.basis)
    (n : Nat) :
    ∃ o₁ ks o₁' ks', getLevel o n = .ok (o₁, ks) ∧ getLevel o' n = .ok (o₁', ks') ∧ ks.Perm ks' := by
  obtain ⟨o₁, ks, h1, _, hks⟩ := C02L.getLevel_spec o h n
  obtain ⟨o₁', ks', h1', _, hks'⟩ := C02L.getLevel_spec o' h' n
  rw [hb] at hks
  exact ⟨o₁, ks, o₁', ks', h1, h1', hks.trans hks'.symm⟩

/-! ## T5  no omission, no repetition, membership, count - in the property's wording -/

/-- the spec level in the wording of the property: `σ` is listed iff it is a permutation of length
    `n` containing no basis element (`Contains` = index-tuple occurrences of `Spec/Basic`) -/
theorem mem_level_iff {b : List NSeq} (hb : ValidBasis b) (n : Nat) (σ : NSeq) :
    σ ∈ Spec.C02.level b n ↔ IsPerm σ ∧ σ.length = n ∧ ∀ p ∈ b, ¬ Contains σ p := by
  rw [mem_level]
  unfold InAv
  constructor
  · rintro ⟨⟨h1, h2⟩, h3⟩
    exact ⟨h1, h3, (C01.avoidsAll_iff σ b h1 hb.perm).mp h2⟩
  · rintro ⟨h1, h3, h2⟩
    exact ⟨⟨h1, (C01.avoidsAll_iff σ b h1 hb.perm).mpr h2⟩, h3⟩

/-- sublist-based containment (used in the proofs) is the index-tuple containment of `Spec/Basic` -/
theorem scontains_iff_contains (σ π : NSeq) : SContains σ π ↔ Contains σ π := SContains_iff_Contains σ π

/-- **no omission / no repetition / membership / count** for a class with classical basis, after any
    history: level `n` as returned by `_get_level` is duplicate-free, contains exactly the
    permutations of length `n` avoiding the basis, and its size is the size of the spec level -/
theorem getLevel_exact {b : List NSeq} (hb : ValidBasis b) (hist : List Nat) (n : Nat) :
    ∃ o₁ outs o₂ ks, runLevels (freshObj (.classical b)) hist = .ok (o₁, outs) ∧
      getLevel o₁ n = .ok (o₂, ks) ∧ ks.Nodup ∧ ks.length = (Spec.C02.level b n).length ∧
      ∀ σ, σ ∈ ks ↔ IsPerm σ ∧ σ.length = n ∧ ∀ p ∈ b, ¬ Contains σ p := by
  obtain ⟨o₁, outs, o₂, ks, h1, _, h2, hks⟩ := levels_history_independent (.classical b) hb hist n
  refine ⟨o₁, outs, o₂, ks, h1, h2, hks.nodup_iff.mpr (level_nodup b n), hks.length_eq, fun σ => ?_⟩
  rw [hks.mem_iff]; exact mem_level_iff hb n σ

/-- the same for a mesh basis - any list of mesh patterns, no hypothesis (avoidance = the executable
    mesh containment test of C04/C01) -/
theorem getLevel_exact_mesh (b : List Mesh) (hist : List Nat) (n : Nat) :
    ∃ o₁ outs o₂ ks, runLevels (freshObj (.mesh b)) hist = .ok (o₁, outs) ∧
      getLevel o₁ n = .ok (o₂, ks) ∧ ks.Nodup ∧ ks.length = (Spec.C02.meshLevel b n).length ∧
      ∀ σ, σ ∈ ks ↔ IsPerm σ ∧ σ.length = n ∧ ∀ m ∈ b, containsMesh σ m = false := by
  obtain ⟨o₁, outs, o₂, ks, h1, _, h2, hks⟩ := levels_history_independent (.mesh b) trivial hist n
  have hks' : ks.Perm (Spec.C02.meshLevel b n) := hks
  refine ⟨o₁, outs, o₂, ks, h1, h2, hks'.nodup_iff.mpr ((C09.permsLex_spec n).2.2.1.filter _),
    hks'.length_eq, fun σ => ?_⟩
  rw [hks'.mem_iff]
  unfold Spec.C02.meshLevel
  rw [List.mem_filter, (C09.permsLex_spec n).1 σ, List.all_eq_true]
  simp only [Bool.not_eq_true', and_assoc]

/-- the class is closed downwards: if level `n` is empty so is level `n+1` (justifies the early stop
    of `Av._all` / `first`) -/
theorem level_empty_succ {b : List NSeq} (hb : ValidBasis b) (n : Nat) (h : Spec.C02.level b n = []) :
    Spec.C02.level b (n + 1) = [] := by
  apply List.eq_nil_iff_forall_not_mem.mpr
  intro σ hσ
  obtain ⟨π, hπ, _⟩ := (mem_level_succ hb).mp hσ
  rw [h] at hπ; simp at hπ

/-! ## A4/A5/A6  process level: arbitrary operation sequences

`C02L.POp` lists the operations of the line protocol that touch the process state (`Av(basis)`,
`from_iterable`, `clear_cache`, level queries, `up_to_length`, `enumeration`, `is_subclass`, taking
items from an arbitrary - possibly half-consumed - iterator); `POp.run` executes one on the `Proc`
state exactly as the driver does (state unchanged on an exception); `runOps` folds a list. -/

/-- every reachable process state satisfies the invariant: whatever was done before - queries in any
    order, other classes created, iterators partially consumed, the class cache cleared - every
    object ever created still satisfies its cache invariant -/
theorem proc_invariant (ops : List POp) (hwf : ∀ op ∈ ops, op.WF) : ProcInv (runOps Proc.init ops) :=
  runOps_inv ops ProcInv.init hwf

/-- **`Av` refines the specification for every finite operation sequence**: let `ops₁` be any
    history, then `name = Av(b)`, then any history `ops₂` that does not rebind `name` (it may query
    this and other classes, create other classes, clear the class cache, consume iterators of any
    class half-way).  Then `of_length(n)`/`count(n)`, `up_to_length(n)` and `enumeration(n)` on `name`
    succeed and return the spec levels of `b` (lists up to order inside a level, counts exactly). -/
theorem av_refines_spec (ops₁ ops₂ : List POp) (h₁ : ∀ op ∈ ops₁, op.WF) (h₂ : ∀ op ∈ ops₂, op.WF)
    (name : String) (b : BasisV) (hb : ValidBasisV b) (hnf : forbiddenB b = false)
    (hnb : ∀ op ∈ ops₂, ¬ op.binds name) (n : Nat) :
    (∃ s' ks, (runOps ((POp.new name b).run (runOps Proc.init ops₁)).1 ops₂).level name n = .ok (s', ks) ∧
        ks.Perm (specLevel b n)) ∧
    (∃ s' ks, (runOps ((POp.new name b).run (runOps Proc.init ops₁)).1 ops₂).upTo name (n + 1) 0 = .ok (s', ks) ∧
        ks.Perm ((List.range' 0 (n + 1)).flatMap (specLevel b))) ∧
    (∃ s', (runOps ((POp.new name b).run (runOps Proc.init ops₁)).1 ops₂).enumeration name (n + 1) 0 =
        .ok (s', (List.range' 0 (n + 1)).map fun j => (specLevel b j).length)) := by
  have hi1 := proc_invariant ops₁ h₁
  have hi2 := run_inv hi1 (.new name b) hb
  have hb2 := run_new_bound hi1 name hb hnf
  have hi3 := runOps_inv ops₂ hi2 h₂
  obtain ⟨id, o, ho, hob⟩ := runOps_bound ops₂ hi2 h₂ hb2 hnb
  subst hob
  refine ⟨?_, ?_, ?_⟩
  · obtain ⟨s', ks, h, _, _, hk⟩ := level_spec hi3 ho n
    exact ⟨s', ks, h, hk⟩
  · obtain ⟨s', ks, h, _, _, hk⟩ := upTo_spec (n + 1) 0 hi3 ho
    exact ⟨s', ks, h, hk⟩
  · obtain ⟨s', h, _, _⟩ := enumeration_spec (n + 1) 0 hi3 ho
    exact ⟨s', h⟩

/-- `av_refines_spec` for a mesh basis: **no hypothesis on the patterns** beyond the non-emptiness that
    `Av.__new__` demands (a basis containing a pattern with empty underlying permutation is fine) -/
theorem av_refines_spec_mesh (ops₁ ops₂ : List POp) (h₁ : ∀ op ∈ ops₁, op.WF) (h₂ : ∀ op ∈ ops₂, op.WF)
    (name : String) (M : List Mesh) (hne : M ≠ []) (hnb : ∀ op ∈ ops₂, ¬ op.binds name) (n : Nat) :
    (∃ s' ks, (runOps ((POp.new name (.mesh M)).run (runOps Proc.init ops₁)).1 ops₂).level name n = .ok (s', ks) ∧
        ks.Perm (Spec.C02.meshLevel M n)) ∧
    (∃ s' ks, (runOps ((POp.new name (.mesh M)).run (runOps Proc.init ops₁)).1 ops₂).upTo name (n + 1) 0 = .ok (s', ks) ∧
        ks.Perm ((List.range' 0 (n + 1)).flatMap (Spec.C02.meshLevel M))) ∧
    (∃ s', (runOps ((POp.new name (.mesh M)).run (runOps Proc.init ops₁)).1 ops₂).enumeration name (n + 1) 0 =
        .ok (s', (List.range' 0 (n + 1)).map fun j => (Spec.C02.meshLevel M j).length)) := by
  have hnf : forbiddenB (.mesh M) = false := by
    cases M with
    | nil => exact (hne rfl).elim
    | cons x t => rfl
  exact av_refines_spec ops₁ ops₂ h₁ h₂ name (.mesh M) trivial hnf hnb n

/-- **membership** `σ in Av(B)` after any history, in the property's wording -/
theorem contains_correct (ops₁ ops₂ : List POp) (h₁ : ∀ op ∈ ops₁, op.WF) (h₂ : ∀ op ∈ ops₂, op.WF)
    (name : String) (B : List NSeq) (hb : ValidBasis B) (hnb : ∀ op ∈ ops₂, ¬ op.binds name) (σ : NSeq) :
    ∃ s' ks, (runOps ((POp.new name (.classical B)).run (runOps Proc.init ops₁)).1 ops₂).level name σ.length
        = .ok (s', ks) ∧
      (ks.contains σ = true ↔ IsPerm σ ∧ ∀ p ∈ B, ¬ Contains σ p) := by
  have hnf : forbiddenB (.classical B) = false := by
    have hne := hb.ne
    have h1 : B ≠ [[]] := by
      intro h; have := hb.pos [] (by rw [h]; simp); simp at this
    cases B with
    | nil => exact (hne rfl).elim
    | cons x t => simpa [forbiddenB] using h1
  obtain ⟨⟨s', ks, h, hk⟩, _, _⟩ := av_refines_spec ops₁ ops₂ h₁ h₂ name (.classical B) hb hnf hnb σ.length
  refine ⟨s', ks, h, ?_⟩
  have hk' : ks.Perm (Spec.C02.level B σ.length) := hk
  rw [List.contains_iff_mem, hk'.mem_iff, mem_level_iff hb]
  tauto

/-- **`is_subclass` is correct for classical bases** after any history: for `a = Av(B₁)`, `b = Av(B₂)`
    it succeeds, and answers `True` iff every permutation avoiding `B₁` avoids `B₂` -/
theorem is_subclass_correct (ops : List POp) (hwf : ∀ op ∈ ops, op.WF) (a b : String) (B₁ B₂ : List NSeq)
    (ha : Bound (runOps Proc.init ops) a (.classical B₁)) (hb : Bound (runOps Proc.init ops) b (.classical B₂)) :
    ∃ s' r, (runOps Proc.init ops).isSubclass a b = .ok (s', r) ∧ ProcInv s' ∧
      (r = true ↔ ∀ σ, IsPerm σ → (∀ p ∈ B₁, ¬ Contains σ p) → (∀ p ∈ B₂, ¬ Contains σ p)) := by
  have hi := proc_invariant ops hwf
  obtain ⟨ida, oa, hoa, hba⟩ := ha
  obtain ⟨idb, ob, hob, hbb⟩ := hb
  have hva : ValidBasis B₁ := by
    have := hi.obj (obj?_eq_some hoa); unfold ObjInv at this; rw [hba] at this; exact this.1
  have hvb : ValidBasis B₂ := by
    have := hi.obj (obj?_eq_some hob); unfold ObjInv at this; rw [hbb] at this; exact this.1
  obtain ⟨s', h1, h2, _⟩ := isSubclass_spec hi hoa hob hba hbb
  exact ⟨s', _, h1, h2, subclass_iff hva hvb.perm⟩

/-- **`is_subclass` with a mesh basis on the right** after any history: for `a = Av(B₁)` (classical) and
    `b = Av(M₂)` (mesh patterns over permutations) it succeeds and answers `True` iff every permutation
    avoiding `B₁` avoids every mesh pattern of `M₂` (`p1.get_perm() not in self`: a mesh occurrence is
    a classical occurrence of the underlying permutation, and that permutation contains its own mesh
    pattern since there are no other points) -/
theorem is_subclass_correct_mesh (ops : List POp) (hwf : ∀ op ∈ ops, op.WF) (a b : String) (B₁ : List NSeq)
    (M₂ : List Mesh) (hM : ∀ m ∈ M₂, IsPerm m.pattern)
    (ha : Bound (runOps Proc.init ops) a (.classical B₁)) (hb : Bound (runOps Proc.init ops) b (.mesh M₂)) :
    ∃ s' r, (runOps Proc.init ops).isSubclass a b = .ok (s', r) ∧ ProcInv s' ∧
      (r = true ↔ ∀ σ, IsPerm σ → (∀ p ∈ B₁, ¬ Contains σ p) → (∀ m ∈ M₂, containsMesh σ m = false)) := by
  have hi := proc_invariant ops hwf
  obtain ⟨ida, oa, hoa, hba⟩ := ha
  obtain ⟨idb, ob, hob, hbb⟩ := hb
  have hva : ValidBasis B₁ := by
    have := hi.obj (obj?_eq_some hoa); unfold ObjInv at this; rw [hba] at this; exact this.1
  obtain ⟨s', h1, h2, _⟩ := isSubclass_spec_mesh hi hoa hob hba hbb
  exact ⟨s', _, h1, h2, subclass_mesh_iff hva hM⟩

/-- a permutation contains every mesh pattern built on itself -/
theorem containsMesh_self (m : Mesh) (hp : IsPerm m.pattern) : containsMesh m.pattern m = true :=
  C02L.containsMesh_self m hp

/-- containment is transitive (the fact behind `is_subclass`) -/
theorem contains_trans {σ τ π : NSeq} (h₁ : Contains σ τ) (h₂ : Contains τ π) : Contains σ π :=
  (SContains_iff_Contains σ π).mp
    (SContains_trans ((SContains_iff_Contains σ τ).mpr h₁) ((SContains_iff_Contains τ π).mpr h₂))

/-- **class-cache sharing**: `Av(b)` either raises `ValueError` or binds the name to an object with
    basis `b` satisfying its invariant - the very object recorded in the class cache if there is one
    (equal bases share one instance), a fresh one otherwise (e.g. after `clear_cache`); all existing
    objects - including those no longer reachable through the class cache - are untouched -/
theorem class_cache_sharing {s : Proc} (h : ProcInv s) (name : String) {b : BasisV} (hb : ValidBasisV b) :
    s.newClass name b = .error .valueError ∨
    ∃ s', s.newClass name b = .ok s' ∧ ProcInv s' ∧
      (∃ id o, s'.obj? name = some (id, o) ∧ o.basis = b ∧
        (∀ e, s.classCache.find? (·.1 == b) = some e → id = e.2)) ∧
      (∀ (id : Nat) (o : AvObj), s.objs[id]? = some o → s'.objs[id]? = some o) :=
  newClass_spec h name hb

/-- `Basis(*patts)` of permutations is rejected by `Av.__new__` (`ValueError`: empty, or `{ε}`) or
    satisfies the hypotheses `ValidBasis` of all theorems above -/
theorem basisNew_valid (patts : List NSeq) (hp : ∀ p ∈ patts, IsPerm p) :
    forbiddenB (.classical (basisNew patts)) = true ∨ ValidBasis (basisNew patts) :=
  C02L.basisNew_valid patts hp

/-- consuming any iterator (in whatever state) any number of steps keeps every object's invariant
    and rebinds nothing: iterators still being consumed cannot influence later answers -/
theorem iterators_harmless {s : Proc} (h : ProcInv s) (it : IterSt) (k : Nat) {s' : Proc} {it' : IterSt}
    {items : List NSeq} (hr : s.iterTake it k = .ok (s', it', items)) : ProcInv s' ∧ ProcExt s s' :=
  iterTake_inv k h it hr

/-! ## iterators (`first`, lazily consumed `up_to_length`, `of_length` snapshots)

`C02L.stream lv it` is everything the iterator state `it` will still yield when level `j` is listed as
`lv j`; `C02L.firstLevels lv k 0` is `Av._all` (levels `0, 1, …` up to the first empty one) cut after
`k` levels - more levels can never be needed for `k` items. -/

/-- **`first(k)`** on a class in any reachable state: succeeds and yields the first `k` items of
    "level 0, level 1, … until a level is empty", each level `j` listed as some permutation `lv j` of
    the spec level -/
theorem first_correct {s : Proc} (h : ProcInv s) {name : String} {id : Nat} {o : AvObj}
    (ho : s.obj? name = some (id, o)) (k : Nat) :
    ∃ s' it' items lv, s.iterTake (.first id k 0 [] false) k = .ok (s', it', items) ∧ ProcInv s' ∧
      (∀ j, (lv j).Perm (specLevel o.basis j)) ∧ items = (firstLevels lv k 0).take k := by
  obtain ⟨s', it', items, lv, h1, h2, _, h4, h5⟩ :=
    iterTake_obj_correct h (obj?_eq_some ho) (.first id k 0 [] false) rfl k
  refine ⟨s', it', items, lv, h1, h2, h4, ?_⟩
  rw [h5]; simp [stream, List.take_take]

/-- **lazily consumed `up_to_length(n)`**: taking `k` items from a fresh generator yields the first
    `k` items of the concatenation of the levels `0 … n` -/
theorem upTo_iter_correct {s : Proc} (h : ProcInv s) {name : String} {id : Nat} {o : AvObj}
    (ho : s.obj? name = some (id, o)) (n k : Nat) :
    ∃ s' it' items lv, s.iterTake (.upTo id 0 n []) k = .ok (s', it', items) ∧ ProcInv s' ∧
      (∀ j, (lv j).Perm (specLevel o.basis j)) ∧
      items = ((List.range' 0 (n + 1)).flatMap lv).take k := by
  obtain ⟨s', it', items, lv, h1, h2, _, h4, h5⟩ :=
    iterTake_obj_correct h (obj?_eq_some ho) (.upTo id 0 n []) rfl k
  refine ⟨s', it', items, lv, h1, h2, h4, ?_⟩
  rw [h5]; simp [stream]

/-- **iterators consumed in pieces, with anything in between**: one `take k` on an arbitrary
    iterator state yields a prefix of its stream, the new iterator state carries exactly the rest,
    and fewer than `k` items come out only if the stream is exhausted.  `lv` is any listing of the
    levels consistent with the caches *after* the call - so the statement composes over several
    calls with other operations interleaved (`LevelOK.pull`: consistency is inherited backwards
    along every query). -/
theorem iterTake_pieces (k : Nat) {s : Proc} (h : ProcInv s) (it : IterSt) {s' : Proc} {it' : IterSt}
    {items : List NSeq} (hr : s.iterTake it k = .ok (s', it', items))
    (lv : Nat → List NSeq) (hok : LevelOK s' lv it') :
    stream lv it = items ++ stream lv it' ∧ items.length ≤ k ∧ (items.length < k → stream lv it' = []) := by
  obtain ⟨h1, h2, h3, _⟩ := iterTake_stream k h it hr lv hok
  exact ⟨h1, h2, h3⟩

/-- an `of_length` iterator is a snapshot: it yields the level it was created from, whatever happens
    to the class afterwards -/
theorem ofLength_snapshot (k : Nat) {s : Proc} (h : ProcInv s) (ks : List NSeq) :
    ∃ s' it' , s.iterTake (.ofLen ks) k = .ok (s', it', ks.take k) := by
  obtain ⟨⟨s', it', items⟩, hr⟩ := iterTake_ok k h (.ofLen ks) (fun obj ho => by simp [objOf] at ho)
  have hobj := iterTake_objOf k (.ofLen ks) hr
  have hok : LevelOK s' (fun _ => []) it' := by
    cases it' with
    | ofLen _ => trivial
    | upTo => simp [objOf] at hobj
    | first => simp [objOf] at hobj
  have := iterTake_take h (.ofLen ks) hr (fun _ => []) hok
  exact ⟨s', it', by rw [hr, this]; rfl⟩

/-- `first` never needs more than `k` levels for `k` items -/
theorem firstLevels_fuel (lv : Nat → List NSeq) (f g n r : Nat) (hf : r ≤ f) (hg : r ≤ g) :
    (firstLevels lv f n).take r = (firstLevels lv g n).take r :=
  firstLevels_take lv f g n r hf hg

/-! ## non-vacuity -/

example : ValidBasis [[0,2,1]] := ⟨by decide, by decide, by decide⟩
example : ValidBasis [[0]] := ⟨by decide, by decide, by decide⟩

/-- the hypotheses are satisfiable and the conclusion is about a non-trivial level:
    `102 ∈ Av(021)`, `021 ∉ Av(021)` -/
example : [1,0,2] ∈ Spec.C02.level [[0,2,1]] 3 ∧ [0,2,1] ∉ Spec.C02.level [[0,2,1]] 3 := by
  have hb : ValidBasis [[0,2,1]] := ⟨by decide, by decide, by decide⟩
  rw [mem_level_iff hb, mem_level_iff hb]
  constructor
  · refine ⟨by decide, rfl, ?_⟩
    intro p hp
    have : p = [0,2,1] := by simpa using hp
    subst this
    rintro ⟨c, hc⟩
    have := (C01.mem_spec_iff [0,2,1] [1,0,2] c).mpr hc
    have h0 : Spec.occurrences [0,2,1] [1,0,2] = [] := by decide
    rw [h0] at this; simp at this
  · rintro ⟨_, _, h⟩
    apply h [0,2,1] (by simp)
    exact ⟨[0,1,2], (C01.mem_spec_iff [0,2,1] [0,2,1] [0,1,2]).mp (by decide)⟩

/-- a history mixing two classes, a cache clear and a half-consumed iterator is well-formed -/
example : ∀ op ∈ [POp.newClassical "a" [[0,1]], .level "a" 4, .clear, .new "c" (.classical [[0]]),
    .iterTake (.upTo 0 0 5 []) 3, .isSubclass "a" "c"], op.WF := by
  intro op hop
  simp only [List.mem_cons, List.not_mem_nil, or_false] at hop
  rcases hop with rfl | rfl | rfl | rfl | rfl | rfl
  · intro p hp
    have : p = [0,1] := by simpa using hp
    subst this; decide
  · trivial
  · trivial
  · exact (⟨by decide, by decide, by decide⟩ : ValidBasis [[0]])
  · trivial
  · trivial

example : ∃ o' ks, getLevel (freshObj (.classical [[0,2,1]])) 5 = .ok (o', ks) ∧
    ks.Perm (Spec.C02.level [[0,2,1]] 5) := by
  obtain ⟨o', ks, h1, _, h2⟩ := getLevel_spec (freshObj (.classical [[0,2,1]]))
    (ObjInv.fresh (b := .classical [[0,2,1]]) ⟨by decide, by decide, by decide⟩) 5
  exact ⟨o', ks, h1, h2⟩

end C02
