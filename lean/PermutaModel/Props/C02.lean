import PermutaModel.Lemmas.SContains
import PermutaModel.Model.C02

/-!
# C02 — `Av(basis)` reports exactly the avoiders, independent of query history

Property theorems (helpers in `Lemmas/`).
-/
namespace C02

/-- **Insertion criterion** (the combinatorial core of `valid_insertions`): for `π` avoiding `B`
    whose elements have length `≤ m`, the extension `π·v` avoids `B` iff it is not itself
    (order-isomorphic to) a basis element and every one-point deletion at one of the last `m`
    positions of `π` avoids `B`. -/
theorem insertion_criterion (B : List (List Nat)) (m : Nat) (π : List Nat) (v : Nat)
    (hm : ∀ b ∈ B, b.length ≤ m) (hπ : Avoids B π) :
    Avoids B (π ++ [v]) ↔
      (∀ b ∈ B, ¬ OIso b (π ++ [v])) ∧
      (∀ i, π.length - m ≤ i → i < π.length → Avoids B ((π ++ [v]).eraseIdx i)) :=
  _root_.insertion_criterion B m π v hm hπ

end C02
