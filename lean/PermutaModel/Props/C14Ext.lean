import PermutaModel.Props.C14
import PermutaModel.Driver.C14
/-! # C14 – the function the driver evaluates for `pw_pcont` / `pw_pcontnt` is the function of the theorems

`Driver.C14.containsTableMemo` looks the word → permutation table of the lengths `0 … 4` up in closed
constants (`tbl0 … tbl4`, evaluated once per driver process) instead of recomputing
`pinwordToPermMapping k` for every line.  It is the same function as `Model.C14.containsTable`, the one
`C14.containsTable_spec` / `C14.pinword_contains_iff_table` are about. -/
open Model.C14 Model.C14.Letter

namespace C14

/-- the memoised variant the driver runs is `containsTable`, for all arguments -/
theorem containsTableMemo_eq (w : Word) (k : Nat) (filt : Bool) :
    Driver.C14.containsTableMemo w k filt = containsTable w k filt := by
  unfold Driver.C14.containsTableMemo containsTable
  match k with
  | 0 | 1 | 2 | 3 | 4 => rfl
  | _ + 5 => rfl

/-- hence what the driver prints for `pw_pcont` / `pw_pcontnt` is described by `containsTable_spec` -/
theorem containsTableMemo_spec (w : Word) (k : Nat) (filt : Bool) (l : List Bool)
    (h : Driver.C14.containsTableMemo w k filt = .ok l) : containsTable w k filt = .ok l :=
  containsTableMemo_eq w k filt ▸ h

/-- non-vacuity: a memoised length (`k = 1`, answered from `tbl1`) and a non-memoised one (`k = 5`) -/
example : Driver.C14.containsTableMemo [q1, U] 1 false = containsTable [q1, U] 1 false
    ∧ Driver.C14.containsTableMemo [q1, U] 5 true = containsTable [q1, U] 5 true :=
  ⟨containsTableMemo_eq _ _ _, containsTableMemo_eq _ _ _⟩

example : Driver.C14.containsTableMemo [q1, U] 1 false = .ok [true] := by
  rw [containsTableMemo_eq]; decide +kernel

end C14
