import PermutaModel.Lemmas.C18AddPoint
import PermutaModel.Lemmas.C18Bridge
import PermutaModel.Lemmas.C18Plot
import PermutaModel.Lemmas.C18PlotK
import PermutaModel.Lemmas.C18Adj
import PermutaModel.Lemmas.C18Int

/-!
# C18 — shading-lemma verdicts and point insertion preserve the meaning of mesh patterns

Property theorems only (helpers live in `Lemmas/C18*.lean`).  `Model.C18.*` mirrors
`permuta/patterns/meshpatt.py` (`shade`, `add_point`, `north_east_shading_lemma_conditions`,
`can_shade`, lookups …) and is what the driver executes; `Spec.C18.MeshContains` is mesh-pattern
containment from the definition (an occurrence of the classical pattern with no other point of the
permutation in a shaded cell).
-/
open Model.C18 Spec.C18 Proto

namespace C18

/-! ## lookups = their region definitions -/

/-- `is_shaded(cell)`: inside the grid it is membership in the shading; outside `AssertionError` -/
theorem isShaded1_spec (m : Mesh) (c : Cell) :
    isShaded1 m c =
      if c.1 ≤ m.pattern.length ∧ c.2 ≤ m.pattern.length then .ok (decide (c ∈ m.shading))
      else .error .assertion := by
  unfold isShaded1 mlen
  split <;> simp

/-- `is_shaded(ll, ur)` on a well-formed rectangle: true iff every cell of the rectangle is shaded -/
theorem isShaded_spec (m : Mesh) (ll ur : Cell)
    (hg : ll.1 ≤ ur.1 ∧ ll.2 ≤ ur.2 ∧ ur.1 ≤ m.pattern.length ∧ ur.2 ≤ m.pattern.length) :
    ∃ b, isShaded m ll ur = .ok b ∧
      (b = true ↔ ∀ x y, ll.1 ≤ x → x ≤ ur.1 → ll.2 ≤ y → y ≤ ur.2 → (x, y) ∈ m.shading) := by
  refine ⟨rectShaded m ll ur, ?_, rectShaded_iff m ll ur hg.1 hg.2.1⟩
  unfold isShaded mlen
  rw [if_neg (by omega), if_neg (by omega)]

/-- `is_shaded(ll, ur)` raises `AssertionError` exactly on ill-formed rectangles -/
theorem isShaded_error (m : Mesh) (ll ur : Cell)
    (hg : ¬ (ll.1 ≤ ur.1 ∧ ll.2 ≤ ur.2 ∧ ur.1 ≤ m.pattern.length ∧ ur.2 ≤ m.pattern.length)) :
    isShaded m ll ur = .error .assertion := by
  unfold isShaded mlen
  by_cases h1 : ll.1 ≤ m.pattern.length ∧ ll.2 ≤ m.pattern.length
  · rw [if_neg (by simpa using h1), if_pos (by omega)]
  · rw [if_pos h1]

/-- `is_pointfree(ll, ur)` on a well-formed rectangle: true iff no point of the pattern lies strictly
    inside the region spanned by the cells, i.e. no index `ll.1 ≤ idx < ur.1` has a value in
    `[ll.2, ur.2)` -/
theorem isPointfree_spec (m : Mesh) (ll ur : Cell)
    (hg : ll.1 ≤ ur.1 ∧ ll.2 ≤ ur.2 ∧ ur.1 ≤ m.pattern.length ∧ ur.2 ≤ m.pattern.length) :
    ∃ b, isPointfree m ll ur = .ok b ∧
      (b = true ↔ ∀ idx, ll.1 ≤ idx → idx < ur.1 →
        ¬ (ll.2 ≤ m.pattern.getD idx 0 ∧ m.pattern.getD idx 0 < ur.2)) := by
  refine ⟨rectPointfree m ll ur, ?_, rectPointfree_iff m ll ur hg.1⟩
  unfold isPointfree mlen
  rw [if_neg (by omega)]

theorem isPointfree_error (m : Mesh) (ll ur : Cell)
    (hg : ¬ (ll.1 ≤ ur.1 ∧ ll.2 ≤ ur.2 ∧ ur.1 ≤ m.pattern.length ∧ ur.2 ≤ m.pattern.length)) :
    isPointfree m ll ur = .error .assertion := by
  unfold isPointfree mlen
  rw [if_pos (by omega)]

/-- `has_anchored_point` = (right column, top row, left column, bottom row) entirely shaded -/
theorem hasAnchoredPoint_spec (m : Mesh) :
    let n := m.pattern.length
    let r := hasAnchoredPoint m
    (r.1 = true ↔ ∀ i, i ≤ n → (n, i) ∈ m.shading) ∧
    (r.2.1 = true ↔ ∀ i, i ≤ n → (i, n) ∈ m.shading) ∧
    (r.2.2.1 = true ↔ ∀ i, i ≤ n → (0, i) ∈ m.shading) ∧
    (r.2.2.2 = true ↔ ∀ i, i ≤ n → (i, 0) ∈ m.shading) := by
  simp only [hasAnchoredPoint, mlen, List.all_eq_true, List.mem_range, List.contains_iff_mem,
    Nat.lt_succ_iff]
  simp

/-- `non_pointless_boxes` = the cells having a point of the pattern in one of their corners -/
theorem mem_nonPointlessBoxes (m : Mesh) (c : Cell) :
    c ∈ nonPointlessBoxes m ↔
      ∃ idx, idx < m.pattern.length ∧
        (c = (idx + 1, m.pattern.getD idx 0 + 1) ∨ c = (idx, m.pattern.getD idx 0 + 1) ∨
         c = (idx, m.pattern.getD idx 0) ∨ c = (idx + 1, m.pattern.getD idx 0)) := by
  unfold nonPointlessBoxes
  simp only [List.mem_eraseDups, List.mem_flatMap, List.mem_cons, List.not_mem_nil, or_false,
    Prod.exists, List.mem_zipIdx_iff_getElem?]
  constructor
  · rintro ⟨v, i, hvi, h⟩
    have hi : i < m.pattern.length := by
      by_contra hn; rw [List.getElem?_eq_none (by omega)] at hvi; simp at hvi
    refine ⟨i, hi, ?_⟩
    have : m.pattern.getD i 0 = v := by rw [List.getD_eq_getElem?_getD, hvi]; rfl
    rw [this]; exact h
  · rintro ⟨i, hi, h⟩
    refine ⟨m.pattern.getD i 0, i, ?_, h⟩
    rw [List.getD_eq_getElem?_getD, List.getElem?_eq_getElem hi]; rfl

/-! ## shade -/

/-- `shade` keeps the pattern and adds exactly the given cells -/
theorem shade_spec (m : Mesh) (ps : List Cell) :
    (shade m ps).pattern = m.pattern ∧ ∀ c, c ∈ (shade m ps).shading ↔ c ∈ m.shading ∨ c ∈ ps :=
  ⟨rfl, fun _ => mem_union⟩

/-- the shading stays duplicate-free (it models a frozenset) -/
theorem shade_nodup (m : Mesh) (ps : List Cell) (h : m.shading.Nodup) : (shade m ps).shading.Nodup :=
  nodup_union h

/-- through the constructor: `shade` succeeds iff all resulting cells are inside the grid, and then
    returns `shade m ps`; otherwise `AssertionError` -/
theorem shadeE_spec (m : Mesh) (ps : List Cell) :
    shadeE m ps =
      if ∀ c ∈ (shade m ps).shading, c.1 ≤ m.pattern.length ∧ c.2 ≤ m.pattern.length
      then .ok (shade m ps) else .error .assertion := by
  unfold shadeE mkMesh shade
  by_cases h : ∀ c ∈ union m.shading ps, c.1 ≤ m.pattern.length ∧ c.2 ≤ m.pattern.length
  · rw [if_pos h, if_pos (by simpa using h)]
  · rw [if_neg h, if_neg (by simpa using h)]

/-! ## add_point: structure -/

/-- `add_point` on a shaded cell raises `AssertionError` -/
theorem addPoint_shaded (m : Mesh) (pos : Cell) (d : Int) (h : pos ∈ m.shading) :
    addPoint m pos d = .error .assertion := by
  unfold addPoint; rw [if_pos (by simpa using h)]

/-- `add_point` on an unshaded cell of a valid mesh pattern succeeds; the new underlying pattern is a
    permutation of length `n+1` with the new point at index `x`, value `y`; a new cell is shaded iff
    the old cell it lies in is shaded (so a shaded cell on the insertion row/column splits in two) or
    it is one of the two cells of the directional shading -/
theorem addPoint_spec_structure (m : Mesh) (hm : ValidMesh m) (x y : Nat) (d : Int)
    (hx : x ≤ m.pattern.length) (hy : y ≤ m.pattern.length) (hfree : (x, y) ∉ m.shading) :
    ∃ m', addPoint m (x, y) d = .ok m' ∧ IsPerm m'.pattern ∧
      m'.pattern.length = m.pattern.length + 1 ∧ m'.pattern.getD x 0 = y ∧
      (∀ c, c ∈ m'.shading ↔
        (collapse x c.1, collapse y c.2) ∈ m.shading ∨ c ∈ dirShading x y d) ∧
      ValidMesh m' := by
  have hmem : ∀ c, c ∈ union (addPointBaseShading m x y) (dirShading x y d) ↔
      (collapse x c.1, collapse y c.2) ∈ m.shading ∨ c ∈ dirShading x y d := fun c => by
    rw [mem_union, mem_addPointBaseShading]
  have hlen : (addPointNewPerm m x y).length = m.pattern.length + 1 := insertAt_length _ _ _
  have hperm : IsPerm (addPointNewPerm m x y) := insertAt_isPerm hm.1 hy
  have hrange : ∀ c ∈ union (addPointBaseShading m x y) (dirShading x y d),
      c.1 ≤ (addPointNewPerm m x y).length ∧ c.2 ≤ (addPointNewPerm m x y).length := by
    intro c hc
    rw [hlen]
    rcases (hmem c).mp hc with h | h
    · have := hm.2 _ h
      unfold collapse at this
      simp only at this
      constructor
      · have := this.1; split at this <;> omega
      · have := this.2; split at this <;> omega
    · unfold dirShading at h
      split at h
      · simp only [List.mem_cons, List.not_mem_nil, or_false] at h
        rcases h with rfl | rfl <;> simp <;> omega
      split at h
      · simp only [List.mem_cons, List.not_mem_nil, or_false] at h
        rcases h with rfl | rfl <;> simp <;> omega
      split at h
      · simp only [List.mem_cons, List.not_mem_nil, or_false] at h
        rcases h with rfl | rfl <;> simp <;> omega
      split at h
      · simp only [List.mem_cons, List.not_mem_nil, or_false] at h
        rcases h with rfl | rfl <;> simp <;> omega
      · simp at h
  refine ⟨⟨addPointNewPerm m x y, union (addPointBaseShading m x y) (dirShading x y d)⟩, ?_, hperm, hlen,
    ?_, hmem, ⟨hperm, hrange⟩⟩
  · unfold addPoint mkMesh
    rw [if_neg (by simpa using hfree), if_pos (by simpa using hrange)]
  · show (Model.insertAt m.pattern x y).getD x 0 = y
    rw [insertAt_eq, List.getD_eq_getElem?_getD]
    have h1 : (List.map (fun w => if w < y then w else w + 1) (List.take x m.pattern)).length = x := by
      rw [List.length_map, List.length_take]; omega
    rw [List.getElem?_append_right (by omega), h1]
    simp

/-! ## add_point: meaning -/

/-- **`add_point` specification**: for a valid mesh pattern `μ`, an unshaded cell `(x, y)` of its grid
    and ANY direction argument `d` (`DIR_NONE`, east, north, west, south, or anything else), the
    returned pattern is contained in exactly those permutations `σ` that have an occurrence of `μ`
    with at least one point of `σ` in cell `(x, y)`. -/
theorem add_point_spec (μ : Mesh) (hμ : ValidMesh μ) (x y : Nat) (d : Int)
    (hx : x ≤ μ.pattern.length) (hy : y ≤ μ.pattern.length) (μ' : Mesh)
    (h : addPoint μ (x, y) d = .ok μ') (σ : NSeq) (hσ : IsPerm σ) :
    MeshContains σ μ' ↔
      ∃ c, MeshOcc μ σ c ∧ ∃ i, i < σ.length ∧ i ∉ c ∧ cellOf σ c i = (x, y) := by
  have hfree : (x, y) ∉ μ.shading := by
    intro hm
    rw [addPoint_shaded μ (x, y) d hm] at h; cases h
  obtain ⟨m2, h2, -, -, -, hsh, -⟩ := addPoint_spec_structure μ hμ x y d hx hy hfree
  rw [h] at h2
  injection h2 with h2
  subst h2
  have hpat : μ'.pattern = Model.insertAt μ.pattern x y := by
    unfold addPoint mkMesh at h
    rw [if_neg (by simpa using hfree)] at h
    split at h
    · injection h with h; rw [← h]; rfl
    · cases h
  have hμ' : μ' = ⟨Model.insertAt μ.pattern x y, μ'.shading⟩ := by rw [← hpat]
  constructor
  · rintro ⟨c', hc'⟩
    rw [hμ'] at hc'
    obtain ⟨h1, h2, h3, h4⟩ := addpoint_forward (R := μ.shading) hμ.1 hx hy hfree
      (fun e he => (hsh e).mpr (Or.inl he)) hc'
    exact ⟨_, h1, _, h2, h3, h4⟩
  · rintro ⟨c, hc, i, hi, hic, hcell⟩
    have := addpoint_backward (R' := μ'.shading) d hμ.1 hσ hx (fun e he => (hsh e).mp he) hc hi hic hcell
    rw [hμ']; exact this

/-! ## the shading lemma -/

/-- monotonicity (the `⇐` half of every shading lemma, fully general): shading more cells can only
    remove permutations from the set of containing permutations -/
theorem shade_antitone (μ : Mesh) (ps : List Cell) (σ : NSeq) :
    MeshContains σ (shade μ ps) → MeshContains σ μ :=
  fun ⟨c, hc⟩ => ⟨c, hc.of_shade⟩

/-- **North-east shading lemma** for the code's test: if `north_east_shading_lemma_conditions(pos)`
    returns `True` (in particular raises no `IndexError`) for a mesh pattern `μ` over a permutation,
    then for ALL permutations `σ`: `σ` contains `μ` iff `σ` contains `μ` with `pos` shaded in addition. -/
theorem ne_shading_lemma (μ : Mesh) (hμ : IsPerm μ.pattern) (pos : Cell)
    (h : neCond μ pos = .ok true) (σ : NSeq) (hσ : IsPerm σ) :
    MeshContains σ μ ↔ MeshContains σ (shade μ [pos]) := by
  unfold neCond at h
  split at h
  · cases h
  · rename_i hx
    have hb : neCondB μ (pos.1, pos.2) = true := by
      injection h
    constructor
    · rintro ⟨c, hc⟩
      exact ne_step ((neCondB_iff μ pos.1 pos.2).mp hb) (by simpa [mlen] using hx) hμ hσ.1 hc
    · exact shade_antitone μ [pos] σ

/-- equivariance used for the transport: `σ` contains `μ` iff the rotated permutation
    (`Perm.rotate()`) contains the rotated mesh pattern (`MeshPatt.rotate()`) -/
theorem meshContains_rot (μ : Mesh) (hμ : ValidMesh μ) (σ : NSeq) (hσ : IsPerm σ) :
    MeshContains σ μ ↔ MeshContains (Model.rotate1 σ) (rotMesh μ) := by
  constructor
  · rintro ⟨c, hc⟩; exact ⟨_, rot_step hμ hσ hc⟩
  · intro h
    have h3 := rotN_contains 3 (rotMesh_valid hμ) (rotate1_isPerm hσ) h
    have e1 : rotPermN 3 (Model.rotate1 σ) = σ := rotate1_four hσ
    rw [e1] at h3
    exact (show MeshEq (rotMeshN 3 (rotMesh μ)) μ from rotMesh_four hμ).contains h3

/-- **`can_shade` is sound**: if `can_shade(pos)` returns (no exception) a non-empty list for a
    valid mesh pattern `μ`, then for ALL permutations `σ`: `σ` contains `μ` iff `σ` contains `μ` with
    the cell `pos` shaded in addition — the set of containing (hence of avoiding) permutations is
    unchanged.  Covers all four rotated tests and the transport of the cell `pos ↦ (pos₁, n − pos₀)`. -/
theorem can_shade_sound (μ : Mesh) (hμ : ValidMesh μ) (pos : Cell) (l : List Nat)
    (h : canShade μ pos = .ok l) (hl : l ≠ []) (σ : NSeq) (hσ : IsPerm σ) :
    MeshContains σ μ ↔ MeshContains σ (shade μ [pos]) := by
  refine ⟨fun hc => ?_, shade_antitone μ [pos] σ⟩
  obtain ⟨hall, hsome⟩ := canShadeFrom_ok (mlen μ) 4 0 μ pos l h
  obtain ⟨j, hj, hjt⟩ := hsome hl
  have hpos : pos.1 ≤ mlen μ ∧ pos.2 ≤ mlen μ := by
    obtain ⟨b0, h0⟩ := hall 0 (by omega)
    obtain ⟨b1, h1⟩ := hall 1 (by omega)
    have e0 := neCond_ok_bound h0
    have e1 := neCond_ok_bound h1
    simp only [rotMeshN, rotCellN] at e0 e1
    have : mlen (rotMesh μ) = mlen μ := by simp [rotMesh, mlen, rotate1_length]
    rw [this] at e1
    exact ⟨e0, e1⟩
  refine shade_sound_of_rot hμ hpos (j := j) (by omega) ?_ hσ hc
  intro τ hτ hτc
  exact (ne_shading_lemma (rotMeshN j μ) (rotMeshN_valid j hμ).1 _ hjt τ hτ).mp hτc

/-- **simultaneous north-east lemma** for the code's test: if
    `north_east_simul_shading_lemma_conditions(p1, p2)` returns `True`, then for ALL permutations the
    two cells may be shaded together -/
theorem ne_simul_shading_lemma (μ : Mesh) (hμ : ValidMesh μ) (p1 p2 : Cell)
    (h : neSimul μ p1 p2 = .ok true) (σ : NSeq) (hσ : IsPerm σ) :
    MeshContains σ μ ↔ MeshContains σ (shade μ [p1, p2]) := by
  refine ⟨fun hc => ?_, shade_antitone μ [p1, p2] σ⟩
  obtain ⟨hx, hb⟩ := neSimul_ok_true h
  obtain ⟨hp2, hN⟩ := (neSimulB_iff μ p1.1 p1.2 p2).mp hb
  obtain ⟨c, hc⟩ := hc
  obtain ⟨c', hc'⟩ := simul_step hN hx hμ hσ hc
  rw [hp2]
  exact ⟨c', hc'⟩

/-- **`can_simul_shade` is sound**: if `can_simul_shade(q1, q2)` returns a non-empty list for a valid
    mesh pattern and two cells inside the grid, then for ALL permutations `σ`: `σ` contains `μ` iff
    `σ` contains `μ` with both cells shaded in addition -/
theorem can_simul_shade_sound (μ : Mesh) (hμ : ValidMesh μ) (q1 q2 : Cell)
    (hq1 : q1.1 ≤ μ.pattern.length ∧ q1.2 ≤ μ.pattern.length)
    (hq2 : q2.1 ≤ μ.pattern.length ∧ q2.2 ≤ μ.pattern.length) (l : List Nat)
    (h : canSimulShade μ q1 q2 = .ok l) (hl : l ≠ []) (σ : NSeq) (hσ : IsPerm σ) :
    MeshContains σ μ ↔ MeshContains σ (shade μ [q1, q2]) := by
  refine ⟨fun hc => ?_, shade_antitone μ [q1, q2] σ⟩
  obtain ⟨j, hj, hjt⟩ := canSimulFrom_ok (mlen μ) 4 0 μ q1 q2 l h hl
  have hpos : ∀ p ∈ [q1, q2], p.1 ≤ mlen μ ∧ p.2 ≤ mlen μ := by
    intro p hp
    simp only [List.mem_cons, List.not_mem_nil, or_false] at hp
    rcases hp with rfl | rfl
    · exact hq1
    · exact hq2
  refine shade_sound_of_rot_list hμ hpos (j := j) (by omega) ?_ hσ hc
  intro τ hτ hτc
  have h1 := (ne_simul_shading_lemma (rotMeshN j μ) (rotMeshN_valid j hμ) _ _ hjt τ hτ).mp hτc
  have heq : MeshEq
      (shade (rotMeshN j μ) [(swapPair (pairN (mlen μ) j (q1, q2))).1, (swapPair (pairN (mlen μ) j (q1, q2))).2])
      (shade (rotMeshN j μ) ([q1, q2].map (rotCellN (mlen μ) j))) := by
    refine ⟨rfl, fun c => ?_⟩
    have := pairN_set (mlen μ) j (q1, q2) c
    simp only [shade, mem_union, List.mem_cons, List.not_mem_nil, or_false, List.map_cons, List.map_nil]
    rw [this]
  exact heq.contains h1

/-- every value returned by `can_shade(pos)` is "the value of an adjacent point to the box": the value
    of a point of the pattern in one of the four corners of the cell `pos` -/
theorem can_shade_values_adjacent (μ : Mesh) (hμ : ValidMesh μ) (pos : Cell) (l : List Nat)
    (h : canShade μ pos = .ok l) (v : Nat) (hv : v ∈ l) :
    ∃ i, i < μ.pattern.length ∧ μ.pattern.getD i 0 = v ∧ (i + 1 = pos.1 ∨ i = pos.1) ∧
      (v + 1 = pos.2 ∨ v = pos.2) :=
  canShade_values hμ h v hv

/-- the same for `can_simul_shade(q1, q2)` (cells inside the grid): a corner of `q1` or of `q2` -/
theorem can_simul_shade_values_adjacent (μ : Mesh) (hμ : ValidMesh μ) (q1 q2 : Cell)
    (hq1 : q1.1 ≤ μ.pattern.length ∧ q1.2 ≤ μ.pattern.length)
    (hq2 : q2.1 ≤ μ.pattern.length ∧ q2.2 ≤ μ.pattern.length) (l : List Nat)
    (h : canSimulShade μ q1 q2 = .ok l) (v : Nat) (hv : v ∈ l) :
    ∃ i, i < μ.pattern.length ∧ μ.pattern.getD i 0 = v ∧
      (((i + 1 = q1.1 ∨ i = q1.1) ∧ (v + 1 = q1.2 ∨ v = q1.2)) ∨
       ((i + 1 = q2.1 ∨ i = q2.1) ∧ (v + 1 = q2.2 ∨ v = q2.2))) := by
  obtain ⟨i, hi | hi⟩ := canSimulShade_values hμ hq1 hq2 h v hv
  · exact ⟨i, hi.1, hi.2.1, Or.inl hi.2.2⟩
  · exact ⟨i, hi.1, hi.2.1, Or.inr hi.2.2⟩

/-- **`shadable_boxes` lists exactly** the single cells with a non-empty `can_shade` answer and the
    pairs (cell, right neighbour), (cell, upper neighbour) with a non-empty `can_simul_shade` answer,
    keyed by the returned points: `g` is listed under key `k` iff `k` is one of the values returned
    for `g` -/
theorem shadable_boxes_spec (μ : Mesh) (d : List (Nat × List (List Cell)))
    (h : shadableBoxes μ = .ok d) (k : Nat) (g : List Cell) :
    (∃ gs, (k, gs) ∈ d ∧ g ∈ gs) ↔
      ∃ c : Cell, c.1 ≤ μ.pattern.length ∧ c.2 ≤ μ.pattern.length ∧ Entry μ c k g := by
  unfold shadableBoxes at h
  cases he : shadableEntries μ with
  | error e => rw [he] at h; cases h
  | ok es =>
    rw [he] at h
    simp only [Except.ok.injEq] at h
    subst h
    rw [mem_groupByKey, mem_entriesOver he]
    simp only [mem_gridCells, mlen, and_assoc]

/-- **every tuple of boxes in the table of `shadable_boxes` may be shaded**: for a valid mesh
    pattern and ALL permutations `σ`, `σ` contains `μ` iff it contains `μ` with the listed boxes shaded -/
theorem shadable_boxes_sound (μ : Mesh) (hμ : ValidMesh μ) (d : List (Nat × List (List Cell)))
    (h : shadableBoxes μ = .ok d) (k : Nat) (gs : List (List Cell)) (g : List Cell)
    (hk : (k, gs) ∈ d) (hg : g ∈ gs) (σ : NSeq) (hσ : IsPerm σ) :
    MeshContains σ μ ↔ MeshContains σ (shade μ g) := by
  obtain ⟨c, hc1, hc2, hE⟩ := (shadable_boxes_spec μ d h k g).mp ⟨gs, hk, hg⟩
  rcases hE with ⟨l, hl, hp, rfl⟩ | ⟨h1, l, hl, hp, rfl⟩ | ⟨h1, l, hl, hp, rfl⟩
  · exact can_shade_sound μ hμ c l hl (List.ne_nil_of_mem hp) σ hσ
  · exact can_simul_shade_sound μ hμ c (c.1 + 1, c.2) ⟨hc1, hc2⟩ ⟨by simp only [mlen] at h1 ⊢; omega, hc2⟩ l hl
      (List.ne_nil_of_mem hp) σ hσ
  · exact can_simul_shade_sound μ hμ c (c.1, c.2 + 1) ⟨hc1, hc2⟩ ⟨hc1, by simp only [mlen] at h1 ⊢; omega⟩ l hl
      (List.ne_nil_of_mem hp) σ hσ

/-! ## tie to the executable containment test -/

/-- `Spec.C18.MeshContains` is what the model of `Perm.contains(mesh)` / `mesh.occurrences_in(perm)`
    (the scan of `MeshPatt._occurrences_in_perm`, `Model.containsMesh`) computes -/
theorem containsMesh_spec (μ : Mesh) (hμ : IsPerm μ.pattern) (σ : NSeq) (hσ : IsPerm σ) :
    Model.containsMesh σ μ = true ↔ MeshContains σ μ :=
  containsMesh_iff hμ hσ

/-- `can_shade_sound`, stated with the executable containment: the containment test gives the same
    answer before and after shading a cell that `can_shade` licensed, for every permutation -/
theorem can_shade_preserves_containsMesh (μ : Mesh) (hμ : ValidMesh μ) (pos : Cell) (l : List Nat)
    (h : canShade μ pos = .ok l) (hl : l ≠ []) (σ : NSeq) (hσ : IsPerm σ) :
    Model.containsMesh σ (shade μ [pos]) = Model.containsMesh σ μ := by
  rw [Bool.eq_iff_iff, containsMesh_iff hμ.1 hσ, containsMesh_iff (μ := shade μ [pos]) hμ.1 hσ]
  exact (can_shade_sound μ hμ pos l h hl σ hσ).symm

/-! ## rendering -/

/-- **the text rendering can be parsed back, for every cell size**: for every valid mesh pattern and
    every cell size `k ≥ 1`, `ascii_plot(k)` (as a character list) succeeds and `parsePlotL · k`
    recovers the underlying permutation and exactly the set of shaded cells -/
theorem plot_round_trip (m : Mesh) (hm : ValidMesh m) (k : Nat) (hk : 1 ≤ k) :
    ∃ s, asciiPlotL m k = .ok s ∧ (parsePlotL s k).pattern = m.pattern ∧
      ∀ c, c ∈ (parsePlotL s k).shading ↔ c ∈ m.shading := by
  obtain ⟨c, rfl⟩ : ∃ c, k = c + 1 := ⟨k - 1, by omega⟩
  exact parsePlotL_asciiPlotL_K m hm c

/-- non-vacuity: a cell-size-2 rendering and its parse -/
example : (asciiPlotL ⟨[0], [(1, 0)]⟩ 2).toOption.map String.ofList =
    some "  |\n  |\n--●--\n  |▒▒\n  |▒▒" := by decide
example : parsePlotL "  |\n  |\n--●--\n  |▒▒\n  |▒▒".toList 2 = ⟨[0], [(1, 0)]⟩ := by decide

/-- `ascii_plot(cell_size)` asserts `cell_size >= 1` -/
theorem plot_cell_size_zero (m : Mesh) : asciiPlotL m 0 = .error .assertion := by
  simp [asciiPlotL]

/-! ## non-vacuity: the hypotheses are satisfiable and the functions compute -/

example : isShaded ⟨[3, 2, 1, 0], [(0, 0), (0, 1), (1, 1), (1, 2), (2, 1), (2, 2)]⟩ (1, 1) (2, 2) = .ok true := by
  decide
example : isShaded ⟨[0], []⟩ (1, 1) (0, 0) = .error .assertion := by decide
example : isPointfree ⟨[4, 0, 1, 2, 3], []⟩ (0, 2) (2, 3) = .ok true := by decide
example : hasAnchoredPoint ⟨[0, 1], [(0, 0), (1, 0), (2, 0), (1, 1)]⟩ = (false, false, false, true) := by decide
example : (2, 1) ∈ nonPointlessBoxes ⟨[0, 1], []⟩ := by decide
example : shade ⟨[0, 1], [(0, 1)]⟩ [(1, 1), (1, 0)] = ⟨[0, 1], [(0, 1), (1, 1), (1, 0)]⟩ := by decide
example : addPoint ⟨[0, 1, 2], [(1, 0), (2, 1), (3, 2)]⟩ (2, 0) 3 =
    .ok ⟨[1, 2, 0, 3], [(1, 0), (1, 1), (2, 2), (3, 2), (4, 3), (2, 0), (3, 0)]⟩ := by decide
example : addPoint ⟨[0], [(0, 0)]⟩ (0, 0) (-1) = .error .assertion := by decide
example : (asciiPlotL ⟨[0, 1], [(2, 0)]⟩ 1).toOption.map String.ofList = some " | |\n-+-●-\n | |\n-●-+-\n | |▒" := by
  decide
/-- the hypothesis of `ne_shading_lemma` holds for a concrete pattern (docstring example) -/
example : neCond ⟨[0], []⟩ (1, 1) = .ok true := by decide
example : neCond ⟨[1, 2, 0], [(2, 2), (3, 0), (3, 2), (3, 3)]⟩ (1, 2) = .ok true := by decide
/-- the hypothesis of `can_shade_sound` holds for the docstring example, via two different rotations -/
example : canShade ⟨[1, 2, 0], [(2, 2), (3, 0), (3, 2), (3, 3)]⟩ (1, 2) = .ok [1, 2] := by decide
example : canShade ⟨[0], [(0, 0)]⟩ (1, 1) = .ok [] := by decide
example : canShade ⟨[0], []⟩ (2, 0) = .error .indexError := by decide
/-- hypotheses of the simultaneous theorems hold on the docstring examples -/
example : neSimul ⟨[0, 2, 1], []⟩ (1, 1) (1, 0) = .ok true := by decide
example : canSimulShade ⟨[0, 2, 1], []⟩ (3, 2) (3, 1) = .ok [1] := by decide
example : canSimulShade ⟨[0, 2, 1], []⟩ (1, 1) (2, 1) = .ok [] := by decide
example : neSimul ⟨[0], []⟩ (0, 0) (0, 1) = .error .assertion := by decide
/-- a non-empty table (docstring example of `shadable_boxes`, smaller) -/
example : shadableBoxes ⟨[0], []⟩ =
    .ok [(0, [[(0, 0)], [(0, 0), (1, 0)], [(0, 0), (0, 1)], [(0, 1)], [(0, 1), (1, 1)], [(1, 0)], [(1, 0), (1, 1)], [(1, 1)]])] := by
  decide
/-- … and `[0]` does contain that pattern, so both sides of the equivalence are inhabited -/
example : MeshContains [0] ⟨[0], []⟩ :=
  ⟨[0], ⟨rfl, by simp [StrictInc], by simp, by intro a b ha hb; simp at ha hb; subst ha; subst hb; simp⟩,
    by intro i hi hic; simp at hi; subst hi; simp at hic⟩

/-! ## `can_simul_shade` on ARBITRARY integer positions (no argument is outside the model)

`Model.C18.canSimulShadeI` (`Model/C18Int.lean`, what the driver executes for `cansimul` / `css` / `cssz`)
mirrors the code for any two pairs of integers: rotation into negative coordinates, Python's negative
subscripts in `self.pattern[pos1[0] - 1]`, `IndexError` beyond. -/

/-- on two cells of the grid the integer model is the model `canSimulShade` of the theorems above -/
theorem can_simul_shade_int_agrees (μ : Mesh) (q1 q2 : Cell)
    (hq1 : q1.1 ≤ μ.pattern.length ∧ q1.2 ≤ μ.pattern.length)
    (hq2 : q2.1 ≤ μ.pattern.length ∧ q2.2 ≤ μ.pattern.length) :
    canSimulShadeI μ (castC q1) (castC q2) = (canSimulShade μ q1 q2).map (List.map Int.ofNat) :=
  canSimulShadeI_cast μ q1 q2 hq1 hq2

/-- … and so is `north_east_simul_shading_lemma_conditions`, for all natural coordinates -/
theorem ne_simul_int_agrees (μ : Mesh) (p1 p2 : Cell) : neSimulI μ (castC p1) (castC p2) = neSimul μ p1 p2 :=
  neSimulI_cast μ p1 p2

/-- **no licence outside the grid**: if `can_simul_shade(pos1, pos2)` returns a non-empty list for a valid mesh
    pattern and ANY two integer positions, both positions are cells of the grid `[0, n]²`.  (The inner test
    `north_east_simul_shading_lemma_conditions` alone can answer `True` left of the grid, through a negative
    subscript — see the example below —, but then the loop raises `IndexError` two rounds earlier or later.) -/
theorem can_simul_shade_licence_in_grid (μ : Mesh) (hμ : ValidMesh μ) (p1 p2 : ICell) (l : List Int)
    (h : canSimulShadeI μ p1 p2 = .ok l) (hl : l ≠ []) :
    inGridI μ.pattern.length p1 = true ∧ inGridI μ.pattern.length p2 = true := by
  obtain ⟨h1, h2⟩ := canSimulShadeI_licence_grid hμ h hl
  exact ⟨(inGridI_iff _ _).mpr h1, (inGridI_iff _ _).mpr h2⟩

/-- consequently: when one of the positions is not a cell of the grid the call returns `[]` or raises, and the
    only exception it can raise (for any arguments) is `IndexError` -/
theorem can_simul_shade_outside (μ : Mesh) (hμ : ValidMesh μ) (p1 p2 : ICell)
    (hout : ¬ (inGridI μ.pattern.length p1 = true ∧ inGridI μ.pattern.length p2 = true)) :
    canSimulShadeI μ p1 p2 = .ok [] ∨ canSimulShadeI μ p1 p2 = .error .indexError := by
  cases h : canSimulShadeI μ p1 p2 with
  | error e => right; rw [canSimulFromI_error _ _ _ _ _ e h]
  | ok l =>
    left
    cases l with
    | nil => rfl
    | cons a t => exact absurd (can_simul_shade_licence_in_grid μ hμ p1 p2 _ h (by simp)) hout

theorem can_simul_shade_only_indexError (μ : Mesh) (p1 p2 : ICell) (e : Err)
    (h : canSimulShadeI μ p1 p2 = .error e) : e = .indexError :=
  canSimulFromI_error _ _ _ _ _ e h

/-- **`can_simul_shade` is sound for every argument on which it answers**: for a valid mesh pattern and ANY two
    integer positions, a non-empty answer means that for ALL permutations `σ`: `σ` contains `μ` iff `σ` contains
    `μ` with the positions shaded — `gridPart` keeps those that are cells of the grid (the only ones `shade`
    accepts); by `can_simul_shade_licence_in_grid` these are both. -/
theorem can_simul_shade_sound_all (μ : Mesh) (hμ : ValidMesh μ) (p1 p2 : ICell) (l : List Int)
    (h : canSimulShadeI μ p1 p2 = .ok l) (hl : l ≠ []) (σ : NSeq) (hσ : IsPerm σ) :
    MeshContains σ μ ↔ MeshContains σ (shade μ (gridPart μ.pattern.length [p1, p2])) := by
  obtain ⟨g1, g2⟩ := canSimulShadeI_licence_grid hμ h hl
  have i1 := (inGridI_iff _ _).mpr g1
  have i2 := (inGridI_iff _ _).mpr g2
  have hgp : gridPart μ.pattern.length [p1, p2] = [(p1.1.toNat, p1.2.toNat), (p2.1.toNat, p2.2.toNat)] := by
    simp only [mlen] at i1 i2
    simp [gridPart, i1, i2]
  rw [hgp]
  have c1 := castC_toNat _ _ g1
  have c2 := castC_toNat _ _ g2
  have n1 : (p1.1.toNat, p1.2.toNat).1 ≤ μ.pattern.length ∧ (p1.1.toNat, p1.2.toNat).2 ≤ μ.pattern.length := by
    obtain ⟨a, b, c, d⟩ := g1; simp only [mlen] at b d; simp only; omega
  have n2 : (p2.1.toNat, p2.2.toNat).1 ≤ μ.pattern.length ∧ (p2.1.toNat, p2.2.toNat).2 ≤ μ.pattern.length := by
    obtain ⟨a, b, c, d⟩ := g2; simp only [mlen] at b d; simp only; omega
  have hc := canSimulShadeI_cast μ _ _ n1 n2
  rw [c1, c2, h] at hc
  cases hN : canSimulShade μ (p1.1.toNat, p1.2.toNat) (p2.1.toNat, p2.2.toNat) with
  | error e => rw [hN] at hc; cases hc
  | ok l' =>
    rw [hN] at hc
    have hl' : l' ≠ [] := by
      rintro rfl
      simp only [Except.map, List.map_nil, Except.ok.injEq] at hc
      exact hl hc
    exact can_simul_shade_sound μ hμ _ _ n1 n2 l' hN hl' σ hσ

/-- the quirk behind these theorems: left of the grid the inner test reads `self.pattern[-2]` and says `True` for
    two positions that are no cells at all; the public `can_simul_shade` raises on the same arguments -/
example : neSimulI ⟨[0, 1], []⟩ (-1, 1) (-1, 0) = .ok true ∧
    canSimulShadeI ⟨[0, 1], []⟩ (-1, 1) (-1, 0) = .error .indexError := by decide
/-- outside the grid without an exception: the empty answer -/
example : canSimulShadeI ⟨[0], []⟩ (0, 0) (6, 0) = .ok [] ∧ canSimulShadeI ⟨[0, 1, 2], []⟩ (3, 5) (1, 3) = .ok [] := by
  decide
/-- inside the grid: the docstring examples, now through the integer model -/
example : canSimulShadeI ⟨[0, 2, 1], []⟩ (3, 2) (3, 1) = .ok [1] ∧ canSimulShadeI ⟨[0, 2, 1], []⟩ (1, 0) (1, 1) = .ok [0] ∧
    gridPart 3 [(3, 2), (3, 1)] = [(3, 2), (3, 1)] ∧ gridPart 2 [(-1, 1), (2, 0)] = [(2, 0)] := by decide

end C18
