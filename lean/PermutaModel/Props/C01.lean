import PermutaModel.Lemmas.C01Bridge

/-!
# C01 — classical pattern occurrences, containment and counts are exact

Property theorems only (helper lemmas live in `Lemmas/`).  `Model.occurrencesIn` mirrors
`Perm.occurrences_in` (perm.py); `Spec.occurrences` is "filter all strictly increasing index
tuples in lexicographic order by order-isomorphism"; `IsOcc` is the property's wording.
-/
open Model

namespace C01

/-- **Main theorem**: for all permutations `π`, `σ` the model of `Perm.occurrences_in` returns
    exactly the specification list (same elements, same order, same multiplicities). -/
theorem occurrencesIn_eq_spec (π σ : NSeq) (hπ : IsPerm π) (hσ : IsPerm σ) :
    Model.occurrencesIn π σ = Spec.occurrences π σ := by
  have hspec : Spec.occurrences π σ =
      (Spec.subLen π.length (List.range σ.length)).filter (fullIsoB π σ) := by
    unfold Spec.occurrences Spec.combos
    apply List.filter_congr
    intro c hc
    exact orderIsoB_pick π σ c ((mem_subLen _ _ _).mp hc).2
  rw [hspec]
  by_cases hne : σ = []
  · subst hne
    unfold Model.occurrencesIn
    by_cases h0 : π.length = 0
    · have : π = [] := List.eq_nil_of_length_eq_zero h0
      subst this; simp [Spec.subLen, fullIsoB]
    · have hpos : 0 < π.length := Nat.pos_of_ne_zero h0
      obtain ⟨m, hm⟩ : ∃ m, π.length = m + 1 := ⟨π.length - 1, by omega⟩
      simp [h0, hpos, hm, Spec.subLen]
  · exact _root_.occurrencesIn_eq_spec π σ (permHyp_of_isPerm hπ hσ hne)

/-- the specification list is exactly the set of occurrences in the property's wording -/
theorem mem_spec_iff (π σ : NSeq) (c : List Nat) : c ∈ Spec.occurrences π σ ↔ IsOcc π σ c := by
  unfold Spec.occurrences Spec.combos
  rw [List.mem_filter, mem_subLen, sublist_range_iff]
  constructor
  · rintro ⟨⟨⟨hinc, hrng⟩, hlen⟩, hiso⟩
    rw [orderIsoB_pick π σ c hlen, fullIsoB_iff] at hiso
    exact ⟨hlen, hinc, hrng, fun a b ha hb => hiso a b ha hb⟩
  · rintro ⟨hlen, hinc, hrng, hiso⟩
    refine ⟨⟨⟨hinc, hrng⟩, hlen⟩, ?_⟩
    rw [orderIsoB_pick π σ c hlen, fullIsoB_iff]
    exact fun a b ha hb => hiso a b ha hb

/-- every reported tuple is an occurrence and every occurrence is reported -/
theorem mem_occurrencesIn_iff (π σ : NSeq) (hπ : IsPerm π) (hσ : IsPerm σ) (c : List Nat) :
    c ∈ Model.occurrencesIn π σ ↔ IsOcc π σ c := by
  rw [occurrencesIn_eq_spec π σ hπ hσ, mem_spec_iff]

/-- each occurrence is reported once -/
theorem occurrencesIn_nodup (π σ : NSeq) (hπ : IsPerm π) (hσ : IsPerm σ) :
    (Model.occurrencesIn π σ).Nodup := by
  rw [occurrencesIn_eq_spec π σ hπ hσ]
  exact (subLen_nodup _ _ List.pairwise_lt_range).filter _

/-- occurrences are reported in lexicographic order -/
theorem occurrencesIn_lex_sorted (π σ : NSeq) (hπ : IsPerm π) (hσ : IsPerm σ) :
    (Model.occurrencesIn π σ).Pairwise (fun a b => lexLt a b = true) := by
  rw [occurrencesIn_eq_spec π σ hπ hσ]
  exact (subLen_sorted _ _ List.pairwise_lt_range).filter _

/-- the empty pattern occurs exactly once, in every permutation -/
theorem empty_pattern_once (σ : NSeq) : Model.occurrencesIn [] σ = [[]] := by
  simp [Model.occurrencesIn]

/-- containment test agrees with the listing / with `Contains` -/
theorem containsOne_iff (σ π : NSeq) (hπ : IsPerm π) (hσ : IsPerm σ) :
    Model.containsOne σ π = true ↔ Contains σ π := by
  unfold Model.containsOne Contains
  constructor
  · intro h
    cases hl : Model.occurrencesIn π σ with
    | nil => simp [hl] at h
    | cons c t =>
      exact ⟨c, (mem_occurrencesIn_iff π σ hπ hσ c).mp (by simp [hl])⟩
  · rintro ⟨c, hc⟩
    have := (mem_occurrencesIn_iff π σ hπ hσ c).mpr hc
    cases hl : Model.occurrencesIn π σ with
    | nil => simp [hl] at this
    | cons c t => simp

/-- `contains(*patts)`: all of the patterns are contained -/
theorem containsAll_iff (σ : NSeq) (ps : List NSeq) (hσ : IsPerm σ) (hps : ∀ p ∈ ps, IsPerm p) :
    Model.containsAll σ ps = true ↔ ∀ p ∈ ps, Contains σ p := by
  unfold Model.containsAll
  rw [List.all_eq_true]
  exact forall₂_congr fun p hp => containsOne_iff σ p (hps p hp) hσ

/-- `avoids(*patts)`, `avoids_set`: none of the patterns is contained -/
theorem avoidsAll_iff (σ : NSeq) (ps : List NSeq) (hσ : IsPerm σ) (hps : ∀ p ∈ ps, IsPerm p) :
    Model.avoidsAll σ ps = true ↔ ∀ p ∈ ps, ¬ Contains σ p := by
  unfold Model.avoidsAll
  rw [List.all_eq_true]
  refine forall₂_congr fun p hp => ?_
  rw [← containsOne_iff σ p (hps p hp) hσ]
  simp

/-- occurrence count = size of the listing = size of the specification list -/
theorem countOcc_eq (π σ : NSeq) (hπ : IsPerm π) (hσ : IsPerm σ) :
    Model.countOcc π σ = (Spec.occurrences π σ).length := by
  unfold Model.countOcc; rw [occurrencesIn_eq_spec π σ hπ hσ]

/-- memo invariant: the cached table, when present, is the freshly computed one -/
def CacheInv (o : PattObj) : Prop := o.cache = none ∨ o.cache = some (patternDetails o.perm)

theorem search_preserves (o : PattObj) (σ : NSeq) (h : CacheInv o) :
    CacheInv (o.search σ).1 ∧ (o.search σ).1.perm = o.perm ∧ (o.search σ).2 = Model.occurrencesIn o.perm σ := by
  unfold PattObj.search Model.occurrencesIn
  by_cases h0 : o.perm.length = 0
  · simp [h0, h]
  · by_cases h1 : o.perm.length > σ.length
    · simp [h0, h1, h]
    · simp only [h0, h1, if_false]
      unfold PattObj.details
      rcases h with h | h
      · simp [h, CacheInv]
      · simp [h, CacheInv]

/-- **history independence**: after any sequence of earlier searches with the same pattern
    object (whose table is memoised on first use) the next search returns what a fresh
    object returns -/
theorem search_history_independent (π : NSeq) (hist : List NSeq) (σ : NSeq) :
    ((hist.foldl (fun (o : PattObj) s => (o.search s).1) ⟨π, none⟩).search σ).2 = Model.occurrencesIn π σ := by
  suffices h : ∀ (o : PattObj), CacheInv o →
      ((hist.foldl (fun (o : PattObj) s => (o.search s).1) o).search σ).2 = Model.occurrencesIn o.perm σ from
    h ⟨π, none⟩ (Or.inl rfl)
  induction hist with
  | nil => intro o ho; exact (search_preserves o σ ho).2.2
  | cons s t ih =>
    intro o ho
    have := search_preserves o s ho
    simp only [List.foldl_cons]
    rw [ih _ this.1, this.2.1]

/-- non-vacuity: concrete permutations meet the hypotheses and the listing is non-trivial -/
example : IsPerm [2,0,1] ∧ IsPerm [5,3,0,4,2,1] ∧
    Spec.occurrences [2,0,1] [5,3,0,4,2,1] = [[0,1,3],[0,2,3],[0,2,4],[0,2,5],[1,2,4],[1,2,5]] := by
  decide

end C01
