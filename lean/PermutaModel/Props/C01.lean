import PermutaModel.Lemmas.C01Bridge
import PermutaModel.Lemmas.C01Colour
import PermutaModel.Lemmas.C01DequeDetails

/-!
# C01 — classical pattern occurrences, containment and counts are exact

Property theorems only (helper lemmas live in `Lemmas/`).  `Model.occurrencesIn` mirrors
`Perm.occurrences_in` (perm.py); `Spec.occurrences` is "filter all strictly increasing index
tuples in lexicographic order by order-isomorphism"; `IsOcc` is the property's wording.
-/
open Model

namespace C01

/-- **Main theorem**: for all permutations `π`, `σ` the model of `Perm.occurrences_in` returns
    exactly the specification list (same elements, same order, same multiplicities). -/
theorem occurrencesIn_eq_spec (π σ : NSeq) (hπ : IsPerm π) (hσ : IsPerm σ) :
    Model.occurrencesIn π σ = Spec.occurrences π σ := by
  have hspec : Spec.occurrences π σ =
      (Spec.subLen π.length (List.range σ.length)).filter (fullIsoB π σ) := by
    unfold Spec.occurrences Spec.combos
    apply List.filter_congr
    intro c hc
    exact orderIsoB_pick π σ c ((mem_subLen _ _ _).mp hc).2
  rw [hspec]
  by_cases hne : σ = []
  · subst hne
    unfold Model.occurrencesIn
    by_cases h0 : π.length = 0
    · have : π = [] := List.eq_nil_of_length_eq_zero h0
      subst this; simp [Spec.subLen, fullIsoB]
    · have hpos : 0 < π.length := Nat.pos_of_ne_zero h0
      obtain ⟨m, hm⟩ : ∃ m, π.length = m + 1 := ⟨π.length - 1, by omega⟩
      simp [h0, hpos, hm, Spec.subLen]
  · exact _root_.occurrencesIn_eq_spec π σ (permHyp_of_isPerm hπ hσ hne)

/-- the specification list is exactly the set of occurrences in the property's wording -/
theorem mem_spec_iff (π σ : NSeq) (c : List Nat) : c ∈ Spec.occurrences π σ ↔ IsOcc π σ c := by
  unfold Spec.occurrences Spec.combos
  rw [List.mem_filter, mem_subLen, sublist_range_iff]
  constructor
  · rintro ⟨⟨⟨hinc, hrng⟩, hlen⟩, hiso⟩
    rw [orderIsoB_pick π σ c hlen, fullIsoB_iff] at hiso
    exact ⟨hlen, hinc, hrng, fun a b ha hb => hiso a b ha hb⟩
  · rintro ⟨hlen, hinc, hrng, hiso⟩
    refine ⟨⟨⟨hinc, hrng⟩, hlen⟩, ?_⟩
    rw [orderIsoB_pick π σ c hlen, fullIsoB_iff]
    exact fun a b ha hb => hiso a b ha hb

/-- every reported tuple is an occurrence and every occurrence is reported -/
theorem mem_occurrencesIn_iff (π σ : NSeq) (hπ : IsPerm π) (hσ : IsPerm σ) (c : List Nat) :
    c ∈ Model.occurrencesIn π σ ↔ IsOcc π σ c := by
  rw [occurrencesIn_eq_spec π σ hπ hσ, mem_spec_iff]

/-- each occurrence is reported once -/
theorem occurrencesIn_nodup (π σ : NSeq) (hπ : IsPerm π) (hσ : IsPerm σ) :
    (Model.occurrencesIn π σ).Nodup := by
  rw [occurrencesIn_eq_spec π σ hπ hσ]
  exact (subLen_nodup _ _ List.pairwise_lt_range).filter _

/-- occurrences are reported in lexicographic order -/
theorem occurrencesIn_lex_sorted (π σ : NSeq) (hπ : IsPerm π) (hσ : IsPerm σ) :
    (Model.occurrencesIn π σ).Pairwise (fun a b => lexLt a b = true) := by
  rw [occurrencesIn_eq_spec π σ hπ hσ]
  exact (subLen_sorted _ _ List.pairwise_lt_range).filter _

/-- the empty pattern occurs exactly once, in every permutation -/
theorem empty_pattern_once (σ : NSeq) : Model.occurrencesIn [] σ = [[]] := by
  simp [Model.occurrencesIn]

/-- containment test agrees with the listing / with `Contains` -/
theorem containsOne_iff (σ π : NSeq) (hπ : IsPerm π) (hσ : IsPerm σ) :
    Model.containsOne σ π = true ↔ Contains σ π := by
  unfold Model.containsOne Contains
  constructor
  · intro h
    cases hl : Model.occurrencesIn π σ with
    | nil => simp [hl] at h
    | cons c t =>
      exact ⟨c, (mem_occurrencesIn_iff π σ hπ hσ c).mp (by simp [hl])⟩
  · rintro ⟨c, hc⟩
    have := (mem_occurrencesIn_iff π σ hπ hσ c).mpr hc
    cases hl : Model.occurrencesIn π σ with
    | nil => simp [hl] at this
    | cons c t => simp

/-- `contains(*patts)`: all of the patterns are contained -/
theorem containsAll_iff (σ : NSeq) (ps : List NSeq) (hσ : IsPerm σ) (hps : ∀ p ∈ ps, IsPerm p) :
    Model.containsAll σ ps = true ↔ ∀ p ∈ ps, Contains σ p := by
  unfold Model.containsAll
  rw [List.all_eq_true]
  exact forall₂_congr fun p hp => containsOne_iff σ p (hps p hp) hσ

/-- `avoids(*patts)`, `avoids_set`: none of the patterns is contained -/
theorem avoidsAll_iff (σ : NSeq) (ps : List NSeq) (hσ : IsPerm σ) (hps : ∀ p ∈ ps, IsPerm p) :
    Model.avoidsAll σ ps = true ↔ ∀ p ∈ ps, ¬ Contains σ p := by
  unfold Model.avoidsAll
  rw [List.all_eq_true]
  refine forall₂_congr fun p hp => ?_
  rw [← containsOne_iff σ p (hps p hp) hσ]
  simp

/-- occurrence count = size of the listing = size of the specification list -/
theorem countOcc_eq (π σ : NSeq) (hπ : IsPerm π) (hσ : IsPerm σ) :
    Model.countOcc π σ = (Spec.occurrences π σ).length := by
  unfold Model.countOcc; rw [occurrencesIn_eq_spec π σ hπ hσ]

/-- memo invariant: the cached table, when present, is the freshly computed one -/
def CacheInv (o : PattObj) : Prop := o.cache = none ∨ o.cache = some (patternDetails o.perm)

theorem search_preserves (o : PattObj) (σ : NSeq) (h : CacheInv o) :
    CacheInv (o.search σ).1 ∧ (o.search σ).1.perm = o.perm ∧ (o.search σ).2 = Model.occurrencesIn o.perm σ := by
  unfold PattObj.search Model.occurrencesIn
  by_cases h0 : o.perm.length = 0
  · simp [h0, h]
  · by_cases h1 : o.perm.length > σ.length
    · simp [h0, h1, h]
    · simp only [h0, h1, if_false]
      unfold PattObj.details
      rcases h with h | h
      · simp [h, CacheInv]
      · simp [h, CacheInv]

/-- **history independence**: after any sequence of earlier searches with the same pattern
    object (whose table is memoised on first use) the next search returns what a fresh
    object returns -/
theorem search_history_independent (π : NSeq) (hist : List NSeq) (σ : NSeq) :
    ((hist.foldl (fun (o : PattObj) s => (o.search s).1) ⟨π, none⟩).search σ).2 = Model.occurrencesIn π σ := by
  suffices h : ∀ (o : PattObj), CacheInv o →
      ((hist.foldl (fun (o : PattObj) s => (o.search s).1) o).search σ).2 = Model.occurrencesIn o.perm σ from
    h ⟨π, none⟩ (Or.inl rfl)
  induction hist with
  | nil => intro o ho; exact (search_preserves o σ ho).2.2
  | cons s t ih =>
    intro o ho
    have := search_preserves o s ho
    simp only [List.foldl_cons]
    rw [ih _ this.1, this.2.1]

/-- non-vacuity: concrete permutations meet the hypotheses and the listing is non-trivial -/
example : IsPerm [2,0,1] ∧ IsPerm [5,3,0,4,2,1] ∧
    Spec.occurrences [2,0,1] [5,3,0,4,2,1] = [[0,1,3],[0,2,3],[0,2,4],[0,2,5],[1,2,4],[1,2,5]] := by
  decide

/-! ## coloured occurrences (`occurrences_in(patt, self_colours, patt_colours)`) -/

/-- **Coloured listing = uncoloured listing filtered by colour match**: for *all* sequences and
    colour lists (no hypothesis needed) the coloured search returns, in the same order, exactly
    those tuples of the uncoloured search with `cσ[c[k]] = cπ[k]` for every slot `k`.
    (Colour lists are read with `getD`; under the length hypotheses of
    `mem_occurrencesInC_iff` every read is in range, as in the Python code, which would raise
    `IndexError` on a too short colour list.) -/
theorem occurrencesInC_eq_filter (π σ : NSeq) (cπ cσ : List Nat) :
    Model.occurrencesInC π σ cπ cσ =
      (Model.occurrencesIn π σ).filter (Spec.colourMatch π.length cπ cσ) := by
  unfold Model.occurrencesInC Model.occurrencesIn
  by_cases h0 : π.length = 0
  · simp [h0, Spec.colourMatch]
  · by_cases h1 : π.length > σ.length
    · simp [h0, h1]
    · simp only [h0, h1, if_false]
      rw [goC_eq_filter σ (patternDetails π) π.length cπ cσ 0 0 [] rfl (by omega)]
      apply List.filter_congr
      intro c _
      exact colFrom_zero _ _ _ _

/-- for permutations the coloured listing is the specification list (all strictly increasing
    index tuples in lexicographic order, filtered by order-isomorphism) filtered by colour match -/
theorem occurrencesInC_eq_spec (π σ : NSeq) (cπ cσ : List Nat) (hπ : IsPerm π) (hσ : IsPerm σ) :
    Model.occurrencesInC π σ cπ cσ = Spec.occurrencesC π σ cπ cσ := by
  rw [occurrencesInC_eq_filter, occurrencesIn_eq_spec π σ hπ hσ]; rfl

/-- property wording: with colourings supplied (one colour per entry), the reported tuples are
    exactly the occurrences whose colours match; every colour read is within the lists -/
theorem mem_occurrencesInC_iff (π σ : NSeq) (cπ cσ : List Nat) (hπ : IsPerm π) (hσ : IsPerm σ)
    (hcπ : cπ.length = π.length) (hcσ : cσ.length = σ.length) (c : List Nat) :
    c ∈ Model.occurrencesInC π σ cπ cσ ↔
      IsOcc π σ c ∧ ∀ k < π.length, ∃ i col, c[k]? = some i ∧ cσ[i]? = some col ∧ cπ[k]? = some col := by
  rw [occurrencesInC_eq_filter, List.mem_filter, mem_occurrencesIn_iff π σ hπ hσ]
  apply and_congr_right
  intro hocc
  simp only [Spec.colourMatch, List.all_eq_true, List.mem_range, beq_iff_eq]
  constructor
  · intro h k hk
    have hkc : k < c.length := by rw [hocc.len]; exact hk
    have hi : c[k] < cσ.length := by rw [hcσ]; exact hocc.rng _ (List.getElem_mem hkc)
    refine ⟨c[k], cσ[c[k]], List.getElem?_eq_getElem hkc, List.getElem?_eq_getElem hi, ?_⟩
    have := h k hk
    rw [List.getD_eq_getElem?_getD, List.getD_eq_getElem?_getD, List.getD_eq_getElem?_getD,
      List.getElem?_eq_getElem hkc, Option.getD_some, List.getElem?_eq_getElem hi,
      List.getElem?_eq_getElem (by omega : k < cπ.length)] at this
    simp only [Option.getD_some] at this
    rw [List.getElem?_eq_getElem (by omega : k < cπ.length), this]
  · intro h k hk
    obtain ⟨i, col, h1, h2, h3⟩ := h k hk
    simp [List.getD_eq_getElem?_getD, h1, h2, h3]

/-- the coloured listing is a sub-listing (order preserved) of the uncoloured one -/
theorem occurrencesInC_sublist (π σ : NSeq) (cπ cσ : List Nat) :
    (Model.occurrencesInC π σ cπ cσ).Sublist (Model.occurrencesIn π σ) := by
  rw [occurrencesInC_eq_filter]; exact List.filter_sublist

/-- each matching occurrence is reported once -/
theorem occurrencesInC_nodup (π σ : NSeq) (cπ cσ : List Nat) (hπ : IsPerm π) (hσ : IsPerm σ) :
    (Model.occurrencesInC π σ cπ cσ).Nodup :=
  (occurrencesIn_nodup π σ hπ hσ).sublist (occurrencesInC_sublist π σ cπ cσ)

/-- matching occurrences are reported in lexicographic order -/
theorem occurrencesInC_lex_sorted (π σ : NSeq) (cπ cσ : List Nat) (hπ : IsPerm π) (hσ : IsPerm σ) :
    (Model.occurrencesInC π σ cπ cσ).Pairwise (fun a b => lexLt a b = true) :=
  (occurrencesIn_lex_sorted π σ hπ hσ).sublist (occurrencesInC_sublist π σ cπ cσ)

/-- the empty pattern occurs exactly once, whatever the colourings -/
theorem empty_pattern_once_coloured (σ : NSeq) (cπ cσ : List Nat) :
    Model.occurrencesInC [] σ cπ cσ = [[]] := by
  simp [Model.occurrencesInC]

/-- non-vacuity: colours remove one of the three occurrences -/
example : IsPerm [0,1] ∧ IsPerm [0,1,2] ∧
    Spec.occurrences [0,1] [0,1,2] = [[0,1],[0,2],[1,2]] ∧
    Spec.occurrencesC [0,1] [0,1,2] [0,1] [0,0,1] = [[0,2],[1,2]] := by decide

/-! ## the rotating-deque algorithm `Perm.left_floor_and_ceiling` behind the search table

`Model.lfcDeque` (Model/C01Deque.lean) mirrors perm.py:2657-2690 literally: a deque of
`(val, idx)` pairs, `rotate(-1)` / `rotate(1)` / `appendleft` / `append`, the three `while` loops
and the four branches.  A `while` loop is run for at most `len(deq)` rotations and `none` stands
for "the loop does not terminate". -/

/-- the rotation bound is exact (`rotate(-1)` loops): the model answers `none` iff the loop
    condition holds after every number of rotations, i.e. iff the Python loop spins forever -/
theorem rotWhileL_none_iff_diverges (c : Dq → Bool) (d : Dq) :
    rotWhile c rotL d.length d = none ↔ ∀ k, c (rotL^[k] d) = true :=
  _root_.rotWhileL_eq_none_iff c d

/-- the rotation bound is exact (`rotate(1)` loop) -/
theorem rotWhileR_none_iff_diverges (c : Dq → Bool) (d : Dq) :
    rotWhile c rotR d.length d = none ↔ ∀ k, c (rotR^[k] d) = true :=
  _root_.rotWhileR_eq_none_iff c d

/-- **termination**: all three `while` loops of `left_floor_and_ceiling` terminate on *every*
    input sequence (permutation or not) -/
theorem lfcDeque_terminates (π : NSeq) : (Model.lfcDeque π).isSome :=
  _root_.lfcDeque_total π

/-- **the deque algorithm computes the left floors and ceilings**: for every sequence without
    repeated entries (in particular every permutation) the pairs yielded by the code are the
    specification-level `(floor index, ceiling index)` pairs (`-1` for "none") -/
theorem lfcDeque_eq_lfcOut (π : NSeq) (h : π.Nodup) : Model.lfcDeque π = some (Model.lfcOut π) :=
  lfcDeque_eq_lfcOut_of_nodup π h

/-- what `lfcOut` means: entry `k` holds the position `j < k` with the largest `π[j] < π[k]`
    and the position `j < k` with the smallest `π[j] > π[k]` (`none` when there is no such `j`) -/
theorem lfcOut_meaning (π : NSeq) (k : Nat) :
    FloorSpec π k k (leftFloor π k) ∧ CeilSpec' π k k (leftCeil π k) :=
  ⟨leftFloor_spec π k, leftCeil_spec' π k⟩

/-- `Perm._pattern_details` computed the way the code does (zip with the deque generator) is
    the search table `patternDetails` the main theorem is about -/
theorem patternDetailsDeque_eq (π : NSeq) (h : π.Nodup) :
    Model.patternDetailsDeque π = some (Model.patternDetails π) :=
  patternDetailsDeque_eq_of_nodup π h

/-- **main theorem for the code-shaped pipeline**: deque generator → `_pattern_details` →
    search; for all permutations it returns exactly the specification list -/
theorem occurrencesInDeque_eq_spec (π σ : NSeq) (hπ : IsPerm π) (hσ : IsPerm σ) :
    Model.occurrencesInDeque π σ = some (Spec.occurrences π σ) := by
  rw [occurrencesInDeque_eq_of_nodup π σ hπ.1, occurrencesIn_eq_spec π σ hπ hσ]

/-- non-vacuity: the docstring example of `left_floor_and_ceiling` -/
example : IsPerm [2,5,0,3,6,4,7,1] ∧
    Model.lfcDeque [2,5,0,3,6,4,7,1] =
      some [(-1,-1),(0,-1),(-1,0),(0,1),(1,-1),(3,1),(4,-1),(2,0)] := by
  decide

end C01
